import AFV.Model.Search
import AFV.Lemmas.Front
/-!
# Lemmas about the abstract mapper: the DP lemma and `ffm = joinExact`

Hypotheses are explicit and named:

* `RMono ops`     — the reservation algebra is monotone in both reservation profiles;
* `CapClosed ops` — if a joined profile is within a capacity then so was the left operand's (reservations
                    are non-negative and a join never frees below what the left part already holds);
                    this is what makes the *intermediate* `limit_capacity` calls harmless.

The proof device is the reduction relation `Cov` of `Lemmas/Front.lean`: every step of the pipeline
maps reductions to reductions, and the survivors of the un-pruned pipeline (`surv`) are characterised
path by path (`runPath`).
-/
set_option linter.unusedSectionVars false

namespace AFV.Search
open AFV.Front

variable {K : Type} [DecidableEq K]

/-! ## Orders on candidates and rows -/

theorem cle_iff {a b : Cand K} :
    cle a b = true ↔ a.key = b.key ∧ leqAll a.obj b.obj = true ∧ leqAll a.res b.res = true := by
  simp [cle, and_assoc]

theorem cle_po : IsPO (cle : Cand K → Cand K → Bool) where
  refl a := cle_iff.2 ⟨rfl, leqAll_refl _, leqAll_refl _⟩
  trans a b c h₁ h₂ := by
    obtain ⟨k₁, o₁, r₁⟩ := cle_iff.1 h₁
    obtain ⟨k₂, o₂, r₂⟩ := cle_iff.1 h₂
    exact cle_iff.2 ⟨k₁.trans k₂, leqAll_trans _ _ _ o₁ o₂, leqAll_trans _ _ _ r₁ r₂⟩
  antisymm a b h₁ h₂ := by
    obtain ⟨k₁, o₁, r₁⟩ := cle_iff.1 h₁
    obtain ⟨_, o₂, r₂⟩ := cle_iff.1 h₂
    cases a; cases b
    simp only [Cand.mk.injEq]
    exact ⟨k₁, leqAll_antisymm _ _ o₁ o₂, leqAll_antisymm _ _ r₁ r₂⟩

theorem rle_iff {a b : Row} :
    rle a b = true ↔ leqAll a.obj b.obj = true ∧ leqAll a.res b.res = true := by
  simp [rle]

theorem rle_po : IsPO rle where
  refl a := rle_iff.2 ⟨leqAll_refl _, leqAll_refl _⟩
  trans a b c h₁ h₂ := by
    obtain ⟨o₁, r₁⟩ := rle_iff.1 h₁
    obtain ⟨o₂, r₂⟩ := rle_iff.1 h₂
    exact rle_iff.2 ⟨leqAll_trans _ _ _ o₁ o₂, leqAll_trans _ _ _ r₁ r₂⟩
  antisymm a b h₁ h₂ := by
    obtain ⟨o₁, r₁⟩ := rle_iff.1 h₁
    obtain ⟨o₂, r₂⟩ := rle_iff.1 h₂
    cases a; cases b
    simp only [Row.mk.injEq]
    exact ⟨leqAll_antisymm _ _ o₁ o₂, leqAll_antisymm _ _ r₁ r₂⟩

theorem filter_const_true {α : Type} (l : List α) : l.filter (fun _ => true) = l :=
  List.filter_eq_self.2 (fun _ _ => rfl)

theorem allCombos_nil (ops : Ops K) : allCombos ops [] = [] := rfl

theorem joinExact_nil (ops : Ops K) (cap : Int) : joinExact ops cap [] = [] := by
  simp [joinExact, validCombos, allCombos_nil, prune, frontL, dedup]

theorem fits_of_leqAll {cap : Int} : ∀ {r s : Vec}, leqAll r s = true → fits cap s = true →
    fits cap r = true
  | [], [], _, _ => rfl
  | [], _ :: _, h, _ => by simp [leqAll] at h
  | _ :: _, [], h, _ => by simp [leqAll] at h
  | x :: xs, y :: ys, h, hf => by
    simp only [leqAll, Bool.and_eq_true, decide_eq_true_eq] at h
    simp only [fits, List.all_cons, Bool.and_eq_true, decide_eq_true_eq] at hf ⊢
    exact ⟨by omega, fits_of_leqAll (cap := cap) h.2 hf.2⟩

theorem fits_mono_cap {c c' : Int} (h : c ≤ c') {r : Vec} (hf : fits c r = true) :
    fits c' r = true := by
  simp only [fits, List.all_eq_true, decide_eq_true_eq] at hf ⊢
  intro x hx; have := hf x hx; omega

/-- The capacity filter keeps every candidate that is better than a kept one. -/
theorem fitsC_down (cap : Int) (a b : Cand K) (h : cle a b = true) (hb : fitsC cap b = true) :
    fitsC cap a = true :=
  fits_of_leqAll (cle_iff.1 h).2.2 hb

/-! ## The DP lemma, generic form -/

section Generic
variable {α β γ : Type}

/-- All defined results `op a b` for `a ∈ A`, `b ∈ B`. -/
def crossG (op : α → β → Option γ) (A : List α) (B : List β) : List γ :=
  A.flatMap (fun a => B.filterMap (fun b => op a b))

theorem mem_crossG {op : α → β → Option γ} {A : List α} {B : List β} {c : γ} :
    c ∈ crossG op A B ↔ ∃ a ∈ A, ∃ b ∈ B, op a b = some c := by
  simp [crossG, List.mem_flatMap, List.mem_filterMap]

variable [DecidableEq α] [DecidableEq β] [DecidableEq γ]
variable {leA : α → α → Bool} {leB : β → β → Bool} {leC : γ → γ → Bool}

/-- `op` is monotone in both arguments (and defined on better arguments whenever it is defined). -/
def OpMono (leA : α → α → Bool) (leB : β → β → Bool) (leC : γ → γ → Bool)
    (op : α → β → Option γ) : Prop :=
  ∀ a' a b' b c, leA a' a = true → leB b' b = true → op a b = some c →
    ∃ c', op a' b' = some c' ∧ leC c' c = true

/-- Joining reductions gives a reduction of the join. -/
theorem cov_crossG {op : α → β → Option γ} (hop : OpMono leA leB leC op)
    {A' A : List α} {B' B : List β} (hA : Cov leA A' A) (hB : Cov leB B' B) :
    Cov leC (crossG op A' B') (crossG op A B) := by
  refine ⟨fun c hc => ?_, fun c hc => ?_⟩
  · obtain ⟨a, ha, b, hb, h⟩ := mem_crossG.1 hc
    exact mem_crossG.2 ⟨a, hA.sub a ha, b, hB.sub b hb, h⟩
  · obtain ⟨a, ha, b, hb, h⟩ := mem_crossG.1 hc
    obtain ⟨a', ha', hle⟩ := hA.cov a ha
    obtain ⟨b', hb', hle'⟩ := hB.cov b hb
    obtain ⟨c', hc', hcc⟩ := hop a' a b' b c hle hle' h
    exact ⟨c', mem_crossG.2 ⟨a', ha', b', hb', hc'⟩, hcc⟩

/-- **`prune_join_front` — the DP lemma.** If `⊕` is monotone in both arguments then
`front {a ⊕ b | a ∈ A, b ∈ B} = front {a ⊕ b | a ∈ front A, b ∈ front B}`. -/
theorem prune_join_front (hA : IsPO leA) (hB : IsPO leB) (hC : IsPO leC)
    {op : α → β → Option γ} (hop : OpMono leA leB leC op) (A : List α) (B : List β) :
    SetEq (frontL leC (crossG op (frontL leA A) (frontL leB B))) (frontL leC (crossG op A B)) :=
  (cov_crossG hop (cov_frontL hA A) (cov_frontL hB B)).frontL_eq hC

end Generic

/-! ## `combine` is monotone -/

/-- The reservation algebra is monotone in both profiles. -/
def RMono (ops : Ops K) : Prop :=
  ∀ k l r r' s s', leqAll r' r = true → leqAll s' s = true →
    leqAll (ops.rjoin k l r' s') (ops.rjoin k l r s) = true

/-- A joined profile within a capacity implies the left operand was within it. -/
def CapClosed (ops : Ops K) : Prop :=
  ∀ (c : Int) k l r s, fits c (ops.rjoin k l r s) = true → fits c r = true

theorem leqAll_addv : ∀ {a' a b' b : Vec}, leqAll a' a = true → leqAll b' b = true →
    leqAll (addv a' b') (addv a b) = true
  | [], [], _, _, _, _ => by simp [addv, leqAll]
  | [], _ :: _, _, _, h, _ => by simp [leqAll] at h
  | _ :: _, [], _, _, h, _ => by simp [leqAll] at h
  | _ :: _, _ :: _, [], [], _, _ => by simp [addv, leqAll]
  | _ :: _, _ :: _, [], _ :: _, _, h => by simp [leqAll] at h
  | _ :: _, _ :: _, _ :: _, [], _, h => by simp [leqAll] at h
  | x' :: xs', x :: xs, y' :: ys', y :: ys, h₁, h₂ => by
    simp only [leqAll, Bool.and_eq_true, decide_eq_true_eq] at h₁ h₂
    have ih := leqAll_addv h₁.2 h₂.2
    simp only [addv] at ih
    simp only [addv, List.zipWith_cons_cons, leqAll, Bool.and_eq_true, decide_eq_true_eq]
    exact ⟨by omega, ih⟩

theorem cross_eq_crossG (ops : Ops K) (A B : List (Cand K)) :
    cross ops A B = crossG (combine ops) A B := rfl

theorem mem_cross {ops : Ops K} {A B : List (Cand K)} {c : Cand K} :
    c ∈ cross ops A B ↔ ∃ a ∈ A, ∃ b ∈ B, combine ops a b = some c := mem_crossG

theorem combine_eq_some {ops : Ops K} {a b c : Cand K} :
    combine ops a b = some c ↔ ∃ k, ops.kjoin a.key b.key = some k ∧
      c = ⟨k, addv a.obj b.obj, ops.rjoin a.key b.key a.res b.res⟩ := by
  unfold combine
  cases h : ops.kjoin a.key b.key with
  | none => simp
  | some k => simp [eq_comm]

/-- Joining better candidates gives a better candidate (same class, sums and profiles monotone). -/
theorem combine_mono {ops : Ops K} (hr : RMono ops) : OpMono cle cle cle (combine ops) := by
  intro a' a b' b c ha hb hc
  obtain ⟨ka, oa, ra⟩ := cle_iff.1 ha
  obtain ⟨kb, ob, rb⟩ := cle_iff.1 hb
  obtain ⟨k, hk, rfl⟩ := combine_eq_some.1 hc
  refine ⟨⟨k, addv a'.obj b'.obj, ops.rjoin a'.key b'.key a'.res b'.res⟩,
    combine_eq_some.2 ⟨k, by rw [ka, kb]; exact hk, rfl⟩, cle_iff.2 ⟨rfl, leqAll_addv oa ob, ?_⟩⟩
  rw [ka, kb]
  exact hr _ _ _ _ _ _ ra rb

theorem cov_cross {ops : Ops K} (hr : RMono ops) {A' A B' B : List (Cand K)}
    (hA : Cov cle A' A) (hB : Cov cle B' B) : Cov cle (cross ops A' B') (cross ops A B) :=
  cov_crossG (combine_mono hr) hA hB

/-- The DP lemma for the mapper: pruning both tables (inside their classes) before a join does not
change the front of the join. -/
theorem prune_cross {ops : Ops K} (hr : RMono ops) (A B : List (Cand K)) :
    SetEq (prune (cross ops (prune A) (prune B))) (prune (cross ops A B)) :=
  prune_join_front cle_po cle_po cle_po (combine_mono hr) A B

theorem cov_prune (A : List (Cand K)) : Cov cle (prune A) A := cov_frontL cle_po A

theorem mem_prune_subset {A : List (Cand K)} {x : Cand K} (h : x ∈ prune A) : x ∈ A :=
  frontL_subset h

/-! ## Paths: which partial combinations survive the stage filters -/

/-- Follow one choice `cs` (one candidate per remaining table) from the partial combination `p`,
checking the input filter, compatibility and the stage filter at every step. -/
def runPath (ops : Ops K) (F : Filters K) : Cand K → List (List (Cand K)) → List (Cand K) →
    Option (Cand K)
  | p, [], [] => some p
  | p, T :: Ts, c :: cs =>
    if c ∈ T ∧ F.keepI c = true then
      match combine ops p c with
      | some q => if F.keepJ Ts q = true then runPath ops F q Ts cs else none
      | none => none
    else none
  | _, _, _ => none

theorem runPath_cons {ops : Ops K} {F : Filters K} {p s : Cand K} {T : List (Cand K)}
    {Ts : List (List (Cand K))} {c : Cand K} {cs : List (Cand K)} :
    runPath ops F p (T :: Ts) (c :: cs) = some s ↔
      c ∈ T ∧ F.keepI c = true ∧ ∃ q, combine ops p c = some q ∧ F.keepJ Ts q = true ∧
        runPath ops F q Ts cs = some s := by
  rw [runPath]
  by_cases h : c ∈ T ∧ F.keepI c = true
  · rw [if_pos h]
    cases hq : combine ops p c with
    | none => simp
    | some q =>
      by_cases hk : F.keepJ Ts q = true
      · simp [h, hk]
      · simp [h, hk]
  · rw [if_neg h]
    constructor
    · intro h'; cases h'
    · rintro ⟨h₁, h₂, _⟩; exact absurd ⟨h₁, h₂⟩ h

theorem runPath_nil_left {ops : Ops K} {F : Filters K} {p s : Cand K} {cs : List (Cand K)} :
    runPath ops F p [] cs = some s ↔ cs = [] ∧ s = p := by
  cases cs with
  | nil => simp [runPath, eq_comm]
  | cons c cs => simp [runPath]

theorem runPath_cons_nil {ops : Ops K} {F : Filters K} {p s : Cand K} {T : List (Cand K)}
    {Ts : List (List (Cand K))} : runPath ops F p (T :: Ts) [] = some s ↔ False := by
  simp [runPath]

/-- Survivors of the un-pruned loop = end points of the paths that pass every filter. -/
theorem mem_survFold {ops : Ops K} {F : Filters K} : ∀ {Ts : List (List (Cand K))}
    {acc : List (Cand K)} {s : Cand K},
    s ∈ survFold ops F acc Ts ↔ ∃ p ∈ acc, ∃ cs, runPath ops F p Ts cs = some s
  | [], acc, s => by
    simp only [survFold]
    constructor
    · intro h; exact ⟨s, h, [], by simp [runPath]⟩
    · rintro ⟨p, hp, cs, h⟩
      obtain ⟨_, rfl⟩ := runPath_nil_left.1 h
      exact hp
  | T :: Ts, acc, s => by
    simp only [survFold]
    rw [mem_survFold (Ts := Ts)]
    constructor
    · rintro ⟨q, hq, cs, h⟩
      rw [List.mem_filter, mem_cross] at hq
      obtain ⟨⟨p, hp, c, hc, hpc⟩, hkq⟩ := hq
      rw [List.mem_filter] at hc
      exact ⟨p, hp, c :: cs, runPath_cons.2 ⟨hc.1, hc.2, q, hpc, hkq, h⟩⟩
    · rintro ⟨p, hp, cs, h⟩
      cases cs with
      | nil => exact absurd h (by simp [runPath])
      | cons c cs =>
        obtain ⟨hc, hk, q, hpc, hkq, h'⟩ := runPath_cons.1 h
        exact ⟨q, List.mem_filter.2 ⟨mem_cross.2 ⟨p, hp, c, List.mem_filter.2 ⟨hc, hk⟩, hpc⟩, hkq⟩,
          cs, h'⟩

theorem mem_surv {ops : Ops K} {F : Filters K} {T : List (Cand K)} {Ts : List (List (Cand K))}
    {s : Cand K} :
    s ∈ surv ops F (T :: Ts) ↔
      ∃ p ∈ T, F.keepI p = true ∧ ∃ cs, runPath ops F p Ts cs = some s := by
  simp only [surv, mem_survFold, List.mem_filter]
  constructor
  · rintro ⟨p, ⟨hp, hk⟩, cs, h⟩; exact ⟨p, hp, hk, cs, h⟩
  · rintro ⟨p, hp, hk, cs, h⟩; exact ⟨p, ⟨hp, hk⟩, cs, h⟩

/-- Capacity filter after every join, nothing else: the filters of the plain `join_pmappings` loop. -/
def capFilter (cap : Int) : Filters K := ⟨fun _ => true, fun _ c => fitsC cap c⟩

/-- `F'` keeps everything `F` keeps. -/
def Filters.le (F F' : Filters K) : Prop :=
  (∀ c, F.keepI c = true → F'.keepI c = true) ∧
  (∀ rest c, F.keepJ rest c = true → F'.keepJ rest c = true)

theorem runPath_mono {ops : Ops K} {F F' : Filters K} (hle : F.le F') :
    ∀ {Ts : List (List (Cand K))} {cs : List (Cand K)} {p s : Cand K},
      runPath ops F p Ts cs = some s → runPath ops F' p Ts cs = some s
  | [], [], _, _, h => by simp [runPath] at h ⊢; exact h
  | [], _ :: _, _, _, h => by simp [runPath] at h
  | _ :: _, [], _, _, h => by simp [runPath] at h
  | T :: Ts, c :: cs, p, s, h => by
    obtain ⟨hc, hk, q, hpc, hkq, h'⟩ := runPath_cons.1 h
    exact runPath_cons.2 ⟨hc, hle.1 c hk, q, hpc, hle.2 Ts q hkq, runPath_mono hle h'⟩

theorem surv_mono {ops : Ops K} {F F' : Filters K} (hle : F.le F')
    {tables : List (List (Cand K))} {s : Cand K} (h : s ∈ surv ops F tables) :
    s ∈ surv ops F' tables := by
  cases tables with
  | nil => simp [surv] at h
  | cons T Ts =>
    obtain ⟨p, hp, hk, cs, hrun⟩ := mem_surv.1 h
    exact mem_surv.2 ⟨p, hp, hle.1 p hk, cs, runPath_mono hle hrun⟩

/-- Unfiltered paths are exactly: a choice of one candidate per table that combines. -/
theorem runPath_noFilter {ops : Ops K} : ∀ {Ts : List (List (Cand K))} {cs : List (Cand K)}
    {p s : Cand K},
    runPath ops noFilter p Ts cs = some s ↔ cs ∈ choices Ts ∧ combineFrom ops p cs = some s
  | [], [], p, s => by simp [runPath, choices, combineFrom]
  | [], _ :: _, _, _ => by simp [runPath, choices]
  | T :: Ts, [], _, _ => by
    simp only [runPath_cons_nil, choices, List.mem_flatMap, List.mem_map, false_iff, not_and]
    rintro ⟨a, _, c, _, h⟩
    cases h
  | T :: Ts, c :: cs, p, s => by
    rw [runPath_cons]
    simp only [noFilter, true_and, choices, List.mem_flatMap, List.mem_map, List.cons.injEq,
      combineFrom]
    constructor
    · rintro ⟨hc, q, hpc, h⟩
      obtain ⟨hcs, hfrom⟩ := runPath_noFilter.1 h
      refine ⟨⟨c, hc, cs, hcs, rfl, rfl⟩, ?_⟩
      rw [hpc]; exact hfrom
    · rintro ⟨⟨a, ha, d, hd, rfl, rfl⟩, h⟩
      cases hpc : combine ops p a with
      | none => rw [hpc] at h; cases h
      | some q =>
        rw [hpc] at h
        exact ⟨ha, q, rfl, runPath_noFilter.2 ⟨hd, h⟩⟩

/-- With no filter the survivors are all compatible combinations. -/
theorem surv_noFilter (ops : Ops K) (tables : List (List (Cand K))) :
    SetEq (surv ops noFilter tables) (allCombos ops tables) := by
  intro s
  cases tables with
  | nil => simp [surv, allCombos, choices, combineAll]
  | cons T Ts =>
    rw [mem_surv]
    simp only [allCombos, List.mem_filterMap, choices, List.mem_flatMap, List.mem_map]
    constructor
    · rintro ⟨p, hp, _, cs, h⟩
      obtain ⟨hcs, hfrom⟩ := runPath_noFilter.1 h
      exact ⟨p :: cs, ⟨p, hp, cs, hcs, rfl⟩, by simpa [combineAll] using hfrom⟩
    · rintro ⟨l, ⟨p, hp, cs, hcs, rfl⟩, h⟩
      exact ⟨p, hp, rfl, cs, runPath_noFilter.2 ⟨hcs, by simpa [combineAll] using h⟩⟩

/-- Along an unfiltered path, the end point being within capacity implies the start was. -/
theorem fits_start_of_path {ops : Ops K} (hc : CapClosed ops) {cap : Int} :
    ∀ {cs : List (Cand K)} {p s : Cand K}, combineFrom ops p cs = some s →
      fitsC cap s = true → fitsC cap p = true
  | [], p, s, h, hs => by
    simp only [combineFrom, Option.some.injEq] at h; subst h; exact hs
  | c :: cs, p, s, h, hs => by
    simp only [combineFrom] at h
    cases hpc : combine ops p c with
    | none => rw [hpc] at h; cases h
    | some q =>
      rw [hpc] at h
      have hq := fits_start_of_path hc h hs
      obtain ⟨k, _, rfl⟩ := combine_eq_some.1 hpc
      exact hc cap _ _ _ _ hq

/-- A combination that is within capacity at the end passes every intermediate capacity check. -/
theorem runPath_capFilter_of_fits {ops : Ops K} (hc : CapClosed ops) {cap : Int} :
    ∀ {Ts : List (List (Cand K))} {cs : List (Cand K)} {p s : Cand K},
      runPath ops noFilter p Ts cs = some s → fitsC cap s = true →
      runPath ops (capFilter cap) p Ts cs = some s
  | [], [], _, _, h, _ => by simpa [runPath] using h
  | [], _ :: _, _, _, h, _ => by simp [runPath] at h
  | _ :: _, [], _, _, h, _ => by simp [runPath] at h
  | T :: Ts, c :: cs, p, s, h, hs => by
    obtain ⟨hcT, _, q, hpc, _, h'⟩ := runPath_cons.1 h
    have hq : fitsC cap q = true := fits_start_of_path hc (runPath_noFilter.1 h').2 hs
    exact runPath_cons.2 ⟨hcT, rfl, q, hpc, hq, runPath_capFilter_of_fits hc h' hs⟩

theorem capFilter_le_noFilter (cap : Int) : (capFilter cap : Filters K).le noFilter :=
  ⟨fun _ _ => rfl, fun _ _ _ => rfl⟩

/-- Intermediate capacity checks do not change which *full* combinations are valid. -/
theorem surv_capFilter (ops : Ops K) (hc : CapClosed ops) (cap : Int)
    (tables : List (List (Cand K))) :
    SetEq ((surv ops (capFilter cap) tables).filter (fitsC cap)) (validCombos ops cap tables) := by
  intro s
  simp only [validCombos, List.mem_filter]
  constructor
  · rintro ⟨h, hs⟩
    exact ⟨(surv_noFilter ops tables s).1 (surv_mono (capFilter_le_noFilter cap) h), hs⟩
  · rintro ⟨h, hs⟩
    refine ⟨?_, hs⟩
    have h' := (surv_noFilter ops tables s).2 h
    cases tables with
    | nil => simp [surv] at h'
    | cons T Ts =>
      obtain ⟨p, hp, _, cs, hrun⟩ := mem_surv.1 h'
      exact mem_surv.2 ⟨p, hp, rfl, cs, runPath_capFilter_of_fits hc hrun hs⟩

/-! ## The pruned loop is a reduction of the un-pruned loop -/

/-- `G` is an invariant of joining (e.g. "objectives are non-negative and have `n` columns"). -/
def Closed (ops : Ops K) (G : Cand K → Prop) : Prop :=
  ∀ a b c, G a → G b → combine ops a b = some c → G c

/-- Filters that, among candidates satisfying `G`, keep every candidate better than a kept one (all the
filters of the code are of this kind: capacity, thresholds, lookahead). -/
def Filters.DownClosedOn (G : Cand K → Prop) (F : Filters K) : Prop :=
  (∀ a b, G a → G b → cle a b = true → F.keepI b = true → F.keepI a = true) ∧
  (∀ rest a b, G a → G b → cle a b = true → F.keepJ rest b = true → F.keepJ rest a = true)

def Filters.DownClosed (F : Filters K) : Prop := F.DownClosedOn (fun _ => True)

theorem good_cross {ops : Ops K} {G : Cand K → Prop} (hG : Closed ops G) {A B : List (Cand K)}
    (hA : ∀ x ∈ A, G x) (hB : ∀ x ∈ B, G x) : ∀ x ∈ cross ops A B, G x := by
  intro x hx
  obtain ⟨a, ha, b, hb, h⟩ := mem_cross.1 hx
  exact hG a b x (hA a ha) (hB b hb) h

theorem cov_joinStepF_on {ops : Ops K} (hr : RMono ops) {G : Cand K → Prop} (hG : Closed ops G)
    {F : Filters K} (hF : F.DownClosedOn G)
    (rest : List (List (Cand K))) {A' A : List (Cand K)} (hA : Cov cle A' A)
    (hGA : ∀ x ∈ A, G x) (T : List (Cand K)) (hGT : ∀ x ∈ T, G x) :
    Cov cle (joinStepF ops F rest A' T)
      ((cross ops A (T.filter F.keepI)).filter (F.keepJ rest)) := by
  have hGT' : ∀ x ∈ T.filter F.keepI, G x := fun x hx => hGT x (List.mem_filter.1 hx).1
  refine (cov_prune _).trans cle_po ((cov_cross hr hA (cov_prune _)).filter_on _ ?_)
  intro a ha b hb
  exact hF.2 rest a b
    (good_cross hG (fun x hx => hGA x (hA.sub x hx))
      (fun x hx => hGT' x (mem_prune_subset hx)) a ha)
    (good_cross hG hGA hGT' b hb)

theorem cov_pipeFold_on {ops : Ops K} (hr : RMono ops) {G : Cand K → Prop} (hG : Closed ops G)
    {F : Filters K} (hF : F.DownClosedOn G) :
    ∀ (Ts : List (List (Cand K))) {acc' acc : List (Cand K)}, Cov cle acc' acc →
      (∀ x ∈ acc, G x) → (∀ T ∈ Ts, ∀ x ∈ T, G x) →
      Cov cle (pipeFold ops F acc' Ts) (survFold ops F acc Ts)
  | [], _, _, h, _, _ => h
  | T :: Ts, _, _, h, hGA, hGT => by
    have hGT0 : ∀ x ∈ T, G x := hGT T (List.mem_cons_self)
    refine cov_pipeFold_on hr hG hF Ts (cov_joinStepF_on hr hG hF Ts h hGA T hGT0) ?_
      (fun T' hT' => hGT T' (List.mem_cons_of_mem _ hT'))
    intro x hx
    exact good_cross hG hGA (fun y hy => hGT0 y (List.mem_filter.1 hy).1) x
      (List.mem_filter.1 hx).1

/-- **The n-ary DP theorem, with stage filters.** Whatever down-closed filters are applied at the
stages, the pruned loop returns a reduction of the set of surviving full combinations. -/
theorem cov_pipe_on {ops : Ops K} (hr : RMono ops) {G : Cand K → Prop} (hG : Closed ops G)
    {F : Filters K} (hF : F.DownClosedOn G)
    (tables : List (List (Cand K))) (hGT : ∀ T ∈ tables, ∀ x ∈ T, G x) :
    Cov cle (pipe ops F tables) (surv ops F tables) := by
  cases tables with
  | nil => exact Cov.refl cle_po _
  | cons T Ts =>
    have hGT0 : ∀ x ∈ T, G x := hGT T (List.mem_cons_self)
    exact cov_pipeFold_on hr hG hF Ts (cov_prune _)
      (fun x hx => hGT0 x (List.mem_filter.1 hx).1)
      (fun T' hT' => hGT T' (List.mem_cons_of_mem _ hT'))

theorem closed_true (ops : Ops K) : Closed ops (fun _ => True) := fun _ _ _ _ _ _ => trivial

theorem cov_pipe {ops : Ops K} (hr : RMono ops) {F : Filters K} (hF : F.DownClosed)
    (tables : List (List (Cand K))) : Cov cle (pipe ops F tables) (surv ops F tables) :=
  cov_pipe_on hr (closed_true ops) hF tables (fun _ _ _ _ => trivial)

theorem capFilter_downClosed (cap : Int) : (capFilter cap : Filters K).DownClosed :=
  ⟨fun _ _ _ _ _ _ => rfl, fun _ a b _ _ h hb => fitsC_down cap a b h hb⟩

theorem ffmFold_eq_pipeFold (ops : Ops K) (cap : Int) :
    ∀ (Ts : List (List (Cand K))) (acc : List (Cand K)),
      ffmFold ops cap acc Ts = pipeFold ops (capFilter cap) acc Ts
  | [], _ => rfl
  | T :: Ts, acc => by
    simp only [ffmFold, pipeFold, joinStepF, joinStep, capFilter, filter_const_true]
    exact ffmFold_eq_pipeFold ops cap Ts _

theorem ffm_eq_pipe (ops : Ops K) (cap : Int) (tables : List (List (Cand K))) :
    ffm ops cap tables = prune ((pipe ops (capFilter cap) tables).filter (fitsC cap)) := by
  cases tables with
  | nil => simp [ffm, pipe, prune, frontL, dedup]
  | cons T Ts =>
    simp only [ffm, pipe, capFilter, filter_const_true]
    rw [ffmFold_eq_pipeFold]
    rfl

/-- The rows `ffm` holds before its last `make_pareto` are a reduction of the valid combinations. -/
theorem cov_ffm_pre {ops : Ops K} (hr : RMono ops) (hc : CapClosed ops) (cap : Int)
    (tables : List (List (Cand K))) :
    Cov cle ((pipe ops (capFilter cap) tables).filter (fitsC cap)) (validCombos ops cap tables) :=
  ((cov_pipe hr (capFilter_downClosed cap) tables).filter _ (fitsC_down cap)).trans cle_po
    (Cov.of_setEq cle_po (surv_capFilter ops hc cap tables))

/-- **`ffm_eq_joinExact`.** For every list of tables (any number of Einsums, any sizes), the
prune-join-prune pipeline returns exactly the Pareto front of all valid combinations. -/
theorem ffm_eq_joinExact {ops : Ops K} (hr : RMono ops) (hc : CapClosed ops) (cap : Int)
    (tables : List (List (Cand K))) :
    SetEq (ffm ops cap tables) (joinExact ops cap tables) := by
  rw [ffm_eq_pipe]
  exact (cov_ffm_pre hr hc cap tables).frontL_eq cle_po

/-- `ffm` is a reduction of the valid combinations: every returned row is a valid combination and
every valid combination is weakly dominated by a returned row. -/
theorem cov_ffm {ops : Ops K} (hr : RMono ops) (hc : CapClosed ops) (cap : Int)
    (tables : List (List (Cand K))) : Cov cle (ffm ops cap tables) (validCombos ops cap tables) := by
  rw [ffm_eq_pipe]
  exact (cov_prune _).trans cle_po (cov_ffm_pre hr hc cap tables)

/-! ## Grouped tables -/

theorem mem_flatten {gs : List (Group K)} {c : Cand K} :
    c ∈ flatten gs ↔ ∃ g ∈ gs, g.key = c.key ∧ (⟨c.obj, c.res⟩ : Row) ∈ g.rows := by
  simp only [flatten, List.mem_flatMap, Group.cands, List.mem_map]
  constructor
  · rintro ⟨g, hg, r, hr, rfl⟩; exact ⟨g, hg, rfl, hr⟩
  · rintro ⟨g, hg, hk, hr⟩
    refine ⟨g, hg, ⟨c.obj, c.res⟩, hr, ?_⟩
    cases c; simp_all

/-- Inside one class, candidate dominance is row dominance. -/
theorem sdom_cle_same_key {k : K} {a b : Row} :
    sdom cle (⟨k, a.obj, a.res⟩ : Cand K) ⟨k, b.obj, b.res⟩ = sdom rle a b := by
  cases a; cases b
  simp [sdom, cle, rle]

/-- **`group_consolidate_sound`.** Bucketing candidates by class and pruning every bucket is pruning
the whole table; hence concatenating groups of equal class and pruning the concatenation
(`combine_combineable`) yields the pruned union, whatever the order and the number of groups. -/
theorem flatten_group (cs : List (Cand K)) : SetEq (flatten (group cs)) (prune cs) := by
  intro c
  rw [mem_flatten]
  simp only [group, List.mem_map, mem_dedup, prune, mem_frontL]
  constructor
  · rintro ⟨g, ⟨k, ⟨d, hd, hdk⟩, rfl⟩, hk, hrow⟩
    simp only at hk hrow
    simp only [pruneRows, mem_frontL, List.mem_map, List.mem_filter, decide_eq_true_eq] at hrow
    obtain ⟨⟨e, ⟨he, hek⟩, herow⟩, hnd⟩ := hrow
    have hec : e = c := by
      cases e; cases c
      simp only [Row.mk.injEq] at herow
      simp_all
    subst hec
    refine ⟨he, fun s hs => ?_⟩
    by_cases hsk : s.key = e.key
    · have := hnd ⟨s.obj, s.res⟩ ⟨s, ⟨hs, by rw [hsk, hek]⟩, rfl⟩
      rw [← sdom_cle_same_key (k := e.key)] at this
      cases s; cases e
      simp_all
    · simp [sdom, cle, hsk]
  · rintro ⟨hc, hnd⟩
    refine ⟨_, ⟨c.key, ⟨c, hc, rfl⟩, rfl⟩, rfl, ?_⟩
    simp only [pruneRows, mem_frontL, List.mem_map, List.mem_filter, decide_eq_true_eq]
    refine ⟨⟨c, ⟨hc, rfl⟩, rfl⟩, ?_⟩
    rintro s ⟨d, ⟨hd, hdk⟩, rfl⟩
    have := hnd d hd
    rw [← sdom_cle_same_key (k := c.key)]
    cases d; cases c
    simp_all

theorem group_consolidate_sound (gs : List (Group K)) :
    SetEq (flatten (consolidate gs)) (prune (flatten gs)) := flatten_group _

/-- Merging two groups = joining their candidates, capacity filter, pruning. -/
theorem cands_mergeGroups {ops : Ops K} {cap : Int} {ga gb g : Group K}
    (h : mergeGroups ops cap ga gb = some g) :
    SetEq g.cands (prune ((cross ops ga.cands gb.cands).filter (fitsC cap))) := by
  unfold mergeGroups at h
  cases hk : ops.kjoin ga.key gb.key with
  | none => rw [hk] at h; cases h
  | some k =>
    rw [hk] at h
    simp only [Option.some.injEq] at h
    subst h
    intro c
    simp only [Group.cands, List.mem_map, pruneRows, prune, mem_frontL, List.mem_filter,
      List.mem_flatMap, mem_cross, fitsC]
    constructor
    · rintro ⟨r, ⟨⟨⟨a, ha, b, hb, rfl⟩, hfit⟩, hnd⟩, rfl⟩
      refine ⟨⟨⟨⟨ga.key, a.obj, a.res⟩, ⟨a, ha, rfl⟩, ⟨gb.key, b.obj, b.res⟩, ⟨b, hb, rfl⟩,
        combine_eq_some.2 ⟨k, hk, rfl⟩⟩, hfit⟩, ?_⟩
      rintro s ⟨⟨_, ⟨a', ha', rfl⟩, _, ⟨b', hb', rfl⟩, hcomb⟩, hsfit⟩
      obtain ⟨k', hk', rfl⟩ := combine_eq_some.1 hcomb
      simp only at hk'
      rw [hk] at hk'
      simp only [Option.some.injEq] at hk'
      subst hk'
      have := hnd ⟨addv a'.obj b'.obj, ops.rjoin ga.key gb.key a'.res b'.res⟩
        ⟨⟨a', ha', b', hb', rfl⟩, hsfit⟩
      rw [← sdom_cle_same_key (k := k)] at this
      exact this
    · rintro ⟨⟨⟨_, ⟨a, ha, rfl⟩, _, ⟨b, hb, rfl⟩, hcomb⟩, hfit⟩, hnd⟩
      obtain ⟨k', hk', rfl⟩ := combine_eq_some.1 hcomb
      simp only at hk'
      rw [hk] at hk'
      simp only [Option.some.injEq] at hk'
      subst hk'
      refine ⟨⟨addv a.obj b.obj, ops.rjoin ga.key gb.key a.res b.res⟩,
        ⟨⟨⟨a, ha, b, hb, rfl⟩, hfit⟩, ?_⟩, rfl⟩
      rintro s ⟨⟨a', ha', b', hb', rfl⟩, hsfit⟩
      have := hnd ⟨k, addv a'.obj b'.obj, ops.rjoin ga.key gb.key a'.res b'.res⟩
        ⟨⟨⟨ga.key, a'.obj, a'.res⟩, ⟨a', ha', rfl⟩, ⟨gb.key, b'.obj, b'.res⟩, ⟨b', hb', rfl⟩,
          combine_eq_some.2 ⟨k, hk, rfl⟩⟩, hsfit⟩
      rw [← sdom_cle_same_key (k := k)]
      exact this

theorem cands_mergeGroups_none {ops : Ops K} {cap : Int} {ga gb : Group K}
    (h : mergeGroups ops cap ga gb = none) : cross ops ga.cands gb.cands = [] := by
  unfold mergeGroups at h
  cases hk : ops.kjoin ga.key gb.key with
  | some k => rw [hk] at h; cases h
  | none =>
    apply List.eq_nil_iff_forall_not_mem.2
    intro c hc
    obtain ⟨a, ha, b, hb, hcomb⟩ := mem_cross.1 hc
    simp only [Group.cands, List.mem_map] at ha hb
    obtain ⟨_, _, rfl⟩ := ha
    obtain ⟨_, _, rfl⟩ := hb
    obtain ⟨k, hk', _⟩ := combine_eq_some.1 hcomb
    simp only at hk'
    rw [hk] at hk'
    cases hk'

/-- All pairwise group merges together are a reduction of the join of the flattened tables. -/
theorem cov_pairMerges (ops : Ops K) (cap : Int) (L R : List (Group K)) :
    Cov cle (flatten (L.flatMap (fun ga => R.filterMap (fun gb => mergeGroups ops cap ga gb))))
      ((cross ops (flatten L) (flatten R)).filter (fitsC cap)) := by
  refine ⟨fun c hc => ?_, fun c hc => ?_⟩
  · simp only [flatten, List.mem_flatMap, List.mem_filterMap] at hc
    obtain ⟨g, ⟨ga, hga, gb, hgb, hm⟩, hcg⟩ := hc
    have := mem_prune_subset ((cands_mergeGroups hm c).1 hcg)
    rw [List.mem_filter, mem_cross] at this ⊢
    obtain ⟨⟨a, ha, b, hb, hab⟩, hf⟩ := this
    exact ⟨⟨a, List.mem_flatMap.2 ⟨ga, hga, ha⟩, b, List.mem_flatMap.2 ⟨gb, hgb, hb⟩, hab⟩, hf⟩
  · rw [List.mem_filter, mem_cross] at hc
    obtain ⟨⟨a, ha, b, hb, hab⟩, hf⟩ := hc
    obtain ⟨ga, hga, ha'⟩ := List.mem_flatMap.1 ha
    obtain ⟨gb, hgb, hb'⟩ := List.mem_flatMap.1 hb
    have hcin : c ∈ (cross ops ga.cands gb.cands).filter (fitsC cap) :=
      List.mem_filter.2 ⟨mem_cross.2 ⟨a, ha', b, hb', hab⟩, hf⟩
    cases hm : mergeGroups ops cap ga gb with
    | none =>
      rw [cands_mergeGroups_none hm] at hcin
      simp at hcin
    | some g =>
      obtain ⟨c', hc', hle⟩ := (cov_prune _).cov c hcin
      refine ⟨c', ?_, hle⟩
      simp only [flatten, List.mem_flatMap, List.mem_filterMap]
      exact ⟨g, ⟨ga, hga, gb, hgb, hm⟩, (cands_mergeGroups hm c').2 hc'⟩

/-- One grouped join step is one flat join step (as sets of candidates). -/
theorem flatten_joinStepG (ops : Ops K) (cap : Int) (L R : List (Group K)) :
    SetEq (flatten (joinStepG ops cap L R)) (joinStep ops cap (flatten L) (flatten R)) :=
  (group_consolidate_sound _).trans ((cov_pairMerges ops cap L R).frontL_eq cle_po)

theorem cov_ffmFoldG {ops : Ops K} (hr : RMono ops) (cap : Int) :
    ∀ (Ts : List (List (Group K))) {acc : List (Group K)} {acc' : List (Cand K)},
      Cov cle (flatten acc) acc' →
      Cov cle (flatten (ffmFoldG ops cap acc Ts))
        (survFold ops (capFilter cap) acc' (Ts.map flatten))
  | [], _, _, h => h
  | T :: Ts, acc, acc', h => by
    simp only [ffmFoldG, List.map_cons, survFold]
    apply cov_ffmFoldG hr cap Ts
    have h1 : Cov cle (flatten (joinStepG ops cap acc (consolidate T)))
        (joinStep ops cap (flatten acc) (flatten (consolidate T))) :=
      Cov.of_setEq cle_po (flatten_joinStepG ops cap acc (consolidate T))
    have h2 : Cov cle (flatten (consolidate T)) (flatten T) :=
      (Cov.of_setEq cle_po (group_consolidate_sound T)).trans cle_po (cov_prune _)
    have h3 : Cov cle (joinStep ops cap (flatten acc) (flatten (consolidate T)))
        ((cross ops acc' ((flatten T).filter (capFilter cap).keepI)).filter
          ((capFilter cap).keepJ (Ts.map flatten))) := by
      simp only [capFilter, filter_const_true]
      exact (cov_prune _).trans cle_po ((cov_cross hr h h2).filter _ (fitsC_down cap))
    exact h1.trans cle_po h3

/-- **The grouped pipeline equals the reference join** (so grouping, the order in which groups are
listed, and consolidation are irrelevant to the result). -/
theorem ffmG_eq_joinExact {ops : Ops K} (hr : RMono ops) (hc : CapClosed ops) (cap : Int)
    (tables : List (List (Group K))) :
    SetEq (ffmG ops cap tables) (joinExact ops cap (tables.map flatten)) := by
  cases tables with
  | nil => simp [ffmG, joinExact_nil, SetEq]
  | cons T Ts =>
    simp only [ffmG, List.map_cons]
    have h0 : Cov cle (flatten (consolidate T)) ((flatten T).filter (capFilter cap).keepI) := by
      simp only [capFilter, filter_const_true]
      exact (Cov.of_setEq cle_po (group_consolidate_sound T)).trans cle_po (cov_prune _)
    have h1 := cov_ffmFoldG hr cap Ts h0
    have h2 : Cov cle ((flatten (ffmFoldG ops cap (consolidate T) Ts)).filter (fitsC cap))
        (validCombos ops cap (flatten T :: Ts.map flatten)) :=
      (h1.filter _ (fitsC_down cap)).trans cle_po
        (Cov.of_setEq cle_po (surv_capFilter ops hc cap (flatten T :: Ts.map flatten)))
    exact h2.frontL_eq cle_po

end AFV.Search
