import AFV.Lemmas.GeomInterval
/-!
# C24 — workload geometry matches the enumeration of the iteration space

Model: `AFV/Model/Geometry.lean`.  A set is the list of its integer points; islpy's `dim_min/dim_max/is_box/apply/
intersect` are computed by enumeration (oracle, trusted base); the theorems are about what the code does with them.

* `box_card`, `bounds_eq`, `ops_eq_card` — rank-variable bounds and operation counts of a box-shaped iteration space.
* `size_correct`, `size_error_iff`, `tensor_size_correct`, `image_box_card` — a returned tensor size is the number
  of projected points; an error is raised exactly when the image is not a box.
* `interval_iff_condition` — closed-form condition for a one-dimensional affine image to be a box.
* `stride_step`, `halo_extent`, `halo_closed_form`, `halo_no_constant` — step and extra extent of a projection;
  the extra extent does not depend on the constant term nor on lower bounds.
* `halo_code_partial` / `halo_code_counterexample`, `occ_code_partial` / `occ_code_counterexample` — the code's halo
  and dense tile occupancy equal the spec only for projections without constant term and with non-negative
  coefficients; witnesses show the violation otherwise (`2*m + n + 1`).
-/
namespace AFV.C24
open AFV.Geometry

/-- **`box_card`**: the iteration space `∏ [loᵢ, loᵢ + nᵢ)` has `∏ nᵢ` points. -/
theorem box_card (b : Box) : (points b).length = prod (b.map (fun e => e.2)) := points_length b

/-- **Rank-variable bounds** (`max − min + 1` per coordinate of the enumerated space) are the sizes of the box. -/
theorem bounds_eq (b : Box) (h : AllPos b) : rankVariableBounds b = b.map (fun e => e.2) :=
  extents_points b h

/-- **Operation count**: a box is a box (no error), and `_card_box` returns the number of its points. -/
theorem ops_eq_card (b : Box) (h : AllPos b) : nComputes b = some (points b).length := by
  simp only [nComputes, sizeOrError, isBox_points b h, if_true, cardBox, extents_points b h, points_length]

/-- **A returned size is the number of points.**  For any duplicate-free set of `d`-dimensional points. -/
theorem size_correct (d : Nat) (s : List (List Int)) (k : Nat) (hnd : s.Nodup) (hlen : ∀ p ∈ s, p.length = d)
    (h : sizeOrError d s = some k) : k = s.length := by
  simp only [sizeOrError] at h
  split at h
  · rename_i hb
    simp only [Option.some.injEq] at h
    rw [← h, card_of_isBox d s hnd hlen hb]
  · simp at h

/-- **Error instead of a wrong size**: the error is raised exactly when the set is not its bounding box. -/
theorem size_error_iff (d : Nat) (s : List (List Int)) : sizeOrError d s = none ↔ isBox d s = false := by
  simp only [sizeOrError]
  cases isBox d s <;> simp

/-- **`image_box_card`**: if the image of the iteration space is a box, `∏ extents` is its number of points. -/
theorem image_box_card (ps : List Aff) (b : Box) (h : isBox ps.length (image ps b) = true) :
    cardBox ps.length (image ps b) = (image ps b).length :=
  card_of_isBox _ _ (dedup_nodup _) (image_length ps b) h

/-- **Tensor size** over the canonical Einsums: the data space is the intersection of the images; whenever
`get_tensor_size` returns a number it is the number of points of that intersection. -/
theorem tensor_size_correct (ps : List Aff) (b : Box) (rest : List (List (List Int))) (k : Nat)
    (h : sizeOrError ps.length (dataSpace (image ps b :: rest)) = some k) :
    k = (dataSpace (image ps b :: rest)).length := by
  apply size_correct ps.length _ k _ _ h
  · exact foldl_inter_nodup rest _ (dedup_nodup _)
  · intro p hp
    exact image_length ps b p (foldl_inter_subset rest _ p hp)

/-- The data space is exactly the set of points that are projections in every canonical Einsum. -/
theorem dataSpace_mem (ps : List Aff) (b : Box) (rest : List (List (List Int))) (q : List Int) :
    q ∈ dataSpace (image ps b :: rest) ↔
      (∃ x, InBox x b ∧ q = ps.map (fun p => p.eval x)) ∧ ∀ t ∈ rest, q ∈ t := by
  simp only [dataSpace, mem_foldl_inter, mem_image]

/-- **Interval condition.**  For `p = Σ aᵢ xᵢ` (coefficients ≥ 1 in increasing order, sizes ≥ 2) over
`0 ≤ xᵢ < nᵢ`, the image is a box iff every coefficient is at most 1 + what the smaller ones reach.
So "error instead of a wrong size" is decidable in closed form. -/
theorem interval_iff_condition (ts : List (Nat × Nat)) (hs : ts.Pairwise (fun s t => s.1 ≤ t.1))
    (hpos : ∀ t ∈ ts, 1 ≤ t.1 ∧ 2 ≤ t.2) :
    isBox 1 (image [aff0 ts] (box0 ts)) = true ↔ intervalCond 0 ts = true :=
  isBox_image_iff ts hs hpos

/-- **`stride_step`**: the stride (coefficient) is the step `p(x + e_k) − p(x)`, at every point. -/
theorem stride_step (p : Aff) (x : List Int) (k : Nat) (hk : k < x.length) :
    stepSpec p x k = strideCode p k := by
  obtain ⟨as, c⟩ := p
  exact stepSpec_eq as c x k hk

/-- **Extent of an affine image**: `1 + Σ |aᵢ| (nᵢ − 1)` — independent of the constant and of lower bounds. -/
theorem extent_affine (p : Aff) (b : Box) (h : AllPos b) :
    extentOf (imageVals p b) = absSum p.coeffs b + 1 := extentOf_imageVals p b h

/-- **`halo_closed_form`**: the halo (extra extent) is `Σ_{j≠k} |aⱼ| (nⱼ − 1)`. -/
theorem halo_closed_form (p : Aff) (b : Box) (k : Nat) (h : AllPos b) :
    haloSpec p b k = absSum p.coeffs (setN b k 1) := by
  simp only [haloSpec, tileExtent, extentOf_imageVals p _ (allPos_setN h k 1 (Nat.le_refl 1))]
  omega

/-- **`halo_extent`**: the image of a tile of `t` values of `x_k` (other variables full) has extent
`|a_k| (t − 1) + 1 + halo`: own contribution plus the halo, for every tile size. NO constant term. -/
theorem halo_extent (p : Aff) (b : Box) (k t : Nat) (h : AllPos b) (ht : 1 ≤ t) (hk : k < b.length) :
    tileExtent p b k t = (strideCode p k).natAbs * (t - 1) + 1 + haloSpec p b k := by
  rw [halo_closed_form p b k h]
  simp only [tileExtent, extentOf_imageVals p _ (allPos_setN h k t ht), absSum_setN p.coeffs b k t hk, strideCode]
  omega

/-- The halo does not depend on the projection's constant term. -/
theorem halo_no_constant (as : List Int) (c c' : Int) (b : Box) (k : Nat) (h : AllPos b) :
    haloSpec ⟨as, c⟩ b k = haloSpec ⟨as, c'⟩ b k := by
  rw [halo_closed_form _ b k h, halo_closed_form _ b k h]

/-- **Code = spec for the halo (partial).**
FULL STATEMENT (false for the code as it is, see `halo_code_counterexample`):
    `∀ p b k, AllPos b → haloCode p (sizes b) k = haloSpec p b k`.
Proved under the hypotheses that exclude the defect: no constant term, non-negative coefficients. -/
theorem halo_code_partial (p : Aff) (b : Box) (k : Nat) (h : AllPos b) (hc : p.const = 0)
    (hpos : ∀ a ∈ p.coeffs, 0 ≤ a) :
    haloCode p (b.map (fun e => e.2)) k = (haloSpec p b k : Int) := by
  rw [halo_closed_form p b k h]
  simp only [haloCode, Aff.eval, hc, dot_haloPoint p.coeffs b k h hpos]
  omega

/-- `2*m + n + 1` over `m < 4, n < 3`: the code's halo for `m` is 3, the extra extent is 2;
`3*n − 2*k` over `n < 3, k < 2`: the code's halo for `n` is −2, the extra extent is 2. -/
theorem halo_code_counterexample :
    haloCode ⟨[2, 1], 1⟩ [4, 3] 0 = 3 ∧ haloSpec ⟨[2, 1], 1⟩ [(0, 4), (0, 3)] 0 = 2 ∧
    haloCode ⟨[3, -2], 0⟩ [3, 2] 0 = -2 ∧ haloSpec ⟨[3, -2], 0⟩ [(0, 3), (0, 2)] 0 = 2 := by
  decide

/-! ### dense tile occupancy -/

theorem extents_image (ps : List Aff) (b : Box) :
    extents ps.length (image ps b) = ps.map (fun p => extentOf (imageVals p b)) := by
  induction ps with
  | nil => rfl
  | cons p ps ih =>
    have hh : ∀ v, v ∈ heads (image (p :: ps) b) ↔ v ∈ imageVals p b := by
      intro v
      simp only [mem_heads, mem_image, mem_imageVals]
      constructor
      · rintro ⟨q, ⟨x, hx, rfl⟩, rfl⟩; exact ⟨x, hx, rfl⟩
      · rintro ⟨x, hx, rfl⟩; exact ⟨_, ⟨x, hx, rfl⟩, rfl⟩
    have ht : ∀ q, q ∈ tails (image (p :: ps) b) ↔ q ∈ image ps b := by
      intro q
      simp only [mem_tails, mem_image]
      constructor
      · rintro ⟨q', ⟨x, hx, rfl⟩, rfl⟩; exact ⟨x, hx, rfl⟩
      · rintro ⟨x, hx, rfl⟩; exact ⟨_, ⟨x, hx, rfl⟩, rfl⟩
    simp only [List.length_cons, extents, List.map_cons, extentOf_congr hh, extents_congr ps.length ht, ih]

/-- The spec of the dense tile occupancy is the size of the bounding box of the tile's image. -/
theorem occ_spec_eq_bbox (ps : List Aff) (b : Box) : occSpec ps b = cardBox ps.length (image ps b) := by
  simp only [occSpec, cardBox, extents_image]

/-- **Code = spec for the dense tile occupancy (partial).**
FULL STATEMENT (false for the code as it is, see `occ_code_counterexample`):
    `∀ ps b, AllPos b → occCode ps (sizes b) = occSpec ps b`.
Proved when no projection has a constant term or a negative coefficient. -/
theorem occ_code_partial (ps : List Aff) (b : Box) (h : AllPos b)
    (hok : ∀ p ∈ ps, p.const = 0 ∧ ∀ a ∈ p.coeffs, 0 ≤ a) :
    occCode ps (b.map (fun e => e.2)) = (occSpec ps b : Int) := by
  induction ps with
  | nil => rfl
  | cons p ps ih =>
    have hp := hok p (by simp)
    have := ih (fun q hq => hok q (by simp [hq]))
    simp only [occCode, occSpec, List.map_cons, iprod, prod, Nat.cast_mul] at this ⊢
    rw [this, extentOf_imageVals p b h]
    simp only [Aff.eval, hp.1, dot_shape p.coeffs b h hp.2]
    push_cast
    ring

/-- `A[P: 2*m+n+1]` on the tile `4 × 3`: the code says 10, the image `{1,…,9}` has extent 9
(with the rank `K: k`, `k < 2`, of the design's example: 20 against 18). -/
theorem occ_code_counterexample :
    occCode [⟨[2, 1], 1⟩] [4, 3] = 10 ∧ occSpec [⟨[2, 1], 1⟩] [(0, 4), (0, 3)] = 9 := by
  decide

/-! ### non-vacuity -/
example : AllPos [((0 : Int), 4), (2, 3), (-1, 2)] := by intro e he; simp at he; rcases he with rfl | rfl | rfl <;> decide
example : rankVariableBounds [((0 : Int), 4), (2, 3), (-1, 2)] = [4, 3, 2] ∧ nComputes [((0 : Int), 4), (2, 3), (-1, 2)] = some 24 := by decide
example : sizeOrError 1 (image [⟨[2, 1], 1⟩] [(0, 4), (0, 3)]) = some 9 := by decide
example : sizeOrError 1 (image [⟨[3, 1], 0⟩] [(0, 4), (0, 2)]) = none ∧ (image [⟨[3, 1], 0⟩] [(0, 4), (0, 2)]).length = 8 := by decide
example : intervalCond 0 [(1, 2), (2, 4)] = true ∧ intervalCond 0 [(1, 2), (3, 4)] = false := by decide
example : tileExtent ⟨[2, 1], 5⟩ [(0, 4), (0, 3)] 0 2 = 2 * 1 + 1 + haloSpec ⟨[2, 1], 5⟩ [(0, 4), (0, 3)] 0 := by decide

end AFV.C24
