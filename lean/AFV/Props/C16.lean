import AFV.Lemmas.SearchExamples
/-!
# C16 — tolerance settings stay within their documented optimality bound (abstract part)

`(1 + t)` is the rational `a / b`, `0 < b ≤ a`; "within the factor" is `b * y ≤ a * x` per objective column.
Model: `ffmT ops cap P₀ P₁` = `ffm` with a pruning function `P₀` on the per-Einsum tables (the two
result-affecting places of the code, tile-shape exploration and pmapping Pareto, both per Einsum and
both in the same bucket space, plus the re-pruning of the inputs by `join_strategy_2`'s last round) and
`P₁` after every join (`P₁ = prune`, exact, in the code: `merge_next` calls `make_pareto()` without
tolerance). `pruneTol (bucketObj β)` is `makepareto` with `objective_tolerance`: rows are compared on
their bucket images and the first row of every surviving image is kept.

**How many stages (`k`)?** In the shape of the code tolerance pruning touches each per-Einsum table and
nothing after it, and summing preserves a common factor, so `k = 1` whatever the number of Einsums
(`ffm_tol`). If approximate pruning were also used after the joins, `k` = number of Einsums
(`ffm_tol_stages`). For a *product* metric (EDP) the per-column factor squares (`ffm_tol_edp`).

## Findings / limits (reported to the coordinator)
* The bound needs the kept row's **reservations not to be larger** than the dropped row's (`ACov`).
  `PmappingDataframe.make_pareto` sets `resource_usage_tolerance = objective_tolerance` when
  `drop_valid_reservations` is true (RESOURCE_USAGE not requested), so the join-time re-pruning also
  buckets reservation columns; the kept row may then overflow after a later join although the dropped
  one would not. `tol_res_rounding_counterexample` shows the bound (and even non-emptiness) fails for
  that pruning in the model. Repro on the real class: see the comment at that theorem.
* With EDP requested the documented `(1 + t)` holds per column, i.e. `(1 + t)²` for the product.
-/
namespace AFV.C16
open AFV.Front AFV.Search

variable {K : Type} [DecidableEq K]

/-- **`tol_bound`.** If the bucket function meets its contract for the factor `a / b` (on non-negative
values: any value whose bucket is not larger is within the factor), bucket pruning of the objectives
with exact reservations keeps, for every row of a table with non-negative objectives, a row of the same
class within the factor and with reservations not larger; and it only returns rows of the table. -/
theorem tol_bound {a b : Int} {β : Int → Int} (hβ : BucketOK a b β) :
    ApproxOn NonNegObj a b (pruneTol (bucketObj β) : List (Cand K) → List (Cand K)) :=
  AFV.Search.tol_bound hβ

/-- **`ffm_tol`** (`k = 1`, the shape of the code). -/
theorem ffm_tol {ops : Ops K} (hr : RMono ops) (hc : CapClosed ops) (cap : Int) {a b : Int}
    (ha : 0 ≤ a) (hb : 0 ≤ b) {P₀ : List (Cand K) → List (Cand K)}
    (tables : List (List (Cand K))) (hP₀ : ∀ T ∈ tables, ACov a b (P₀ T) T) :
    ACov a b (ffmT ops cap P₀ prune tables) (validCombos ops cap tables) :=
  AFV.Search.ffm_tol hr hc cap ha hb tables hP₀

/-- **Best-value form of `ffm_tol`.** For a non-negative linear metric: if the exact optimum is `m`, the
tolerant pipeline returns some best value `m'` with `m ≤ m'` (never below the optimum: every returned
point is an achievable, valid combination) and `b * m' ≤ a * m` (at most `(1 + t)` times it). -/
theorem ffm_tol_best {ops : Ops K} (hr : RMono ops) (hc : CapClosed ops) (cap : Int) {a b : Int}
    (ha : 0 ≤ a) (hb : 0 ≤ b) {P₀ : List (Cand K) → List (Cand K)}
    (tables : List (List (Cand K))) (hP₀ : ∀ T ∈ tables, ACov a b (P₀ T) T)
    {w : Vec} (hw : ∀ u ∈ w, 0 ≤ u) {m : Int} (hm : best w (joinExact ops cap tables) = some m) :
    ∃ m', best w (ffmT ops cap P₀ prune tables) = some m' ∧ m ≤ m' ∧ b * m' ≤ a * m := by
  rw [best_joinExact cap hw] at hm
  exact best_of_acov hb hw (ffm_tol hr hc cap ha hb tables hP₀) hm

/-- Instantiated with bucket pruning: the contract of the bucket function is the only assumption left. -/
theorem ffm_tol_bucket {ops : Ops K} (hr : RMono ops) (hc : CapClosed ops) (cap : Int) {a b : Int}
    (ha : 0 ≤ a) (hb : 0 ≤ b) {β : Int → Int} (hβ : BucketOK a b β)
    (tables : List (List (Cand K))) (hnn : ∀ T ∈ tables, ∀ c ∈ T, NonNegObj c)
    {w : Vec} (hw : ∀ u ∈ w, 0 ≤ u) {m : Int} (hm : best w (joinExact ops cap tables) = some m) :
    ∃ m', best w (ffmT ops cap (pruneTol (bucketObj β)) prune tables) = some m' ∧
      m ≤ m' ∧ b * m' ≤ a * m :=
  ffm_tol_best hr hc cap ha hb tables (fun T hT => tol_bound hβ T (hnn T hT)) hw hm

/-- **`ffm_tol_stages`** (`k` = number of Einsums): approximate pruning after every join as well. -/
theorem ffm_tol_stages {ops : Ops K} (hr : RMono ops) (hc : CapClosed ops) (cap : Int) {a b : Int}
    (hb : 0 ≤ b) (hba : b ≤ a) {n : Nat} {P₀ P₁ : List (Cand K) → List (Cand K)}
    (hP₁ : ApproxOn (GoodObj n) a b P₁)
    (tables : List (List (Cand K))) (hP₀ : ∀ T ∈ tables, ACov a b (P₀ T) T)
    (hgood : ∀ T ∈ tables, ∀ c ∈ T, GoodObj n c) :
    ACov (a ^ tables.length) (b ^ tables.length) (ffmT ops cap P₀ P₁ tables)
      (validCombos ops cap tables) :=
  AFV.Search.ffm_tol_stages hr hc cap hb hba hP₁ tables hP₀ hgood

/-- **EDP.** Energy and latency each within `a / b` ⇒ the best energy × latency is within `a² / b²`
(and never below the optimum). -/
theorem ffm_tol_edp {ops : Ops K} (hr : RMono ops) (hc : CapClosed ops) (cap : Int) {a b : Int}
    (ha : 0 ≤ a) (hb : 0 ≤ b) {P₀ : List (Cand K) → List (Cand K)} {n : Nat}
    (tables : List (List (Cand K))) (hP₀ : ∀ T ∈ tables, ACov a b (P₀ T) T)
    (hgood : ∀ T ∈ tables, ∀ c ∈ T, GoodObj n c)
    {m : Int} (hm : bestEdp (validCombos ops cap tables) = some m) :
    ∃ m', bestEdp (ffmT ops cap P₀ prune tables) = some m' ∧ m ≤ m' ∧
      (b * b) * m' ≤ (a * a) * m :=
  bestEdp_of_acov ha hb (fun _ hc' => (good_validCombos_obj hgood hc').2)
    (ffm_tol hr hc cap ha hb tables hP₀) hm
where
  good_validCombos_obj {ops : Ops K} {cap : Int} {n : Nat} {tables : List (List (Cand K))}
      (hgood : ∀ T ∈ tables, ∀ c ∈ T, GoodObj n c) {s : Cand K}
      (hs : s ∈ validCombos ops cap tables) : GoodObj n s :=
    good_surv (closed_goodObj ops n) hgood
      ((surv_noFilter ops tables s).2 (List.mem_filter.1 hs).1)

/-- **Resource re-check.** Every row the tolerant pipeline returns is a compatible combination of one row
per table whose reservations are within capacity: tolerances never make a returned mapping invalid. -/
theorem resource_tol_valid {ops : Ops K} (hr : RMono ops) (hc : CapClosed ops) (cap : Int)
    {a b : Int} (ha : 0 ≤ a) (hb : 0 ≤ b) {P₀ : List (Cand K) → List (Cand K)}
    (tables : List (List (Cand K))) (hP₀ : ∀ T ∈ tables, ACov a b (P₀ T) T)
    {y : Cand K} (hy : y ∈ ffmT ops cap P₀ prune tables) :
    y ∈ allCombos ops tables ∧ fits cap y.res = true :=
  ffmT_valid hr hc cap ha hb tables hP₀ hy

/-- The same for relaxed-capacity rounds of the staged join (`excess_resource_tolerance`): whatever
round is accepted, every returned row comes from a combination valid for the *true* capacity. -/
theorem staged_valid {cfg : Cfg K} {n : Nat} {tables : List (List (Cand K))}
    (h : StagedHyp cfg n tables) (caps : List Int) (hcaps : ∀ c ∈ caps, cfg.cap ≤ c) :
    ∀ v ∈ (staged cfg caps tables).rows, ∃ s ∈ validCombos cfg.ops cfg.cap tables,
      fits cfg.cap s.res = true ∧
      (v = cvOf cfg s ∨ v = finV cfg true s.row) := by
  have hs := staged_spec h caps hcaps
  intro v hv
  cases hret : (staged cfg caps tables).retained with
  | false =>
    obtain ⟨s, hs', hvs⟩ := (hs.1 hret).2 v hv
    exact ⟨s, hs', (List.mem_filter.1 hs').2, Or.inl hvs⟩
  | true =>
    obtain ⟨s, hs', hvs⟩ := (hs.2 hret).2.2 v hv
    exact ⟨s, hs', (List.mem_filter.1 hs').2, Or.inr hvs⟩

/-! ## Witnesses and non-vacuity -/

/-- A bucket function for the factor 2: buckets `{0}, {1,2}, {3,4}, …`. -/
def β2 (x : Int) : Int := (x + 1) / 2

theorem β2_ok : BucketOK 2 1 β2 := by
  intro y x hx h
  unfold β2 at h
  omega

/-- Power-of-two buckets `[1], [2,3], [4..7], [8..15], …` (what a log-scale rounding looks like). -/
def βlog (x : Int) : Int :=
  if x < 1 then 0 else if x < 2 then 1 else if x < 4 then 2 else if x < 8 then 3 else
  if x < 16 then 4 else 5

def tabT : List (List (Cand Nat)) := [[⟨0, [10], [10]⟩, ⟨0, [11], [8]⟩], [⟨1, [1], [1]⟩]]

/-- **`tol_res_rounding_counterexample`.** If reservations are bucketed with the same tolerance as the
objectives (what `PmappingDataframe.make_pareto` does when `drop_valid_reservations` is set), the
row `(E = 11, res 8)` is dropped in favour of `(E = 10, res 10)` — same buckets, first kept — and after
the join with a part needing 1 more the kept row is over capacity: the tolerant pipeline returns
**nothing**, while the optimum is 12 and pruning with exact reservations returns it. So the hypothesis
"reservations not larger" of `ffm_tol` cannot be dropped. On the real class:

    df = pd.DataFrame({"Total<SEP>energy":[10.0,11.0], "reservation<SEP>GLB<SEP>0<SEP>right":[1.0,0.82]})
    p = PmappingDataframe(df, 2, 2, ignored_resources=set(), drop_valid_reservations=True, skip_pareto=True)
    p.make_pareto(objective_tolerance=0.5, resource_usage_tolerance=0, inplace=False).data  # keeps only (10.0, 1.0) -/
theorem tol_res_rounding_counterexample :
    best [1] (joinExact opsChain 10 tabT) = some 12 ∧
    best [1] (ffmT opsChain 10 (pruneTol (bucketObjRes βlog)) prune tabT) = none ∧
    best [1] (ffmT opsChain 10 (pruneTol (bucketObj βlog)) prune tabT) = some 12 := by decide

/-- **EDP needs the square.** Two rows in the same buckets of the factor-2 function; the first one is
kept; its EDP is more than 2× (but less than 4×) the optimum. -/
theorem edp_square_witness :
    bestEdp (validCombos opsChain 100 [[(⟨0, [2, 2], [1]⟩ : Cand Nat), ⟨0, [1, 1], [1]⟩]]) = some 1 ∧
    bestEdp (ffmT opsChain 100 (pruneTol (bucketObj β2)) prune
      [[(⟨0, [2, 2], [1]⟩ : Cand Nat), ⟨0, [1, 1], [1]⟩]]) = some 4 := by decide

-- `ffm_tol_bucket` applies (its hypotheses are satisfiable) and is tight-ish on this instance:
example : best [1] (ffmT opsChain 10 (pruneTol (bucketObj β2)) prune
    [[⟨0, [6], [1]⟩, ⟨0, [5], [1]⟩], [⟨1, [4], [1]⟩, ⟨1, [3], [1]⟩]]) = some 10 ∧
  best [1] (joinExact opsChain 10
    [[⟨0, [6], [1]⟩, ⟨0, [5], [1]⟩], [⟨1, [4], [1]⟩, ⟨1, [3], [1]⟩]]) = some 8 := by decide
example : BucketOK 1 1 (fun x => x) := fun _ _ _ h => by simp only at h; omega

end AFV.C16
