import AFV.Lemmas.NestUsage
import Mathlib.Tactic.FieldSimp
import Mathlib.Tactic.Linarith
/-!
# C19 — costs scale with the architecture's cost parameters (model level)

About `analytic` (the proved model of `evaluate_mapping`, C05), for EVERY mapping on which it succeeds — no
well-formedness needed:
* `scale_energy`: all per-action energies and leak powers × k ⇒ dynamic, leak and total energy × k; counts, latency,
  usage unchanged;
* `scale_throughput`: all throughputs × k (k > 0) ⇒ every latency ÷ k (and leak energy, being leak × latency, ÷ k);
  counts, dynamic energy, usage unchanged;
* `scale_instances`: n_instances × k ⇒ the summable totals (actions, energies, latencies) × k; usage / validity unchanged;
* `front_scale`: multiplying coordinates by positive factors maps Pareto fronts to Pareto fronts, hence optima scale.
-/
namespace AFV.C19
open AFV.Nest

/-! ## Scaling operations on the inputs -/

def scaleActE (k : Rat) (a : Act Rat) : Act Rat := { a with energy := a.energy * k }
def scaleLevelE (k : Rat) (lv : Level Rat) : Level Rat :=
  { lv with leak := lv.leak * k, read := scaleActE k lv.read, write := scaleActE k lv.write }
def scaleArchE (k : Rat) (arch : Arch Rat) : Arch Rat :=
  { levels := arch.levels.map (scaleLevelE k)
    compute := { arch.compute with energy := arch.compute.energy * k, leak := arch.compute.leak * k } }

def scaleActT (k : Rat) (a : Act Rat) : Act Rat := { a with throughput := a.throughput * k }
def scaleLevelT (k : Rat) (lv : Level Rat) : Level Rat :=
  { lv with read := scaleActT k lv.read, write := scaleActT k lv.write }
def scaleArchT (k : Rat) (arch : Arch Rat) : Arch Rat :=
  { levels := arch.levels.map (scaleLevelT k)
    compute := { arch.compute with throughput := arch.compute.throughput * k } }

def scaleInst (k : Rat) (w : Workload Rat) : Workload Rat := { w with nInstances := w.nInstances * k }

theorem sameAn_E (k : Rat) (lv : Level Rat) : SameAn lv (scaleLevelE k lv) := by
  constructor <;> rfl

theorem sameAn_T (k : Rat) (lv : Level Rat) : SameAn lv (scaleLevelT k lv) := by
  constructor <;> rfl

theorem getD_E (k : Rat) (arch : Arch Rat) (l : Lvl) :
    (arch.levels.map (scaleLevelE k)).getD l Level.dflt = scaleLevelE k (arch.levels.getD l Level.dflt) := by
  simp only [List.getD, List.getElem?_map]
  cases arch.levels[l]? with
  | none => simp [scaleLevelE, scaleActE, Level.dflt, Act.dflt]
  | some lv => rfl

theorem getD_T (k : Rat) (arch : Arch Rat) (l : Lvl) :
    (arch.levels.map (scaleLevelT k)).getD l Level.dflt = scaleLevelT k (arch.levels.getD l Level.dflt)
      ∨ (arch.levels[l]? = none) := by
  simp only [List.getD, List.getElem?_map]
  cases arch.levels[l]? with
  | none => exact Or.inr rfl
  | some lv => exact Or.inl rfl

theorem sum_mul (l : List Rat) (k : Rat) : sumList (l.map (· * k)) = sumList l * k := by
  induction l with
  | nil => simp [sumList]
  | cons x xs ih => simp only [sumList, List.map_cons, List.foldr_cons] at ih ⊢; rw [ih]; ring

theorem foldr_mul {β : Type} (g : β → Rat) (l : List β) (k : Rat) :
    (l.map (fun x => g x * k)).foldr (· + ·) 0 = (l.map g).foldr (· + ·) 0 * k := by
  induction l with
  | nil => simp
  | cons x xs ih => simp only [List.map_cons, List.foldr_cons, ih]; ring

open AFV.NestExec in
theorem rowA_E (k : Rat) (arch : Arch Rat) : rowA (scaleArchE k arch) = rowA arch := by
  funext b; simp only [rowA, scaleArchE, getD_E, scaleLevelE]

open AFV.NestExec in
theorem latsOf_E (k : Rat) (arch : Arch Rat) (rows : List (Lvl × TId × Rat × Rat)) :
    latsOf (scaleArchE k arch) rows = latsOf arch rows := by
  simp only [latsOf, usedOf, latOf, scaleArchE, List.length_map, getD_E, scaleLevelE, scaleActE]

open AFV.NestExec in
theorem dynOf_E (k : Rat) (arch : Arch Rat) (rows : List (Lvl × TId × Rat × Rat)) (cc : Rat) :
    dynOf (scaleArchE k arch) rows cc = dynOf arch rows cc * k := by
  simp only [dynOf, scaleArchE, getD_E, scaleLevelE, scaleActE]
  have h : ∀ x : Lvl × TId × Rat × Rat,
      (match x with
        | (l, _, r, wr) => r * ((arch.levels.getD l Level.dflt).read.energy * k)
            + wr * ((arch.levels.getD l Level.dflt).write.energy * k))
      = (match x with
        | (l, _, r, wr) => r * (arch.levels.getD l Level.dflt).read.energy
            + wr * (arch.levels.getD l Level.dflt).write.energy) * k := by
    rintro ⟨l, t, r, wr⟩; ring
  simp only [h, foldr_mul]
  ring

open AFV.NestExec in
theorem leakOf_E (k : Rat) (arch : Arch Rat) (ov : Rat) : leakOf (scaleArchE k arch) ov = leakOf arch ov * k := by
  simp only [leakOf, scaleArchE, List.map_map]
  have h3 : ((fun lv : Level Rat => lv.leak * ov) ∘ scaleLevelE k) = fun x => (x.leak * ov) * k := by
    funext x; simp only [Function.comp, scaleLevelE]; ring
  rw [h3, foldr_mul]
  ring

open AFV.NestExec in
/-- The documented cost rules under energy scaling. -/
theorem costs_E (k : Rat) (arch : Arch Rat) (ni : Rat) (rows : List (Lvl × TId × Rat × Rat)) (cc : Rat) :
    (costsE (scaleArchE k arch) ni rows cc).actions = (costsE arch ni rows cc).actions ∧
    (costsE (scaleArchE k arch) ni rows cc).computes = (costsE arch ni rows cc).computes ∧
    (costsE (scaleArchE k arch) ni rows cc).latencies = (costsE arch ni rows cc).latencies ∧
    (costsE (scaleArchE k arch) ni rows cc).computeLatency = (costsE arch ni rows cc).computeLatency ∧
    (costsE (scaleArchE k arch) ni rows cc).totalLatency = (costsE arch ni rows cc).totalLatency ∧
    (costsE (scaleArchE k arch) ni rows cc).dynamicEnergy = (costsE arch ni rows cc).dynamicEnergy * k ∧
    (costsE (scaleArchE k arch) ni rows cc).leakEnergy = (costsE arch ni rows cc).leakEnergy * k := by
  have hov : overallOf (scaleArchE k arch) rows cc = overallOf arch rows cc := by
    simp only [overallOf, latsOf_E]; rfl
  simp only [costsE, latsOf_E, hov, dynOf_E, leakOf_E]
  refine ⟨trivial, trivial, trivial, ?_, trivial, by ring, by ring⟩
  rfl

/-- **Energy parameters × k ⇒ energy × k; counts, latency and usage unchanged** — for every mapping the model evaluates. -/
theorem scale_energy (arch : Arch Rat) (w : Workload Rat) (m : Mapping Rat) (k : Rat) :
    match analytic arch w m, analytic (scaleArchE k arch) w m with
    | some r, some r' =>
      r'.actions = r.actions ∧ r'.computes = r.computes ∧ r'.latencies = r.latencies ∧
      r'.computeLatency = r.computeLatency ∧ r'.totalLatency = r.totalLatency ∧ usageView r' = usageView r ∧
      r'.dynamicEnergy = r.dynamicEnergy * k ∧ r'.leakEnergy = r.leakEnergy * k ∧ r'.totalEnergy = r.totalEnergy * k
    | none, none => True
    | _, _ => False := by
  have hb := allBuffets_congr arch (scaleArchE k arch) w w (scaleLevelE k) (sameAn_E k) rfl rfl rfl rfl
    (insertReservations w (splitHolders m)) w.tensors.length 0
  simp only [analytic, hb]
  cases allBuffets arch w (insertReservations w (splitHolders m)) 0 w.tensors.length with
  | none => trivial
  | some bs =>
    have hA := assemble_costs arch w (splitHolders m) bs
    have hA' := assemble_costs (scaleArchE k arch) w (splitHolders m) bs
    have hU := usage_congr arch (scaleArchE k arch) w w (splitHolders m) (splitHolders m) bs
      (by simp [scaleArchE]) (fun l => by simp only [scaleArchE, getD_E, scaleLevelE])
      (fun l => by simp only [scaleArchE, getD_E, scaleLevelE])
    have hC := costs_E k arch w.nInstances (bs.map (rowA arch)) (computeOps w.bounds (splitHolders m) * arch.compute.actionsScale)
    simp only [rowA_E] at hA'
    have hcc : (scaleArchE k arch).compute.actionsScale = arch.compute.actionsScale := rfl
    rw [hcc] at hA'
    obtain ⟨a1, a2, a3, a4, a5, a6, a7, a8⟩ := hA
    obtain ⟨b1, b2, b3, b4, b5, b6, b7, b8⟩ := hA'
    obtain ⟨c1, c2, c3, c4, c5, c6, c7⟩ := hC
    refine ⟨by rw [b1, a1, c1], by rw [b2, a2, c2], by rw [b3, a3, c3], by rw [b4, a4, c4], by rw [b5, a5, c5], hU,
      by rw [b6, a6, c6], by rw [b7, a7, c7], ?_⟩
    have e1 : (assemble arch w (splitHolders m) bs).totalEnergy
        = (assemble arch w (splitHolders m) bs).leakEnergy + (assemble arch w (splitHolders m) bs).dynamicEnergy := rfl
    have e2 : (assemble (scaleArchE k arch) w (splitHolders m) bs).totalEnergy
        = (assemble (scaleArchE k arch) w (splitHolders m) bs).leakEnergy
          + (assemble (scaleArchE k arch) w (splitHolders m) bs).dynamicEnergy := rfl
    rw [e1, e2, b6, a6, c6, b7, a7, c7]; ring

/-! ## Throughput -/

theorem getD_T_fields (k : Rat) (arch : Arch Rat) (l : Lvl) :
    ((arch.levels.map (scaleLevelT k)).getD l Level.dflt).isToll = (arch.levels.getD l Level.dflt).isToll ∧
    ((arch.levels.map (scaleLevelT k)).getD l Level.dflt).size = (arch.levels.getD l Level.dflt).size ∧
    ((arch.levels.map (scaleLevelT k)).getD l Level.dflt).actionsScale = (arch.levels.getD l Level.dflt).actionsScale ∧
    ((arch.levels.map (scaleLevelT k)).getD l Level.dflt).read.energy = (arch.levels.getD l Level.dflt).read.energy ∧
    ((arch.levels.map (scaleLevelT k)).getD l Level.dflt).write.energy = (arch.levels.getD l Level.dflt).write.energy := by
  simp only [List.getD, List.getElem?_map]
  cases arch.levels[l]? <;> simp [scaleLevelT, scaleActT]

open AFV.NestExec in
theorem ratMax_div (a b k : Rat) (hk : 0 < k) : ratMax (a / k) (b / k) = ratMax a b / k := by
  unfold ratMax
  by_cases h : a ≤ b
  · rw [if_pos h, if_pos (div_le_div_of_nonneg_right h hk.le)]
  · rw [if_neg h, if_neg (by rw [div_le_div_iff_of_pos_right hk]; exact h)]

open AFV.NestExec in
theorem foldl_ratMax_div (l : List Rat) (x k : Rat) (hk : 0 < k) :
    (l.map (· / k)).foldl ratMax (x / k) = l.foldl ratMax x / k := by
  induction l generalizing x with
  | nil => rfl
  | cons y ys ih => simp only [List.map_cons, List.foldl_cons, ratMax_div _ _ _ hk, ih]

theorem getD_T_lt (k : Rat) (arch : Arch Rat) (l : Lvl) (h : l < arch.levels.length) :
    (arch.levels.map (scaleLevelT k)).getD l Level.dflt = scaleLevelT k (arch.levels.getD l Level.dflt) := by
  simp [List.getD, List.getElem?_map, List.getElem?_eq_getElem h]

open AFV.NestExec in
theorem latOf_T (k : Rat) (arch : Arch Rat) (rows : List (Lvl × TId × Rat × Rat)) (l : Lvl) (hl : l < arch.levels.length) :
    latOf (scaleArchT k arch) rows l = latOf arch rows l / k := by
  simp only [latOf, scaleArchT, getD_T_lt k arch l hl]
  cases ht : (arch.levels.getD l Level.dflt).isToll <;>
    simp only [scaleLevelT, scaleActT, ht, Bool.false_eq_true, if_false, if_true, div_mul_eq_div_div, add_div]

open AFV.NestExec in
theorem latsOf_T (k : Rat) (arch : Arch Rat) (rows : List (Lvl × TId × Rat × Rat)) :
    latsOf (scaleArchT k arch) rows = (latsOf arch rows).map (fun x => (x.1, x.2 / k)) := by
  have hu : usedOf (scaleArchT k arch) rows = usedOf arch rows := by simp [usedOf, scaleArchT]
  simp only [latsOf, hu, List.map_map]
  apply List.map_congr_left
  intro l hl
  have hlt : l < arch.levels.length := List.mem_range.1 (List.mem_filter.1 hl).1
  simp only [Function.comp, latOf_T k arch rows l hlt]

open AFV.NestExec in
theorem overallOf_T (k : Rat) (hk : 0 < k) (arch : Arch Rat) (rows : List (Lvl × TId × Rat × Rat)) (cc : Rat) :
    overallOf (scaleArchT k arch) rows cc = overallOf arch rows cc / k := by
  simp only [overallOf, latsOf_T, List.map_map]
  have h1 : (scaleArchT k arch).compute.throughput = arch.compute.throughput * k := rfl
  rw [h1, div_mul_eq_div_div, ← foldl_ratMax_div _ _ _ hk, List.map_map]
  rfl

open AFV.NestExec in
theorem dynOf_T (k : Rat) (arch : Arch Rat) (rows : List (Lvl × TId × Rat × Rat)) (cc : Rat) :
    dynOf (scaleArchT k arch) rows cc = dynOf arch rows cc := by
  simp only [dynOf, scaleArchT, (getD_T_fields k arch _).2.2.2.1, (getD_T_fields k arch _).2.2.2.2]

open AFV.NestExec in
theorem leakOf_T (k : Rat) (arch : Arch Rat) (ov : Rat) : leakOf (scaleArchT k arch) ov = leakOf arch ov := by
  simp only [leakOf, scaleArchT, List.map_map]; rfl

open AFV.NestExec in
theorem leakOf_lin (arch : Arch Rat) (ov c : Rat) : leakOf arch (ov * c) = leakOf arch ov * c := by
  simp only [leakOf]
  have h : (fun lv : Level Rat => lv.leak * (ov * c)) = fun lv => (lv.leak * ov) * c := by funext lv; ring
  rw [h, foldr_mul]; ring

open AFV.NestExec in
/-- The documented cost rules under throughput scaling (k > 0). -/
theorem costs_T (k : Rat) (hk : 0 < k) (arch : Arch Rat) (ni : Rat) (rows : List (Lvl × TId × Rat × Rat)) (cc : Rat) :
    (costsE (scaleArchT k arch) ni rows cc).actions = (costsE arch ni rows cc).actions ∧
    (costsE (scaleArchT k arch) ni rows cc).computes = (costsE arch ni rows cc).computes ∧
    (costsE (scaleArchT k arch) ni rows cc).latencies
      = (costsE arch ni rows cc).latencies.map (fun x => (x.1, x.2 / k)) ∧
    (costsE (scaleArchT k arch) ni rows cc).computeLatency = (costsE arch ni rows cc).computeLatency / k ∧
    (costsE (scaleArchT k arch) ni rows cc).totalLatency = (costsE arch ni rows cc).totalLatency / k ∧
    (costsE (scaleArchT k arch) ni rows cc).dynamicEnergy = (costsE arch ni rows cc).dynamicEnergy ∧
    (costsE (scaleArchT k arch) ni rows cc).leakEnergy = (costsE arch ni rows cc).leakEnergy / k := by
  have h1 : (scaleArchT k arch).compute.throughput = arch.compute.throughput * k := rfl
  simp only [costsE, latsOf_T, overallOf_T k hk, dynOf_T, leakOf_T, h1]
  refine ⟨trivial, trivial, ?_, ?_, by ring, trivial, ?_⟩
  · simp only [List.map_map]; apply List.map_congr_left; intro x _; simp only [Function.comp]; congr 1; ring
  · rw [div_mul_eq_div_div]; ring
  · rw [div_eq_mul_inv, leakOf_lin]; ring

open AFV.NestExec in
theorem rowA_T (k : Rat) (arch : Arch Rat) : rowA (scaleArchT k arch) = rowA arch := by
  funext b; simp only [rowA, scaleArchT, (getD_T_fields k arch _).2.2.1]

/-- **Throughputs × k (k > 0) ⇒ every latency ÷ k** (and leak energy = leak power × latency ÷ k); counts, dynamic energy
and usage unchanged — for every mapping the model evaluates. -/
theorem scale_throughput (arch : Arch Rat) (w : Workload Rat) (m : Mapping Rat) (k : Rat) (hk : 0 < k) :
    match analytic arch w m, analytic (scaleArchT k arch) w m with
    | some r, some r' =>
      r'.actions = r.actions ∧ r'.computes = r.computes ∧ r'.latencies = r.latencies.map (fun x => (x.1, x.2 / k)) ∧
      r'.computeLatency = r.computeLatency / k ∧ r'.totalLatency = r.totalLatency / k ∧ usageView r' = usageView r ∧
      r'.dynamicEnergy = r.dynamicEnergy ∧ r'.leakEnergy = r.leakEnergy / k
    | none, none => True
    | _, _ => False := by
  have hb := allBuffets_congr arch (scaleArchT k arch) w w (scaleLevelT k) (sameAn_T k) rfl rfl rfl rfl
    (insertReservations w (splitHolders m)) w.tensors.length 0
  simp only [analytic, hb]
  cases allBuffets arch w (insertReservations w (splitHolders m)) 0 w.tensors.length with
  | none => trivial
  | some bs =>
    have hA := assemble_costs arch w (splitHolders m) bs
    have hA' := assemble_costs (scaleArchT k arch) w (splitHolders m) bs
    have hU := usage_congr arch (scaleArchT k arch) w w (splitHolders m) (splitHolders m) bs
      (by simp [scaleArchT]) (fun l => (getD_T_fields k arch l).1) (fun l => (getD_T_fields k arch l).2.1)
    have hC := costs_T k hk arch w.nInstances (bs.map (rowA arch)) (computeOps w.bounds (splitHolders m) * arch.compute.actionsScale)
    simp only [rowA_T] at hA'
    have hcc : (scaleArchT k arch).compute.actionsScale = arch.compute.actionsScale := rfl
    rw [hcc] at hA'
    obtain ⟨a1, a2, a3, a4, a5, a6, a7, _⟩ := hA
    obtain ⟨b1, b2, b3, b4, b5, b6, b7, _⟩ := hA'
    obtain ⟨c1, c2, c3, c4, c5, c6, c7⟩ := hC
    exact ⟨by rw [b1, a1, c1], by rw [b2, a2, c2], by rw [b3, a3, c3], by rw [b4, a4, c4], by rw [b5, a5, c5], hU,
      by rw [b6, a6, c6], by rw [b7, a7, c7]⟩

/-! ## n_instances -/

theorem sameAn_id (lv : Level Rat) : SameAn lv (id lv) := by constructor <;> rfl

open AFV.NestExec in
theorem costs_ni (k : Rat) (arch : Arch Rat) (ni : Rat) (rows : List (Lvl × TId × Rat × Rat)) (cc : Rat) :
    (costsE arch (ni * k) rows cc).actions = (costsE arch ni rows cc).actions.map (fun x => (x.1, x.2.1, x.2.2.1 * k, x.2.2.2 * k)) ∧
    (costsE arch (ni * k) rows cc).computes = (costsE arch ni rows cc).computes * k ∧
    (costsE arch (ni * k) rows cc).latencies = (costsE arch ni rows cc).latencies.map (fun x => (x.1, x.2 * k)) ∧
    (costsE arch (ni * k) rows cc).totalLatency = (costsE arch ni rows cc).totalLatency * k ∧
    (costsE arch (ni * k) rows cc).dynamicEnergy = (costsE arch ni rows cc).dynamicEnergy * k ∧
    (costsE arch (ni * k) rows cc).leakEnergy = (costsE arch ni rows cc).leakEnergy * k ∧
    (costsE arch (ni * k) rows cc).totalEnergy = (costsE arch ni rows cc).totalEnergy * k := by
  simp only [costsE, List.map_map]
  refine ⟨?_, by ring, ?_, by ring, by ring, by ring, by ring⟩
  · apply List.map_congr_left; rintro ⟨l, t, r, wr⟩ _; simp only [Function.comp]
    refine Prod.ext rfl (Prod.ext rfl (Prod.ext ?_ ?_)) <;> simp only <;> ring
  · apply List.map_congr_left; rintro ⟨l, x⟩ _; simp only [Function.comp]
    refine Prod.ext rfl ?_; simp only; ring

/-- **n_instances × k ⇒ the summable totals × k; usage (hence validity) unchanged.** -/
theorem scale_instances (arch : Arch Rat) (w : Workload Rat) (m : Mapping Rat) (k : Rat) :
    match analytic arch w m, analytic arch (scaleInst k w) m with
    | some r, some r' =>
      r'.actions = r.actions.map (fun x => (x.1, x.2.1, x.2.2.1 * k, x.2.2.2 * k)) ∧ r'.computes = r.computes * k ∧
      r'.latencies = r.latencies.map (fun x => (x.1, x.2 * k)) ∧ r'.totalLatency = r.totalLatency * k ∧
      r'.dynamicEnergy = r.dynamicEnergy * k ∧ r'.leakEnergy = r.leakEnergy * k ∧ r'.totalEnergy = r.totalEnergy * k ∧
      usageView r' = usageView r ∧ r'.oversubscribed arch = r.oversubscribed arch
    | none, none => True
    | _, _ => False := by
  have hb := allBuffets_congr arch arch w (scaleInst k w) id sameAn_id (List.map_id _).symm rfl rfl rfl
    (insertReservations w (splitHolders m)) w.tensors.length 0
  have hr := insertReservations_congr w (scaleInst k w) rfl (splitHolders m)
  have hlen : (scaleInst k w).tensors.length = w.tensors.length := rfl
  simp only [analytic, hr, hlen, hb]
  cases allBuffets arch w (insertReservations w (splitHolders m)) 0 w.tensors.length with
  | none => trivial
  | some bs =>
    have hA := assemble_costs arch w (splitHolders m) bs
    have hA' := assemble_costs arch (scaleInst k w) (splitHolders m) bs
    have hU := usage_congr arch arch w (scaleInst k w) (splitHolders m) (splitHolders m) bs rfl (fun _ => rfl) (fun _ => rfl)
    have hC := costs_ni k arch w.nInstances (bs.map (rowA arch)) (computeOps w.bounds (splitHolders m) * arch.compute.actionsScale)
    have hni : (scaleInst k w).nInstances = w.nInstances * k := rfl
    have hbd : (scaleInst k w).bounds = w.bounds := rfl
    rw [hni, hbd] at hA'
    obtain ⟨a1, a2, a3, _, a5, a6, a7, a8⟩ := hA
    obtain ⟨b1, b2, b3, _, b5, b6, b7, b8⟩ := hA'
    obtain ⟨c1, c2, c3, c5, c6, c7, c8⟩ := hC
    refine ⟨by rw [b1, a1, c1], by rw [b2, a2, c2], by rw [b3, a3, c3], by rw [b5, a5, c5], by rw [b6, a6, c6],
      by rw [b7, a7, c7], by rw [b8, a8, c8], hU.symm ▸ rfl, ?_⟩
    have : (assemble arch (scaleInst k w) (splitHolders m) bs).memBits = (assemble arch w (splitHolders m) bs).memBits := by
      have := congrArg (fun v => v.2.2.2.1) hU; simpa [usageView] using this
    simp only [Result.oversubscribed, this]

/-! ## Fronts -/

/-- `a` dominates `b`: no worse in every coordinate, and different. -/
def Dom {n : Nat} (a b : Fin n → Rat) : Prop := (∀ i, a i ≤ b i) ∧ a ≠ b

/-- `x` is on the Pareto front of `S`. -/
def IsFront {n : Nat} (S : List (Fin n → Rat)) (x : Fin n → Rat) : Prop := x ∈ S ∧ ∀ y ∈ S, ¬ Dom y x

def scaleVec {n : Nat} (k : Fin n → Rat) (v : Fin n → Rat) : Fin n → Rat := fun i => k i * v i

theorem scaleVec_inj {n : Nat} (k : Fin n → Rat) (hk : ∀ i, 0 < k i) (a b : Fin n → Rat) (h : scaleVec k a = scaleVec k b) :
    a = b := by
  funext i
  have := congrFun h i
  simp only [scaleVec] at this
  exact mul_left_cancel₀ (ne_of_gt (hk i)) this

theorem dom_scale {n : Nat} (k : Fin n → Rat) (hk : ∀ i, 0 < k i) (a b : Fin n → Rat) :
    Dom (scaleVec k a) (scaleVec k b) ↔ Dom a b := by
  constructor
  · rintro ⟨h1, h2⟩
    refine ⟨fun i => ?_, fun h => h2 (by rw [h])⟩
    have := h1 i
    simp only [scaleVec] at this
    exact le_of_mul_le_mul_left this (hk i)
  · rintro ⟨h1, h2⟩
    refine ⟨fun i => ?_, fun h => h2 (scaleVec_inj k hk a b h)⟩
    simp only [scaleVec]
    exact mul_le_mul_of_nonneg_left (h1 i) (le_of_lt (hk i))

/-- **Multiplying coordinates by positive factors maps the Pareto front to the Pareto front.**  Hence the optimum of
each cost scales as the cost does, and no mapping enters or leaves the front. -/
theorem front_scale {n : Nat} (k : Fin n → Rat) (hk : ∀ i, 0 < k i) (S : List (Fin n → Rat)) (x : Fin n → Rat) :
    IsFront (S.map (scaleVec k)) (scaleVec k x) ↔ IsFront S x := by
  constructor
  · rintro ⟨h1, h2⟩
    obtain ⟨x', hx', he⟩ := List.mem_map.1 h1
    have hxx : x' = x := scaleVec_inj k hk x' x he
    subst hxx
    exact ⟨hx', fun y hy hd => h2 (scaleVec k y) (List.mem_map.2 ⟨y, hy, rfl⟩) ((dom_scale k hk y x').2 hd)⟩
  · rintro ⟨h1, h2⟩
    refine ⟨List.mem_map.2 ⟨x, h1, rfl⟩, ?_⟩
    intro y hy hd
    obtain ⟨y', hy', rfl⟩ := List.mem_map.1 hy
    exact h2 y' hy' ((dom_scale k hk y' x).1 hd)

end AFV.C19
