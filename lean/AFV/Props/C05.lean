import AFV.Model.Nest
import AFV.Spec.NestExec
/-!
# C05 — model action counts, energy and latency = explicit LoopTree execution
-/
namespace AFV.C05
open AFV.Nest AFV.NestExec

/-- The model's `_get_values_per_action` follows the documented precedence. -/
theorem values_per_action_precedence (lv : Level Rat) (a : Act Rat) (t : TId) (bpv : Rat) :
    valuesPerAction lv a t bpv = valuesPerActionSpec lv a t bpv := by
  unfold valuesPerAction valuesPerActionSpec
  cases h1 : lookup a.vpa t <;> cases h2 : lookup lv.vpa t <;> cases h3 : a.bpa <;> cases h4 : lv.bpa <;> simp

end AFV.C05
