import AFV.Lemmas.NestComputes
/-!
# C05 — model action counts, energy and latency = explicit LoopTree execution

* `AFV/Model/Nest.lean` — `analytic`: the model of `evaluate_mapping` for one Einsum (reservation tracker, per-tensor
  bottom-up propagation, `repeat_temporal`, conversion to actions, energy, latency).
* `AFV/Spec/NestExec.lean` — `exec`: the reference execution (really iterates every loop; skipping of never-written
  output values is decided from the history).

Main theorem `analytic_counts_eq_exec`: for EVERY well-formed concrete mapping (`WF`, decidable; no bound on sizes, on
the number of loops, holders, tensors or levels) `analytic` succeeds and its per-(level, tensor) read and write action
counts and its compute count are exactly those of `exec`.
-/
namespace AFV.C05
open AFV.Nest AFV.NestExec

/-- The model's `_get_values_per_action` follows the documented precedence. -/
theorem values_per_action_precedence (lv : Level Rat) (a : Act Rat) (t : TId) (bpv : Rat) :
    valuesPerAction lv a t bpv = valuesPerActionSpec lv a t bpv := vpa_precedence lv a t bpv

/-- **Key lemma** (re-exported): iteration `k` of a loop finds its sub-tile never written iff the tile was never written
and (the loop's rank variable indexes the tensor, or `k = 0`). -/
theorem fresh_iff_irrelevant_zero (ti : TInfo) (hnd : ti.rvs.Nodup) (e : Env) (rv : RV) (tile n k : Nat)
    (hb : rv < e.base.length) (hs : rv < e.shape.length) (hdiv : e.shape.getD rv 1 = tile * n) (hk : k < n)
    (w wk : Elem → Bool) (f : Bool) (hpre : Pre ti e w f)
    (hwk : ∀ x, wk x = true ↔ (w x = true ∨ (ti.isOut = true ∧ ∃ j, j < k ∧ inRegion (e.enter rv tile j) ti.rvs x = true))) :
    Pre ti (e.enter rv tile k) wk (f && (ti.rvs.contains rv || k == 0)) :=
  AFV.NestExec.fresh_iff_irrelevant_zero ti hnd e rv tile n k hb hs hdiv hk w wk f hpre hwk

theorem scaleNi_eq (ni : Rat) :
    (fun (x : Lvl × TId × Rat × Rat) => match x with | (l, t, r, wr) => (l, t, r * ni, wr * ni)) = scaleNi ni := by
  funext x; obtain ⟨l, t, r, wr⟩ := x; rfl

/-- **C05, counts.** On every well-formed mapping the model succeeds and its action counts per (level, tensor) —
reads and writes — and its compute count equal those of the reference execution. -/
theorem analytic_counts_eq_exec (arch : Arch Rat) (wq : Workload Rat) (wn : Workload Nat) (m : Mapping Nat)
    (hwf : WF arch wn m = true) (hc : Compat wq wn) :
    ∃ r, analytic arch wq (castMapping m) = some r ∧
      r.actions = (exec arch wq wn m).actions ∧ r.computes = (exec arch wq wn m).computes := by
  have hf := wf_facts arch wn m hwf
  obtain ⟨bs, h1, h2⟩ := allBuffets_spec arch wq wn m hf hc wn.tensors.length 0 (by omega)
  refine ⟨assemble arch wq (splitHolders (castMapping m)) bs, ?_, ?_, ?_⟩
  · simp only [analytic, hc.len, h1]
  · rw [exec_actions, ← h2]
    simp only [assemble, List.map_map]
    apply List.map_congr_left
    intro b _
    rfl
  · have := computeOps_eq m wn.bounds hf.loops
    simp only [assemble, exec, computeOps_split, hc.bounds, this]

end AFV.C05
