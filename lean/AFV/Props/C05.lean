import AFV.Lemmas.NestCosts2
/-!
# C05 — model action counts, energy and latency = explicit LoopTree execution

* `AFV/Model/Nest.lean` — `analytic`: the model of `evaluate_mapping` for one Einsum (reservation tracker, per-tensor
  bottom-up propagation, `repeat_temporal`, conversion to actions, energy, latency).
* `AFV/Spec/NestExec.lean` — `exec`: the reference execution (really iterates every loop; skipping of never-written
  output values is decided from the history).

Main theorem `analytic_counts_eq_exec`: for EVERY well-formed concrete mapping (`WF`, decidable; no bound on sizes, on
the number of loops, holders, tensors or levels) `analytic` succeeds and its per-(level, tensor) read and write action
counts and its compute count are exactly those of `exec`.
-/
namespace AFV.C05
open AFV.Nest AFV.NestExec

/-- The model's `_get_values_per_action` follows the documented precedence. -/
theorem values_per_action_precedence (lv : Level Rat) (a : Act Rat) (t : TId) (bpv : Rat) :
    valuesPerAction lv a t bpv = valuesPerActionSpec lv a t bpv := vpa_precedence lv a t bpv

/-- **Key lemma** (re-exported): iteration `k` of a loop finds its sub-tile never written iff the tile was never written
and (the loop's rank variable indexes the tensor, or `k = 0`). -/
theorem fresh_iff_irrelevant_zero (ti : TInfo) (hnd : ti.rvs.Nodup) (e : Env) (rv : RV) (tile n k : Nat)
    (hb : rv < e.base.length) (hs : rv < e.shape.length) (hdiv : e.shape.getD rv 1 = tile * n) (hk : k < n)
    (w wk : Elem → Bool) (f : Bool) (hpre : Pre ti e w f)
    (hwk : ∀ x, wk x = true ↔ (w x = true ∨ (ti.isOut = true ∧ ∃ j, j < k ∧ inRegion (e.enter rv tile j) ti.rvs x = true))) :
    Pre ti (e.enter rv tile k) wk (f && (ti.rvs.contains rv || k == 0)) :=
  AFV.NestExec.fresh_iff_irrelevant_zero ti hnd e rv tile n k hb hs hdiv hk w wk f hpre hwk

theorem scaleNi_eq (ni : Rat) :
    (fun (x : Lvl × TId × Rat × Rat) => match x with | (l, t, r, wr) => (l, t, r * ni, wr * ni)) = scaleNi ni := by
  funext x; obtain ⟨l, t, r, wr⟩ := x; rfl

/-- **C05, counts.** On every well-formed mapping the model succeeds and its action counts per (level, tensor) —
reads and writes — and its compute count equal those of the reference execution. -/
theorem analytic_counts_eq_exec (arch : Arch Rat) (wq : Workload Rat) (wn : Workload Nat) (m : Mapping Nat)
    (hwf : WF arch wn m = true) (hc : Compat wq wn) :
    ∃ r, analytic arch wq (castMapping m) = some r ∧
      r.actions = (exec arch wq wn m).actions ∧ r.computes = (exec arch wq wn m).computes := by
  have hf := wf_facts arch wn m hwf
  obtain ⟨bs, h1, h2⟩ := allBuffets_spec arch wq wn m hf hc wn.tensors.length 0 (by omega)
  refine ⟨assemble arch wq (splitHolders (castMapping m)) bs, ?_, ?_, ?_⟩
  · simp only [analytic, hc.len, h1]
  · rw [exec_actions, ← h2]
    simp only [assemble, List.map_map]
    apply List.map_congr_left
    intro b _
    rfl
  · have := computeOps_eq m wn.bounds hf.loops
    simp only [assemble, exec, computeOps_split, hc.bounds, this]

/-- **C05, full statement.** On every well-formed mapping the model succeeds and every C05 observable — action counts per
(level, tensor), compute count, latency per component, overall latency (max over components of Σ n_calls / throughput),
dynamic energy (Σ count × per-action energy), leak energy (leak power × latency), total energy — equals the result of
the reference execution with the documented conversion rules. -/
theorem analytic_eq_exec (arch : Arch Rat) (wq : Workload Rat) (wn : Workload Nat) (m : Mapping Nat)
    (hwf : WF arch wn m = true) (hc : Compat wq wn) :
    ∃ r, analytic arch wq (castMapping m) = some r ∧
      r.actions = (exec arch wq wn m).actions ∧ r.computes = (exec arch wq wn m).computes ∧
      r.latencies = (exec arch wq wn m).latencies ∧ r.computeLatency = (exec arch wq wn m).computeLatency ∧
      r.totalLatency = (exec arch wq wn m).totalLatency ∧ r.dynamicEnergy = (exec arch wq wn m).dynamicEnergy ∧
      r.leakEnergy = (exec arch wq wn m).leakEnergy ∧ r.totalEnergy = (exec arch wq wn m).totalEnergy := by
  have hf := wf_facts arch wn m hwf
  obtain ⟨bs, h1, h2⟩ := allBuffets_spec arch wq wn m hf hc wn.tensors.length 0 (by omega)
  refine ⟨assemble arch wq (splitHolders (castMapping m)) bs, by simp only [analytic, hc.len, h1], ?_⟩
  have hops : computeOps wq.bounds (splitHolders (castMapping m)) * arch.compute.actionsScale
      = (execComputes m wn.bounds : Rat) * arch.compute.actionsScale := by
    rw [computeOps_split, hc.bounds, computeOps_eq m wn.bounds hf.loops]
  have hA := assemble_costs arch wq (splitHolders (castMapping m)) bs
  simp only [h2, hops, ← exec_eq_costs] at hA
  exact hA

/-- Latency: per component Σ n_calls / throughput (default `total_latency`), overall = the maximum (`latency_def`). -/
theorem latency_def (arch : Arch Rat) (wq : Workload Rat) (wn : Workload Nat) (m : Mapping Nat)
    (hwf : WF arch wn m = true) (hc : Compat wq wn) :
    ∃ r, analytic arch wq (castMapping m) = some r ∧ r.latencies = (exec arch wq wn m).latencies ∧
      r.computeLatency = (exec arch wq wn m).computeLatency ∧ r.totalLatency = (exec arch wq wn m).totalLatency := by
  obtain ⟨r, h, _, _, h3, h4, h5, _⟩ := analytic_eq_exec arch wq wn m hwf hc
  exact ⟨r, h, h3, h4, h5⟩

/-- Energy = Σ count × per-action energy + leak power × latency (`energy_def`). -/
theorem energy_def (arch : Arch Rat) (wq : Workload Rat) (wn : Workload Nat) (m : Mapping Nat)
    (hwf : WF arch wn m = true) (hc : Compat wq wn) :
    ∃ r, analytic arch wq (castMapping m) = some r ∧ r.dynamicEnergy = (exec arch wq wn m).dynamicEnergy ∧
      r.leakEnergy = (exec arch wq wn m).leakEnergy ∧ r.totalEnergy = (exec arch wq wn m).totalEnergy ∧
      r.totalEnergy = r.leakEnergy + r.dynamicEnergy := by
  obtain ⟨r, h, _, _, _, _, _, h6, h7, h8⟩ := analytic_eq_exec arch wq wn m hwf hc
  refine ⟨r, h, h6, h7, h8, ?_⟩
  rw [h8, h6, h7]; rfl

/-! ## Non-vacuity: a concrete matmul mapping (Z[m,n] += A[m,k]·B[k,n], output refetched below the irrelevant loop k,
a Toll between the two memories, bits-per-action overrides) satisfies every hypothesis. -/

def exAct : Act Rat := { energy := 1, throughput := 2 }
def exMem (skip : Bool) : Level Rat :=
  { isToll := false, size := 4096, leak := 1, actionsScale := 1, skipInitial := skip, bpvOv := [(0, 4)], bpa := some 16,
    vpa := [], read := exAct, write := { exAct with bpa := some 32 }, dir := [] }
def exToll : Level Rat :=
  { isToll := true, size := 1, leak := 0, actionsScale := 1, skipInitial := true, bpvOv := [], bpa := none, vpa := [],
    read := exAct, write := exAct, dir := [(0, Dir.down), (1, Dir.upDown), (2, Dir.up)] }
def exArch : Arch Rat :=
  { levels := [exMem true, exToll, exMem false],
    compute := { energy := 1, throughput := 1, leak := 0, actionsScale := 1, skipInitial := true } }
def exTensorsN : List (TensorSpec Nat) :=
  [{ rvs := [0, 1], isOutput := false, bpv := 1 }, { rvs := [1, 2], isOutput := false, bpv := 1 },
   { rvs := [0, 2], isOutput := true, bpv := 1 }]
def exWn : Workload Nat := { bounds := [4, 6, 2], tensors := exTensorsN, nInstances := 1 }
def exWq : Workload Rat :=
  { bounds := [4, 6, 2],
    tensors := [{ rvs := [0, 1], isOutput := false, bpv := 8 }, { rvs := [1, 2], isOutput := false, bpv := 8 },
                { rvs := [0, 2], isOutput := true, bpv := 8 }],
    nInstances := 3 }
def exMap : Mapping Nat :=
  [.storage 0 [0, 1, 2] true, .loop 0 2, .toll 1 [0, 2] true, .storage 2 [0, 2] true, .loop 1 1, .storage 2 [1] true,
   .loop 2 1, .loop 0 1, .compute]

example : WF exArch exWn exMap = true := by decide

theorem example_compat : Compat exWq exWn := by
  refine ⟨by simp [exWq, exWn], rfl, ?_, ?_⟩ <;> intro t <;>
    (match t with
     | 0 => rfl
     | 1 => rfl
     | 2 => rfl
     | (n + 3) => rfl)

example : ∃ r, analytic exArch exWq (castMapping exMap) = some r ∧ r.actions = (exec exArch exWq exWn exMap).actions :=
  let ⟨r, h, ha, _⟩ := analytic_eq_exec exArch exWq exWn exMap (by decide) example_compat
  ⟨r, h, ha⟩

end AFV.C05
