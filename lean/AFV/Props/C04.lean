import AFV.Model.Fuse
/-!
# C04 — mapper-reported metrics equal the model's evaluation of the returned mapping

What is proved here (for all inputs): the totals the joiner reports — obtained by left-to-right pairwise
`merge_next` additions over the Einsum order — equal the totals computed directly from ALL per-Einsum breakdown
columns (energy: the flat sum of every energy column; latency: Σ_einsum max_component), whatever the number of
Einsums, and do not depend on the join order.  Hence "joiner total = sum of the per-Einsum model values".

What is NOT proved here and is tied by correspondence only (harness/props/c04.py, three-way comparison on every
returned row): that the model's evaluation of the *reconstructed fused tree* is the sum of the per-Einsum
evaluations (additivity of the cost model over a Sequential split), and the reservation/usage combination (C06).

PARTIAL: full statement = `∀ returned mapping m, joinerTotals m = modelTotals (tree m)`; the proved part is
`joined_eq_totals` below; the missing part is `modelTotals (tree m) = Σ_e modelTotals (branch_e m)`.
-/
namespace AFV.C04
open AFV.Fuse

theorem sum_foldl (l : List Int) (x : Int) : l.foldl (· + ·) x = x + sum l := by
  unfold AFV.Fuse.sum
  induction l generalizing x with
  | nil => simp
  | cons a t ih => simp only [List.foldl_cons]; rw [ih (x + a), ih (0 + a)]; omega

theorem sum_cons (a : Int) (l : List Int) : sum (a :: l) = a + sum l := by
  show (a :: l).foldl (· + ·) 0 = a + sum l
  rw [List.foldl_cons, sum_foldl]; omega

theorem sum_append (a b : List Int) : sum (a ++ b) = sum a + sum b := by
  induction a with
  | nil => simp [AFV.Fuse.sum]
  | cons x t ih => rw [List.cons_append, sum_cons, sum_cons, ih]; omega

theorem foldl_merge (ps : List Part) (acc : Obj) :
    ps.foldl (fun acc q => merge acc q.obj) acc =
      ⟨acc.energy + sum (ps.map Part.energy), acc.latency + sum (ps.map Part.latency)⟩ := by
  induction ps generalizing acc with
  | nil => simp [AFV.Fuse.sum]
  | cons p t ih =>
    simp only [List.foldl_cons, List.map_cons]
    rw [ih, sum_cons, sum_cons]
    simp only [merge, Part.obj]
    congr 1 <;> omega

theorem totalEnergy_eq (ps : List Part) : totalEnergy ps = sum (ps.map Part.energy) := by
  unfold totalEnergy
  induction ps with
  | nil => rfl
  | cons p t ih => simp only [List.flatMap_cons, List.map_cons]; rw [sum_append, sum_cons, ih]; rfl

/-- **Joiner totals = direct totals**, any number of Einsums. -/
theorem joined_eq_totals (ps : List Part) : joined ps = ⟨totalEnergy ps, totalLatency ps⟩ := by
  cases ps with
  | nil => rfl
  | cons p t =>
    simp only [joined]
    rw [foldl_merge, totalEnergy_eq]
    simp only [totalLatency, List.map_cons, sum_cons, Part.obj]

/-- The reported EDP is the product of the two totals. -/
theorem joined_edp (ps : List Part) : edp (joined ps) = totalEnergy ps * totalLatency ps := by
  rw [joined_eq_totals]; rfl

theorem sum_perm {a b : List Int} (h : a.Perm b) : sum a = sum b := by
  induction h with
  | nil => rfl
  | cons x _ ih => rw [sum_cons, sum_cons, ih]
  | swap x y l => rw [sum_cons, sum_cons, sum_cons, sum_cons]; omega
  | trans _ _ ih1 ih2 => rw [ih1, ih2]

/-- **Join order is irrelevant** for the reported totals. -/
theorem joined_perm {ps qs : List Part} (h : ps.Perm qs) : joined ps = joined qs := by
  rw [joined_eq_totals, joined_eq_totals, totalEnergy_eq, totalEnergy_eq]
  unfold totalLatency
  rw [sum_perm (h.map Part.energy), sum_perm (h.map Part.latency)]

/-- The driver's `sumOfMax` is the total latency of the parts with those component latencies. -/
theorem sumOfMax_eq_totalLatency (ps : List Part) : sumOfMax (ps.map (·.latencies)) = totalLatency ps := by
  unfold sumOfMax totalLatency
  simp only [List.map_map]
  rfl

/-- …and on singleton groups it is the plain sum (used for energy). -/
theorem sumOfMax_singletons (l : List Int) (h : ∀ x ∈ l, 0 ≤ x) : sumOfMax (l.map (fun x => [x])) = sum l := by
  unfold sumOfMax
  congr 1
  simp only [List.map_map]
  have : l.map (maxOf ∘ fun x => [x]) = l.map id := by
    apply List.map_congr_left
    intro x hx
    simp [Function.comp, maxOf, Int.max_eq_right (h x hx)]
  simpa using this

/-! non-vacuity -/
example : joined [⟨[3, 4], [5, 2]⟩, ⟨[10], [1, 7, 7]⟩, ⟨[], []⟩] = ⟨17, 12⟩ := by decide
example : totalEnergy [⟨[3, 4], [5, 2]⟩, ⟨[10], [1, 7, 7]⟩] = 17 ∧ totalLatency [⟨[3, 4], [5, 2]⟩, ⟨[10], [1, 7, 7]⟩] = 12 := by decide

end AFV.C04
