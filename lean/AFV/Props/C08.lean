import AFV.Model.TilePrune
import Mathlib.Data.Nat.Factorization.Defs
import Mathlib.Order.Basic
/-!
# C08 — tile-shape exploration prunes without losing any Pareto-optimal choice

ABSTRACT theorems about the pruning scheme of `get_tile_shape_choices`: partial tile assignments
`c : P` (the symbols enumerated so far), rests `r : R` (values of the symbols still to come),
complete assignments `(c, r)` with `r` allowed after `c` (`rest c r`), objective vectors
`obj c r : V` (objectives, reservation/usage columns, fused-loop tile shapes), a partial order `le`
on vectors (`≤` on `min` columns, `=` on `diff` columns), and a preorder `qle c' c`
("`c'` is at least as good as `c` on every tracked quantity").

* `tileprune_preserves_front` — if a kept subset `K` of the partial choices covers all of them
  w.r.t. `qle`, `qle`-better choices allow at least the same rests (`rest_mono`) and give
  objective vectors that are at least as good for the same rest (`obj_mono`), then the Pareto
  front of the completions of `K` has exactly the same objective vectors as that of all choices.
* `pareto_keep_covers` — the all-pairs Pareto filter on a finite list of partial choices is such a
  cover (every dropped choice is `qle`-dominated by a kept one).
* `quantities_sys` / `tileprune_front_quantities` — the concrete shape used by the code: tracked
  quantities `q c i` with goals `min` / `max` / `diff`; objectives `F (q c) r` depend on `c` only
  through the tracked quantities (dropped symbols do not occur), are monotone in each `min`/`max`
  quantity, `diff` quantities are equal; the admissible rests are monotone likewise.
* `min_per_prime_factor_iff_dvd`, `dvd_more_outer_choices` — `min_per_prime_factor` on a tile shape is
  divisibility, and a divisor admits every outer tile shape the multiple admits (perfect factorisation).
* `validity_prune_sound` — dropping a choice whose lower bound on a must-be-≤-`max_value` quantity
  already exceeds it removes no valid completion.
* `goal_or_sound` — `Goal.__or__` only ever moves to a goal that blocks at least as much pruning
  (min ⊂ min_per_prime_factor ⊂ diff, max ⊂ max_per_prime_factor ⊂ diff).

* `joined_proxy_counterexample` — without `obj_mono` the theorem fails: tracking a sum of per-term
  proxies (what `_recombine_terms` does today) loses a front point.

NOT proved (established per sampled template by the harness): that the goals which
`make_evalable_objectives_from_formula` / `coalesce_symbols` derive with sympy satisfy `obj_mono`
(each claimed monotonicity is checked exhaustively on the box, shared with C09), and that padding
(`get_padded_choices`) yields lower bounds.
-/
namespace AFV.C08
open AFV.TilePrune

/-! ## the abstract pruning theorem -/

structure Sys (P R V : Type) where
  /-- `r` is an admissible continuation of the partial choice `c` -/
  rest : P → R → Prop
  obj : P → R → V
  le : V → V → Prop
  le_refl : ∀ v, le v v
  le_trans : ∀ a b c, le a b → le b c → le a c
  le_antisymm : ∀ a b, le a b → le b a → a = b
  /-- `c'` is at least as good as `c` on every tracked quantity -/
  qle : P → P → Prop
  rest_mono : ∀ c' c r, qle c' c → rest c r → rest c' r
  obj_mono : ∀ c' c r, qle c' c → rest c r → le (obj c' r) (obj c r)

variable {P R V : Type}

/-- objective vectors of the complete assignments that extend a choice in `cs` -/
def Sys.vals (S : Sys P R V) (cs : P → Prop) (v : V) : Prop := ∃ c r, cs c ∧ S.rest c r ∧ S.obj c r = v

def Sys.lt (S : Sys P R V) (a b : V) : Prop := S.le a b ∧ ¬ S.le b a

/-- the Pareto front, as a set of objective vectors -/
def Sys.front (S : Sys P R V) (cs : P → Prop) (v : V) : Prop := S.vals cs v ∧ ¬ ∃ w, S.vals cs w ∧ S.lt w v

/-- **Pruning partial choices down to a cover leaves the Pareto front of the complete assignments
unchanged** (as a set of objective vectors). -/
theorem tileprune_preserves_front (S : Sys P R V) (cs K : P → Prop) (hK : ∀ c, K c → cs c)
    (hcover : ∀ c, cs c → ∃ k, K k ∧ S.qle k c) : ∀ v, S.front cs v ↔ S.front K v := by
  have sub : ∀ v, S.vals K v → S.vals cs v := fun v ⟨c, r, hc, hr, hv⟩ => ⟨c, r, hK c hc, hr, hv⟩
  -- every vector of `cs` is weakly dominated by a vector of `K`
  have cov : ∀ v, S.vals cs v → ∃ w, S.vals K w ∧ S.le w v := by
    rintro v ⟨c, r, hc, hr, rfl⟩
    obtain ⟨k, hk, hq⟩ := hcover c hc
    exact ⟨S.obj k r, ⟨k, r, hk, S.rest_mono k c r hq hr, rfl⟩, S.obj_mono k c r hq hr⟩
  intro v
  constructor
  · rintro ⟨hv, hnd⟩
    obtain ⟨w, hw, hle⟩ := cov v hv
    have hvw : S.le v w := Classical.byContradiction fun h => hnd ⟨w, sub w hw, hle, h⟩
    have : w = v := S.le_antisymm w v hle hvw
    subst this
    exact ⟨hw, fun ⟨u, hu, hlt⟩ => hnd ⟨u, sub u hu, hlt⟩⟩
  · rintro ⟨hv, hnd⟩
    refine ⟨sub v hv, ?_⟩
    rintro ⟨u, hu, hule, hnvu⟩
    obtain ⟨w, hw, hwu⟩ := cov u hu
    exact hnd ⟨w, hw, S.le_trans w u v hwu hule, fun hvw => hnvu (S.le_trans v w u hvw hwu)⟩

/-! ## the all-pairs Pareto filter is a cover -/

theorem filter_length_lt {α : Type} (l : List α) (p q : α → Bool) (hpq : ∀ x, p x = true → q x = true)
    (y : α) (hy : y ∈ l) (hqy : q y = true) (hpy : p y = false) :
    (l.filter p).length < (l.filter q).length := by
  induction l with
  | nil => cases hy
  | cons a t ih =>
    have hle : ∀ t : List α, (t.filter p).length ≤ (t.filter q).length := by
      intro t
      induction t with
      | nil => simp
      | cons b t iht =>
        by_cases hb : p b = true
        · simp [List.filter, hb, hpq b hb, iht]
        · have hb' : p b = false := by simpa using hb
          by_cases hqb : q b = true
          · simp [List.filter, hb', hqb]; omega
          · have hqb' : q b = false := by simpa using hqb
            simp [List.filter, hb', hqb', iht]
    rcases List.mem_cons.mp hy with rfl | hyt
    · simp [List.filter, hqy, hpy]
      have := hle t
      omega
    · have := ih hyt
      by_cases ha : p a = true
      · simp [List.filter, ha, hpq a ha]; exact this
      · have ha' : p a = false := by simpa using ha
        by_cases hqa : q a = true
        · simp [List.filter, ha', hqa]; omega
        · have hqa' : q a = false := by simpa using hqa
          simp [List.filter, ha', hqa']; exact this

/-- Keeping exactly the choices of a finite list that no other choice strictly dominates covers the
list: every dropped choice is dominated by a kept one. (`qle` any decidable preorder.) -/
theorem pareto_keep_covers (l : List P) (qle : P → P → Bool)
    (hrefl : ∀ c, qle c c = true) (htrans : ∀ a b c, qle a b = true → qle b c = true → qle a c = true) :
    ∀ c, c ∈ l → ∃ k, (k ∈ l ∧ ¬ ∃ d, d ∈ l ∧ qle d k = true ∧ qle k d = false) ∧ qle k c = true := by
  -- strong induction on the number of strict dominators
  let strict : P → P → Bool := fun d c => qle d c && !qle c d
  have key : ∀ n c, c ∈ l → (l.filter fun d => strict d c).length = n →
      ∃ k, (k ∈ l ∧ ¬ ∃ d, d ∈ l ∧ qle d k = true ∧ qle k d = false) ∧ qle k c = true := by
    intro n
    induction n using Nat.strong_induction_on with
    | _ n ih =>
      intro c hc hn
      by_cases hdom : ∃ d, d ∈ l ∧ qle d c = true ∧ qle c d = false
      · obtain ⟨d, hd, hdc, hcd⟩ := hdom
        have hlt : (l.filter fun e => strict e d).length < (l.filter fun e => strict e c).length := by
          apply filter_length_lt l _ _ _ d hd
          · simp [strict, hdc, hcd]
          · simp [strict, hrefl d]
          · intro e he
            simp only [strict, Bool.and_eq_true, Bool.not_eq_true'] at he ⊢
            refine ⟨htrans e d c he.1 hdc, ?_⟩
            cases hce : qle c e with
            | false => rfl
            | true =>
              have := htrans c e d hce he.1
              rw [hcd] at this; cases this
        obtain ⟨k, hk, hkd⟩ := ih _ (hn ▸ hlt) d hd rfl
        exact ⟨k, hk, htrans k d c hkd hdc⟩
      · exact ⟨c, ⟨hc, hdom⟩, hrefl c⟩
  intro c hc
  exact key _ c hc rfl

/-! ## the concrete shape: tracked quantities with `min` / `max` / `diff` goals -/

inductive QGoal where
  | min | max | diff
  deriving DecidableEq, Repr

/-- value `x'` is at least as good as `x` for this goal -/
def QGoal.le {α : Type} [PartialOrder α] : QGoal → α → α → Prop
  | .min, x', x => x' ≤ x
  | .max, x', x => x ≤ x'
  | .diff, x', x => x' = x

theorem QGoal.le_refl {α : Type} [PartialOrder α] (g : QGoal) (x : α) : g.le x x := by
  cases g <;> simp [QGoal.le]

/-- The system built from tracked quantities: objectives and admissible rests depend on the partial
choice only through the quantities (`F (q c) r`, `A (q c) r`) — a symbol that is tracked by no
quantity ("dropped") cannot influence them — and are monotone in the goal order. -/
def quantitiesSys {P R ι κ α β : Type} [PartialOrder α] [PartialOrder β]
    (q : P → ι → α) (g : ι → QGoal) (F : (ι → α) → R → κ → β) (A : (ι → α) → R → Prop)
    (hF : ∀ x' x r, (∀ i, (g i).le (x' i) (x i)) → A x r → ∀ k, F x' r k ≤ F x r k)
    (hA : ∀ x' x r, (∀ i, (g i).le (x' i) (x i)) → A x r → A x' r) : Sys P R (κ → β) where
  rest c r := A (q c) r
  obj c r := F (q c) r
  le a b := ∀ k, a k ≤ b k
  le_refl _ _ := _root_.le_refl _
  le_trans _ _ _ h1 h2 k := _root_.le_trans (h1 k) (h2 k)
  le_antisymm a b h1 h2 := funext fun k => _root_.le_antisymm (h1 k) (h2 k)
  qle c' c := ∀ i, (g i).le (q c' i) (q c i)
  rest_mono c' c r h hr := hA _ _ r h hr
  obj_mono c' c r h hr := hF _ _ r h hr

/-- **Deleting partial choices that are dominated on the tracked quantities (min/max/diff goals)
leaves the Pareto front of the complete assignments unchanged**, provided every objective is
monotone in each `min`/`max` quantity, does not depend on anything untracked, `diff` quantities
are equal, and the better choice admits every continuation of the worse one. -/
theorem tileprune_front_quantities {P R ι κ α β : Type} [PartialOrder α] [PartialOrder β]
    (q : P → ι → α) (g : ι → QGoal) (F : (ι → α) → R → κ → β) (A : (ι → α) → R → Prop)
    (hF : ∀ x' x r, (∀ i, (g i).le (x' i) (x i)) → A x r → ∀ k, F x' r k ≤ F x r k)
    (hA : ∀ x' x r, (∀ i, (g i).le (x' i) (x i)) → A x r → A x' r)
    (cs K : P → Prop) (hK : ∀ c, K c → cs c)
    (hcover : ∀ c, cs c → ∃ k, K k ∧ ∀ i, (g i).le (q k i) (q c i)) :
    ∀ v, (quantitiesSys q g F A hF hA).front cs v ↔ (quantitiesSys q g F A hF hA).front K v :=
  tileprune_preserves_front (quantitiesSys q g F A hF hA) cs K hK hcover

/-- non-vacuity: two partial choices with tracked quantity 2 resp. 3 (goal `min`), one rest,
objective = quantity + rest: the front is the single vector 2 + r, with or without the dominated choice. -/
example : ∀ v, (quantitiesSys (P := Bool) (R := Unit) (ι := Unit) (κ := Unit) (α := Nat) (β := Nat)
      (fun c _ => if c then 2 else 3) (fun _ => .min) (fun x _ _ => x () + 10) (fun _ _ => True)
      (by intro x' x r h _ k; have := h (); simp [QGoal.le] at this; omega) (by intros; trivial)).front (fun _ => True) v ↔
    (quantitiesSys (P := Bool) (R := Unit) (ι := Unit) (κ := Unit) (α := Nat) (β := Nat)
      (fun c _ => if c then 2 else 3) (fun _ => .min) (fun x _ _ => x () + 10) (fun _ _ => True)
      (by intro x' x r h _ k; have := h (); simp [QGoal.le] at this; omega) (by intros; trivial)).front (fun c => c = true) v := by
  apply tileprune_front_quantities
  · intros; trivial
  · intro c _
    refine ⟨true, rfl, fun _ => ?_⟩
    cases c <;> simp [QGoal.le]

/-! ## `min_per_prime_factor` -/

/-- Minimising every prime exponent of a tile shape is the divisibility order. -/
theorem min_per_prime_factor_iff_dvd (a b : Nat) (ha : a ≠ 0) (hb : b ≠ 0) :
    (∀ p, a.factorization p ≤ b.factorization p) ↔ a ∣ b := by
  rw [← Nat.factorization_le_iff_dvd ha hb]
  exact Iff.rfl

/-- Perfect factorisation: a tile shape that divides another one admits every outer tile shape
the other one admits (`inner ∣ outer ∣ bound`), so the better choice keeps all continuations. -/
theorem dvd_more_outer_choices (s' s o bound : Nat) (h : s' ∣ s) (ho : s ∣ o ∧ o ∣ bound) :
    s' ∣ o ∧ o ∣ bound := ⟨Nat.dvd_trans h ho.1, ho.2⟩

/-! ## validity pruning -/

/-- Dropping a partial choice whose lower bound `lb c` on a quantity that must stay `≤ mx`
already exceeds `mx` removes no valid complete assignment. -/
theorem validity_prune_sound {β : Type} [Preorder β] (rest : P → R → Prop) (usage : P → R → β) (lb : P → β) (mx : β)
    (hlb : ∀ c r, rest c r → lb c ≤ usage c r) (cs : P → Prop) (c : P) (r : R) :
    (cs c ∧ rest c r ∧ usage c r ≤ mx) ↔ ((cs c ∧ ¬ mx < lb c) ∧ rest c r ∧ usage c r ≤ mx) := by
  constructor
  · rintro ⟨hc, hr, hu⟩
    exact ⟨⟨hc, fun hlt => absurd (lt_of_lt_of_le hlt (le_trans (hlb c r hr) hu)) (lt_irrefl _)⟩, hr, hu⟩
  · rintro ⟨⟨hc, _⟩, hr, hu⟩
    exact ⟨hc, hr, hu⟩

/-! ## `Goal.__or__` -/

/-- Combining two goals for the same tracked quantity never allows more pruning than either:
whenever the combined goal says "`x'` is at least as good as `x`", both original goals agree
(tile shapes are positive). -/
theorem goal_or_sound (g1 g2 : Goal) (x' x : Nat) (hx' : 0 < x') (hx : 0 < x)
    (h : (g1.or g2).dom x' x) : g1.dom x' x ∧ g2.dom x' x := by
  cases g1 <;> cases g2 <;> simp only [Goal.or, Goal.dom] at h ⊢ <;>
    first
    | exact ⟨trivial, trivial⟩
    | exact ⟨trivial, h⟩
    | exact ⟨h, trivial⟩
    | exact ⟨h, h⟩
    | exact ⟨Nat.le_of_dvd hx h, h⟩
    | exact ⟨h, Nat.le_of_dvd hx h⟩
    | exact ⟨Nat.le_of_dvd hx' h, h⟩
    | exact ⟨h, Nat.le_of_dvd hx' h⟩
    | (simp at h; subst h; simp)

theorem goal_or_comm (g1 g2 : Goal) : g1.or g2 = g2.or g1 := by
  cases g1 <;> cases g2 <;> rfl

example : Goal.min.or .minPpf = .minPpf ∧ Goal.min.or .max = .diff ∧ Goal.none.or .max = .max ∧
    Goal.maxPpf.or .max = .maxPpf ∧ Goal.minPpf.or .maxPpf = .diff := by decide

/-! ## why `obj_mono` cannot be dropped: the joined-proxy counterexample -/

/-- Two partial choices `A = false`, `B = true` (think `(s1, s2) = (1, 5)` and `(2, 1)`), two values of
the symbol still to come (`r = false`: 1, `r = true`: 8), objectives (usage, energy) with
usage `= s1 * (r + s2)` and energy `= 100 / r` rounded: -/
def cexObj : Bool → Bool → Nat × Nat
  | false, false => (6, 100)
  | false, true => (13, 12)
  | true, false => (4, 100)
  | true, true => (18, 12)

def cexLe (a b : Nat × Nat) : Prop := a.1 ≤ b.1 ∧ a.2 ≤ b.2

/-- **Tracking the joined proxy `s1*s2 + s1` (the unknown factor replaced by 1) is not enough**:
`B` beats `A` on it (4 < 6), so the Pareto filter keeps only `B` — and the vector `(13, 12)` that
`A` reaches with `r = 8` is on the front of all complete assignments but is lost. The hypothesis
of `tileprune_preserves_front` that fails is `obj_mono` (`usage B 8 = 18 > 13 = usage A 8`). -/
theorem joined_proxy_counterexample :
    (∃ c r, cexObj c r = (13, 12)) ∧
    (¬ ∃ c r, cexLe (cexObj c r) (13, 12) ∧ ¬ cexLe (13, 12) (cexObj c r)) ∧
    (¬ ∃ r, cexObj true r = (13, 12)) := by
  refine ⟨⟨false, true, rfl⟩, ?_, ?_⟩
  · rintro ⟨c, r, h1, h2⟩
    cases c <;> cases r <;> simp [cexObj, cexLe] at h1 h2
  · rintro ⟨r, h⟩
    cases r <;> simp [cexObj] at h

end AFV.C08
