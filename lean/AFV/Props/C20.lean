import AFV.Lemmas.SearchExamples
/-!
# C20 — results do not depend on scheduling, hashing or caching (abstract part)

What a theorem can say about schedules: every quantity the mapper derives from *unordered* collections
(rows arriving in any order from parallel jobs, groups listed in dict/set order, the `split_in_half`
fan-out used when there are fewer groups than workers, the order in which merged pieces complete) is a
function of the underlying *set*, as far as the returned front — a set of objective vectors — is
concerned. Which of several mappings with identical vectors is kept does depend on row order
(first-of-duplicates); mapping structures are therefore compared by the harness only for rows whose
vector is unique. Process scheduling, `PYTHONHASHSEED` and joblib's cache are explored by the harness.
(The index-tagged collection of job results is C32.)
-/
namespace AFV.C20
open AFV.Front AFV.Search

variable {K : Type} [DecidableEq K]

/-- **`front_perm`.** The front does not depend on the order of the rows. -/
theorem front_perm {A B : List Vec} (h : A.Perm B) : front A = front B := AFV.Front.front_perm h

/-- … nor on multiplicities: it is a function of the set of rows. -/
theorem front_set {A B : List Vec} (h : ∀ x, x ∈ A ↔ x ∈ B) : front A = front B := front_congr h

/-- **`front_of_union_fronts`.** Pruning two parts separately and then their concatenation is pruning
the whole. -/
theorem front_of_union_fronts (A B : List Vec) : front (A ++ B) = front (front A ++ front B) :=
  AFV.Front.front_of_union_fronts A B

/-- Any number of parts. -/
theorem front_of_parts (L : List (List Vec)) : front L.flatten = front (L.map front).flatten :=
  front_flatten_fronts L

/-- **Completion order.** Concatenating the parts in any order gives the same front. -/
theorem completion_order_irrelevant {L L' : List (List Vec)} (h : L.Perm L') :
    front L.flatten = front L'.flatten := front_flatten_perm h

/-- **`split_in_half` fan-out.** Splitting the left table of a join at *any* position, merging both
halves with the right table separately (each with its own capacity filter and Pareto pruning) and
pruning the concatenation gives the same table as the unsplit merge. -/
theorem split_in_half_sound (ops : Ops K) (cap : Int) (A B : List (Cand K)) (i : Nat) :
    SetEq (joinStep ops cap A B)
      (prune (joinStep ops cap (A.take i) B ++ joinStep ops cap (A.drop i) B)) := by
  have := joinStep_split ops cap (A.take i) (A.drop i) B
  rwa [List.take_append_drop] at this

/-- Repeated splitting (as the loop `for _ in range(n_procs - n_groups)` does) and any completion order
of the pieces. -/
theorem fanout_any_partition (ops : Ops K) (cap : Int) (parts : List (List (Cand K)))
    (B : List (Cand K)) :
    SetEq (joinStep ops cap parts.flatten B)
      (prune (parts.map (fun A => joinStep ops cap A B)).flatten) := by
  induction parts with
  | nil => simp [joinStep, cross, SetEq]
  | cons A rest ih =>
    simp only [List.flatten_cons, List.map_cons]
    refine (joinStep_split ops cap A rest.flatten B).trans ?_
    -- prune (J A ++ J rest.flatten) = prune (J A ++ prune(pieces)) = prune (J A ++ pieces)
    have h1 : Cov cle (joinStep ops cap A B ++ joinStep ops cap rest.flatten B)
        (joinStep ops cap A B ++ (rest.map (fun A => joinStep ops cap A B)).flatten) := by
      have hc : Cov cle (joinStep ops cap rest.flatten B)
          ((rest.map (fun A => joinStep ops cap A B)).flatten) :=
        (Cov.of_setEq cle_po ih).trans cle_po (cov_prune _)
      exact (Cov.refl cle_po _).append hc
    exact h1.frontL_eq cle_po

/-- The joined result depends only on the *sets* of rows of the per-Einsum tables: any permutation of
the rows of any table (e.g. rows delivered by workers in a different order) gives the same result. -/
theorem ffm_rows_order_irrelevant {ops : Ops K} (hr : RMono ops) (hc : CapClosed ops) (cap : Int)
    {tables tables' : List (List (Cand K))} (h : PermTables tables tables') :
    SetEq (ffm ops cap tables) (ffm ops cap tables') :=
  ffm_congr hr hc cap (sameTables_of_perm h)

/-- Grouping and the order in which groups are listed or consolidated (dict / set iteration order) are
irrelevant. -/
theorem consolidation_order_irrelevant {gs gs' : List (Group K)} (h : gs.Perm gs') :
    SetEq (flatten (consolidate gs)) (flatten (consolidate gs')) := consolidate_perm h

/-- The grouped pipeline with its groups listed in any order equals the reference join of the flattened
tables; hence any two listings give the same result. -/
theorem ffmG_listing_irrelevant {ops : Ops K} (hr : RMono ops) (hc : CapClosed ops) (cap : Int)
    {tables tables' : List (List (Group K))}
    (h : SameTables (tables.map flatten) (tables'.map flatten)) :
    SetEq (ffmG ops cap tables) (ffmG ops cap tables') :=
  ((ffmG_eq_joinExact hr hc cap tables).trans (joinExact_congr cap h)).trans
    (ffmG_eq_joinExact hr hc cap tables').symm

/-! ## Non-vacuity -/

example : front ([[3, 1], [1, 3], [2, 2], [3, 3]].reverse) = front [[3, 1], [1, 3], [2, 2], [3, 3]] ∧
    front [[3, 1], [1, 3], [2, 2], [3, 3]] = [[1, 3], [2, 2], [3, 1]] := by decide
-- splitting the example table of C13 after 2 rows and merging the halves separately
example : prune (joinStep opsChain 10 (exTables.head!.take 2) exTables[1]! ++
      joinStep opsChain 10 (exTables.head!.drop 2) exTables[1]!) =
    joinStep opsChain 10 exTables.head! exTables[1]! := by decide
-- what *does* depend on order: which of two rows with the same vector is met first (payloads are not
-- part of the model; the vector front is identical)
example : frontL leqAll [[1, 2], [2, 1], [1, 2]] = [[2, 1], [1, 2]] ∧
    frontL leqAll [[1, 2], [1, 2], [2, 1]] = [[1, 2], [2, 1]] ∧
    front [[1, 2], [2, 1], [1, 2]] = front [[1, 2], [1, 2], [2, 1]] := by decide

end AFV.C20
