import AFV.Lemmas.ParetoTable2
import AFV.Props.C11
/-!
# C12 — pmapping-table Pareto pruning respects objectives, reservations and tolerances

Model: `AFV.Pareto.makeparetoMask` (AFV/Model/ParetoTable.lean) follows `pareto.makepareto` and the column
classification of `df_convention.py`; it calls the C11 model `fastParetoMask`.
Spec : `AFV.Pareto.tableSpec` (AFV/Spec/ParetoTable.lean).

* `makepareto_zero_tol` — zero tolerance: the mask is exactly "not dominated within identical fused-loop tile
  shapes on objective + reservation columns, first of the rows equal on these columns" (under the C11
  hypotheses H-cast / H-sweep / H-key for the matrix handed to `fast_pareto_mask`).
* `const_cols_irrelevant` — constant columns never change the result.
* `tol_bound` — with rounding (tolerances), every row has a kept row with identical fused-loop shapes within the
  slack on every objective / reservation column, provided the rounding functions satisfy the pairwise contract
  `ρ a ≤ ρ b → within a b`; `bucket_contract` derives that contract from bucket intervals.
-/
namespace AFV.C12
open AFV.Pareto

theorem round_id (k : Kind) (c : List EV) : k.round Rounding.id c = c := by
  cases k <;> rfl

theorem filterMap_congr_mem {α β} {l : List α} {f g : α → Option β} (h : ∀ x ∈ l, f x = g x) :
    l.filterMap f = l.filterMap g := by
  induction l with
  | nil => rfl
  | cons x xs ih =>
    simp only [List.filterMap_cons, h x List.mem_cons_self, ih fun y hy => h y (List.mem_cons_of_mem _ hy)]

/-- the columns handed to `fast_pareto_mask` are the classified columns minus the constant ones. -/
theorem activeCols_eq_filter (n : Nat) (cl : List (Kind × List EV)) :
    activeCols Rounding.id n cl =
      (specCols Rounding.id cl).filter fun gc => !(decide (n ≤ 1) || isConst gc.2) := by
  unfold activeCols specCols
  rw [List.filter_filterMap]
  apply filterMap_congr_mem
  intro kc _
  split
  · rename_i h; simp [h]
  · rename_i g h
    simp only [h, round_id, Option.map_some, Option.filter_some]
    cases hc : (decide (n ≤ 1) || isConst kc.2) <;> simp

theorem tableSpec_nil (one : Int) (n : Nat) : tableSpec one [] n = firstOnly n := by
  unfold tableSpec firstOnly
  apply List.map_congr_left
  intro i _
  have h1 : ((List.range n).any fun j => tDominates one [] j i) = false := by
    apply List.any_eq_false.mpr; intro j _; simp [tDominates, tSame, tLeq]
  rw [h1]
  cases i with
  | zero => simp
  | succ k => simp [tEqual, List.range_succ]

/-- **constant columns never change the result**: dropping any set of columns that are constant over the
rows (in particular adding or removing constant objective / reservation / fused-loop columns) leaves the
specification's mask unchanged. -/
theorem const_cols_irrelevant (one : Int) (cols : List (Goal × List EV)) (n : Nat)
    (keep : Goal × List EV → Bool) (h : ∀ gc ∈ cols, keep gc = false → constOn n gc.2) :
    tableSpec one (cols.filter keep) n = tableSpec one cols n :=
  tableSpec_filter one cols n keep h

/-- **zero tolerance**: `makepareto` keeps exactly the rows that no row with identical fused-loop tile shapes
dominates on objective and reservation columns (first of the rows equal on those columns). -/
theorem makepareto_zero_tol (cfg : Cfg) (splitBy : List String) (n : Nat) (tab : List TCol)
    (cl : List (Kind × List EV)) (hcl : classified splitBy tab = some cl)
    (hlen : ∀ kc ∈ cl, kc.2.length = n) (h1 : 0 < cfg.one)
    (hcast : Hcast cfg ((activeCols Rounding.id n cl).map (·.1))
      (rowsOf ((activeCols Rounding.id n cl).map (·.2)) n) = true)
    (hsweep : Hsweep cfg ((activeCols Rounding.id n cl).map (·.1))
      (rowsOf ((activeCols Rounding.id n cl).map (·.2)) n) = true)
    (hkey : Hkey cfg ((activeCols Rounding.id n cl).map (·.1))
      (rowsOf ((activeCols Rounding.id n cl).map (·.2)) n) = true) :
    makeparetoMask cfg Rounding.id splitBy n tab = some (tableSpec cfg.one (specCols Rounding.id cl) n) := by
  unfold makeparetoMask
  rw [hcl]
  simp only [Option.map_some, Option.some.injEq]
  have hfilter : tableSpec cfg.one (activeCols Rounding.id n cl) n =
      tableSpec cfg.one (specCols Rounding.id cl) n := by
    rw [activeCols_eq_filter]
    apply tableSpec_filter
    intro gc hgc hk
    have hk : n ≤ 1 ∨ isConst gc.2 = true := by
      rcases Nat.lt_or_ge 1 n with h | h
      · right; simpa [Nat.not_le.mpr h] using hk
      · exact Or.inl h
    rcases hk with hk | hk
    · exact constOn_of_le_one _ hk
    · refine constOn_of_isConst ?_ hk
      unfold specCols at hgc
      obtain ⟨kc, hkc, hs⟩ := List.mem_filterMap.mp hgc
      cases hgoal : kc.1.goal with
      | none => simp [hgoal] at hs
      | some g =>
        simp only [hgoal, Option.map_some, Option.some.injEq, round_id] at hs
        rw [← hs]; exact hlen kc hkc
  by_cases hemp : (activeCols Rounding.id n cl).isEmpty = true
  · rw [if_pos hemp, ← hfilter]
    rw [List.isEmpty_iff] at hemp
    rw [hemp, tableSpec_nil]
  · rw [if_neg hemp, AFV.C11.fastParetoMask_exact cfg _ _ h1 hcast hsweep hkey, ← hfilter,
      tableSpec_eq_paretoMaskSpec]

/-
Full-strength statement (FALSE for the code as it is, because `fast_pareto_mask` violates C11 outside
H-cast / H-sweep / H-key):   makeparetoMask (stdCfg S) Rounding.id splitBy n tab = some (tableSpec … n)
for every well-shaped table.  `makepareto_zero_tol` is the proved part (`…_partial` alias below).
-/
theorem makepareto_zero_tol_partial (S : Nat) (splitBy : List String) (n : Nat) (tab : List TCol)
    (cl : List (Kind × List EV)) (hcl : classified splitBy tab = some cl)
    (hlen : ∀ kc ∈ cl, kc.2.length = n)
    (hcast : Hcast (stdCfg S) ((activeCols Rounding.id n cl).map (·.1))
      (rowsOf ((activeCols Rounding.id n cl).map (·.2)) n) = true)
    (hsweep : Hsweep (stdCfg S) ((activeCols Rounding.id n cl).map (·.1))
      (rowsOf ((activeCols Rounding.id n cl).map (·.2)) n) = true)
    (hkey : Hkey (stdCfg S) ((activeCols Rounding.id n cl).map (·.1))
      (rowsOf ((activeCols Rounding.id n cl).map (·.2)) n) = true) :
    makeparetoMask (stdCfg S) Rounding.id splitBy n tab =
      some (tableSpec (stdCfg S).one (specCols Rounding.id cl) n) :=
  makepareto_zero_tol (stdCfg S) splitBy n tab cl hcl hlen
    (by show (0 : Int) < 2 ^ S; exact Int.pow_pos (by decide)) hcast hsweep hkey

/-- **tolerance bound.**  Prune on rounded columns; under the pairwise contract of the rounding functions every
row `i` (in particular every dropped one) has a kept row `j` with identical fused-loop shapes and within the
slack on every objective / reservation column.  `tri` = (goal, original column, rounded column). -/
theorem tol_bound (one : Int) (tri : List (Goal × List EV × List EV)) (n : Nat)
    (within : Goal × List EV × List EV → Nat → Nat → Prop)
    (hg : ∀ t ∈ tri, t.1 = Goal.min ∨ t.1 = Goal.diff)
    (hdiff : ∀ t ∈ tri, t.1 = Goal.diff → t.2.2 = t.2.1)
    (hcontract : ∀ t ∈ tri, t.1 = Goal.min → ∀ j i, j < n → i < n →
      EV.le (cell t.2.2 j) (cell t.2.2 i) = true → within t j i)
    (i : Nat) (hi : i < n) :
    ∃ j, j < n ∧ (tableSpec one (tri.map fun t => (t.1, t.2.2)) n).getD j false = true ∧
      (∀ t ∈ tri, t.1 = Goal.diff → cell t.2.1 j = cell t.2.1 i) ∧
      (∀ t ∈ tri, t.1 = Goal.min → within t j i) :=
  tol_bound_cols one tri n within hg hdiff hcontract i hi

/-- **bucket contract ⇒ pairwise contract.**  If `ρ` is monotone in the bucket index `k`, every value lies in
its bucket `[lo (k x), hi (k x)]`, bucket tops are monotone, and the top of a bucket is within the slack `W` of
its bottom (for log buckets: `hi m ≤ (1+t)·lo m`), then `ρ a ≤ ρ b → W a b`. -/
theorem bucket_contract (k : EV → Int) (lo hi : Int → EV) (ρ : EV → EV) (W : EV → EV → Prop)
    (hρ : ∀ a b, EV.le (ρ a) (ρ b) = true → k a ≤ k b)
    (hb : ∀ x, EV.le (lo (k x)) x = true ∧ EV.le x (hi (k x)) = true)
    (hmono : ∀ m m', m ≤ m' → EV.le (hi m) (hi m') = true)
    (hW : ∀ a b m, EV.le a (hi m) = true → EV.le (lo m) b = true → W a b) :
    ∀ a b, EV.le (ρ a) (ρ b) = true → W a b := by
  intro a b h
  exact hW a b (k b) (EV.le_trans (hb a).2 (hmono _ _ (hρ a b h))) (hb b).1

/-! ## column classification: the `<SEP>` grammar on examples -/

example : classify [] "Total<SEP>e" = some .objective := by decide +kernel
example : classify [] "Totalx<SEP>e" = some .ignored := by decide +kernel
example : classify [] "reservation<SEP>B<SEP>2<SEP>left" = some .reservation := by decide +kernel
example : classify [] "reservation<SEP>B<SEP>2" = none := by decide +kernel
example : classify [] "reservation<SEP>B<SEP>x<SEP>left" = none := by decide +kernel
example : classify [] "fused_loop<SEP>t0" = some .split := by decide +kernel
example : classify [] "fused_loop<SEP>n_iterations<SEP>0" = some .ignored := by decide +kernel
example : classify ["tensor<SEP>A"] "tensor<SEP>A" = some .split := by decide +kernel

/-! ## non-vacuity -/

/-- a table with an objective, a reservation, a fused-loop, an iteration-count, a tensor and a constant
column: the mask is the specification's. -/
example :
    let tab : List TCol :=
      [⟨"Total<SEP>e", [.fin 3, .fin 2, .fin 3, .fin 5, .fin 1]⟩,
       ⟨"reservation<SEP>B<SEP>0<SEP>l", [.fin 1, .fin 1, .fin 1, .fin 0, .fin 9]⟩,
       ⟨"fused_loop<SEP>t", [.fin 4, .fin 4, .fin 4, .fin 4, .fin 8]⟩,
       ⟨"fused_loop<SEP>n_iterations", [.fin 2, .fin 2, .fin 2, .fin 2, .fin 1]⟩,
       ⟨"tensor<SEP>A", [.fin 0, .fin 1, .fin 2, .fin 3, .fin 4]⟩,
       ⟨"Total<SEP>l", [.fin 7, .fin 7, .fin 7, .fin 7, .fin 7]⟩]
    makeparetoMask (stdCfg 0) Rounding.id [] 5 tab = some [false, true, false, true, true] := by
  decide +kernel

end AFV.C12
