import AFV.Lemmas.SearchExamples
/-!
# C14 — join-stage accelerations never change the result (abstract part)

Model: `AFV.Search.staged` = `multi_strategy_join` / `join_strategy_2` / the tail of `join_pmappings`:
rounds with relaxed capacities `cap ≤ capᵢ` (the `excess_resource_tolerance` list, last round exact);
in each round a *dirty* join on tolerance-pruned inputs only produces thresholds, then the real join
runs with three row filters (capacity `limit_capacity`, `OptimalityThresholder`, lookahead); then
`finish`: concat + prune, `limit_capacity(finished=True)`, the rule that keeps or drops the reservation
columns, final `make_pareto`, and the acceptance test "no reservation column has a row above 1".
Reference: `joinExactV` = all valid combinations, final Pareto columns, front.

## FINDING (the full-strength statement is false on the unchanged tree)

    staged_eq_joinExact :  StagedHyp cfg n tables → (∀ c ∈ caps, cfg.cap ≤ c) →
                           (staged cfg caps tables).rows = joinExactV cfg tables        -- FALSE

`limit_capacity(finished=True)` drops a reservation column only if `tolerance == 0 or not any(col > 1)`.
With a relaxed capacity a row in `(1, 1+tol]` keeps the column alive; if the final `make_pareto` then
removes that row (dominated once the per-level columns have been merged), `multi_strategy_join`
accepts the table (`max ≤ 1`) **with the reservation column still in it**, and rows that are worse on
every requested objective but lower in reservation stay in the returned front. The exact join drops
the column and returns the objective front only. Witness: `staged_counterexample` below (it satisfies
every hypothesis of the partial theorems). Reproduction of the mechanism on the real class:

    import pandas as pd
    from accelforge.mapper.FFM._join_pmappings.pmapping_dataframe import PmappingDataframe
    def run(tol):
        df = pd.DataFrame({"Total<SEP>energy":[10.0,12.0,11.0],
                           "reservation<SEP>GLB<SEP>0<SEP>right":[0.9,1.1,0.5]})
        p = PmappingDataframe(df, 3, 3, ignored_resources=set(), drop_valid_reservations=True,
                              skip_pareto=True, excess_resource_tolerance=tol)
        p.limit_capacity(next_shared_loop_index=-1, finished=True)   # tail of join_pmappings
        p.free_to_loop_index(-2); p.make_pareto()
        return p.data
    print(run(0.2))   # 2 rows (energy 10 / res .9, energy 11 / res .5), max res <= 1 -> accepted
    print(run(0.0))   # 1 row  (energy 10)

In the model the effect is masked whenever the dirty round yields thresholds and there is a single
objective (every row strictly worse than the dirty best is filtered before `finish`); it appears when the
dirty round is skipped (`prune_with_tolerance` returns `None`), fails, or with several objectives.
Suggested minimal patch: in `multi_strategy_join`, when accepting `joined` without `RESOURCE_USAGE`,
drop the remaining reservation columns and re-run `make_pareto` (or make `limit_capacity(finished)`
filter rows `> 1` before deciding to keep a column).

What *is* proved, for every input (`StagedHyp` lists all hypotheses, see `Lemmas/SearchRound.lean`):
`staged_eq_joinExact_partial` (equality whenever the accepted round dropped its reservation columns),
`staged_objective_front` (the objective part of what is returned always has the exact front — so the
best objective and every objective vector of the exact front are right even in the defect case),
`staged_noGap` (no combination in a gap `(cap, capᵢ]` ⇒ full equality), `staged_valid`.
-/
namespace AFV.C14
open AFV.Front AFV.Search

variable {K : Type} [DecidableEq K]

/-- **`thresholder_sound`.** Let `S` be the full combinations that survive the filters `F` and `S'`
those that also survive the optimality filter with thresholds `T` (applied to every input row and to
every joined row). If `G` is an invariant of the tables and of joining, the compared vector of a part
is a lower bound of that of any combination containing it (non-negative summed objectives, growing
reservations), there is at least one compared column, and each threshold is weakly dominated by some
member of `S` satisfying the side condition `P` (thresholds are *achievable in the same search*), then
`S' ⊆ S` and every `s ∈ S` with `P s` has an `s' ∈ S'` with `P s'` that is at least as good in every
compared column. -/
theorem thresholder_sound {ops : Ops K} {G : Cand K → Prop} (hG : Closed ops G)
    {cv : Cand K → Vec} (hLB : LowerBound ops G cv) (hne : ∀ c, cv c ≠ [])
    (F : Filters K) (T : List Vec) (P : Cand K → Prop) (tables : List (List (Cand K)))
    (hGT : ∀ T' ∈ tables, ∀ x ∈ T', G x)
    (hT : ∀ t ∈ T, ∃ s ∈ surv ops F tables, P s ∧ leqAll (cv s) t = true) :
    (∀ s ∈ surv ops (F.withThr cv T) tables, s ∈ surv ops F tables) ∧
    ∀ s ∈ surv ops F tables, P s →
      ∃ s' ∈ surv ops (F.withThr cv T) tables, P s' ∧ leqAll (cv s') (cv s) = true :=
  AFV.Search.thresholder_sound hG hLB hne F T P tables hGT hT

/-- … hence the front on the compared columns is unchanged by the optimality filter. -/
theorem thresholder_front {ops : Ops K} {G : Cand K → Prop} (hG : Closed ops G)
    {cv : Cand K → Vec} (hLB : LowerBound ops G cv) (hne : ∀ c, cv c ≠ [])
    (F : Filters K) (T : List Vec) (tables : List (List (Cand K)))
    (hGT : ∀ T' ∈ tables, ∀ x ∈ T', G x)
    (hT : ∀ t ∈ T, ∃ s ∈ surv ops F tables, leqAll (cv s) t = true) :
    front ((surv ops (F.withThr cv T) tables).map cv) = front ((surv ops F tables).map cv) := by
  obtain ⟨hsub, hcov⟩ := AFV.Search.thresholder_sound hG hLB hne F T (fun _ => True) tables hGT
    (fun t ht => by obtain ⟨s, hs, hle⟩ := hT t ht; exact ⟨s, hs, trivial, hle⟩)
  apply front_eq_of_cover
  refine ⟨fun v hv => ?_, fun v hv => ?_⟩
  · obtain ⟨s, hs, rfl⟩ := List.mem_map.1 hv
    exact List.mem_map.2 ⟨s, hsub s hs, rfl⟩
  · obtain ⟨s, hs, rfl⟩ := List.mem_map.1 hv
    obtain ⟨s', hs', _, hle⟩ := hcov s hs trivial
    exact ⟨cv s', List.mem_map.2 ⟨s', hs', rfl⟩, hle⟩

/-- **`lookahead_sound`.** If the lookahead test is a necessary condition for joinability
(`MaySound`), eliminating joined groups with no possible partner in some later table leaves the set of
full combinations unchanged. -/
theorem lookahead_sound {ops : Ops K} {may : K → K → Bool} (hm : MaySound ops may)
    (F : Filters K) (tables : List (List (Cand K))) :
    SetEq (surv ops (F.withLook may) tables) (surv ops F tables) :=
  AFV.Search.lookahead_sound hm F tables

/-- **`excess_retry_sound`.** If the front of the combinations valid for a relaxed capacity `capᵢ ≥ cap`
contains no row above `cap`, it *is* the front of the combinations valid for `cap`. -/
theorem excess_retry_sound (ops : Ops K) {cap capi : Int} (hcap : cap ≤ capi)
    (tables : List (List (Cand K)))
    (hall : ∀ y ∈ joinExact ops capi tables, fits cap y.res = true) :
    SetEq (joinExact ops capi tables) (joinExact ops cap tables) := by
  have hcov : Cov cle (joinExact ops capi tables) (validCombos ops cap tables) := by
    refine ⟨fun y hy => ?_, fun x hx => ?_⟩
    · exact mem_validCombos_of_fits ops tables (mem_prune_subset hy) (hall y hy)
    · exact (cov_prune _).cov x (validCombos_mono_cap ops hcap tables hx)
  intro x
  have h1 := hcov.frontL_eq cle_po x
  have h2 : frontL cle (joinExact ops capi tables) = joinExact ops capi tables := frontL_idem _
  rw [h2] at h1
  exact h1

/-- Intermediate `limit_capacity` calls are harmless: combinations that are within capacity at the end
were within capacity at every intermediate step (`CapClosed`). -/
theorem intermediate_capacity_sound (ops : Ops K) (hc : CapClosed ops) (cap : Int)
    (tables : List (List (Cand K))) :
    SetEq ((surv ops (capFilter cap) tables).filter (fitsC cap)) (validCombos ops cap tables) :=
  surv_capFilter ops hc cap tables

/-- **`untracked_sound`.** Memories whose reservation columns can never decide the capacity test on a full
combination (`get_memories_to_track`: summed per-Einsum maxima ≤ capacity, or never reserved across a
fused loop) can be dropped from all tables before joining: the same combinations are valid, with the
same classes and objectives — hence the same objective front. (`π` deletes the columns; `ResHom` says the
reservation algebra treats memories independently.) -/
theorem untracked_sound {ops ops' : Ops K} {π : Vec → Vec} (h : ResHom ops ops' π) (cap : Int)
    (tables : List (List (Cand K)))
    (hnb : ∀ s ∈ allCombos ops tables, fits cap (π s.res) = fits cap s.res) :
    front ((validCombos ops' cap (tables.map (List.map (mapRes π)))).map (·.obj)) =
      front ((validCombos ops cap tables).map (·.obj)) := by
  rw [AFV.Search.untracked_sound h cap tables hnb, List.map_map]
  rfl

/-- **`staged_eq_joinExact_partial`.** Under `StagedHyp`, with every relaxed capacity at least the true
one: whenever the returned round did not retain reservation columns, the staged join returns exactly
the front of one exact, unaccelerated join. -/
theorem staged_eq_joinExact_partial {cfg : Cfg K} {n : Nat} {tables : List (List (Cand K))}
    (h : StagedHyp cfg n tables) (caps : List Int) (hcaps : ∀ c ∈ caps, cfg.cap ≤ c)
    (hret : (staged cfg caps tables).retained = false) :
    (staged cfg caps tables).rows = joinExactV cfg tables :=
  ((staged_spec h caps hcaps).1 hret).1

/-- With `RESOURCE_USAGE` requested (`dropRes = false`) there is no retry loop and no column dropping:
full equality, unconditionally. -/
theorem staged_eq_joinExact_resource_usage {cfg : Cfg K} {n : Nat}
    {tables : List (List (Cand K))} (h : StagedHyp cfg n tables) (hd : cfg.dropRes = false)
    (caps : List Int) : (staged cfg caps tables).rows = joinExactV cfg tables := by
  have heq : staged cfg caps tables = staged cfg [] tables := by simp [staged, hd]
  rw [heq]
  have hs := staged_spec h [] (fun c hc => by cases hc)
  cases hret : (staged cfg [] tables).retained with
  | false => exact (hs.1 hret).1
  | true => have := (hs.2 hret).1; rw [hd] at this; cases this

/-- **`staged_objective_front`.** For every input, the objective part of what the staged join returns
(`objPart`: the rows themselves, or their first `m` columns when reservation columns were retained) has
exactly the front of the exact join (when `RESOURCE_USAGE` is not requested). In particular the best
value of every objective, and every objective vector of the exact front, are returned — also in the
defect case, where additional, objective-dominated rows are returned as well. -/
theorem staged_objective_front {cfg : Cfg K} {n : Nat} {tables : List (List (Cand K))}
    (h : StagedHyp cfg n tables) (caps : List Int) (hcaps : ∀ c ∈ caps, cfg.cap ≤ c) :
    front (objPart cfg (staged cfg caps tables)) = joinExactV cfg tables :=
  staged_objPart_front h caps hcaps

/-- **`staged_noGap`.** If no full combination has a reservation in a gap `(cap, capᵢ]`, columns are
never retained and the staged join equals the exact join. -/
theorem staged_noGap {cfg : Cfg K} {n : Nat} {tables : List (List (Cand K))}
    (h : StagedHyp cfg n tables) (hd : cfg.dropRes = true) (caps : List Int)
    (hcaps : ∀ c ∈ caps, cfg.cap ≤ c)
    (hng : ∀ c ∈ caps, ∀ r ∈ validCombos cfg.ops c tables, fits cfg.cap r.res = true) :
    (staged cfg caps tables).rows = joinExactV cfg tables := by
  apply staged_eq_joinExact_partial h caps hcaps
  unfold staged
  rw [hd]
  exact stagedLoop_noGap h hd caps hcaps hng

/-- **`staged_valid`.** Every returned row is (the final columns of) a combination that is valid for the
*true* capacity — relaxed rounds never leak an over-capacity mapping. -/
theorem staged_valid {cfg : Cfg K} {n : Nat} {tables : List (List (Cand K))}
    (h : StagedHyp cfg n tables) (caps : List Int) (hcaps : ∀ c ∈ caps, cfg.cap ≤ c) :
    ∀ v ∈ (staged cfg caps tables).rows, ∃ s ∈ validCombos cfg.ops cfg.cap tables,
      v = finV cfg ((staged cfg caps tables).retained || !cfg.dropRes) s.row := by
  have hs := staged_spec h caps hcaps
  intro v hv
  cases hret : (staged cfg caps tables).retained with
  | false =>
    obtain ⟨s, hs', hvs⟩ := (hs.1 hret).2 v hv
    exact ⟨s, hs', by simpa [cvOf] using hvs⟩
  | true =>
    obtain ⟨s, hs', hvs⟩ := (hs.2 hret).2.2 v hv
    exact ⟨s, hs', by simpa using hvs⟩

/-! ## The witness, and non-vacuity -/

/-- `cfgEx` with a skipped dirty round (no thresholds): capacity 10, one objective, final column merge
by maximum. -/
def cfgW : Cfg Nat := { cfgEx with pick := fun _ => [] }

/-- Two Einsums. The combinations are `(E=10, res [9,3])`, `(E=12, res [5,11])`, `(E=11, res [7,4])`. -/
def tabW : List (List (Cand Nat)) :=
  [ [⟨0, [6], [5, 2]⟩, ⟨0, [8], [1, 10]⟩, ⟨0, [7], [3, 3]⟩], [⟨1, [4], [4, 1]⟩] ]

theorem cfgW_hyp : StagedHyp cfgW 1 tabW :=
  { cfgEx_hyp tabW (by decide) with pickSub := fun _ _ h => by cases h }

/-- **`staged_counterexample`.** An input satisfying every hypothesis (`StagedHyp`, relaxed capacity
`12 ≥ 10`) on which the staged join returns the rows `(10 | 9)` and `(11 | 7)` with the reservation
column retained, whereas the exact join returns `(10)` only: the model of the current code violates
the full-strength statement. The objective part is nevertheless right (`staged_objective_front`). -/
theorem staged_counterexample :
    StagedHyp cfgW 1 tabW ∧ (∀ c ∈ [12], cfgW.cap ≤ c) ∧
    staged cfgW [12] tabW = ⟨[[10, 9], [11, 7]], true, true⟩ ∧
    joinExactV cfgW tabW = [[10]] ∧
    (staged cfgW [12] tabW).rows ≠ joinExactV cfgW tabW :=
  ⟨cfgW_hyp, by decide, by decide, by decide, by decide⟩

-- the partial theorems apply to the witness (non-vacuity of their hypotheses) …
example : front (objPart cfgW (staged cfgW [12] tabW)) = [[10]] := by
  rw [staged_objective_front cfgW_hyp [12] (by decide)]; decide
-- … with an exact retry list the result is exact (the round with `capᵢ = cap` drops the columns)
example : (staged cfgW [] tabW) = ⟨[[10]], true, false⟩ := by decide
-- … and a relaxed round that leaves a row above capacity in the final front is rejected and retried
example : (round cfgW 12 [[⟨0, [6], [11]⟩, ⟨0, [9], [2]⟩]]).accepted = false ∧
    (staged cfgW [12] [[⟨0, [6], [11]⟩, ⟨0, [9], [2]⟩]]) = ⟨[[9]], true, false⟩ := by decide
-- thresholds really filter: with `cfgEx` (thresholds from the dirty round) the rows worse than the
-- dirty result are dropped before `finish`, and the result is exact
example : staged cfgEx [12] tabW = ⟨[[10]], true, false⟩ := by decide
example : MaySound opsChain mayAll := maySound_all _

/-- A join in which all Einsums must agree on a parity (think: the layout of a tensor shared by all of
them), with the lookahead test "same parity". -/
def opsParity : Ops Nat :=
  ⟨fun k l => if k % 2 = l % 2 then some l else none, fun _ _ r s => radd r s⟩
def mayParity (k d : Nat) : Bool := decide (k % 2 = d % 2)

-- a sound lookahead test that is not trivial: it does eliminate groups …
example : MaySound opsParity mayParity := by
  constructor
  · intro k l m h
    by_cases hkl : k % 2 = l % 2
    · simp [mayParity, hkl]
    · simp [opsParity, hkl] at h
  · intro k l m d h hmd
    by_cases hkl : k % 2 = l % 2
    · simp only [opsParity, hkl, if_true, Option.some.injEq] at h
      subst h
      simp only [mayParity, decide_eq_true_eq] at hmd ⊢
      omega
    · simp [opsParity, hkl] at h
example : lookKeep mayParity [[⟨2, [1], [1]⟩], [⟨3, [1], [1]⟩, ⟨5, [1], [1]⟩]] ⟨0, [1], [1]⟩ = false := by
  decide
-- … and, as `lookahead_sound` says, without changing the set of full combinations
example : surv opsParity ((capFilter 10).withLook mayParity)
      [[⟨0, [1], [1]⟩, ⟨1, [2], [1]⟩], [⟨2, [1], [1]⟩, ⟨3, [1], [2]⟩], [⟨5, [1], [1]⟩]] =
    [⟨5, [4], [4]⟩] := by decide

-- `untracked_sound`: deleting all but the first reservation column commutes with the example algebra,
-- and on this instance the deleted column never decides the capacity test
example : ResHom opsChain opsChain (List.take 1) :=
  ⟨fun _ _ => rfl, fun _ _ r s => by
    cases r with
    | nil => cases s <;> simp [opsChain, radd]
    | cons x xs => cases s <;> simp [opsChain, radd]⟩
example : ∀ s ∈ allCombos opsChain [[(⟨0, [6], [5, 2]⟩ : Cand Nat), ⟨0, [7], [9, 3]⟩], [⟨1, [4], [4, 1]⟩]],
    fits 10 ((List.take 1) s.res) = fits 10 s.res := by decide

end AFV.C14
