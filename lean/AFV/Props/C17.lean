import AFV.Lemmas.SearchExamples
/-!
# C17 — optima are consistent across metric combinations (abstract part)

`S` is the set of (energy, latency[, …]) vectors of all valid mappings (non-negative). The mapper run
with ENERGY|LATENCY returns `front S`; run with ENERGY alone it returns the front of the energy column;
with EDP alone the front of `energy × latency`.
-/
namespace AFV.C17
open AFV.Front AFV.Search

/-- **`metric_consistency`.** For every finite set of non-negative points: the minimum of column `i`
(energy: `i = 0`, latency: `i = 1`) over the front equals the minimum over the whole set, and the
minimum energy × latency over the front equals the minimum over the whole set. -/
theorem metric_consistency (S : List Vec) (hS : ∀ v ∈ S, ∀ x ∈ v, 0 ≤ x) :
    (∀ i, minOf (col i) (front S) = minOf (col i) S) ∧ minOf edp (front S) = minOf edp S :=
  AFV.Search.metric_consistency S hS

/-- The single-metric run (front of one column over all mappings) is determined by the multi-metric
front: it is the front of that column over the multi-metric front. No sign condition needed. -/
theorem single_metric_from_front (S : List Vec) (i : Nat) :
    front (S.map (fun v => [col i v])) = front ((front S).map (fun v => [col i v])) :=
  front_single_column S i

/-- The EDP-only run: the front of `[E·L]` over all mappings is the front of `[E·L]` over the
(energy, latency) front. -/
theorem edp_from_front (S : List Vec) (hS : ∀ v ∈ S, ∀ x ∈ v, 0 ≤ x) :
    front (S.map (fun v => [edp v])) = front ((front S).map (fun v => [edp v])) := by
  symm
  apply front_map_mono
  intro a ha b _ h
  simp [leqAll, edp_mono (hS a ha) h]

/-- **`edp_column`.** The column `_apply_edp_columns` adds is energy × latency, for every row and whatever
columns are deleted alongside. -/
theorem edp_column (wantE wantL : Bool) (e l : Int) (rest : Vec) :
    (applyEdp true wantE wantL (e :: l :: rest)).getLast? = some (e * l) :=
  AFV.Search.edp_column wantE wantL e l rest

/-- Without EDP in the metrics the table is left untouched. -/
theorem edp_not_requested (wantE wantL : Bool) (v : Vec) : applyEdp false wantE wantL v = v :=
  applyEdp_false wantE wantL v

/-- **`edp_reprune`.** Pruning on (E, L, …), applying `_apply_edp_columns`, pruning again = applying it to
all rows and pruning once. -/
theorem edp_reprune (wantEdp wantE wantL : Bool) (S : List Vec) (hS : ∀ v ∈ S, ∀ x ∈ v, 0 ≤ x) :
    front ((front S).map (applyEdp wantEdp wantE wantL)) =
      front (S.map (applyEdp wantEdp wantE wantL)) :=
  AFV.Search.edp_reprune wantEdp wantE wantL S hS

/-- The sign condition cannot be dropped: with a negative coordinate the EDP optimum may lie off the
front. -/
theorem edp_needs_nonneg : ∃ S : List Vec, minOf edp (front S) ≠ minOf edp S :=
  ⟨[[-2, -2], [-1, -1]], by decide⟩

/-! ## Non-vacuity -/

example : minOf (col 0) (front [[2, 8], [4, 4], [8, 2], [5, 5], [9, 9]]) = some 2 ∧
    minOf (col 1) (front [[2, 8], [4, 4], [8, 2], [5, 5], [9, 9]]) = some 2 ∧
    minOf edp (front [[2, 8], [4, 4], [8, 2], [5, 5], [9, 9]]) = some 16 ∧
    minOf edp [[2, 8], [4, 4], [8, 2], [5, 5], [9, 9]] = some 16 := by decide
example : applyEdp true true false [3, 4, 7] = [3, 7, 12] := by decide
example : applyEdp true false false [3, 4] = [12] := by decide

end AFV.C17
