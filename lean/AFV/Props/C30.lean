import AFV.Model.Network
import AFV.Spec.Routes
import AFV.Lemmas.LExprSound
import AFV.Lemmas.Routes
/-!
# C30 — network transfer costs match route enumeration

For data moved across a spatial fanout from a non-distributed source, the total hops and the
maximum per-link traffic reported by the topology models equal what one finds by routing every
value along the topology (`AFV/Spec/Routes.lean`: explicit lists of traversed links).

Structure.

* closed forms of the route enumeration, by induction on the fanout `n`, no bound:
  `mesh_unicast_total`, `mesh_unicast_maxlink`, `mesh_multicast_total`,
  `mesh_multicast_maxlink_partial`, `a2a_total`, `a2a_unicast_maxlink`,
  `a2a_multicast_maxlink_partial`, `mesh_longest_route`, `a2a_longest_route`;
* model = spec: the formulas the model of `_network.py` builds (`AFV/Model/Network.lean`),
  evaluated at any argument expressions whose values are `n`, `s`, `v`, give exactly the enumerated
  quantities: `mesh_model_*`, `a2a_model_*`;
* the tie of the generated obligations: `translator_transfer` (`equiv gen ref = true` checked by the
  kernel on every run ⇒ the exported Python formula and the model formula agree at every
  `n ≥ 1, s ≥ 1, v ≠ 0`), and `python_formula_matches_routes` which chains the two.

**Finding (kept, not loosened).**  For a multicast (irrelevant loop) with a *single* destination
(`shape_repeats = 1`: the destination is the source itself) nothing moves — total hops 0, no link
carries anything — but both topology models report `max_traffic = volume`.  The full statements

    mesh_model_multicast_maxtraffic :
      1 ≤ n → 1 ≤ s → 0 ≤ v → model max_traffic = meshMulticastMaxLink n s v
    a2a_model_multicast_maxtraffic :
      1 ≤ n → 0 ≤ v → model max_traffic = a2aMulticastMaxLink n v

are FALSE at `n = 1` (`*_counterexample` below); they are proved for `2 ≤ n` (`*_partial`).
-/
namespace AFV.C30
open AFV AFV.LExpr AFV.Network AFV.Routes

/-! ## closed forms of the route enumeration -/

/-- Mesh, unicast: `Σ_{k<n} k·s` link traversals, i.e. total hops `s·v·n(n-1)/2`. -/
theorem mesh_unicast_total (n s : Nat) (v : Rat) :
    meshUnicastTotal n s v = (s : Rat) * v * n * ((n : Rat) - 1) / 2 := by
  have h := two_mul_length_meshUnicast n s
  have h2 : (2 : Rat) * ((meshUnicastTraversals n s).length : Nat) = s * n * ((n : Rat) - 1) := by
    rcases n with _ | m
    · simp [meshUnicastTraversals_zero]
    · have : ((2 * (meshUnicastTraversals (m + 1) s).length : Nat) : Rat)
          = ((s * (m + 1) * (m + 1 - 1) : Nat) : Rat) := by rw [h]
      simp only [Nat.add_sub_cancel] at this
      push_cast at this ⊢
      linarith
  have h3 : (((meshUnicastTraversals n s).length : Nat) : Rat) = s * n * ((n : Rat) - 1) / 2 := by
    linarith
  unfold meshUnicastTotal totalTraffic
  rw [h3]; ring

/-- Mesh, unicast: the link next to the source carries the values of all `n-1` other destinations,
and no link carries more. -/
theorem mesh_unicast_maxlink (n s : Nat) (v : Rat) (hs : 1 ≤ s) (hv : 0 ≤ v) :
    meshUnicastMaxLink n s v = ((n - 1 : Nat) : Rat) * v := by
  unfold meshUnicastMaxLink
  rcases n with _ | _ | m
  · simp [meshUnicastTraversals_zero, maxLinkTraffic_nil]
  · simp [meshUnicastTraversals_succ, meshUnicastTraversals_zero, maxLinkTraffic_nil]
  · have hc := count_zero_meshUnicast (m + 1) s hs
    apply maxLinkTraffic_eq _ _ _ hv
    · intro l _; exact count_meshUnicast_le l (m + 1) s
    · refine ⟨0, ?_, hc⟩
      rw [← List.count_pos_iff]; omega

/-- Mesh, multicast: the shared value crosses each of the `(n-1)·s` links of the line once. -/
theorem mesh_multicast_total (n s : Nat) (v : Rat) :
    meshMulticastTotal n s v = (((n - 1) * s : Nat) : Rat) * v := by
  unfold meshMulticastTotal totalTraffic
  rw [meshMulticastTraversals_eq, List.length_range]

/-- Mesh, multicast: every used link carries the value exactly once — provided something moves
at all (`n ≥ 2`).  See the file header for `n = 1`. -/
theorem mesh_multicast_maxlink_partial (n s : Nat) (v : Rat) (hn : 2 ≤ n) (hs : 1 ≤ s)
    (hv : 0 ≤ v) : meshMulticastMaxLink n s v = v := by
  unfold meshMulticastMaxLink
  rw [meshMulticastTraversals_eq, maxLinkTraffic_nodup _ _ hv List.nodup_range]
  have : 0 < (n - 1) * s := Nat.mul_pos (by omega) hs
  have hne : List.range ((n - 1) * s) ≠ [] := by
    intro h
    have := congrArg List.length h
    simp at this
    omega
  simp [hne]

/-- With a single destination the enumeration finds no traffic on any link. -/
theorem mesh_multicast_maxlink_single (s : Nat) (v : Rat) : meshMulticastMaxLink 1 s v = 0 := by
  unfold meshMulticastMaxLink
  rw [meshMulticastTraversals_eq]
  simp [maxLinkTraffic_nil]

theorem mesh_longest_route (n s : Nat) (hn : 1 ≤ n) : meshLongestRoute n s = (n - 1) * s := by
  obtain ⟨m, rfl⟩ : ∃ m, n = m + 1 := ⟨n - 1, by omega⟩
  simpa using meshLongestRoute_succ m s

/-- All-to-all: one hop per delivery, `n-1` deliveries. -/
theorem a2a_total (n : Nat) (v : Rat) : a2aTotal n v = ((n - 1 : Nat) : Rat) * v := by
  unfold a2aTotal totalTraffic
  rw [length_a2aHops]

/-- All-to-all, unicast: the source's uplink carries all `n-1` distinct values. -/
theorem a2a_unicast_maxlink (n : Nat) (v : Rat) (hv : 0 ≤ v) :
    a2aUnicastMaxLink n v = ((n - 1 : Nat) : Rat) * v := by
  unfold a2aUnicastMaxLink
  rcases n with _ | _ | m
  · simp [a2aUnicastTraversals_zero, maxLinkTraffic_nil]
  · simp [a2aUnicastTraversals_one, maxLinkTraffic_nil]
  · have hc := count_up0_a2aUnicast (m + 1)
    apply maxLinkTraffic_eq _ _ _ hv
    · intro l _; exact count_a2aUnicast_le l (m + 1)
    · refine ⟨.up 0, ?_, hc⟩
      rw [← List.count_pos_iff]; omega

/-- All-to-all, multicast: the switch replicates, each used link carries the value once —
provided something moves at all (`n ≥ 2`). -/
theorem a2a_multicast_maxlink_partial (n : Nat) (v : Rat) (hn : 2 ≤ n) (hv : 0 ≤ v) :
    a2aMulticastMaxLink n v = v := by
  obtain ⟨m, rfl⟩ : ∃ m, n = m + 2 := ⟨n - 2, by omega⟩
  have hne : a2aMulticastTraversals (m + 2) ≠ [] := List.ne_nil_of_mem (up0_mem_a2aMulticast m)
  unfold a2aMulticastMaxLink
  unfold a2aMulticastTraversals at hne ⊢
  rw [maxLinkTraffic_nodup _ _ hv (usedOnce_nodup _ _ (a2aLinks_nodup _))]
  simp [hne]

theorem a2a_multicast_maxlink_single (v : Rat) : a2aMulticastMaxLink 1 v = 0 := by
  unfold a2aMulticastMaxLink a2aMulticastTraversals
  simp [a2aUnicastTraversals_one, usedOnce, maxLinkTraffic_nil]

theorem a2a_longest_route (n : Nat) (hn : 2 ≤ n) : a2aLongestRoute n = 1 := by
  obtain ⟨m, rfl⟩ : ∃ m, n = m + 2 := ⟨n - 2, by omega⟩
  unfold a2aLongestRoute a2aRoute
  have key : ∀ l : List Nat, l ≠ [] → (l.map (fun _ => [((0 : Nat), (0 : Nat))].length)).foldr max 0 = 1 := by
    intro l hl
    induction l with
    | nil => exact absurd rfl hl
    | cons a l ih =>
      by_cases h : l = []
      · subst h; simp
      · simp only [List.map_cons, List.foldr_cons, ih h]; simp
  have hne : a2aDeliveries (m + 2) ≠ [] := by
    rw [a2aDeliveries_succ_succ]; simp
  simpa using key _ hne

/-! ## model of `_network.py` = route enumeration

`ρ` is any assignment; `en es ev` are the argument expressions (symbols, numbers, or anything else)
whose values under `ρ` are the fanout `n`, the stride `s` and the volume `v`. -/

section model
-- every model theorem takes the same three hypotheses tying the argument expressions to (n, s, v),
-- whether or not the particular formula mentions all three
set_option linter.unusedSectionVars false
set_option linter.unusedSimpArgs false
variable (ρ : Nat → Rat) (en es ev : LExpr) (n s : Nat) (v : Rat)
variable (hn : eval ρ en = n) (hs : eval ρ es = s) (hv : eval ρ ev = v)
include hn hs hv

/-- Mesh, relevant loop: `total_cost = unicast_cost(n, s)·v` is the enumerated total. -/
theorem mesh_model_unicast_total :
    (meshPerLoop .relevant en es ev).map (fun p => eval ρ p.total) = some (meshUnicastTotal n s v) := by
  simp [meshPerLoop, unicastCost, arithmeticSum, hn, hs, hv, mesh_unicast_total]
  ring

/-- Mesh, relevant loop: `max_traffic = (n-1)·v` is the enumerated busiest-link traffic. -/
theorem mesh_model_unicast_maxtraffic (h1 : 1 ≤ n) (hs1 : 1 ≤ s) (hv0 : 0 ≤ v) :
    (meshPerLoop .relevant en es ev).map (fun p => eval ρ p.maxTraffic)
      = some (meshUnicastMaxLink n s v) := by
  simp [meshPerLoop, hn, hs, hv, mesh_unicast_maxlink n s v hs1 hv0, Nat.cast_sub h1]

/-- Mesh, irrelevant loop: `total_cost = multicast_cost(n, s)·v` is the enumerated total. -/
theorem mesh_model_multicast_total (h1 : 1 ≤ n) :
    (meshPerLoop .irrelevant en es ev).map (fun p => eval ρ p.total)
      = some (meshMulticastTotal n s v) := by
  simp [meshPerLoop, multicastCost, hn, hs, hv, mesh_multicast_total, Nat.cast_sub h1]

/-- Mesh, irrelevant loop: `max_traffic = v` is the enumerated busiest-link traffic when at least
one destination differs from the source. -/
theorem mesh_model_multicast_maxtraffic_partial (h2 : 2 ≤ n) (hs1 : 1 ≤ s) (hv0 : 0 ≤ v) :
    (meshPerLoop .irrelevant en es ev).map (fun p => eval ρ p.maxTraffic)
      = some (meshMulticastMaxLink n s v) := by
  simp [meshPerLoop, hn, hs, hv, mesh_multicast_maxlink_partial n s v h2 hs1 hv0]

/-- Mesh: the code's `max_hops = n·s` exceeds the longest enumerated route `(n-1)·s` by one stride.
(`max_hops` is not part of C30's statement; recorded so that the difference is explicit.) -/
theorem mesh_model_maxhops (rel : Relevancy) (hrel : rel ≠ .partiallyRelevant) (h1 : 1 ≤ n) :
    (meshPerLoop rel en es ev).map (fun p => eval ρ p.maxHops)
      = some ((meshLongestRoute n s : Nat) + (s : Rat)) := by
  rw [mesh_longest_route n s h1]
  cases rel <;> simp [meshPerLoop, hn, hs, Nat.cast_sub h1] at hrel ⊢ <;> ring

/-- All-to-all, both loop kinds: `total_cost = (n-1)·1·v` is one hop per delivery. -/
theorem a2a_model_total (rel : Relevancy) (hrel : rel ≠ .partiallyRelevant) (h1 : 1 ≤ n) :
    (a2aPerLoop rel en es ev).map (fun p => eval ρ p.total) = some (a2aTotal n v) := by
  cases rel <;> simp [a2aPerLoop, hopsPerTransfer, hn, hv, a2a_total, Nat.cast_sub h1] at hrel ⊢

/-- All-to-all, relevant loop: `max_traffic = (n-1)·v`, the source's uplink. -/
theorem a2a_model_unicast_maxtraffic (h1 : 1 ≤ n) (hv0 : 0 ≤ v) :
    (a2aPerLoop .relevant en es ev).map (fun p => eval ρ p.maxTraffic)
      = some (a2aUnicastMaxLink n v) := by
  simp [a2aPerLoop, hn, hv, a2a_unicast_maxlink n v hv0, Nat.cast_sub h1]

/-- All-to-all, irrelevant loop: `max_traffic = v` when at least one delivery happens. -/
theorem a2a_model_multicast_maxtraffic_partial (h2 : 2 ≤ n) (hv0 : 0 ≤ v) :
    (a2aPerLoop .irrelevant en es ev).map (fun p => eval ρ p.maxTraffic)
      = some (a2aMulticastMaxLink n v) := by
  simp [a2aPerLoop, hv, a2a_multicast_maxlink_partial n v h2 hv0]

/-- All-to-all: `max_hops = 1` is the length of every route (when there is one). -/
theorem a2a_model_maxhops (rel : Relevancy) (hrel : rel ≠ .partiallyRelevant) (h2 : 2 ≤ n) :
    (a2aPerLoop rel en es ev).map (fun p => eval ρ p.maxHops) = some ((a2aLongestRoute n : Nat) : Rat) := by
  rw [a2a_longest_route n h2]
  cases rel <;> simp [a2aPerLoop, hopsPerTransfer] at hrel ⊢

end model

/-- `PartiallyRelevant` raises `NotImplementedError` in both models. -/
theorem partially_relevant_not_implemented (t : Topology) (en es ev : LExpr) :
    perLoop t .partiallyRelevant en es ev = none := by
  cases t <;> rfl

/-! ## the finding: single-destination multicast -/

/-- Model (= code) reports `max_traffic = v` for a multicast to a single destination, while the
enumeration finds no traffic at all.  Concrete witness `n = 1, s = 1, v = 1`, mesh. -/
theorem mesh_multicast_maxtraffic_counterexample :
    (meshPerLoop .irrelevant (.num 1) (.num 1) (.num 1)).map (fun p => eval (assign []) p.maxTraffic)
        = some 1
      ∧ meshMulticastMaxLink 1 1 1 = 0 ∧ meshMulticastTotal 1 1 1 = 0 := by
  decide +kernel

/-- Same witness on the all-to-all switch. -/
theorem a2a_multicast_maxtraffic_counterexample :
    (a2aPerLoop .irrelevant (.num 1) (.num 1) (.num 1)).map (fun p => eval (assign []) p.maxTraffic)
        = some 1
      ∧ a2aMulticastMaxLink 1 1 = 0 ∧ a2aTotal 1 1 = 0 := by
  decide +kernel

/-! ## `accumulate_max_hops` -/

theorem HopState.get_set (st : HopState) (net k : Nat) (x : Rat) :
    (st.set net x).get k = if k = net then x else st.get k := by
  induction st with
  | nil =>
    by_cases h : k = net
    · subst h; simp [HopState.set, HopState.get]
    · have : (net == k) = false := by simpa using fun h' => h h'.symm
      simp [HopState.set, HopState.get, this, h]
  | cons p st ih =>
    obtain ⟨a, y⟩ := p
    unfold HopState.set
    by_cases ha : a = net
    · subst ha
      by_cases hk : k = a
      · subst hk; simp [HopState.get]
      · have : (a == k) = false := by simpa using fun h' => hk h'.symm
        simp [HopState.get, this, hk]
    · have hane : (a == net) = false := by simpa using ha
      simp only [hane, Bool.false_eq_true, if_false]
      by_cases hk : a = k
      · subst hk; simp [HopState.get, ha]
      · have : (a == k) = false := by simpa using hk
        have ih' := ih
        simp only [HopState.get] at ih' ⊢
        simp only [List.find?_cons, this]
        exact ih'

/-- Sum of the `max_hops` values passed for network `k`. -/
def hopsFor (k : Nat) (calls : List (Nat × Rat)) : Rat :=
  ((calls.filter (fun c => c.1 == k)).map (·.2)).foldr (· + ·) 0

/-- After any sequence of calls the running total of each network is the sum of the `max_hops`
values passed for that network (plus what it held before); other networks are untouched. -/
theorem accumulate_state (st : HopState) (calls : List (Nat × Rat)) (k : Nat) :
    (accumulateAll st calls).1.get k = st.get k + hopsFor k calls := by
  induction calls generalizing st with
  | nil => simp [accumulateAll, hopsFor]
  | cons c calls ih =>
    obtain ⟨net, h⟩ := c
    simp only [accumulateAll, accumulateMaxHops]
    rw [ih, HopState.get_set]
    by_cases hk : k = net
    · subst hk; simp [hopsFor]; ring
    · have : (net == k) = false := by simpa using fun h' => hk h'.symm
      simp [hopsFor, hk, this]

/-- Each call returns the updated running total of its own network. -/
theorem accumulate_returns (st : HopState) (net : Nat) (h : Rat) :
    (accumulateMaxHops st net h).2 = st.get net + h
      ∧ (accumulateMaxHops st net h).1.get net = st.get net + h := by
  simp [accumulateMaxHops, HopState.get_set]

/-! ## what a discharged generated obligation means -/

/-- `Gen/C30.lean` contains `example : LExpr.equiv gen ref = true := by decide +kernel` for every
formula `gen` exported from the live Python code.  A discharged obligation gives equality of the
two formulas at every fanout `≥ 1`, stride `≥ 1` and nonzero volume (symbols 0, 1, 2). -/
theorem translator_transfer (gen ref : LExpr) (h : equiv gen ref = true)
    (n s : Nat) (v : Rat) (hn : 1 ≤ n) (hs : 1 ≤ s) (hv : v ≠ 0) :
    eval (assign [(n : Rat), (s : Rat), v]) gen = eval (assign [(n : Rat), (s : Rat), v]) ref := by
  apply equiv_sound h
  apply assign_ne_zero
  intro x hx
  simp only [List.mem_cons, List.not_mem_nil, or_false] at hx
  rcases hx with rfl | rfl | rfl
  · exact_mod_cast (by omega : n ≠ 0)
  · exact_mod_cast (by omega : s ≠ 0)
  · exact hv

/-- The chain for one representative obligation: if the kernel accepted that the exported Python
formula for the mesh unicast total normalises like the model's, then the Python formula, evaluated
at ANY fanout, stride and nonzero volume, is the enumerated total.  (The other generated
obligations chain with the other `*_model_*` theorems in exactly the same way.) -/
theorem python_formula_matches_routes (gen : LExpr) (p : PerLoop)
    (hp : meshPerLoop .relevant (.sym 0) (.sym 1) (.sym 2) = some p)
    (h : equiv gen p.total = true)
    (n s : Nat) (v : Rat) (hn : 1 ≤ n) (hs : 1 ≤ s) (hv : v ≠ 0) :
    eval (assign [(n : Rat), (s : Rat), v]) gen = meshUnicastTotal n s v := by
  rw [translator_transfer gen p.total h n s v hn hs hv]
  have := mesh_model_unicast_total (assign [(n : Rat), (s : Rat), v]) (.sym 0) (.sym 1) (.sym 2)
    n s v (by simp [assign]) (by simp [assign]) (by simp [assign])
  rw [hp] at this
  simpa using this

/-! ## non-vacuity -/

example : meshUnicastTotal 4 2 10 = 120 ∧ meshUnicastMaxLink 4 2 10 = 30 := by decide +kernel
example : meshMulticastTotal 4 2 10 = 60 ∧ meshMulticastMaxLink 4 2 10 = 10 := by decide +kernel
example : a2aTotal 5 10 = 40 ∧ a2aUnicastMaxLink 5 10 = 40 ∧ a2aMulticastMaxLink 5 10 = 10 := by
  decide +kernel
example : meshLongestRoute 4 2 = 6 ∧ a2aLongestRoute 5 = 1 := by decide +kernel
/-- the hypotheses of the model theorems are satisfiable by symbols … -/
example : eval (assign [4, 2, 10]) (.sym 0) = (4 : Nat) ∧ eval (assign [4, 2, 10]) (.sym 1) = (2 : Nat)
    ∧ eval (assign [4, 2, 10]) (.sym 2) = 10 := by decide +kernel
/-- … and `translator_transfer` by a genuinely different-looking pair of formulas. -/
example : equiv (.add [.mul [.num (1/2), .pow (.sym 0) 2, .sym 1, .sym 2],
                       .mul [.num (-1/2), .sym 0, .sym 1, .sym 2]])
                (unicastCost (.sym 0) (.sym 1) * .sym 2) = true := by decide +kernel
example : (accumulateAll [] [(7, 3), (9, 1), (7, 4)]).2 = [3, 1, 7] := by decide +kernel

end AFV.C30
