import AFV.Lemmas.RenamesMerge
import AFV.Lemmas.SetFinal
/-!
# C29 — renames resolve with per-Einsum entries overriding defaults

Specified precedence (`SetSpec.resolve`): a name resolves to the FIRST definition among
(the Einsum's own renames, the top-level entries named like the Einsum, the top-level "default"
entries), entries taken in list order.

Model = the code after fix 9c6cc63 (`Renames.effectiveRenames` ← `Einsum._eval_expressions` calling
`renames.get_renames_for_einsum(self.name)`).

* `lookup_precedence`       for ALL inputs the definition the code evaluates for a name is the one
                            `resolve` selects
* `effective_eq_spec`, `table_eq_spec`, `effectiveSpec_find`
                            when no name is used both as tensor rename and as rank-variable rename
                            (`KindsDisjoint`, the domain of the judge) the whole evaluated list, in
                            order, and the resulting table are the specified ones
* `expected_count_checked`, `expected_count_mismatch_rejected`
-/
namespace AFV.C29
open AFV.SetAlg AFV.Renames AFV.SetSpec

/-- The specification itself, unfolded: first of (Einsum-local, top-level[e], top-level[default]). -/
theorem resolve_first_of (rs : List EinsumRename) (e : Einsum) (n : Name) :
    resolve rs e n =
      ((e.renames.find? (fun r => r.name == n)).or
        ((topLevelFor rs e.name).find? (fun r => r.name == n))).or
        ((topLevelFor rs "default").find? (fun r => r.name == n)) := by
  simp [resolve, candidates, List.find?_append, Option.or_assoc]

/-- **Precedence, full strength.** For every top-level section, every Einsum and every name: the
definition the code evaluates for the name is the first of (Einsum-local, top-level entries named
like the Einsum, top-level "default" entries). -/
theorem lookup_precedence (rs : List EinsumRename) (e : Einsum) (n : Name) :
    (effectiveRenames rs e).find? (fun r => r.name == n) = resolve rs e n := by
  have h := foundIn_getRenames rs e.name n
  simp only [foundIn] at h
  rw [resolve_first_of]
  simp only [effectiveRenames]
  rw [find_mergeInto, List.find?_append, find_mergeInto, List.find?_append, Option.or_assoc, h,
    Option.or_assoc]

/-- **Whole list.** If no name is used in both kinds and the Einsum's own rename names are distinct
(a YAML mapping guarantees it), the list of renames the code evaluates is exactly the specified
one, in the same order. -/
theorem effective_eq_spec (rs : List EinsumRename) (e : Einsum)
    (hkd : KindsDisjoint rs) (hnd : (e.renames.map (·.name)).Nodup) :
    effectiveRenames rs e = effectiveSpec rs e := by
  obtain ⟨hT, hR⟩ := getRenames_kindsDisjoint hkd e.name
  simp only [effectiveRenames, effectiveSpec]
  rw [mergeInto_mergeInto_eq hnd, List.append_assoc]
  apply dedupRenames_congr_right
  calc dedupRenames ((getRenamesForEinsum rs e.name).tensorAccesses ++
          (getRenamesForEinsum rs e.name).rankVariables)
      = dedupRenames ((topT rs e.name ++ topT rs "default") ++
          (getRenamesForEinsum rs e.name).rankVariables) := dedupRenames_congr_left _ hT
    _ = dedupRenames ((topT rs e.name ++ topT rs "default") ++
          (topR rs e.name ++ topR rs "default")) := dedupRenames_congr_right _ hR

/-- the specified evaluation list is consistent with `resolve` on the judge's domain -/
theorem effectiveSpec_find (rs : List EinsumRename) (e : Einsum) (n : Name)
    (hkd : KindsDisjoint rs) (hnd : (e.renames.map (·.name)).Nodup) :
    (effectiveSpec rs e).find? (fun r => r.name == n) = resolve rs e n := by
  rw [← effective_eq_spec rs e hkd hnd]; exact lookup_precedence rs e n

/-- **Whole table.** Under the same hypotheses the symbol table the Einsum's renames produce is the
specified one (stage 1: before the workload-level `persistent_tensors` step, see C22). -/
theorem table_eq_spec (w : Workload) (rs : List EinsumRename) (e : Einsum)
    (hkd : KindsDisjoint rs) (hnd : (e.renames.map (·.name)).Nodup) :
    einsumTable1 w rs e = specTable1 w rs e := by
  simp only [einsumTable1, specTable1, evaluatedRenames_eq_with, effective_eq_spec rs e hkd hnd]

/-- regression witness of the repaired defect: default `foo := Inputs`, entry `E0`: `foo := Outputs` -/
def cexRs : List EinsumRename :=
  [ { name := "default", tensorAccesses := [{ name := "foo", source := .name "Inputs", expectedCount := none }],
      rankVariables := [] },
    { name := "E0", tensorAccesses := [{ name := "foo", source := .name "Outputs", expectedCount := none }],
      rankVariables := [] } ]
def cexE : Einsum :=
  { name := "E0",
    accesses := [{ name := "A", output := false, persistent := false, rankVars := ["m"] },
                 { name := "B", output := true, persistent := false, rankVars := ["m"] }],
    renames := [] }
def cexW : Workload := { einsums := [cexE], persistentTensors := none }

/-- on the former counterexample the model now resolves `foo` to the per-Einsum source (= {B}) -/
example :
    ((effectiveRenames cexRs cexE).find? (fun r => r.name == "foo")).map (·.source) = some (.name "Outputs") ∧
    (match einsumTable cexW cexRs cexE with
     | .ok t => (lookup t "foo").map (·.inst) == some ["B"]
     | _ => false) = true := by
  decide

/-- two "default" entries giving `input` in different kinds (outside `KindsDisjoint`): the code, and
the model, keep the definition of the first entry in list order -/
example :
    ((effectiveRenames
        [ { name := "default", tensorAccesses := [], rankVariables := [⟨"input", .name "m", none⟩] },
          { name := "default", tensorAccesses := [⟨"input", .name "All", none⟩], rankVariables := [] } ]
        cexE).map (·.source)) = [.name "m"] := by
  decide

/-! ## expected_count -/

/-- **expected_count is checked.** If the rename list evaluates, every rename that states an
expected count resolved to a set of exactly that many elements (and the results are the renames'
names, in order). -/
theorem expected_count_checked {st : Table} {l : List Rename} {vs : List (Name × ISet)}
    (h : evalRenames st l = .ok vs) :
    List.Forall₂ (fun (r : Rename) (p : Name × ISet) =>
      p.1 = r.name ∧ ∀ k, r.expectedCount = some k → p.2.inst.length = k) l vs := by
  induction l generalizing st vs with
  | nil => simp [evalRenames] at h; subst h; exact .nil
  | cons r rest ih =>
    simp only [evalRenames, bind, Except.bind] at h
    cases hv : evalSetExpression st r.source (some spaceTensor) r.expectedCount with
    | error e => simp [hv] at h
    | ok v =>
      simp only [hv] at h
      cases hvs : evalRenames (insert st r.name v) rest with
      | error e => simp [hvs] at h
      | ok vs' =>
        simp only [hvs, pure, Except.pure, Except.ok.injEq] at h
        subst h
        refine .cons ⟨rfl, ?_⟩ (ih hvs)
        intro k hk
        -- the count check inside evalSetExpression
        unfold evalSetExpression at hv
        cases he : evalExpr st r.source with
        | error e => simp [he, bind, Except.bind] at hv
        | ok r' =>
          simp only [he, bind, Except.bind, hk] at hv
          by_cases hs : (r'.space != spaceTensor) = true
          · simp [hs, throw, throwThe, MonadExceptOf.throw] at hv
          · simp only [hs, Bool.false_eq_true, if_false, pure, Except.pure] at hv
            by_cases hc : (r'.inst.length != k) = true
            · simp [hc, throw, throwThe, MonadExceptOf.throw] at hv
            · simp only [hc, Bool.false_eq_true, if_false, Except.ok.injEq] at hv
              subst hv
              simpa using hc

/-- **A mismatching expected_count is rejected**, wherever the rename stands: if the renames before
it evaluate (to `vs`) and its source evaluates, in the table extended by them, to a set whose size
differs from the stated count, the whole rename list is rejected with `wrongCount`. -/
theorem expected_count_mismatch_rejected {st : Table} {pre post : List Rename} {r : Rename}
    {vs : List (Name × ISet)} {v : ISet} {k : Nat}
    (hpre : evalRenames st pre = .ok vs)
    (hv : evalExpr (vs.foldl (fun t p => insert t p.1 p.2) st) r.source = .ok v)
    (hsp : v.space = spaceTensor) (hk : r.expectedCount = some k) (hne : v.inst.length ≠ k) :
    evalRenames st (pre ++ r :: post) = .error .wrongCount := by
  induction pre generalizing st vs with
  | nil =>
    simp only [evalRenames, Except.ok.injEq] at hpre
    subst hpre
    simp only [List.foldl_nil] at hv
    have hne' : (v.inst.length != k) = true := by simpa using hne
    simp [evalRenames, evalSetExpression, hv, hk, hsp, bind, Except.bind, pure, Except.pure, hne',
      throw, throwThe, MonadExceptOf.throw]
  | cons q rest ih =>
    simp only [evalRenames, bind, Except.bind] at hpre
    cases hq : evalSetExpression st q.source (some spaceTensor) q.expectedCount with
    | error e => simp [hq] at hpre
    | ok qv =>
      simp only [hq] at hpre
      cases hvs : evalRenames (insert st q.name qv) rest with
      | error e => simp [hvs] at hpre
      | ok vs' =>
        simp only [hvs, pure, Except.pure, Except.ok.injEq] at hpre
        subst hpre
        simp only [List.foldl_cons] at hv
        have := ih hvs hv
        simp [evalRenames, hq, bind, Except.bind, this]

/-! ## non-vacuity -/

/-- default: `input := Inputs & Intermediates` (expected 1), `weight := ~(input | Outputs)`;
the Einsum overrides `weight := W` locally. -/
def exRs : List EinsumRename :=
  [ { name := "default", rankVariables := [⟨"red", .name "k", none⟩],
      tensorAccesses := [⟨"input", .and (.name "Inputs") (.name "Intermediates"), some 1⟩,
                         ⟨"weight", .inv (.or (.name "input") (.name "Outputs")), none⟩] } ]
def exE1 : Einsum :=
  { name := "E1", renames := [⟨"weight", .name "W", some 1⟩],
    accesses := [⟨"B", false, false, ["m"]⟩, ⟨"W", false, true, ["k"]⟩, ⟨"C", true, false, ["m", "k"]⟩] }
def exE0 : Einsum :=
  { name := "E0", renames := [],
    accesses := [⟨"A", false, false, ["m", "k"]⟩, ⟨"W", false, true, ["k"]⟩, ⟨"B", true, false, ["m"]⟩] }
def exW : Workload := { einsums := [exE0, exE1], persistentTensors := none }

example : KindsDisjoint exRs ∧ (exE1.renames.map (·.name)).Nodup := by
  refine ⟨?_, by decide⟩
  intro er1 h1 er2 h2 r1 hr1 r2 hr2
  simp only [exRs, List.mem_singleton] at h1 h2
  subst h1 h2
  simp only [List.mem_cons, List.not_mem_nil, or_false] at hr1 hr2
  subst hr2
  rcases hr1 with rfl | rfl <;> decide
/-- local `weight` wins over the default one; `input`, `red` come from the default -/
example : (effectiveRenames exRs exE1).map (·.name) = ["weight", "input", "red"] := by decide
example : ((resolve exRs exE1 "weight").map (·.source)) = some (.name "W") := by decide
/-- the list evaluates: input = {B} (count 1 ✓.), weight = {W} (count 1 ✓.), red = {k} -/
example : ((evalRenames (renameSymbolTable exW exE1) (effectiveRenames exRs exE1)).toOption.map
    (fun vs => vs.map (fun p => (p.1, p.2.inst)))) = some [("weight", ["W"]), ("input", ["B"]), ("red", ["k"])] := by
  decide
/-- in E0 nothing is an intermediate input, so `input` has 0 elements and expected_count 1 rejects -/
example : evalRenames (renameSymbolTable exW exE0) (effectiveRenames exRs exE0) = .error .wrongCount := by
  decide

end AFV.C29
