import AFV.Lemmas.RenamesMerge
import AFV.Lemmas.SetFinal
/-!
# C29 — renames resolve with per-Einsum entries overriding defaults

Specified precedence (`SetSpec.resolve`): a name resolves to the FIRST definition among
(the Einsum's own renames, the top-level entry named like the Einsum, the top-level "default").

The code as it is (`Renames.effectiveRenames` ← `Einsum._eval_expressions` calling
`renames.get_renames_for_einsum("default")`) never consults the top-level entry named like the
Einsum: `lookup_precedence_counterexample`.  Everything else holds: `lookup_precedence_partial`,
`effective_eq_spec_partial`, `table_eq_spec_partial`, and the expected_count check
(`expected_count_checked`, `expected_count_mismatch_rejected`).
-/
namespace AFV.C29
open AFV.SetAlg AFV.Renames AFV.SetSpec

/-- The specification itself, unfolded: first of (Einsum-local, top-level[e], top-level[default]). -/
theorem resolve_first_of (rs : List EinsumRename) (e : Einsum) (n : Name) :
    resolve rs e n =
      ((e.renames.find? (fun r => r.name == n)).or
        ((topLevelFor rs e.name).find? (fun r => r.name == n))).or
        ((topLevelFor rs "default").find? (fun r => r.name == n)) := by
  simp [resolve, candidates, List.find?_append, Option.or_assoc]

/-- What the code does, for every input: the Einsum's own definition, else the default one
(tensor renames before rank-variable renames). The entry named like the Einsum is absent. -/
theorem lookup_precedence_model (rs : List EinsumRename) (e : Einsum) (n : Name) :
    (effectiveRenames rs e).find? (fun r => r.name == n) =
      (e.renames.find? (fun r => r.name == n)).or
        ((topLevelFor rs "default").find? (fun r => r.name == n)) := by
  rw [effectiveRenames_eq, find_mergeInto, List.find?_append, find_mergeInto, List.find?_append,
    ← mergeInto_nil_left, ← mergeInto_nil_left, find_mergeInto, find_mergeInto]
  simp [topLevelFor, List.find?_append, Option.or_assoc]

/-
FULL STATEMENT (what C29 demands) — FALSE for the code as it is, see the counterexample:

  theorem lookup_precedence (rs e n) :
      (effectiveRenames rs e).find? (fun r => r.name == n) = resolve rs e n
-/

/-- **Partial.** If the top-level entry named like the Einsum does not define `n`, the code
resolves `n` as specified: Einsum-local first, then "default". -/
theorem lookup_precedence_partial (rs : List EinsumRename) (e : Einsum) (n : Name)
    (hno : ∀ r ∈ topLevelFor rs e.name, r.name ≠ n) :
    (effectiveRenames rs e).find? (fun r => r.name == n) = resolve rs e n := by
  rw [lookup_precedence_model, resolve_first_of]
  have : (topLevelFor rs e.name).find? (fun r => r.name == n) = none := by
    rw [List.find?_eq_none]
    intro r hr
    simpa using hno r hr
  rw [this]
  simp

/-- the witness: default `foo := Inputs`, top-level entry for `E0`: `foo := Outputs` -/
def cexRs : List EinsumRename :=
  [ { name := "default", tensorAccesses := [{ name := "foo", source := .name "Inputs", expectedCount := none }],
      rankVariables := [] },
    { name := "E0", tensorAccesses := [{ name := "foo", source := .name "Outputs", expectedCount := none }],
      rankVariables := [] } ]
def cexE : Einsum :=
  { name := "E0",
    accesses := [{ name := "A", output := false, persistent := false, rankVars := ["m"] },
                 { name := "B", output := true, persistent := false, rankVars := ["m"] }],
    renames := [] }
def cexW : Workload := { einsums := [cexE], persistentTensors := none }

/-- **Counterexample (model = code as it is).** `foo` must resolve to the per-Einsum source
`Outputs` (= {B}); the code resolves it to the default source `Inputs` (= {A}). -/
theorem lookup_precedence_counterexample :
    (resolve cexRs cexE "foo").map (·.source) = some (.name "Outputs") ∧
    ((effectiveRenames cexRs cexE).find? (fun r => r.name == "foo")).map (·.source) = some (.name "Inputs") ∧
    (match einsumTable cexW cexRs cexE, specTable cexW cexRs cexE with
     | .ok t, .ok ts => ((lookup t "foo").map (·.inst) == some ["A"]) &&
                        ((lookup ts "foo").map (·.inst) == some ["B"])
     | _, _ => false) = true := by
  decide

/-- **Partial, whole list.** With no top-level entry named like the Einsum (and the Einsum's own
rename names distinct, as a YAML mapping guarantees) the list of renames the code evaluates is
exactly the specified one, in the same order. -/
theorem effective_eq_spec_partial (rs : List EinsumRename) (e : Einsum)
    (hno : topLevelFor rs e.name = []) (hnd : (e.renames.map (·.name)).Nodup) :
    effectiveRenames rs e = effectiveSpec rs e := by
  rw [effectiveRenames_eq, effectiveSpec, candidates, hno, List.append_nil, topLevelFor,
    ← List.append_assoc, dedupRenames_append, dedupRenames_append, dedupRenames_of_nodup hnd,
    mergeInto_eq, mergeInto_eq, dedupRenames_idem, dedupRenames_idem]
  congr 1
  apply List.filter_congr
  intro x _
  congr 1
  rw [hasName_append, hasName_append]
  cases hl : hasName e.renames x.name with
  | true => simp
  | false =>
    simp only [Bool.false_or]
    rw [← hasName_dedupRenames (topT rs "default")]
    rw [Bool.eq_iff_iff]
    simp only [hasName_iff, List.mem_filter, Bool.not_eq_true']
    constructor
    · rintro ⟨r, ⟨hr, _⟩, hrn⟩; exact ⟨r, hr, hrn⟩
    · rintro ⟨r, hr, hrn⟩; exact ⟨r, ⟨hr, by rw [hrn]; exact hl⟩, hrn⟩

/-- **Partial, whole table.** Under the same hypothesis the table the architecture sees is the
specified stage-1 table (the specified precedence, `Persistent` = flagged tensors). -/
theorem table_eq_spec_partial (w : Workload) (rs : List EinsumRename) (e : Einsum)
    (hno : topLevelFor rs e.name = []) (hnd : (e.renames.map (·.name)).Nodup) :
    einsumTable w rs e = specTable1 w rs e := by
  simp only [einsumTable, specTable1, evaluatedRenames_eq_with, effective_eq_spec_partial rs e hno hnd]

/-! ## expected_count -/

/-- **expected_count is checked.** If the rename list evaluates, every rename that states an
expected count resolved to a set of exactly that many elements (and the results are the renames'
names, in order). -/
theorem expected_count_checked {st : Table} {l : List Rename} {vs : List (Name × ISet)}
    (h : evalRenames st l = .ok vs) :
    List.Forall₂ (fun (r : Rename) (p : Name × ISet) =>
      p.1 = r.name ∧ ∀ k, r.expectedCount = some k → p.2.inst.length = k) l vs := by
  induction l generalizing st vs with
  | nil => simp [evalRenames] at h; subst h; exact .nil
  | cons r rest ih =>
    simp only [evalRenames, bind, Except.bind] at h
    cases hv : evalSetExpression st r.source (some spaceTensor) r.expectedCount with
    | error e => simp [hv] at h
    | ok v =>
      simp only [hv] at h
      cases hvs : evalRenames (insert st r.name v) rest with
      | error e => simp [hvs] at h
      | ok vs' =>
        simp only [hvs, pure, Except.pure, Except.ok.injEq] at h
        subst h
        refine .cons ⟨rfl, ?_⟩ (ih hvs)
        intro k hk
        -- the count check inside evalSetExpression
        unfold evalSetExpression at hv
        cases he : evalExpr st r.source with
        | error e => simp [he, bind, Except.bind] at hv
        | ok r' =>
          simp only [he, bind, Except.bind, hk] at hv
          by_cases hs : (r'.space != spaceTensor) = true
          · simp [hs, throw, throwThe, MonadExceptOf.throw] at hv
          · simp only [hs, Bool.false_eq_true, if_false, pure, Except.pure] at hv
            by_cases hc : (r'.inst.length != k) = true
            · simp [hc, throw, throwThe, MonadExceptOf.throw] at hv
            · simp only [hc, Bool.false_eq_true, if_false, Except.ok.injEq] at hv
              subst hv
              simpa using hc

/-- **A mismatching expected_count is rejected**, wherever the rename stands: if the renames before
it evaluate (to `vs`) and its source evaluates, in the table extended by them, to a set whose size
differs from the stated count, the whole rename list is rejected with `wrongCount`. -/
theorem expected_count_mismatch_rejected {st : Table} {pre post : List Rename} {r : Rename}
    {vs : List (Name × ISet)} {v : ISet} {k : Nat}
    (hpre : evalRenames st pre = .ok vs)
    (hv : evalExpr (vs.foldl (fun t p => insert t p.1 p.2) st) r.source = .ok v)
    (hsp : v.space = spaceTensor) (hk : r.expectedCount = some k) (hne : v.inst.length ≠ k) :
    evalRenames st (pre ++ r :: post) = .error .wrongCount := by
  induction pre generalizing st vs with
  | nil =>
    simp only [evalRenames, Except.ok.injEq] at hpre
    subst hpre
    simp only [List.foldl_nil] at hv
    have hne' : (v.inst.length != k) = true := by simpa using hne
    simp [evalRenames, evalSetExpression, hv, hk, hsp, bind, Except.bind, pure, Except.pure, hne',
      throw, throwThe, MonadExceptOf.throw]
  | cons q rest ih =>
    simp only [evalRenames, bind, Except.bind] at hpre
    cases hq : evalSetExpression st q.source (some spaceTensor) q.expectedCount with
    | error e => simp [hq] at hpre
    | ok qv =>
      simp only [hq] at hpre
      cases hvs : evalRenames (insert st q.name qv) rest with
      | error e => simp [hvs] at hpre
      | ok vs' =>
        simp only [hvs, pure, Except.pure, Except.ok.injEq] at hpre
        subst hpre
        simp only [List.foldl_cons] at hv
        have := ih hvs hv
        simp [evalRenames, hq, bind, Except.bind, this]

/-! ## non-vacuity -/

/-- default: `input := Inputs & Intermediates` (expected 1), `weight := ~(input | Outputs)`;
the Einsum overrides `weight := W` locally. -/
def exRs : List EinsumRename :=
  [ { name := "default", rankVariables := [⟨"red", .name "k", none⟩],
      tensorAccesses := [⟨"input", .and (.name "Inputs") (.name "Intermediates"), some 1⟩,
                         ⟨"weight", .inv (.or (.name "input") (.name "Outputs")), none⟩] } ]
def exE1 : Einsum :=
  { name := "E1", renames := [⟨"weight", .name "W", some 1⟩],
    accesses := [⟨"B", false, false, ["m"]⟩, ⟨"W", false, true, ["k"]⟩, ⟨"C", true, false, ["m", "k"]⟩] }
def exE0 : Einsum :=
  { name := "E0", renames := [],
    accesses := [⟨"A", false, false, ["m", "k"]⟩, ⟨"W", false, true, ["k"]⟩, ⟨"B", true, false, ["m"]⟩] }
def exW : Workload := { einsums := [exE0, exE1], persistentTensors := none }

example : ∀ r ∈ topLevelFor exRs exE1.name, r.name ≠ "weight" := by decide
example : topLevelFor exRs exE1.name = [] ∧ (exE1.renames.map (·.name)).Nodup := by decide
/-- local `weight` wins over the default one; `input`, `red` come from the default -/
example : (effectiveRenames exRs exE1).map (·.name) = ["weight", "input", "red"] := by decide
example : ((resolve exRs exE1 "weight").map (·.source)) = some (.name "W") := by decide
/-- the list evaluates: input = {B} (count 1 ✓.), weight = {W} (count 1 ✓.), red = {k} -/
example : ((evalRenames (renameSymbolTable exW exE1) (effectiveRenames exRs exE1)).toOption.map
    (fun vs => vs.map (fun p => (p.1, p.2.inst)))) = some [("weight", ["W"]), ("input", ["B"]), ("red", ["k"])] := by
  decide
/-- in E0 nothing is an intermediate input, so `input` has 0 elements and expected_count 1 rejects -/
example : evalRenames (renameSymbolTable exW exE0) (effectiveRenames exRs exE0) = .error .wrongCount := by
  decide

end AFV.C29
