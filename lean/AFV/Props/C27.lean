import AFV.Model.ArchTree
/-!
# C27 — recomputing component costs on a costed spec changes nothing

`costStep v fl` models one call of `Spec.calculate_component_costs(**fl)` on one component
(`costSpec` on all of them, `runHistory` a call history).

* `Variant.fixed` — scale factors are applied to the *declared* values.  The property holds in full, for
  call histories of any length and any flags after a first full call:
  `costing_idempotent`, `costing_history_invariant`.
* `Variant.current` — today's code applies the scale factors to whatever the stored component holds, i.e. to
  the already scaled values.  The property is **violated** (`costing_idempotent_counterexample`); the second
  call multiplies again (`recost_area`, `recost_leak`, `recost_action`, `area_stable_iff`); it holds when every scale factor
  and `n_parallel_instances` is 1 (`costing_idempotent_partial`, `costing_history_partial`).

Full statement (what the property demands of the code; proved for `fixed`, refuted for `current`):
    ∀ s h, ∀ st ∈ runHistory v (Flags.full :: h) s, observe st = observe (costSpec v Flags.full s)
-/
namespace AFV.C27
open AFV.ArchTree

/-! ## generic: a fixed point of every call stays fixed along any history -/

theorem run_const (v : Variant) (s : List CState) (hfix : ∀ fl, costSpec v fl s = s) :
    ∀ h, ∀ st ∈ runHistory v h s, st = s := by
  intro h
  induction h with
  | nil => intro st hst; simp [runHistory] at hst
  | cons fl h ih =>
    intro st hst
    simp only [runHistory, hfix fl, List.mem_cons] at hst
    rcases hst with rfl | hst
    · rfl
    · exact ih st hst

theorem findAction_map (g : Action → Action) (hg : ∀ a, (g a).name = a.name) (as : List Action) (n : String) :
    findAction (as.map g) n = (findAction as n).map g := by
  induction as with
  | nil => simp [findAction]
  | cons a as ih =>
    simp only [findAction, List.map_cons, List.find?_cons, hg] at *
    cases h : (a.name == n) <;> simp [ih]

theorem findAction_name (as : List Action) (n : String) (a : Action) (h : findAction as n = some a) : a.name = n := by
  have := List.find?_some h
  simpa using this

/-- The per-action update of `costFrom`. -/
def updAction (fl : Flags) (src : Comp) (a : Action) : Action :=
  match findAction src.actions a.name with
  | none => a
  | some sa =>
    { a with
      energy := if fl.energy then some (calcEnergy src sa) else a.energy
      throughput := if fl.throughput then some (calcThroughput src sa) else a.throughput }

theorem updAction_name (fl : Flags) (src : Comp) (a : Action) : (updAction fl src a).name = a.name := by
  unfold updAction; split <;> rfl

theorem costFrom_eq (fl : Flags) (src dst : Comp) :
    costFrom fl src dst =
      { dst with
        area := if fl.area then some (calcArea src) else dst.area
        leak := if fl.leak then some (calcLeak src) else dst.leak
        actions := dst.actions.map (updAction fl src) } := rfl

/-! ## `fixed`: the property in full -/

theorem updAction_fixed_idem (fl : Flags) (src : Comp) (a : Action) :
    updAction fl src (updAction Flags.full src a) = updAction Flags.full src a := by
  unfold updAction
  cases h : findAction src.actions a.name with
  | none => simp [h]
  | some sa => cases fl; simp [h, Flags.full]

/-- **costing_idempotent.** `fixed`: after a full costing, another call with any flags changes nothing. -/
theorem costing_idempotent (fl : Flags) (s : CState) :
    costStep .fixed fl (costStep .fixed Flags.full s) = costStep .fixed Flags.full s := by
  simp only [costStep, costFrom_eq, List.map_map]
  congr 1
  have : (updAction fl s.declared ∘ updAction Flags.full s.declared) = updAction Flags.full s.declared := by
    funext a; exact updAction_fixed_idem fl s.declared a
  rw [this]
  cases fl
  simp [Flags.full]

/-- **costing_history_invariant.** `fixed`: along a call history of any length that starts with a full costing,
every returned spec shows the same area, leak power, per-action energy and throughput for every component. -/
theorem costing_history_invariant (s : List CState) (h : List Flags) :
    ∀ st ∈ runHistory .fixed (Flags.full :: h) s, observe st = observe (costSpec .fixed Flags.full s) := by
  intro st hst
  simp only [runHistory, List.mem_cons] at hst
  rcases hst with rfl | hst
  · rfl
  · have hfix : ∀ fl, costSpec .fixed fl (costSpec .fixed Flags.full s) = costSpec .fixed Flags.full s := by
      intro fl
      simp only [costSpec, List.map_map]
      apply List.map_congr_left
      intro c _
      exact costing_idempotent fl c
    rw [run_const .fixed _ hfix h st hst]

/-! ## `current`: today's code -/

theorem scaleInt_eq (x k : Int) : scaleInt x k = x * k := by
  unfold scaleInt
  by_cases h : k = 1 <;> simp [h]

/-- Today's code, second call: the area is the first call's area multiplied by `area_scale` and
`n_parallel_instances` once more. -/
theorem recost_area (c : Comp) :
    (costFrom Flags.full (costFrom Flags.full c c) (costFrom Flags.full c c)).area =
      some (calcArea c * c.areaScale * c.nParallel) := by
  simp [costFrom_eq, Flags.full, calcArea, scaleInt_eq]

theorem recost_leak (c : Comp) :
    (costFrom Flags.full (costFrom Flags.full c c) (costFrom Flags.full c c)).leak =
      some (calcLeak c * c.leakScale * c.nParallel) := by
  simp [costFrom_eq, Flags.full, calcLeak, scaleInt_eq]

theorem int_mul_fix (a k : Int) : a * k = a ↔ a = 0 ∨ k = 1 := by
  constructor
  · intro h
    have h2 : a * (k - 1) = 0 := by rw [Int.mul_sub, h, Int.mul_one, Int.sub_self]
    rcases Int.mul_eq_zero.mp h2 with h3 | h3
    · exact Or.inl h3
    · exact Or.inr (by omega)
  · rintro (h | h) <;> simp [h]

/-- The area survives a second call exactly when it is 0 or the two factors multiply to 1. -/
theorem area_stable_iff (c : Comp) :
    (costFrom Flags.full (costFrom Flags.full c c) (costFrom Flags.full c c)).area = (costFrom Flags.full c c).area ↔
      calcArea c = 0 ∨ c.areaScale * c.nParallel = 1 := by
  rw [recost_area]
  simp only [costFrom_eq, Flags.full, if_true, Option.some.injEq, Int.mul_assoc]
  exact int_mul_fix _ _

theorem updAction_of_find (fl : Flags) (src : Comp) (a sa : Action) (h : findAction src.actions a.name = some sa) :
    updAction fl src a =
      { a with energy := if fl.energy then some (calcEnergy src sa) else a.energy
               throughput := if fl.throughput then some (calcThroughput src sa) else a.throughput } := by
  simp [updAction, h]

theorem updAction_of_none (fl : Flags) (src : Comp) (a : Action) (h : findAction src.actions a.name = none) :
    updAction fl src a = a := by
  simp [updAction, h]

theorem findAction_self (as : List Action) (hnd : (as.map (·.name)).Nodup) (a : Action) (ha : a ∈ as) :
    findAction as a.name = some a := by
  induction as with
  | nil => simp at ha
  | cons b bs ih =>
    simp only [List.map_cons, List.nodup_cons] at hnd
    simp only [findAction, List.find?_cons]
    rcases List.mem_cons.mp ha with rfl | hmem
    · simp
    · have hne : (b.name == a.name) = false := by
        simpa using fun e : b.name = a.name => hnd.1 (e ▸ List.mem_map.mpr ⟨a, hmem, rfl⟩)
      simpa [hne, findAction] using ih hnd.2 hmem

/-- Today's code, second call, per action (distinct action names): energy and throughput are the first call's values
with the component's and the action's scale factors (and `n_parallel_instances`) applied once more. -/
theorem recost_action (c : Comp) (hnd : (c.actions.map (·.name)).Nodup) (a : Action) (ha : a ∈ c.actions) :
    (findAction (costFrom Flags.full (costFrom Flags.full c c) (costFrom Flags.full c c)).actions a.name).map
        (fun x => (x.energy, x.throughput)) =
      some (some (calcEnergy c a * c.energyScale * a.energyScale),
            some ((((calcThroughput c a).scale c.throughputScale).scale a.throughputScale).scale c.nParallel)) := by
  have h0 := findAction_self c.actions hnd a ha
  have hfa1 : ∀ n, findAction (costFrom Flags.full c c).actions n =
      (findAction c.actions n).map (updAction Flags.full c) := fun n =>
    findAction_map _ (updAction_name _ _) _ _
  have hfa2 : ∀ n, findAction (costFrom Flags.full (costFrom Flags.full c c) (costFrom Flags.full c c)).actions n =
      (findAction (costFrom Flags.full c c).actions n).map (updAction Flags.full (costFrom Flags.full c c)) := fun n =>
    findAction_map _ (updAction_name _ _) _ _
  have h1 := updAction_of_find Flags.full c a a h0
  rw [hfa2, hfa1, h0]
  simp only [Option.map_some]
  rw [updAction_of_find Flags.full (costFrom Flags.full c c) _ (updAction Flags.full c a)
        (by rw [updAction_name, hfa1, h0]; rfl)]
  rw [h1]
  simp [Flags.full, calcEnergy, calcThroughput, costFrom_eq, scaleInt_eq]

/-- All scale factors of a component and of its actions, and `n_parallel_instances`, are 1. -/
def UnitScales (c : Comp) : Prop :=
  c.areaScale = 1 ∧ c.leakScale = 1 ∧ c.energyScale = 1 ∧ c.throughputScale = 1 ∧ c.nParallel = 1 ∧
  ∀ a ∈ c.actions, a.energyScale = 1 ∧ a.throughputScale = 1

theorem val_scale_one (x : Val) : x.scale 1 = x := by simp [Val.scale]

theorem updAction_current_idem (fl : Flags) (c : Comp) (hu : UnitScales c) (a : Action) :
    updAction fl (costFrom Flags.full c c) (updAction Flags.full c a) = updAction Flags.full c a := by
  obtain ⟨_, _, hE, hT, hP, hA⟩ := hu
  have hfa : ∀ n, findAction (costFrom Flags.full c c).actions n =
      (findAction c.actions n).map (updAction Flags.full c) := fun n =>
    findAction_map _ (updAction_name _ _) _ _
  cases h : findAction c.actions a.name with
  | none =>
    rw [updAction_of_none _ _ _ h]
    exact updAction_of_none _ _ _ (by rw [hfa, h]; rfl)
  | some sa =>
    have hsn : sa.name = a.name := findAction_name _ _ _ h
    have hsa : sa ∈ c.actions := List.mem_of_find?_eq_some h
    obtain ⟨hse, hst⟩ := hA sa hsa
    have h2 := updAction_of_find Flags.full c sa sa (by rw [hsn]; exact h)
    have hce : calcEnergy (costFrom Flags.full c c) (updAction Flags.full c sa) = calcEnergy c sa := by
      rw [h2]
      simp [calcEnergy, costFrom_eq, Flags.full, hE, hse, scaleInt_eq]
    have hct : calcThroughput (costFrom Flags.full c c) (updAction Flags.full c sa) = calcThroughput c sa := by
      rw [h2]
      simp [calcThroughput, costFrom_eq, Flags.full, hT, hP, hst, val_scale_one]
    rw [updAction_of_find Flags.full c a sa h]
    rw [updAction_of_find fl (costFrom Flags.full c c) _ (updAction Flags.full c sa) (by rw [hfa]; simp [h])]
    rw [hce, hct]
    cases fl
    simp [Flags.full]

/-- **costing_idempotent_partial.** Today's code: if every scale factor and `n_parallel_instances` is 1, a call
with any flags after a full costing changes nothing. -/
theorem costing_idempotent_partial (fl : Flags) (s : CState) (hu : UnitScales s.stored) :
    costStep .current fl (costStep .current Flags.full s) = costStep .current Flags.full s := by
  have hu' := hu
  obtain ⟨hA, hL, _, _, hP, _⟩ := hu
  simp only [costStep]
  congr 1
  generalize hc' : costFrom Flags.full s.stored s.stored = c'
  rw [costFrom_eq]
  have hacts : c'.actions.map (updAction fl c') = c'.actions := by
    subst hc'
    simp only [costFrom_eq, List.map_map]
    have : (updAction fl (costFrom Flags.full s.stored s.stored) ∘ updAction Flags.full s.stored)
        = updAction Flags.full s.stored := by
      funext a; exact updAction_current_idem fl s.stored hu' a
    simpa [costFrom_eq] using congrArg (fun f => s.stored.actions.map f) this
  rw [hacts]
  subst hc'
  cases fl
  simp [costFrom_eq, Flags.full, calcArea, calcLeak, hA, hL, hP, scaleInt_eq]

/-- **costing_history_partial.** Today's code, unit scales everywhere: the property holds for call histories of
any length. -/
theorem costing_history_partial (s : List CState) (hu : ∀ c ∈ s, UnitScales c.stored) (h : List Flags) :
    ∀ st ∈ runHistory .current (Flags.full :: h) s, observe st = observe (costSpec .current Flags.full s) := by
  intro st hst
  simp only [runHistory, List.mem_cons] at hst
  rcases hst with rfl | hst
  · rfl
  · have hfix : ∀ fl, costSpec .current fl (costSpec .current Flags.full s) = costSpec .current Flags.full s := by
      intro fl
      simp only [costSpec, List.map_map]
      apply List.map_congr_left
      intro c hc
      exact costing_idempotent_partial fl c (hu c hc)
    rw [run_const .current _ hfix h st hst]

/-! ## witness: today's code violates the property -/

/-- Memory `Buf`: area 100, `area_scale` 2; read energy 1 with component `energy_scale` 3;
read throughput 1 with `n_parallel_instances` 2. -/
def witness : Comp :=
  { name := "Buf", dummy := false, area := some 100, areaScale := 2, leak := some 1, leakScale := 1,
    energyScale := 3, throughputScale := 1, nParallel := 2,
    actions := [⟨"read", some 1, 1, some (.fin 1), 1⟩] }

/-- First call: area 400, leak 2, read energy 3, read throughput 2.  Second call: 1600, 4, 9, 4. -/
theorem costing_idempotent_counterexample :
    observe (costSpec .current Flags.full [CState.init witness]) =
      [⟨"Buf", some 400, some 2, [("read", some 3, some (.fin 2))]⟩] ∧
    observe (costSpec .current Flags.full (costSpec .current Flags.full [CState.init witness])) =
      [⟨"Buf", some 1600, some 4, [("read", some 9, some (.fin 4))]⟩] ∧
    observe (costSpec .current Flags.full (costSpec .current Flags.full [CState.init witness])) ≠
      observe (costSpec .current Flags.full [CState.init witness]) := by decide

/-! ## non-vacuity -/

example : observe (costSpec .fixed Flags.full (costSpec .fixed Flags.full [CState.init witness])) =
    [⟨"Buf", some 400, some 2, [("read", some 3, some (.fin 2))]⟩] := by decide

/-- a dummy component with unit scales: area 0, throughput inf, stable under today's code -/
def unitDummy : Comp :=
  { name := "D", dummy := true, area := none, areaScale := 1, leak := none, leakScale := 1,
    energyScale := 1, throughputScale := 1, nParallel := 1,
    actions := [⟨"compute", none, 1, none, 1⟩] }
example : UnitScales unitDummy := by simp [UnitScales, unitDummy]
example : observe (costSpec .current Flags.full [CState.init unitDummy]) =
    [⟨"D", some 0, some 0, [("compute", some 0, some .inf)]⟩] := by decide

end AFV.C27
