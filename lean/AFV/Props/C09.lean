import AFV.Lemmas.Verdict
import AFV.Lemmas.CeilStrip
import AFV.Lemmas.VerdictCex
import Mathlib.Tactic.Ring
/-!
# C09 — symbolic sign and monotonicity verdicts hold at every point of the box

Model: `AFV/Model/Verdict.lean` (`CR.or`, `step`/`compare` = `_compare_to_zero`, `shortcut`, `table`,
`geqLeqZero` = `geq_leq_zero`, `diffVerdict` = `diff_geq_leq_zero`) over the expression trees of
`AFV/Model/Expr9.lean`.  sympy (`f >= 0`, `function_range`, `expand`, `diff`, automatic evaluation)
is an ORACLE: explicit functions with explicit soundness hypotheses (`OracleSound`).

What is proved, for every formula, box, recursion depth and oracle:

* `verdict_sound` — with a truthful oracle, on the class of formulas where the repo's own two
  rewrites (strip `ceiling`, joint Heaviside partition) are harmless (`Admissible`), every
  GEQ / LEQ / EQ verdict of `geq_leq_zero(f, bounds)` holds at every integer point of the box.
* `verdict_sound_plain` — the instance for formulas without `ceiling`/Heaviside (no side condition
  left except the oracle's).
* `ceil_strip_sound_mono` — stripping `ceiling` is harmless in the direction in which the formula is
  monotone in the stripped terms; `ceil_strip_unsound_example` delimits it
  (`ceiling(a/4) − 1/2` on `a ∈ [1,2]`: the model, with a truthful oracle, answers LEQ; the value is 1/2).
* `heaviside_partition_counterexample` — the OLD joint partition (all Heaviside terms 1 / all 0) was not
  sound for two different Heaviside terms: `H(a−2) − H(b−2)` got verdict EQ; the repaired per-atom
  partition (`Cfg.repaired`, the model of the code today) answers UNKNOWN on the same formula, and needs a
  side condition only at points where a Heaviside argument is exactly 0 (`heavParts_exact`).
* `shortcut_sound`, `verdict_sound_tdncz_partial`, `tdncz_fallthrough_counterexample` — with
  `terms_do_not_cross_zero` every verdict is sound EXCEPT the early `LEQ` returned when the first
  direction is merely undecided; the counterexample (`Max(a,b) − a`) shows that one is not.
* `minmax_rules_sound`, `or_sound`, `table_sound`, `unknown_allowed`,
  `adjacent_mono_implies_mono`, `diff_verdict_sound`.

`Cfg.repaired` is THE model (the code in /repo after the `fix:` commits: per-atom Heaviside partition,
relational answers validated at both corners of the box, no early returns, no Integer crash);
`Cfg.asIs` is the code as it was and is kept for the counterexample theorems. The ceiling strip is
unrepaired: `ceil_strip_unsound_example` holds for both variants (still a known finding).
-/
namespace AFV.C09
open AFV.Expr9 AFV.Verdict

/-! ## `ComparisonResult.__or__` -/

/-- a verdict about one value -/
def HoldsV : CR → Rat → Prop
  | .geq, v => 0 ≤ v
  | .leq, v => v ≤ 0
  | .eq, v => v = 0
  | .unknown, _ => True

/-- `a | b` is a sound verdict for the sum of a quantity with verdict `a` and one with verdict `b`
(EQ is neutral, agreeing verdicts are kept, anything else is UNKNOWN). -/
theorem or_sound (a b : CR) (x y : Rat) (ha : HoldsV a x) (hb : HoldsV b y) : HoldsV (a.or b) (x + y) := by
  cases a <;> cases b <;> simp only [HoldsV] at ha hb <;>
    first
    | exact True.intro
    | (show (0 : Rat) ≤ x + y; linarith)
    | (show x + y ≤ (0 : Rat); linarith)
    | (show x + y = (0 : Rat); linarith)

theorem or_unknown_left (b : CR) : CR.unknown.or b = .unknown := by cases b <;> rfl
theorem or_comm (a b : CR) : a.or b = b.or a := by cases a <;> cases b <;> rfl

example : CR.geq.or .eq = .geq ∧ CR.geq.or .leq = .unknown ∧ CR.eq.or .eq = .eq := by decide

/-! ## the final table -/

/-- The table of `geq_leq_zero` over (may-be-negative, may-be-positive) turns the two one-sided
claims into the verdict. -/
theorem table_sound (box : Box) (f : E) (lt gt : Bool)
    (hlt : lt = false → Claim box true f) (hgt : gt = false → Claim box false f) :
    Holds box f (table lt gt) := by
  cases lt <;> cases gt <;> simp only [table, Bool.and_true, Bool.and_false, Bool.false_eq_true,
    if_false, if_true, Holds]
  · intro ρ hρ; exact le_antisymm (hgt rfl ρ hρ) (hlt rfl ρ hρ)
  · intro ρ hρ; exact hlt rfl ρ hρ
  · intro ρ hρ; exact hgt rfl ρ hρ

theorem table_unknown_iff (lt gt : Bool) : table lt gt = .unknown ↔ (lt = true ∧ gt = true) := by
  cases lt <;> cases gt <;> simp [table]

/-! ## `Min` / `Max` rules -/

/-- The any/all rules of `_compare_to_zero` for `Min` and `Max`:
`Min` is nowhere negative if no argument is; nowhere positive if some argument is nowhere positive;
`Max` dually. -/
theorem minmax_rules_sound (box : Box) (xs : List E) :
    ((∀ x ∈ xs, Claim box true x) → Claim box true (.min xs)) ∧
    ((∃ x ∈ xs, Claim box false x) → Claim box false (.min xs)) ∧
    ((∃ x ∈ xs, Claim box true x) → Claim box true (.max xs)) ∧
    ((∀ x ∈ xs, Claim box false x) → Claim box false (.max xs)) := by
  refine ⟨fun h ρ hρ => sgn_min_of_all fun x hx => h x hx ρ hρ,
          fun ⟨x, hx, h⟩ ρ hρ => sgn_min_of_ex ⟨x, hx, h ρ hρ⟩,
          fun ⟨x, hx, h⟩ ρ hρ => sgn_max_of_ex ⟨x, hx, h ρ hρ⟩,
          fun h ρ hρ => sgn_max_of_all fun x hx => h x hx ρ hρ⟩

/-! ## the main theorem -/

/-- **Soundness of `geq_leq_zero(f, bounds)`** (`terms_do_not_cross_zero = False`).
If sympy's answers are truthful on the box (`OracleSound`) and `f` lies, for both directions, in a
class on which the repo's own rewrites are harmless (`Admissible`), then whatever verdict the
comparator returns holds at every integer point of the box. No bound on formula size, box or depth. -/
theorem verdict_sound {cfg : Cfg} {o : Oracle} {box : Box} {C : Bool → E → Prop}
    (hO : OracleSound o box) (hA : Admissible cfg o box C)
    (fuel : Nat) (f : E) (hf : C true f ∧ C false f) (v : CR)
    (h : geqLeqZero cfg o box fuel f false = .ok v) : Holds box f v := by
  unfold geqLeqZero at h
  simp only [Bool.false_eq_true, if_false, Bool.false_and, Bool.and_false] at h
  split at h
  · cases h
  · rename_i lt hlt
    split at h
    · cases h
    · rename_i gt hgt
      cases h
      exact table_sound box f lt gt
        (fun e => compare_sound hO hA fuel f true hf.1 (e ▸ hlt))
        (fun e => compare_sound hO hA fuel f false hf.2 (e ▸ hgt))

/-- UNKNOWN claims nothing, for sign and for monotonicity verdicts. -/
theorem unknown_allowed (box : Box) (f : E) (s : Nat) :
    Holds box f .unknown ∧ HoldsMono box f s .unknown := ⟨trivial, trivial⟩

/-! ## `terms_do_not_cross_zero` -/

/-- the premise the caller asserts by passing `terms_do_not_cross_zero=True` -/
def NoCross (box : Box) (f : E) : Prop := Claim box true f ∨ Claim box false f

def BoxOK (box : Box) : Prop := ∀ p ∈ box, p.1 ≤ p.2

theorem inBox_low {box : Box} (hb : BoxOK box) : InBox box (lowEnv box) := by
  intro i hi
  refine ⟨(box[i]).1, ?_, le_refl _, hb _ (List.getElem_mem hi)⟩
  simp [lowEnv, envOf, List.getD, hi]

theorem inBox_high {box : Box} (hb : BoxOK box) : InBox box (highEnv box) := by
  intro i hi
  refine ⟨(box[i]).2, ?_, hb _ (List.getElem_mem hi), le_refl _⟩
  simp [highEnv, envOf, List.getD, hi]

/-- The four corner shortcuts are sound when the formula really does not change sign on the box. -/
theorem shortcut_sound {box : Box} (hb : BoxOK box) {f : E} (hn : NoCross box f) {v : CR}
    (h : shortcut box f = some v) : Holds box f v := by
  have hl := inBox_low hb
  have hh := inBox_high hb
  unfold shortcut at h
  simp only at h
  split at h
  · rename_i hpos
    cases h
    rcases hn with hn | hn
    · exact hn
    · exact absurd (hn _ hl) (not_le.mpr hpos)
  · split at h
    · rename_i hneg
      cases h
      rcases hn with hn | hn
      · exact absurd (hn _ hl) (not_le.mpr hneg)
      · exact hn
    · split at h
      · rename_i hpos
        cases h
        rcases hn with hn | hn
        · exact hn
        · exact absurd (hn _ hh) (not_le.mpr hpos)
      · split at h
        · rename_i hneg
          cases h
          rcases hn with hn | hn
          · exact absurd (hn _ hh) (not_le.mpr hneg)
          · exact hn
        · cases h

/-
FULL STATEMENT (false for the code as it is, `Cfg.asIs`; see `tdncz_fallthrough_counterexample`):
  OracleSound o box → Admissible o box C → C true f ∧ C false f → BoxOK box → NoCross box f →
  geqLeqZero cfg o box fuel f true = .ok v → Holds box f v
What is missing: after the corner shortcuts, `if terms_do_not_cross_zero and lt_zero: return LEQ`
treats "could not show that f is nowhere negative" as "f is somewhere negative".
It is proved below for the repaired code (`verdict_sound_tdncz_repaired`).
-/
/-- **`geq_leq_zero(f, bounds, terms_do_not_cross_zero=True)`, partial**: every verdict is sound
except the `LEQ` that does not come from a corner shortcut (and that one too once the early returns
are removed). -/
theorem verdict_sound_tdncz_partial {cfg : Cfg} {o : Oracle} {box : Box} {C : Bool → E → Prop}
    (hO : OracleSound o box) (hA : Admissible cfg o box C) (hb : BoxOK box)
    (fuel : Nat) (f : E) (hf : C true f ∧ C false f) (hn : NoCross box f) (v : CR)
    (h : geqLeqZero cfg o box fuel f true = .ok v)
    (hv : cfg.tdnczEarly = false ∨ v ≠ .leq ∨ shortcut box f = some .leq) : Holds box f v := by
  unfold geqLeqZero at h
  simp only [if_true] at h
  split at h
  · rename_i v' hs
    cases h
    exact shortcut_sound hb hn hs
  · rename_i hs
    split at h
    · cases h
    · rename_i lt hlt
      split at h
      · rename_i hc
        cases h
        have hc' : cfg.tdnczEarly = true ∧ lt = true := by simpa using hc
        rcases hv with hv | hv | hv
        · rw [hc'.1] at hv; cases hv
        · exact absurd rfl hv
        · rw [hs] at hv; cases hv
      · rename_i hc
        split at h
        · cases h
        · rename_i gt hgt
          split at h
          · rename_i hc2
            cases h
            have hc2' : cfg.tdnczEarly = true ∧ gt = true := by simpa using hc2
            have hltf : lt = false := by
              cases lt with
              | false => rfl
              | true => exact absurd (by simp [hc2'.1]) hc
            subst hltf
            exact compare_sound hO hA fuel f true hf.1 hlt
          · cases h
            exact table_sound box f lt gt
              (fun e => compare_sound hO hA fuel f true hf.1 (e ▸ hlt))
              (fun e => compare_sound hO hA fuel f false hf.2 (e ▸ hgt))

/-- **With the two early returns removed the `terms_do_not_cross_zero` mode is sound, full statement.** -/
theorem verdict_sound_tdncz_repaired {cfg : Cfg} (hcfg : cfg.tdnczEarly = false)
    {o : Oracle} {box : Box} {C : Bool → E → Prop}
    (hO : OracleSound o box) (hA : Admissible cfg o box C) (hb : BoxOK box)
    (fuel : Nat) (f : E) (hf : C true f ∧ C false f) (hn : NoCross box f) (v : CR)
    (h : geqLeqZero cfg o box fuel f true = .ok v) : Holds box f v :=
  verdict_sound_tdncz_partial hO hA hb fuel f hf hn v h (Or.inl hcfg)

/-! ## derivative verdicts -/

/-- `diff_geq_leq_zero(f, s, bounds)` is `geq_leq_zero` of sympy's derivative of sympy's expansion:
its verdict is a sound SIGN verdict about that derivative expression. -/
theorem diff_verdict_sound {cfg : Cfg} {o : Oracle} {box : Box} {C : Bool → E → Prop}
    (hO : OracleSound o box) (hA : Admissible cfg o box C) (fuel : Nat) (f : E) (s : Nat)
    (hC : ∀ e d, o.expand f = some e → o.diff e s = some d → C true d ∧ C false d) (v : CR)
    (h : diffVerdict cfg o box fuel f s = .ok v) :
    ∃ e d, o.expand f = some e ∧ o.diff e s = some d ∧ Holds box d v := by
  unfold diffVerdict at h
  split at h
  · cases h
  · rename_i e he
    split at h
    · cases h
    · rename_i d hd
      have he := askExpand_ok he
      have hd := askDiff_ok hd
      exact ⟨e, d, he, hd, verdict_sound hO hA fuel d (hC e d he hd) v h⟩

/-- The link between the sign of the derivative expression `d` and the behaviour of `f` along `s`
(sympy's `diff` is the derivative, the mean value theorem, and — when `f` has ceilings — the
assumption written in the code's comment that `ceiling` does not change the direction).
NOT proved: calculus and sympy's `diff` are outside the model. It is what the harness tests
directly on every sampled formula by finite differences. -/
def DerivLink (box : Box) (f : E) (s : Nat) (d : E) : Prop := ∀ v, Holds box d v → HoldsMono box f s v

theorem diff_verdict_mono {cfg : Cfg} {o : Oracle} {box : Box} {C : Bool → E → Prop}
    (hO : OracleSound o box) (hA : Admissible cfg o box C) (fuel : Nat) (f : E) (s : Nat)
    (hC : ∀ e d, o.expand f = some e → o.diff e s = some d → C true d ∧ C false d)
    (hL : ∀ e d, o.expand f = some e → o.diff e s = some d → DerivLink box f s d) (v : CR)
    (h : diffVerdict cfg o box fuel f s = .ok v) : HoldsMono box f s v := by
  obtain ⟨e, d, he, hd, hv⟩ := diff_verdict_sound hO hA fuel f s hC v h
  exact hL e d he hd v hv

/-- Monotone on every adjacent pair of integer points ⇒ monotone between any two integer points of
the box along `s` (so checking adjacent pairs, as the harness does, is checking the claim). -/
theorem adjacent_mono_implies_mono (box : Box) (f : E) (s : Nat)
    (h : HoldsMono box f s .geq) (ρ : Nat → Rat) (hρ : InBox box ρ) :
    ∀ k : Nat, InBox box (upd ρ s (ρ s + k)) → eval ρ f ≤ eval (upd ρ s (ρ s + k)) f := by
  intro k
  induction k with
  | zero =>
    intro _
    have : upd ρ s (ρ s + (0 : Nat)) = ρ := by
      funext i; unfold upd; split
      · subst_vars; simp
      · rfl
    rw [this]
  | succ k ih =>
    intro hk
    -- the intermediate point is in the box
    have hmid : InBox box (upd ρ s (ρ s + k)) := by
      intro i hi
      by_cases his : i = s
      · subst his
        obtain ⟨z, hz, hlo, _⟩ := hρ i hi
        obtain ⟨z', hz', _, hhi'⟩ := hk i hi
        refine ⟨z + k, ?_, by omega, ?_⟩
        · simp [upd, hz]
        · have e : ((z' : Int) : Rat) = ((z + (k + 1 : Nat) : Int) : Rat) := by
            rw [← hz']; simp [upd, hz]
          have : z' = z + (k + 1 : Nat) := by exact_mod_cast e
          omega
      · obtain ⟨z, hz, hlo, hhi⟩ := hρ i hi
        exact ⟨z, by simp [upd, his, hz], hlo, hhi⟩
    have h1 := ih hmid
    have hstep := h (upd ρ s (ρ s + k)) hmid
    have e2 : upd (upd ρ s (ρ s + k)) s ((upd ρ s (ρ s + k)) s + 1) = upd ρ s (ρ s + (k + 1 : Nat)) := by
      funext i; unfold upd; split
      · simp; ring
      · rfl
    rw [e2] at hstep
    exact le_trans h1 (hstep hk)

/-! ## formulas without `ceiling` / Heaviside: no side condition left -/

/-- **Soundness on ceiling/Heaviside-free formulas**: only the oracle hypotheses remain. -/
theorem verdict_sound_plain {cfg : Cfg} {o : Oracle} {box : Box} (hO : OracleSound o box) (hP : PlainOracle o)
    (fuel : Nat) (f : E) (hf : Plain f) (v : CR)
    (h : geqLeqZero cfg o box fuel f false = .ok v) : Holds box f v :=
  verdict_sound hO (admissible_plain cfg box hP) fuel f ⟨hf, hf⟩ v h

/-- non-vacuity: a truthful oracle, a plain formula, a definite verdict (`a − 1 ≥ 0` on `[1,4]`). -/
example : geqLeqZero Cfg.repaired oP boxP 3 fP false = .ok .geq := isOkV_iff.mp (by decide +kernel)
example : Holds boxP fP .geq :=
  verdict_sound_plain (cfg := Cfg.repaired) oP_sound oP_plain 3 fP fP_plain .geq (isOkV_iff.mp (by decide +kernel))

/-! ## stripping `ceiling` -/

/-- **Stripping `ceiling` is sound in the direction in which the formula is monotone in the stripped
terms**: a GEQ verdict about the stripped formula transfers when `f` is non-decreasing in them
(`Mono ρ true`), a LEQ verdict when it is non-increasing (`Mono ρ false`). -/
theorem ceil_strip_sound_mono (box : Box) (f : E) :
    ((∀ ρ, InBox box ρ → Mono ρ true f) → Holds box (strip f) .geq → Holds box f .geq) ∧
    ((∀ ρ, InBox box ρ → Mono ρ false f) → Holds box (strip f) .leq → Holds box f .leq) := by
  constructor
  · intro hm hs ρ hρ
    have := mono_strip (hm ρ hρ)
    simp only [Below] at this
    exact le_trans (hs ρ hρ) this
  · intro hm hs ρ hρ
    have := mono_strip (hm ρ hρ)
    simp only [Below] at this
    exact le_trans this (hs ρ hρ)

/-- the same fact in the shape `Admissible.strip_ok` asks for -/
theorem strip_ok_of_mono (box : Box) (lt : Bool) (f : E) (hm : ∀ ρ, InBox box ρ → Mono ρ lt f) :
    ∀ ρ, InBox box ρ → Below lt (eval ρ (strip f)) (eval ρ f) :=
  fun ρ hρ => mono_strip (hm ρ hρ)

/-- non-vacuity: `b · ceiling(a/4)` is monotone in its ceiling term wherever `a, b ≥ 0`. -/
example (ρ : Nat → Rat) (h0 : 0 ≤ ρ 0) (h1 : 0 ≤ ρ 1) :
    Mono ρ true (.mul [.sym 1, .ceil (.mul [.num 1 4, .sym 0])]) := by
  have hin : Mono ρ true (.mul [.num 1 4, .sym 0]) := by
    refine .mulPos _ _ ?_ ?_
    · intro x hx
      simp at hx
      rcases hx with rfl | rfl
      · exact .num _ _ _
      · exact .sym _ _
    · intro x hx
      simp at hx
      rcases hx with rfl | rfl
      · simp only [lowerV, if_true, strip, eval]; rw [mkRat_1_4]; norm_num
      · simpa [lowerV, strip, eval] using h0
  refine .mulPos _ _ ?_ ?_
  · intro x hx
    simp at hx
    rcases hx with rfl | rfl
    · exact .sym _ _
    · exact .ceil _ hin
  · intro x hx
    simp at hx
    rcases hx with rfl | rfl
    · simpa [lowerV, strip, eval] using h1
    · simp only [lowerV, if_true, strip, stripL, eval, prodL]
      rw [mkRat_1_4]
      have : 0 ≤ 1 / 4 * (ρ 0 * 1) := by linarith
      exact this

theorem inBox0_one : InBox box0 (envOf [1]) := by
  intro i hi
  match i, hi with
  | 0, _ => exact ⟨1, rfl, by simp [box0], by simp [box0]⟩

/-- **Stripping `ceiling` is NOT sound in general** (`ceiling(a/4) − 1/2` on `a ∈ [1,2]`): with a
truthful oracle the model answers LEQ — which is true of the stripped formula `a/4 − 1/2` — while the
formula itself is `1/2` at `a = 1`. (The formula is increasing in its ceiling term, so only GEQ
verdicts transfer, cf. `ceil_strip_sound_mono`.) -/
theorem ceil_strip_unsound_example :
    OracleSound o0 box0 ∧ geqLeqZero Cfg.repaired o0 box0 5 f0 false = .ok .leq ∧
    geqLeqZero Cfg.asIs o0 box0 5 f0 false = .ok .leq ∧ Holds box0 (strip f0) .leq ∧
    InBox box0 (envOf [1]) ∧ eval (envOf [1]) f0 = 1 / 2 ∧ ¬ Holds box0 f0 .leq := by
  have hv : eval (envOf [1]) f0 = 1 / 2 := by decide +kernel
  refine ⟨o0_sound, isOkV_iff.mp (by decide +kernel), isOkV_iff.mp (by decide +kernel), ?_, inBox0_one, hv, ?_⟩
  · intro ρ hρ
    have hb := inBox0 hρ
    show eval ρ g0 ≤ 0
    rw [g0_val]; linarith [hb.2]
  · intro h
    have := h _ inBox0_one
    rw [hv] at this
    norm_num at this

/-! ## the joint Heaviside partition -/

theorem inBoxH_31 : InBox boxH (envOf [3, 1]) := by
  intro i hi
  match i, hi with
  | 0, _ => exact ⟨3, rfl, by simp [boxH], by simp [boxH]⟩
  | 1, _ => exact ⟨1, rfl, by simp [boxH], by simp [boxH]⟩

/-- **The all-ones / all-zeros Heaviside partition is NOT sound for two different Heaviside terms**:
for `Heaviside(a−2) − Heaviside(b−2)` both parts are `1−1` and `0−0`, a truthful oracle confirms
`= 0` for both, the model answers EQ — and the formula is 1 at `(a, b) = (3, 1)`. -/
theorem heaviside_partition_counterexample :
    OracleSound oH boxH ∧ geqLeqZero Cfg.asIs oH boxH 5 fH false = .ok .eq ∧
    InBox boxH (envOf [3, 1]) ∧ eval (envOf [3, 1]) fH = 1 ∧ ¬ Holds boxH fH .eq ∧
    -- regression: the repaired per-atom partition, with sympy's answers on that run, says UNKNOWN
    OracleSound oH2 boxH ∧ geqLeqZero Cfg.repaired oH2 boxH 5 fH false = .ok .unknown := by
  have hv : eval (envOf [3, 1]) fH = 1 := by decide +kernel
  refine ⟨oH_sound, isOkV_iff.mp (by decide +kernel), inBoxH_31, hv, ?_, oH2_sound, isOkV_iff.mp (by decide +kernel)⟩
  intro h
  have := h _ inBoxH_31
  rw [hv] at this
  norm_num at this

/-! ## the `terms_do_not_cross_zero` fall-through -/

theorem inBoxT_12 : InBox boxT (envOf [1, 2]) := by
  intro i hi
  match i, hi with
  | 0, _ => exact ⟨1, rfl, by simp [boxT], by simp [boxT]⟩
  | 1, _ => exact ⟨2, rfl, by simp [boxT], by simp [boxT]⟩

/-- **`if terms_do_not_cross_zero and lt_zero: return LEQ` is NOT sound**: `Max(a,b) − a` never
changes sign (it is ≥ 0 everywhere), vanishes at both corners of `[1,4]²`, sympy decides nothing —
and the model, like the code, answers LEQ, although the value is 1 at `(1, 2)`.
The repaired variant answers UNKNOWN on the same run. -/
theorem tdncz_fallthrough_counterexample :
    OracleSound oT boxT ∧ NoCross boxT fT ∧ geqLeqZero Cfg.asIs oT boxT 5 fT true = .ok .leq ∧
    geqLeqZero Cfg.repaired oT boxT 5 fT true = .ok .unknown ∧
    InBox boxT (envOf [1, 2]) ∧ eval (envOf [1, 2]) fT = 1 ∧ ¬ Holds boxT fT .leq := by
  have hv : eval (envOf [1, 2]) fT = 1 := by decide +kernel
  refine ⟨oT_sound boxT, Or.inl fun ρ _ => fT_nonneg ρ, isOkV_iff.mp (by decide +kernel),
    isOkV_iff.mp (by decide +kernel), inBoxT_12, hv, ?_⟩
  intro h
  have := h _ inBoxT_12
  rw [hv] at this
  norm_num at this

end AFV.C09
