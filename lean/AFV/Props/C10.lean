import AFV.Lemmas.TileAdmit
/-!
# C10 — tile-shape candidates and mapspace counts are complete and exact

Model: `AFV/Model/TileShapes.lean` (`factorize`, `candidates`, `countFactorizations` follow
`_factorize`, `get_possible_factor_sizes`, `_count_factorizations` loop by loop).
Spec:  `AFV/Spec/TileShapes.lean`.

All theorems are for every `outer`, `inner`, pattern: no size bound.

Preconditions mirrored from the code: `0 < inner`, `0 < outer` (the Python raises
`ZeroDivisionError` otherwise) and, for the exactness theorems, coarseness `cn / cd ≤ 1`
(the property is stated for coarseness 1; `coarseness ≤ 1` takes the same code path).
`imperfect_le_outer` and `outer_mem` hold for every coarseness.

FLOAT PRECONDITION (not modelled; checked by the harness on every run over the whole domain it
explores): `math.ceil(a / b) = ceilDiv a b`, `math.ceil(n ** 0.5) = ceilSqrt n`,
`round(n / inner)` exact, for all operands in scope (< 2^52).
-/
namespace AFV.C10
open AFV.TileShapes

/-! ## the arithmetic the code relies on -/

/-- `ceilDiv outer m` (the model of `math.ceil(outer / m)`) is, from first principles, the number
of tiles: the least `t` such that `t` tiles of shape `m` cover `outer`. -/
theorem ceilDiv_spec (outer m : Nat) (hm : 0 < m) :
    outer ≤ ceilDiv outer m * m ∧ ∀ t, outer ≤ t * m → ceilDiv outer m ≤ t :=
  ⟨le_ceilDiv_mul hm, fun _ h => (ceilDiv_le_iff hm).2 h⟩

/-- `ceilSqrt n` (the model of `math.ceil(n ** 0.5)`) is the least `r` with `n ≤ r²`. -/
theorem ceilSqrt_spec (n : Nat) :
    n ≤ ceilSqrt n * ceilSqrt n ∧ ∀ r, r < ceilSqrt n → r * r < n :=
  ⟨le_ceilSqrt_sq n, fun r h => ceilSqrt_least n r h⟩

/-! ## `_factorize` -/

/-- The sqrt-bounded loop with the `i`, `ceil(n / i)` pairs finds exactly the divisors. -/
theorem factorize_exact (n d : Nat) (hn : 0 < n) : d ∈ factorize n ↔ d ∣ n :=
  mem_factorize hn

theorem factorize_sorted (n : Nat) : (factorize n).Pairwise (· < ·) :=
  pairwise_sortDedup _

example : factorize 36 = [1, 2, 3, 4, 6, 9, 12, 18, 36] := by decide
example : factorize 97 = [1, 97] := by decide

/-! ## `get_possible_factor_sizes` -/

/-- The returned array is strictly increasing (so it is determined by its members). -/
theorem candidates_sorted (imp : Bool) (inner outer cn cd : Nat) :
    (candidates imp inner outer cn cd).Pairwise (· < ·) :=
  pairwise_sortDedup _

/-- **Perfect mode, exactness.** For `inner ∣ outer` the candidates are exactly the multiples of
`inner` that divide `outer`. -/
theorem perfect_exact (inner outer cn cd m : Nat) (hi : 0 < inner) (ho : 0 < outer)
    (hdiv : inner ∣ outer) (hc : cn ≤ cd) :
    m ∈ candidates false inner outer cn cd ↔ inner ∣ m ∧ m ∣ outer := by
  obtain ⟨k, rfl⟩ := hdiv
  have hk : 0 < k := Nat.pos_of_ne_zero (by rintro rfl; simp at ho)
  have hcd : ceilDiv (inner * k) inner = k := by rw [Nat.mul_comm]; exact ceilDiv_mul_self hi
  -- the coarseness filter keeps everything
  have hfold := foldl_coarseStep_all hc
    (sortDedup ((factorize k).map (· * inner))) 0 [] (pairwise_sortDedup _) (by simp)
  -- membership in the set before the final `_try_admit(outer)`
  have hmem : ∀ x, x ∈ (sortDedup ((factorize k).map (· * inner))).reverse ++ [] ↔
      ∃ d, d ∣ k ∧ x = d * inner := by
    intro x
    simp only [List.append_nil, List.mem_reverse, mem_sortDedup, List.mem_map]
    constructor
    · rintro ⟨d, hd, rfl⟩; exact ⟨d, (mem_factorize hk).1 hd, rfl⟩
    · rintro ⟨d, hd, rfl⟩; exact ⟨d, (mem_factorize hk).2 hd, rfl⟩
  -- the final `_try_admit(outer)` returns early: `outer` is already there
  have hout : inner * k ∈ (sortDedup ((factorize k).map (· * inner))).reverse ++ [] :=
    (hmem _).2 ⟨k, Nat.dvd_refl k, Nat.mul_comm _ _⟩
  have hfinal : (tryAdmit (inner * k)
      { factors := (sortDedup ((factorize k).map (· * inner))).reverse ++ [], nTiles := [] }
      (inner * k)).factors = (sortDedup ((factorize k).map (· * inner))).reverse ++ [] := by
    unfold tryAdmit
    have : (decide (inner * k > inner * k) ||
        ((sortDedup ((factorize k).map (· * inner))).reverse ++ []).contains (inner * k)) = true := by
      simp only [Bool.or_eq_true, List.contains_iff_mem]; exact Or.inr hout
    rw [if_pos this]
  unfold candidates
  simp only [Bool.false_eq_true, if_false, hcd, hfold, hfinal, mem_sortDedup]
  rw [hmem]
  constructor
  · rintro ⟨d, hd, rfl⟩
    exact ⟨Nat.dvd_mul_left _ _, by rw [Nat.mul_comm inner k]; exact Nat.mul_dvd_mul_right hd inner⟩
  · rintro ⟨⟨d, rfl⟩, h2⟩
    exact ⟨d, Nat.dvd_of_mul_dvd_mul_left hi h2, Nat.mul_comm _ _⟩

/-- **Perfect mode, as an equation with the brute-force spec** (what the driver evaluates). -/
theorem perfect_eq_spec (inner outer cn cd : Nat) (hi : 0 < inner) (ho : 0 < outer)
    (hdiv : inner ∣ outer) (hc : cn ≤ cd) :
    candidates false inner outer cn cd = perfectSpec inner outer :=
  sorted_ext (candidates_sorted _ _ _ _ _) (perfectSpec_sorted _ _) (fun m => by
    rw [perfect_exact inner outer cn cd m hi ho hdiv hc, mem_perfectSpec inner outer m ho])

example : candidates false 2 12 = [2, 4, 6, 12] := by decide
/-- non-vacuity: the hypotheses hold for a size with several prime factors -/
example : candidates false 6 360 = perfectSpec 6 360 :=
  perfect_eq_spec 6 360 1 1 (by decide) (by decide) (by decide) (by decide)
example : (30 : Nat) ∈ candidates false 6 360 ∧ (45 : Nat) ∉ candidates false 6 360 := by
  rw [perfect_exact 6 360 1 1 30 (by decide) (by decide) (by decide) (by decide),
    perfect_exact 6 360 1 1 45 (by decide) (by decide) (by decide) (by decide)]
  decide

/-- `ceilDiv outer (ceilDiv outer n)` is the smallest shape with as many tiles as `n`. -/
theorem least_shape (outer n : Nat) (ho : 0 < outer) (hn : 0 < n) :
    IsLeastShape outer (ceilDiv outer n) (ceilDiv outer (ceilDiv outer n)) := by
  have ht := ceilDiv_pos ho hn
  refine ⟨ceilDiv_pos ho ht, ceilDiv_triple ho hn, ?_⟩
  intro m' hm' h
  exact (ceilDiv_galois hm' ht).1 (Nat.le_of_eq h)

/-- **Imperfect mode, full characterisation** (coarseness ≤ 1): the candidates are `outer` and,
for every multiple `k * inner ≤ outer`, the smallest shape with as many tiles as `k * inner`. -/
theorem imperfect_mem_iff (inner outer cn cd m : Nat) (hi : 0 < inner) (ho : 0 < outer)
    (hcd : 0 < cd) (hc : cn ≤ cd) :
    m ∈ candidates true inner outer cn cd ↔
      m = outer ∨ ∃ k, 0 < k ∧ k * inner ≤ outer ∧ m = ceilDiv outer (ceilDiv outer (k * inner)) := by
  have hfuel : outer < impFuel outer cd + 1 * inner := by
    have : outer ≤ outer * cd := Nat.le_mul_of_pos_right outer hcd
    unfold impFuel; omega
  have hloop := impLoop_additive (outer := outer) hi hc (impFuel outer cd) 1
    { factors := [], nTiles := [] } hfuel
  rw [Nat.one_mul] at hloop
  have hL : ∀ n ∈ ((List.range' 1 (outer / inner + 1 - 1)).map (· * inner)) ++ [outer],
      0 < n ∧ n ≤ outer := by
    intro n hn
    rcases List.mem_append.1 hn with hn | hn
    · obtain ⟨k, hk, rfl⟩ := List.mem_map.1 hn
      rw [List.mem_range'_1] at hk
      exact ⟨Nat.mul_pos (by omega) hi, (Nat.le_div_iff_mul_le hi).1 (by omega)⟩
    · simp only [List.mem_singleton] at hn; subst hn; exact ⟨ho, Nat.le_refl _⟩
  obtain ⟨hinv, htiles⟩ := foldl_tryAdmit_invC ho _ _ (invC_empty outer) hL
  rw [List.foldl_append, List.foldl_cons, List.foldl_nil] at hinv htiles
  unfold candidates
  simp only [if_true, hloop, mem_sortDedup]
  rw [hinv.factors]
  simp only [htiles, List.not_mem_nil, false_or]
  constructor
  · rintro ⟨t, ⟨n, hn, rfl⟩, rfl⟩
    rcases List.mem_append.1 hn with hn | hn
    · obtain ⟨k, hk, rfl⟩ := List.mem_map.1 hn
      rw [List.mem_range'_1] at hk
      exact Or.inr ⟨k, by omega, (Nat.le_div_iff_mul_le hi).1 (by omega), rfl⟩
    · simp only [List.mem_singleton] at hn; subst hn
      left; rw [ceilDiv_self ho, ceilDiv_one]
  · rintro (rfl | ⟨k, hk, hle, rfl⟩)
    · refine ⟨1, ⟨m, by simp, (ceilDiv_self ho).symm⟩, (ceilDiv_one m).symm⟩
    · refine ⟨_, ⟨k * inner, ?_, rfl⟩, rfl⟩
      apply List.mem_append_left
      apply List.mem_map.2
      refine ⟨k, ?_, rfl⟩
      rw [List.mem_range'_1]
      have := (Nat.le_div_iff_mul_le hi).2 hle
      omega

/-- **Imperfect mode, completeness**: for every achievable number of tiles (that of a multiple
`n ≤ outer` of `inner`) the smallest shape giving that count is a candidate. -/
theorem imperfect_complete (inner outer cn cd n : Nat) (hi : 0 < inner) (ho : 0 < outer)
    (hcd : 0 < cd) (hc : cn ≤ cd) (hdiv : inner ∣ n) (hn : 0 < n) (hno : n ≤ outer) :
    ceilDiv outer (ceilDiv outer n) ∈ candidates true inner outer cn cd ∧
      IsLeastShape outer (ceilDiv outer n) (ceilDiv outer (ceilDiv outer n)) := by
  refine ⟨?_, least_shape outer n ho hn⟩
  obtain ⟨k, rfl⟩ := hdiv
  rw [imperfect_mem_iff inner outer cn cd _ hi ho hcd hc]
  right
  refine ⟨k, Nat.pos_of_ne_zero (by rintro rfl; simp at hn), by rwa [Nat.mul_comm], ?_⟩
  rw [Nat.mul_comm]

/-- **Imperfect mode: no candidate exceeds `outer`** — for every coarseness and every inner. -/
theorem imperfect_le_outer (inner outer cn cd m : Nat)
    (h : m ∈ candidates true inner outer cn cd) : m ≤ outer := by
  unfold candidates at h
  simp only [if_true, mem_sortDedup] at h
  refine tryAdmit_le_outer outer ?_ m h
  exact impLoop_inv (fun st => ∀ m ∈ st.factors, m ≤ outer)
    (fun st n hst => tryAdmit_le_outer n hst) _ _ _ _ (by simp)

/-- **`outer` itself is a candidate** — both modes, every coarseness, every inner. -/
theorem outer_mem (imp : Bool) (inner outer cn cd : Nat) (ho : 0 < outer) :
    outer ∈ candidates imp inner outer cn cd := by
  unfold candidates
  rw [mem_sortDedup]
  apply outer_mem_tryAdmit ho
  cases imp with
  | true =>
    simp only [if_true]
    exact impLoop_inv (InvA outer) (fun st n hst => tryAdmit_invA n hst) _ _ _ _
      (by intro t ht; simp at ht)
  | false =>
    simp only [Bool.false_eq_true, if_false]
    intro t ht; simp at ht

/-- Imperfect-mode candidates are positive (coarseness ≤ 1). -/
theorem imperfect_pos (inner outer cn cd m : Nat) (hi : 0 < inner) (ho : 0 < outer)
    (hcd : 0 < cd) (hc : cn ≤ cd) (h : m ∈ candidates true inner outer cn cd) : 0 < m := by
  rcases (imperfect_mem_iff inner outer cn cd m hi ho hcd hc).1 h with rfl | ⟨k, hk, _, rfl⟩
  · exact ho
  · exact ceilDiv_pos ho (ceilDiv_pos ho (Nat.mul_pos hk hi))

/-- **The fuel of the model's `while` loop is not a restriction** (every coarseness): with
`inner ≥ 1` the loop `while n <= outer` exits within `impFuel` iterations, so the model is the
unbounded Python loop. -/
theorem imperfect_fuel_irrelevant (inner outer cn cd extra : Nat) (st : St) (hi : 0 < inner)
    (hcd : 0 < cd) :
    impLoop outer inner cn cd (impFuel outer cd + extra) inner 1 st =
      impLoop outer inner cn cd (impFuel outer cd) inner 1 st :=
  impLoop_fuel_irrelevant hi hcd (impFuel outer cd) extra inner 1 0 st (by decide)
    (by simpa using Nat.mul_le_mul_right cd hi) (by unfold impFuel; omega)

/-- **Imperfect mode, as an equation with the closed-form spec**: the model returns exactly the
required shapes (nothing is missing, nothing redundant is added). -/
theorem imperfect_eq_required (inner outer cn cd : Nat) (hi : 0 < inner) (ho : 0 < outer)
    (hcd : 0 < cd) (hc : cn ≤ cd) :
    candidates true inner outer cn cd = imperfectRequired inner outer :=
  sorted_ext (candidates_sorted _ _ _ _ _) (pairwise_sortDedup _) (fun m => by
    rw [imperfect_mem_iff inner outer cn cd m hi ho hcd hc, mem_imperfectRequired inner outer m hi])

/-- The brute-force search for the least shape agrees with the closed form. -/
theorem leastShapeBrute_eq (outer n : Nat) (ho : 0 < outer) (hn : 0 < n) :
    leastShapeBrute outer (ceilDiv outer n) = some (ceilDiv outer (ceilDiv outer n)) := by
  obtain ⟨h1, h2, h3⟩ := least_shape outer n ho hn
  unfold leastShapeBrute
  apply find?_sorted_eq_some List.pairwise_lt_range'
  · rw [List.mem_range'_1]
    have := ceilDiv_le_self outer (ceilDiv outer n)
    omega
  · simpa using h2
  · intro a ha hlt
    rw [List.mem_range'_1] at ha
    simp only [decide_eq_false_iff_not]
    intro e
    have := h3 a (by omega) e
    omega

/-- The closed-form spec is the brute-force spec ("for every multiple `n` of `inner` in
`1..outer`, search the least shape with as many tiles"). -/
theorem imperfectRequired_eq_brute (inner outer : Nat) (hi : 0 < inner) (ho : 0 < outer) :
    imperfectRequired inner outer = imperfectRequiredBrute inner outer := by
  apply sorted_ext (pairwise_sortDedup _) (pairwise_sortDedup _)
  intro m
  show m ∈ imperfectRequired inner outer ↔ m ∈ imperfectRequiredBrute inner outer
  rw [mem_imperfectRequired inner outer m hi]
  unfold imperfectRequiredBrute
  simp only [mem_sortDedup, List.mem_cons, List.mem_filterMap, List.mem_filter, List.mem_range'_1,
    decide_eq_true_eq]
  constructor
  · rintro (h | ⟨k, hk, hle, rfl⟩)
    · exact Or.inl h
    · have hpos : 0 < k * inner := Nat.mul_pos hk hi
      exact Or.inr ⟨k * inner, ⟨by omega, Nat.mul_mod_left k inner⟩,
        leastShapeBrute_eq outer _ ho hpos⟩
  · rintro (h | ⟨n, ⟨hn, hmod⟩, hb⟩)
    · exact Or.inl h
    · obtain ⟨k, rfl⟩ := Nat.dvd_of_mod_eq_zero hmod
      have hk : 0 < k := Nat.pos_of_ne_zero (by rintro rfl; omega)
      rw [leastShapeBrute_eq outer _ ho (by omega)] at hb
      refine Or.inr ⟨k, hk, by rw [Nat.mul_comm]; omega, ?_⟩
      rw [Nat.mul_comm k inner]
      exact (Option.some.inj hb).symm

/-- Every perfect-mode candidate is also an imperfect-mode candidate (used by C03/C04). -/
theorem perfect_subset_imperfect (inner outer cn cd m : Nat) (hi : 0 < inner) (ho : 0 < outer)
    (hcd : 0 < cd) (hc : cn ≤ cd) (hdiv : inner ∣ outer)
    (h : m ∈ candidates false inner outer cn cd) : m ∈ candidates true inner outer cn cd := by
  obtain ⟨⟨k, rfl⟩, e, he⟩ := (perfect_exact inner outer cn cd m hi ho hdiv hc).1 h
  rw [imperfect_mem_iff inner outer cn cd _ hi ho hcd hc]
  have hk : 0 < k := Nat.pos_of_ne_zero (by rintro rfl; simp at he; omega)
  have he0 : 0 < e := Nat.pos_of_ne_zero (by rintro rfl; simp at he; omega)
  have hpos : 0 < inner * k := Nat.mul_pos hi hk
  right
  refine ⟨k, hk, ?_, ?_⟩
  · rw [Nat.mul_comm, he]; exact Nat.le_mul_of_pos_right _ he0
  · rw [Nat.mul_comm k inner]
    have h1 : ceilDiv outer (inner * k) = e := by
      rw [he, Nat.mul_comm]; exact ceilDiv_mul_self hpos
    rw [h1, he]; exact (ceilDiv_mul_self he0).symm

example : candidates true 5 12 = [4, 6, 12] := by decide
/-- non-vacuity: 21 is a multiple of 7 below 100; it needs 5 tiles and the least such shape is 20 -/
example : (20 : Nat) ∈ candidates true 7 100 ∧ IsLeastShape 100 5 20 := by
  have := imperfect_complete 7 100 1 1 21 (by decide) (by decide) (by decide) (by decide)
    (by decide) (by decide) (by decide)
  simpa [show ceilDiv 100 21 = 5 by decide, show ceilDiv 100 5 = 20 by decide] using this
example : candidates true 7 100 = imperfectRequired 7 100 :=
  imperfect_eq_required 7 100 1 1 (by decide) (by decide) (by decide) (by decide)
example : candidates true 1 12 = [1, 2, 3, 4, 6, 12] := by decide
/-- Observation (NOT a C10 violation: the property asks for the smallest shape with each tile
count): that smallest shape need not be a multiple of `inner`, although the comment in
`get_possible_factor_sizes` says "Force n to be a multiple of the inner size".  `inner = 2`,
`outer = 6`: candidate `3`. -/
example : candidates true 2 6 = [2, 3, 6] ∧ ¬ (2 ∣ 3) := by decide
example : candidates true 3 100 2 1 = [3, 6, 12, 20, 34, 50, 100] := by decide
example : imperfectRequiredBrute 5 12 = [4, 6, 12] := by decide
example : IsLeastShape 12 3 4 ∧ ceilDiv 12 5 = 3 := by
  refine ⟨?_, by decide⟩
  have := least_shape 12 5 (by decide) (by decide)
  simpa [show ceilDiv 12 5 = 3 by decide, show ceilDiv 12 3 = 4 by decide] using this

/-! ## `_count_factorizations` -/

/-- **Counter**: the reported count is the number of enumerated factorisation chains. -/
theorem count_eq_length_chains (n : Nat) (pat : List Bool) :
    countFactorizations n pat = (chains n pat).length := by
  induction pat generalizing n with
  | nil => rfl
  | cons imp rest ih =>
    cases rest with
    | nil => rfl
    | cons o os =>
      rw [chains, countFactorizations, List.length_flatMap]
      cases imp with
      | true =>
        simp only [if_true, chainChoices_true, chainNext, List.length_map]
        congr 1
        exact List.map_congr_left (fun s _ => ih _)
      | false =>
        simp only [Bool.false_eq_true, if_false, chainChoices_false, chainNext, List.length_map]
        congr 1
        exact List.map_congr_left (fun s _ => ih _)

/-- The enumeration contains exactly the valid chains … -/
theorem mem_chains_iff (n : Nat) (pat : List Bool) (c : List Nat) :
    c ∈ chains n pat ↔ validChain n pat c = true := by
  induction pat generalizing n c with
  | nil => cases c <;> simp [chains, validChain]
  | cons imp rest ih =>
    cases rest with
    | nil => cases c <;> simp [chains, validChain]
    | cons o os =>
      rw [chains]
      simp only [List.mem_flatMap, List.mem_map]
      cases c with
      | nil => simp [validChain]
      | cons s c =>
        simp only [validChain, Bool.and_eq_true, Bool.or_eq_true, decide_eq_true_eq]
        constructor
        · rintro ⟨s', hs', c', hc', e⟩
          obtain ⟨rfl, rfl⟩ := List.cons.inj e
          rw [mem_chainChoices] at hs'
          refine ⟨⟨⟨hs'.1, hs'.2.1⟩, hs'.2.2⟩, ?_⟩
          have := (ih _ _).1 hc'
          cases imp <;> simpa [chainNext] using this
        · rintro ⟨⟨⟨h1, h2⟩, h3⟩, h4⟩
          refine ⟨s, (mem_chainChoices _ _ _).2 ⟨h1, h2, h3⟩, c, ?_, rfl⟩
          apply (ih _ _).2
          cases imp <;> simpa [chainNext] using h4

/-- … each exactly once: so `countFactorizations n pat` is the cardinality of the set of valid
chains (a brute-force count). -/
theorem chains_nodup (n : Nat) (pat : List Bool) : (chains n pat).Nodup := by
  induction pat generalizing n with
  | nil => simp [chains]
  | cons imp rest ih =>
    cases rest with
    | nil => simp [chains]
    | cons o os =>
      rw [chains, List.Nodup, List.pairwise_flatMap]
      constructor
      · intro s _
        exact List.Pairwise.map _ (fun a b hab e => hab (List.cons.inj e).2) (ih _)
      · refine List.Pairwise.imp ?_ (chainChoices_nodup imp n)
        intro s s' hne x hx y hy e
        obtain ⟨_, _, rfl⟩ := List.mem_map.1 hx
        obtain ⟨_, _, rfl⟩ := List.mem_map.1 hy
        exact hne (List.cons.inj e).1

example : countFactorizations 12 [false, false, false] = 18 := by decide
example : countFactorizations 5 [true, true, false] = 13 := by decide
example : validChain 12 [false, true, false] [3, 3] = true := by decide
example : (chains 6 [true, false, false]).length = 13 := by decide

end AFV.C10
