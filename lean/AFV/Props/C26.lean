import AFV.Model.ArchTree
import AFV.Spec.ArchTree
import AFV.Lemmas.ArchTree
/-!
# C26 — component totals count every instance of the component

`instances t x` (Spec/ArchTree.lean) is the product of the spatial fanouts of `x` itself and of everything
above it on its root path; sibling compute branches are not on that path.

Two models of `iterate_hierarchically` + the `global_fanout` loop of `Spec.calculate_component_costs`:

* `Variant.current` — the code in /repo today.  It **violates** the property in two ways
  (`total_eq_counterexample_own_fanout`, `total_eq_counterexample_sibling_compute`); what it computes is
  characterised exactly by `current_fanout_char`, and it meets the property when the defects cannot show
  (`total_eq_partial`).
* `Variant.fixed` — a `Compute` is not appended to the shared `_parents` list, and the component's own
  fanout is multiplied in.  For this model the property holds in full: `instances_eq`, `total_eq`,
  `arch_total_eq_sum`.

Full statement (what the property demands of the code; proved for `fixed`, refuted for `current`):
    ∀ t, (names t).Nodup → componentTotals v t = specTotals t
      ∧ archTotalArea v t = specTotalArea t ∧ archTotalLeak v t = specTotalLeak t
-/
namespace AFV.C26
open AFV.ArchTree

def nc (l : LeafInfo) : Bool := !l.compute

theorem iter_fst (v : Variant) (t : Nodes) : ∀ ps, (iter v t ps).1.map (·.1) = leaves t := by
  induction t with
  | nil => intro ps; simp [iter, leaves]
  | leaf l r ih => intro ps; simp [iter, leaves, ih]
  | hier i r ihi ihr => intro ps; simp [iter, leaves, ihi, ihr]
  | fork i r ihi ihr => intro ps; simp [iter, leaves, ihi, ihr]

theorem mem_iter_leaf (v : Variant) (t : Nodes) (ps : List LeafInfo) (x : LeafInfo) (qs : List LeafInfo)
    (h : (x, qs) ∈ (iter v t ps).1) : x ∈ leaves t := by
  rw [← iter_fst v t ps]
  exact List.mem_map.mpr ⟨(x, qs), h, rfl⟩

theorem mem_names (t : Nodes) (x : LeafInfo) (h : x ∈ leaves t) : x.name ∈ names t :=
  List.mem_map.mpr ⟨x, h, rfl⟩

/-- `fixed`: the shared `_parents` list grows by exactly the main chain of the node list. -/
theorem iter_fixed_snd (t : Nodes) : ∀ ps, (iter .fixed t ps).2 = ps ++ chain t := by
  induction t with
  | nil => intro ps; simp [iter, chain]
  | leaf l r ih =>
    intro ps
    by_cases hl : l.compute <;> simp [iter, pushParent, chain, hl, ih]
  | hier i r ihi ihr => intro ps; simp [iter, chain, ihi, ihr]
  | fork i r _ ihr => intro ps; simp [iter, chain, ihr]

/-- `fixed`: the parents yielded with a node are the nodes strictly above it on its tree path. -/
theorem iter_fixed_path (t : Nodes) (hn : (names t).Nodup) :
    ∀ ps x qs, (x, qs) ∈ (iter .fixed t ps).1 →
      ∃ a, qs = ps ++ a ∧ ∀ k, pathForest x.name (toForest t k) = some (a ++ [x]) := by
  induction t with
  | nil => intro ps x qs h; simp [iter] at h
  | leaf l r ih =>
    rw [names_leaf] at hn
    obtain ⟨hnot, hn'⟩ := List.nodup_cons.mp hn
    intro ps x qs h
    simp only [iter, List.mem_cons] at h
    rcases h with h | h
    · cases h
      refine ⟨[], by simp, fun k => ?_⟩
      by_cases hl : l.compute <;> simp [toForest, hl, pathForest, Tree.path]
    · obtain ⟨a, ha, hp⟩ := ih hn' _ x qs h
      have hxn : x.name ∈ names r := mem_names r x (mem_iter_leaf _ _ _ _ _ h)
      have hne : (l.name == x.name) = false := by
        simpa using fun e : l.name = x.name => hnot (e ▸ hxn)
      by_cases hl : l.compute
      · refine ⟨a, by simpa [pushParent, hl] using ha, fun k => ?_⟩
        simp [toForest, hl, pathForest, Tree.path, hne, hp]
      · refine ⟨l :: a, by simpa [pushParent, hl] using ha, fun k => ?_⟩
        simp [toForest, hl, pathForest, Tree.path, hne, hp]
  | hier i r ihi ihr =>
    rw [names_hier] at hn
    obtain ⟨hni, hnr, hdis⟩ := List.nodup_append.mp hn
    intro ps x qs h
    simp only [iter, List.mem_append] at h
    rcases h with h | h
    · obtain ⟨a, ha, hp⟩ := ihi hni ps x qs h
      exact ⟨a, ha, fun k => by simp [toForest, hp]⟩
    · rw [iter_fixed_snd] at h
      obtain ⟨a, ha, hp⟩ := ihr hnr _ x qs h
      have hxn : x.name ∈ names r := mem_names r x (mem_iter_leaf _ _ _ _ _ h)
      have hxi : x.name ∉ names i := fun hi => hdis _ hi _ hxn rfl
      refine ⟨chain i ++ a, by simpa using ha, fun k => ?_⟩
      simp [toForest, (absent x.name i hxi).2, hp]
  | fork i r ihi ihr =>
    rw [names_fork] at hn
    obtain ⟨hni, hnr, hdis⟩ := List.nodup_append.mp hn
    intro ps x qs h
    simp only [iter, List.mem_append] at h
    rcases h with h | h
    · obtain ⟨a, ha, hp⟩ := ihi hni ps x qs h
      exact ⟨a, ha, fun k => by simp [toForest, pathForest_append, hp]⟩
    · obtain ⟨a, ha, hp⟩ := ihr hnr ps x qs h
      have hxn : x.name ∈ names r := mem_names r x (mem_iter_leaf _ _ _ _ _ h)
      have hxi : x.name ∉ names i := fun hi => hdis _ hi _ hxn rfl
      refine ⟨a, ha, fun k => ?_⟩
      simp [toForest, pathForest_append, (absent x.name i hxi).2, pathForest, hp]

/-- `current` and `fixed` walk the same nodes; the `fixed` parents are the non-compute `current` parents. -/
theorem iter_current_filter (t : Nodes) : ∀ ps,
    iter .fixed t (ps.filter nc) =
      ((iter .current t ps).1.map (fun p => (p.1, p.2.filter nc)), (iter .current t ps).2.filter nc) := by
  induction t with
  | nil => intro ps; simp [iter]
  | leaf l r ih =>
    intro ps
    have hp : pushParent .fixed (ps.filter nc) l = (pushParent .current ps l).filter nc := by
      by_cases hl : l.compute <;> simp [pushParent, nc, hl]
    simp only [iter, hp, ih]
    simp
  | hier i r ihi ihr => intro ps; simp only [iter, ihi, ihr]; simp
  | fork i r ihi ihr => intro ps; simp only [iter, ihi, ihr]; simp

/-! ## arithmetic of the fanout loop -/

theorem foldl_fanout (ps : List LeafInfo) : ∀ g, ps.foldl (fun g p => g * p.fanout) g = g * prodFanout ps := by
  induction ps with
  | nil => intro g; simp [prodFanout]
  | cons p ps ih => intro g; simp [ih, prodFanout, Nat.mul_assoc]

theorem loopFanout_eq (ps : List LeafInfo) : loopFanout ps = prodFanout ps := by
  simp [loopFanout, foldl_fanout]

theorem prodFanout_append (a b : List LeafInfo) : prodFanout (a ++ b) = prodFanout a * prodFanout b := by
  induction a with
  | nil => simp [prodFanout]
  | cons x xs ih => simp [prodFanout, ih, Nat.mul_assoc]

theorem prodFanout_filter (p : LeafInfo → Bool) (l : List LeafInfo) :
    prodFanout l = prodFanout (l.filter p) * prodFanout (l.filter (fun x => !p x)) := by
  induction l with
  | nil => simp [prodFanout]
  | cons x xs ih =>
    by_cases hp : p x
    · simp [hp, prodFanout, ih, Nat.mul_assoc]
    · simp [hp, prodFanout, ih, Nat.mul_left_comm]

theorem prodFanout_one (l : List LeafInfo) (h : ∀ x ∈ l, x.fanout = 1) : prodFanout l = 1 := by
  induction l with
  | nil => rfl
  | cons x xs ih =>
    simp [prodFanout, h x (by simp), ih (fun y hy => h y (by simp [hy]))]

/-! ## `fixed`: the property in full -/

/-- **instances_eq.** The count the `fixed` algorithm multiplies with is the component's own fanout times
the product of the fanouts of the nodes above it on its path — the number of instances. -/
theorem instances_eq (t : Nodes) (hn : (names t).Nodup) (x : LeafInfo) (qs : List LeafInfo)
    (h : (x, qs) ∈ (iter .fixed t []).1) :
    path t x.name = some (qs ++ [x]) ∧ globalFanout .fixed x qs = instances t x.name ∧
      instances t x.name = x.fanout * prodFanout qs := by
  obtain ⟨a, ha, hp⟩ := iter_fixed_path t hn [] x qs h
  simp only [List.nil_append] at ha
  subst ha
  have hpath : path t x.name = some (qs ++ [x]) := by simp [path, hp []]
  refine ⟨hpath, ?_, ?_⟩
  · simp [globalFanout, instances, hpath, loopFanout_eq, prodFanout_append, prodFanout]
  · simp [instances, hpath, prodFanout_append, prodFanout, Nat.mul_comm]

theorem filter_map_eq_filterMap {α β} (p : α → Bool) (g : α → β) (l : List α) :
    (l.filter p).map g = l.filterMap (fun x => if p x then some (g x) else none) := by
  induction l with
  | nil => rfl
  | cons x xs ih => by_cases hp : p x <;> simp [hp, ih]

theorem filterMap_congr_mem {α β} (f g : α → Option β) (l : List α) (h : ∀ x ∈ l, f x = g x) :
    l.filterMap f = l.filterMap g := by
  induction l with
  | nil => rfl
  | cons x xs ih =>
    simp only [List.filterMap_cons, h x (by simp)]
    rw [ih (fun y hy => h y (by simp [hy]))]

/-- Totals of any variant whose per-node count agrees with `instances` are the spec totals. -/
theorem totals_of_counts (v : Variant) (t : Nodes)
    (h : ∀ x qs, (x, qs) ∈ (iter v t []).1 → x.component = true → globalFanout v x qs = instances t x.name) :
    componentTotals v t = specTotals t := by
  unfold componentTotals specTotals
  rw [filter_map_eq_filterMap, ← iter_fst v t [], List.filterMap_map]
  apply filterMap_congr_mem
  rintro ⟨x, qs⟩ hx
  by_cases hc : x.component
  · simp [hc, h x qs hx hc]
  · simp [hc]

/-- **total_eq.** `fixed`: every component's total area / leak power is its per-instance value times its
number of instances, for every tree with distinct names. -/
theorem total_eq (t : Nodes) (hn : (names t).Nodup) : componentTotals .fixed t = specTotals t :=
  totals_of_counts .fixed t fun x qs hx _ => (instances_eq t hn x qs hx).2.1

/-- **arch_total_eq_sum.** `fixed`: the architecture totals are the sums of per-instance × instances. -/
theorem arch_total_eq_sum (t : Nodes) (hn : (names t).Nodup) :
    archTotalArea .fixed t = specTotalArea t ∧ archTotalLeak .fixed t = specTotalLeak t := by
  simp [archTotalArea, archTotalLeak, specTotalArea, specTotalLeak, total_eq t hn]

/-! ## `current`: what today's code computes -/

/-- **Exact characterisation of today's code.**  For the node `x` visited with parents `qs`:
`global_fanout × (x's own fanout) = instances × (product of the fanouts of the Compute nodes in qs)`,
i.e. the own fanout is missing and every earlier sibling Compute of the chain is counted. -/
theorem current_fanout_char (t : Nodes) (hn : (names t).Nodup) (x : LeafInfo) (qs : List LeafInfo)
    (h : (x, qs) ∈ (iter .current t []).1) :
    globalFanout .current x qs * x.fanout = instances t x.name * prodFanout (qs.filter (·.compute)) := by
  have hf : (x, qs.filter nc) ∈ (iter .fixed t []).1 := by
    have := iter_current_filter t []
    simp only [List.filter_nil] at this
    rw [this]
    exact List.mem_map.mpr ⟨(x, qs), h, rfl⟩
  obtain ⟨_, _, hi⟩ := instances_eq t hn x _ hf
  rw [hi]
  simp only [globalFanout, loopFanout_eq]
  rw [prodFanout_filter (·.compute) qs]
  have : (fun x : LeafInfo => !x.compute) = nc := rfl
  rw [this]
  ac_rfl

/-- **total_eq_partial (per component).**  Today's code counts the instances of `x` correctly when `x` has
no fanout of its own and no Compute visited before it in its chain has one. -/
theorem instances_eq_partial (t : Nodes) (hn : (names t).Nodup) (x : LeafInfo) (qs : List LeafInfo)
    (h : (x, qs) ∈ (iter .current t []).1) (hown : x.fanout = 1)
    (hsib : ∀ y ∈ qs, y.compute = true → y.fanout = 1) :
    globalFanout .current x qs = instances t x.name := by
  have := current_fanout_char t hn x qs h
  rw [hown, prodFanout_one _ (by intro y hy; simp at hy; exact hsib y hy.1 hy.2)] at this
  simpa using this

theorem mem_iter_parents (v : Variant) (t : Nodes) : ∀ ps x qs, (x, qs) ∈ (iter v t ps).1 →
    (∀ y ∈ qs, y ∈ ps ∨ y ∈ leaves t) ∧ (∀ y ∈ (iter v t ps).2, y ∈ ps ∨ y ∈ leaves t) := by
  have push : ∀ ps l y, y ∈ pushParent v ps l → y ∈ ps ∨ y = l := by
    intro ps l y hy
    cases v with
    | current => simpa [pushParent] using hy
    | fixed =>
      by_cases hl : l.compute
      · simp [pushParent, hl] at hy; exact Or.inl hy
      · simpa [pushParent, hl] using hy
  have snd : ∀ t : Nodes, ∀ ps, ∀ y ∈ (iter v t ps).2, y ∈ ps ∨ y ∈ leaves t := by
    intro t
    induction t with
    | nil => intro ps y hy; simp [iter] at hy; exact Or.inl hy
    | leaf l r ih =>
      intro ps y hy
      simp only [iter] at hy
      rcases ih _ y hy with h | h
      · rcases push ps l y h with h | h
        · exact Or.inl h
        · exact Or.inr (by simp [leaves, h])
      · exact Or.inr (by simp [leaves, h])
    | hier i r ihi ihr =>
      intro ps y hy
      simp only [iter] at hy
      rcases ihr _ y hy with h | h
      · rcases ihi _ y h with h | h
        · exact Or.inl h
        · exact Or.inr (by simp [leaves, h])
      · exact Or.inr (by simp [leaves, h])
    | fork i r _ ihr =>
      intro ps y hy
      simp only [iter] at hy
      rcases ihr _ y hy with h | h
      · exact Or.inl h
      · exact Or.inr (by simp [leaves, h])
  induction t with
  | nil => intro ps x qs h; simp [iter] at h
  | leaf l r ih =>
    intro ps x qs h
    refine ⟨?_, snd _ ps⟩
    simp only [iter, List.mem_cons] at h
    rcases h with h | h
    · cases h; exact fun y hy => Or.inl hy
    · intro y hy
      rcases (ih _ x qs h).1 y hy with h' | h'
      · rcases push ps l y h' with h'' | h''
        · exact Or.inl h''
        · exact Or.inr (by simp [leaves, h''])
      · exact Or.inr (by simp [leaves, h'])
  | hier i r ihi ihr =>
    intro ps x qs h
    refine ⟨?_, snd _ ps⟩
    simp only [iter, List.mem_append] at h
    rcases h with h | h
    · intro y hy
      rcases (ihi _ x qs h).1 y hy with h' | h'
      · exact Or.inl h'
      · exact Or.inr (by simp [leaves, h'])
    · intro y hy
      rcases (ihr _ x qs h).1 y hy with h' | h'
      · rcases snd i ps y h' with h'' | h''
        · exact Or.inl h''
        · exact Or.inr (by simp [leaves, h''])
      · exact Or.inr (by simp [leaves, h'])
  | fork i r ihi ihr =>
    intro ps x qs h
    refine ⟨?_, snd _ ps⟩
    simp only [iter, List.mem_append] at h
    rcases h with h | h
    · intro y hy
      rcases (ihi _ x qs h).1 y hy with h' | h'
      · exact Or.inl h'
      · exact Or.inr (by simp [leaves, h'])
    · intro y hy
      rcases (ihr _ x qs h).1 y hy with h' | h'
      · exact Or.inl h'
      · exact Or.inr (by simp [leaves, h'])

/-- **total_eq_partial.**  Today's code satisfies the property on every tree in which no `Component` (Memory,
Toll, Compute) carries a fanout of its own — all fanout sits on `Container`s — which is the only situation
the repository's tests exercise. -/
theorem total_eq_partial (t : Nodes) (hn : (names t).Nodup)
    (hown : ∀ x ∈ leaves t, x.component = true → x.fanout = 1)
    (hcomp : ∀ x ∈ leaves t, x.compute = true → x.fanout = 1) :
    componentTotals .current t = specTotals t ∧
    archTotalArea .current t = specTotalArea t ∧ archTotalLeak .current t = specTotalLeak t := by
  have h : componentTotals .current t = specTotals t :=
    totals_of_counts .current t fun x qs hx hc =>
      instances_eq_partial t hn x qs hx (hown x (mem_iter_leaf _ _ _ _ _ hx) hc) fun y hy hyc => by
        rcases (mem_iter_parents .current t [] x qs hx).1 y hy with h | h
        · simp at h
        · exact hcomp y h hyc
  simp [archTotalArea, archTotalLeak, specTotalArea, specTotalLeak, h]

/-! ## witnesses: today's code violates the property -/

def mem (n : String) (f : Nat) (a : Int) : LeafInfo := ⟨n, false, true, f, a, 1⟩
def mac (n : String) (f : Nat) (a : Int) : LeafInfo := ⟨n, true, true, f, a, 1⟩
def box (n : String) (f : Nat) : LeafInfo := ⟨n, false, false, f, 0, 0⟩

/-- `[Buf (fanout 4, area 100), MAC]`: 4 instances of Buf, total area must be 400; the code reports 100. -/
def ownFanoutWitness : Nodes := .leaf (mem "Buf" 4 100) (.leaf (mac "MAC" 1 10) .nil)

theorem total_eq_counterexample_own_fanout :
    (names ownFanoutWitness).Nodup ∧
    (componentTotals .current ownFanoutWitness).map (·.totalArea) = [100, 40] ∧
    (specTotals ownFanoutWitness).map (·.totalArea) = [400, 40] ∧
    componentTotals .current ownFanoutWitness ≠ specTotals ownFanoutWitness := by decide

/-- `[MAC0 (fanout 3), Reg, MAC]`: MAC0 is a sibling branch, Reg and MAC exist once; the code reports 3 of each. -/
def siblingComputeWitness : Nodes :=
  .leaf (mac "MAC0" 3 10) (.leaf (mem "Reg" 1 100) (.leaf (mac "MAC" 1 10) .nil))

theorem total_eq_counterexample_sibling_compute :
    (names siblingComputeWitness).Nodup ∧
    (componentTotals .current siblingComputeWitness).map (·.totalArea) = [10, 300, 30] ∧
    (specTotals siblingComputeWitness).map (·.totalArea) = [30, 100, 10] ∧
    archTotalArea .current siblingComputeWitness ≠ specTotalArea siblingComputeWitness := by decide

/-! ## non-vacuity -/

/-- `[Main, Fork[T*2, Hier[C0*10, S]], PE*4 (Container), Reg, MAC]` — fanout only on a Toll inside a fork and
on Containers. -/
def demo : Nodes :=
  .leaf (mem "Main" 1 100) (.fork (.leaf (mem "T" 2 7) (.hier (.leaf (box "C0" 10) (.leaf (mac "S" 1 10) .nil)) .nil))
    (.leaf (box "PE" 4) (.leaf (mem "Reg" 1 5) (.leaf (mac "MAC" 1 10) .nil))))

example : (names demo).Nodup := by decide
example : (specTotals demo).map (fun x => (x.name, x.count)) =
    [("Main", 1), ("T", 2), ("S", 20), ("Reg", 4), ("MAC", 4)] := by decide
example : componentTotals .fixed demo = specTotals demo := by decide
/-- the hypotheses of `total_eq_partial` are satisfiable by a tree with real fanout -/
def demoP : Nodes :=
  .leaf (mem "Main" 1 100) (.leaf (box "PE" 4) (.leaf (mac "S" 1 3) (.leaf (mem "Reg" 1 5) (.leaf (mac "MAC" 1 10) .nil))))
example : (∀ x ∈ leaves demoP, x.component = true → x.fanout = 1) ∧ (∀ x ∈ leaves demoP, x.compute = true → x.fanout = 1) := by
  decide
example : (componentTotals .current demoP).map (·.totalArea) = [100, 12, 20, 40] := by decide

end AFV.C26
