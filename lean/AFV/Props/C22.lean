import AFV.Lemmas.SetDict
import AFV.Lemmas.SetNamed
import AFV.Lemmas.SetFinal
/-!
# C22 — set expressions follow set algebra over each Einsum's tensors

* `evalSet_hom`            for ALL expression trees: model evaluation = set algebra, complement inside
                           `U`, whenever every leaf lives in the one space `U` (`SameSpace`)
* `named_sets_correct`     the named sets / tensor names of an Einsum are bound as documented and
                           all live in `U = the Einsum's tensors` (so `SameSpace` holds for them)
* `named_expr_setalgebra`, `arch_expr_setalgebra`   the two combined, in the Einsum's own symbol
                           table and in the table the architecture is evaluated against
* `other_partition`, `overlap_rejected`, `accepted_disjoint`, `other_twice_rejected`
                           dictionaries keyed by set expressions with an `Other` key
* `final_named`, `persistent_named_set`
                           the named sets in the table the architecture sees; `Persistent` = the
                           tensors persistent after evaluation, also with a workload-level
                           `persistent_tensors` (code after fix 629ad68)
-/
namespace AFV.C22
open AFV.SetAlg AFV.Renames AFV.SetSpec

/-- Every leaf of `e` is bound, to a set of the one space whose universe is `U`
(`full_space = U`, members inside `U`). -/
def SameSpace (U : List Name) (st : Table) (e : SExpr) : Prop :=
  ∀ n ∈ e.names, ∃ s, lookup st n = some s ∧ s.full = U ∧ (∀ x ∈ s.inst, x ∈ U)

/-- the leaves as the table binds them -/
def ρOf (st : Table) : Name → Name → Bool := fun n y =>
  match lookup st n with
  | some s => s.inst.contains y
  | none => false

/-- **Set algebra.** Under `SameSpace`, the model's evaluation succeeds, stays in the space
(`full = U`, members in `U`) and its members are exactly those of the same expression read in set
algebra with complement taken inside `U`. -/
theorem evalSet_hom (U : List Name) (st : Table) (e : SExpr) (h : SameSpace U st e) :
    ∃ r, evalExpr st e = .ok r ∧ r.full = U ∧ (∀ x ∈ r.inst, x ∈ U) ∧
      ∀ x, x ∈ r.inst ↔ holds (ρOf st) (fun y => U.contains y) e x = true := by
  induction e with
  | name n =>
    obtain ⟨s, hs, hf, hsub⟩ := h n (by simp [SExpr.names])
    refine ⟨s, by simp [evalExpr, hs], hf, hsub, ?_⟩
    intro x; simp [holds, ρOf, hs]
  | and a b iha ihb =>
    obtain ⟨ra, ea, fa, sa, ma⟩ := iha (fun n hn => h n (by simp [SExpr.names, hn]))
    obtain ⟨rb, eb, fb, sb, mb⟩ := ihb (fun n hn => h n (by simp [SExpr.names, hn]))
    refine ⟨ra.and rb, by simp [evalExpr, ea, eb, bind, Except.bind, pure, Except.pure], fa, ?_, ?_⟩
    · intro x hx; simp [ISet.and, ISet.toMySpace] at hx; exact sa x hx.1
    · intro x; simp [ISet.and, ISet.toMySpace, holds, ma x, mb x]
  | or a b iha ihb =>
    obtain ⟨ra, ea, fa, sa, ma⟩ := iha (fun n hn => h n (by simp [SExpr.names, hn]))
    obtain ⟨rb, eb, fb, sb, mb⟩ := ihb (fun n hn => h n (by simp [SExpr.names, hn]))
    refine ⟨ra.or rb, by simp [evalExpr, ea, eb, bind, Except.bind, pure, Except.pure], fa, ?_, ?_⟩
    · intro x hx; simp [ISet.or, ISet.toMySpace] at hx
      rcases hx with hx | hx
      · exact sa x hx
      · exact sb x hx
    · intro x; simp [ISet.or, ISet.toMySpace, holds, ma x, mb x]
  | sub a b iha ihb =>
    obtain ⟨ra, ea, fa, sa, ma⟩ := iha (fun n hn => h n (by simp [SExpr.names, hn]))
    obtain ⟨rb, eb, fb, sb, mb⟩ := ihb (fun n hn => h n (by simp [SExpr.names, hn]))
    refine ⟨ra.sub rb, by simp [evalExpr, ea, eb, bind, Except.bind, pure, Except.pure], fa, ?_, ?_⟩
    · intro x hx; simp [ISet.sub, ISet.toMySpace] at hx; exact sa x hx.1
    · intro x; simp [ISet.sub, ISet.toMySpace, holds, ma x, mb x]
  | xor a b iha ihb =>
    obtain ⟨ra, ea, fa, sa, ma⟩ := iha (fun n hn => h n (by simp [SExpr.names, hn]))
    obtain ⟨rb, eb, fb, sb, mb⟩ := ihb (fun n hn => h n (by simp [SExpr.names, hn]))
    refine ⟨ra.xor rb, by simp [evalExpr, ea, eb, bind, Except.bind, pure, Except.pure], fa, ?_, ?_⟩
    · intro x hx; simp [ISet.xor, ISet.toMySpace] at hx
      rcases hx with hx | hx
      · exact sa x hx.1
      · exact sb x hx.1
    · intro x
      simp only [ISet.xor, ISet.toMySpace, mem_symm, holds, ma x, mb x]
      cases holds (ρOf st) (fun y => U.contains y) a x <;>
        cases holds (ρOf st) (fun y => U.contains y) b x <;> simp
  | inv a iha =>
    obtain ⟨ra, ea, fa, sa, ma⟩ := iha (fun n hn => h n (by simp [SExpr.names, hn]))
    refine ⟨ra.inv, by simp [evalExpr, ea, bind, Except.bind, pure, Except.pure], fa, ?_, ?_⟩
    · intro x hx; simp [ISet.inv, ISet.toMySpace, fa] at hx; exact hx.1
    · intro x; simp [ISet.inv, ISet.toMySpace, holds, fa, ma x]
  | call a iha =>
    obtain ⟨ra, ea, fa, sa, ma⟩ := iha (fun n hn => h n (by simp [SExpr.names, hn]))
    exact ⟨ra, by simp [evalExpr, ea], fa, sa, fun x => by simp [holds, ma x]⟩

/-! ## dictionaries keyed by set expressions -/

/-- **`Other` used twice is rejected.** -/
theorem other_twice_rejected (st : Table) (sp : Option Nat) (items : List (SExpr × Int))
    (h : (items.filter (fun p => p.1.mentionsOther)).length > 1) :
    evalDict st sp items = .error .otherTwice := by
  simp [evalDict, h]

/-- what `evalDict` does once `Other` is known to be used at most once and `All` is bound -/
theorem evalDict_ok_iff {st : Table} {sp : Option Nat} {items : List (SExpr × Int)} {es : List Entry}
    {all : ISet} (hall : lookup st "All" = some all)
    (hle : (items.filter (fun p => p.1.mentionsOther)).length ≤ 1) :
    evalDict st sp items = .ok es ↔
      evalDictLoop st sp all (items.filter (fun p => !p.1.mentionsOther) ++
        items.filter (fun p => p.1.mentionsOther)) = .ok es ∧ Disjoint es := by
  have hnot : ¬ (items.filter (fun p => p.1.mentionsOther)).length > 1 := by omega
  simp only [evalDict, hnot, if_false, hall]
  cases hl : evalDictLoop st sp all (items.filter (fun p => !p.1.mentionsOther) ++
      items.filter (fun p => p.1.mentionsOther)) with
  | error e => simp
  | ok es' =>
    by_cases ho : hasOverlap es' = true
    · simp only [ho, if_true]
      constructor
      · intro h; simp at h
      · rintro ⟨h1, h2⟩
        simp only [Except.ok.injEq] at h1
        subst h1
        have := (hasOverlap_eq_false_iff _).mpr h2
        simp [ho] at this
    · have ho' : hasOverlap es' = false := by simpa using ho
      simp only [ho', Bool.false_eq_true, if_false, Except.ok.injEq]
      constructor
      · intro h; subst h; exact ⟨rfl, (hasOverlap_eq_false_iff _).mp ho'⟩
      · rintro ⟨h1, _⟩; exact h1

/-- an accepted dictionary: `Other` at most once, `All` bound, the loop succeeded, keys disjoint -/
theorem evalDict_ok {st : Table} {sp : Option Nat} {items : List (SExpr × Int)} {es : List Entry}
    (h : evalDict st sp items = .ok es) :
    (items.filter (fun p => p.1.mentionsOther)).length ≤ 1 ∧ ∃ all, lookup st "All" = some all ∧
      evalDictLoop st sp all (items.filter (fun p => !p.1.mentionsOther) ++
        items.filter (fun p => p.1.mentionsOther)) = .ok es ∧ Disjoint es := by
  by_cases hle : (items.filter (fun p => p.1.mentionsOther)).length ≤ 1
  · refine ⟨hle, ?_⟩
    cases hall : lookup st "All" with
    | none =>
      have hnot : ¬ (items.filter (fun p => p.1.mentionsOther)).length > 1 := by omega
      simp [evalDict, hnot, hall] at h
    | some all => exact ⟨all, rfl, (evalDict_ok_iff hall hle).mp h⟩
  · have : (items.filter (fun p => p.1.mentionsOther)).length > 1 := by omega
    simp [evalDict, this] at h

/-- An accepted dictionary has pairwise disjoint keys. -/
theorem accepted_disjoint {st : Table} {sp : Option Nat} {items : List (SExpr × Int)}
    {es : List Entry} (h : evalDict st sp items = .ok es) : Disjoint es :=
  (evalDict_ok h).2.choose_spec.2.2

/-- Shape of an accepted dictionary's result: the keys that do not mention `Other`, each
evaluated in the original table, then the `Other` key(s) evaluated with `Other = All − ⋃ those`. -/
theorem evalDict_entries {st : Table} {sp : Option Nat} {items : List (SExpr × Int)}
    {es : List Entry} (h : evalDict st sp items = .ok es) :
    ∃ all ea eb, lookup st "All" = some all ∧ es = ea ++ eb ∧
      List.Forall₂ (fun (it : SExpr × Int) (en : Entry) =>
        ∃ r, evalExpr st it.1 = .ok r ∧ en.ins = r.inst ∧ en.val = it.2)
        (items.filter (fun p => !p.1.mentionsOther)) ea ∧
      evalDictLoop st sp (shrink all ea) (items.filter (fun p => p.1.mentionsOther)) = .ok eb ∧
      Disjoint es := by
  obtain ⟨_, all, hall, hloop, hd⟩ := evalDict_ok h
  rw [evalDictLoop_append] at hloop
  cases ha : evalDictLoop st sp all (items.filter (fun p => !p.1.mentionsOther)) with
  | error e => simp [ha, bind, Except.bind] at hloop
  | ok ea =>
    simp only [ha, bind, Except.bind] at hloop
    cases hb : evalDictLoop st sp (shrink all ea) (items.filter (fun p => p.1.mentionsOther)) with
    | error e => simp [hb] at hloop
    | ok eb =>
      simp only [hb, pure, Except.pure, Except.ok.injEq] at hloop
      exact ⟨all, ea, eb, hall, hloop.symm,
        evalDictLoop_plain (by intro p hp; simpa using (List.mem_filter.mp hp).2) ha, hb, hd⟩

/-- **Overlapping keys are rejected.** Two keys (neither mentions `Other`) whose sets share a
tensor `x`: the dictionary is not accepted, wherever the two keys stand. -/
theorem overlap_rejected {st : Table} {sp : Option Nat} {l1 l2 l3 : List (SExpr × Int)}
    {k1 k2 : SExpr} {v1 v2 : Int} {r1 r2 : ISet} {x : Name}
    (h1 : k1.mentionsOther = false) (h2 : k2.mentionsOther = false)
    (e1 : evalExpr st k1 = .ok r1) (e2 : evalExpr st k2 = .ok r2)
    (hx1 : x ∈ r1.inst) (hx2 : x ∈ r2.inst) :
    ∀ es, evalDict st sp (l1 ++ (k1, v1) :: l2 ++ (k2, v2) :: l3) ≠ .ok es := by
  intro es h
  obtain ⟨all, ea, eb, _, rfl, hf, _, hd⟩ := evalDict_entries h
  simp only [List.filter_append, List.filter_cons, h1, h2, Bool.not_false, if_true,
    List.append_assoc, List.cons_append] at hf
  obtain ⟨u1, u2, rfl, _, hf2⟩ := forall₂_append_left hf
  obtain ⟨en1, u3, hk1, hf3, rfl⟩ := List.forall₂_cons_left_iff.mp hf2
  obtain ⟨u4, u5, rfl, _, hf4⟩ := forall₂_append_left hf3
  obtain ⟨en2, u6, hk2, _, rfl⟩ := List.forall₂_cons_left_iff.mp hf4
  obtain ⟨q1, hq1, hi1, _⟩ := hk1
  obtain ⟨q2, hq2, hi2, _⟩ := hk2
  rw [e1] at hq1; rw [e2] at hq2
  simp only [Except.ok.injEq] at hq1 hq2
  subst hq1 hq2
  simp only [Disjoint, List.append_assoc, List.cons_append] at hd
  rw [List.pairwise_append] at hd
  have hd2 := hd.2.1
  rw [List.pairwise_cons] at hd2
  have := hd2.1 en2 (by simp) x (by rw [hi1]; exact hx1)
  exact this (by rw [hi2]; exact hx2)

/-- **The `Other` key.** A dictionary whose keys are set expressions (none mentioning `Other`) plus
the key `Other`, standing anywhere, accepted by the model:
* the result is the evaluated plain keys followed by the entry of `Other`;
* `Other` holds exactly the tensors of `U = All` that no other key contains;
* every tensor of `U` is contained in exactly one entry, and is assigned that entry's value;
* nothing outside `U` is assigned. -/
theorem other_partition {st : Table} {sp : Option Nat} {pre post : List (SExpr × Int)} {v : Int}
    {es : List Entry} {all : ISet} {U : List Name}
    (hall : lookup st "All" = some all) (hU : ∀ x, x ∈ all.inst ↔ x ∈ U)
    (hplain : ∀ p ∈ pre ++ post, p.1.mentionsOther = false)
    (hsub : ∀ p ∈ pre ++ post, ∀ r, evalExpr st p.1 = .ok r → ∀ x ∈ r.inst, x ∈ U)
    (h : evalDict st sp (pre ++ (SExpr.name "Other", v) :: post) = .ok es) :
    ∃ ps o, es = ps ++ [o] ∧ o.val = v ∧
      List.Forall₂ (fun (it : SExpr × Int) (en : Entry) =>
        ∃ r, evalExpr st it.1 = .ok r ∧ en.ins = r.inst ∧ en.val = it.2) (pre ++ post) ps ∧
      (∀ x, x ∈ o.ins ↔ x ∈ U ∧ ∀ en ∈ ps, x ∉ en.ins) ∧
      (∀ x ∈ U, (es.filter (fun en => en.ins.contains x)).length = 1 ∧
        ∃ en ∈ es, x ∈ en.ins ∧ assigned es x = some en.val) ∧
      (∀ x, x ∉ U → ∀ en ∈ es, x ∉ en.ins) := by
  obtain ⟨all', ea, eb, hall', rfl, hf, hb, hd⟩ := evalDict_entries h
  rw [hall] at hall'
  simp only [Option.some.injEq] at hall'
  subst hall'
  have hO : (SExpr.name "Other").mentionsOther = true := by decide
  have hfp : List.filter (fun p : SExpr × Int => !p.1.mentionsOther)
      (pre ++ (SExpr.name "Other", v) :: post) = pre ++ post := by
    have h1 : List.filter (fun p : SExpr × Int => !p.1.mentionsOther) pre = pre :=
      List.filter_eq_self.mpr (fun p hp => by simp [hplain p (by simp [hp])])
    have h2 : List.filter (fun p : SExpr × Int => !p.1.mentionsOther) post = post :=
      List.filter_eq_self.mpr (fun p hp => by simp [hplain p (by simp [hp])])
    simp [List.filter_append, hO, h1, h2]
  have hfo : List.filter (fun p : SExpr × Int => p.1.mentionsOther)
      (pre ++ (SExpr.name "Other", v) :: post) = [(SExpr.name "Other", v)] := by
    have h1 : List.filter (fun p : SExpr × Int => p.1.mentionsOther) pre = [] :=
      List.filter_eq_nil_iff.mpr (fun p hp => by simp [hplain p (by simp [hp])])
    have h2 : List.filter (fun p : SExpr × Int => p.1.mentionsOther) post = [] :=
      List.filter_eq_nil_iff.mpr (fun p hp => by simp [hplain p (by simp [hp])])
    simp [List.filter_append, hO, h1, h2]
  rw [hfp] at hf
  rw [hfo] at hb
  -- the `Other` entry
  simp only [evalDictLoop, bind, Except.bind] at hb
  cases hr : evalSetExpression (insert st "Other" (shrink all ea)) (SExpr.name "Other") sp none with
  | error e => simp [hr] at hb
  | ok r =>
    simp only [hr, pure, Except.pure, Except.ok.injEq] at hb
    have hr' := evalSetExpression_none_ok hr
    simp only [evalExpr, lookup_insert_self, Except.ok.injEq] at hr'
    subst hr'
    subst hb
    have hmemO : ∀ x, x ∈ (shrink all ea).inst ↔ x ∈ U ∧ ∀ en ∈ ea, x ∉ en.ins := by
      intro x; rw [mem_shrink, hU]
    have heaU : ∀ en ∈ ea, ∀ x ∈ en.ins, x ∈ U := by
      intro en hen x hx
      obtain ⟨i, hi, rfl⟩ := List.getElem_of_mem hen
      have hlen := hf.length_eq
      have := (List.forall₂_iff_get.mp hf).2 i (by omega) hi
      obtain ⟨r, hr1, hr2, _⟩ := this
      exact hsub _ (List.get_mem _ _) r hr1 x (by rw [← hr2]; simpa using hx)
    refine ⟨ea, ⟨(shrink all ea).inst, v⟩, rfl, rfl, hf, hmemO, ?_, ?_⟩
    · intro x hxU
      by_cases hex : ∃ en ∈ ea, x ∈ en.ins
      · obtain ⟨en, hen, hx⟩ := hex
        have hen' : en ∈ ea ++ [⟨(shrink all ea).inst, v⟩] := by simp [hen]
        exact ⟨count_one_of_disjoint hd hen' hx, en, hen', hx, find_assign_of_disjoint hd hen' hx⟩
      · have hxo : x ∈ (shrink all ea).inst := (hmemO x).mpr ⟨hxU, fun en hen hx => hex ⟨en, hen, hx⟩⟩
        have hen' : (⟨(shrink all ea).inst, v⟩ : Entry) ∈ ea ++ [⟨(shrink all ea).inst, v⟩] := by simp
        exact ⟨count_one_of_disjoint hd hen' hxo, _, hen', hxo, find_assign_of_disjoint hd hen' hxo⟩
    · intro x hxU en hen hx
      rcases List.mem_append.mp hen with h1 | h1
      · exact hxU (heaU en h1 x hx)
      · simp only [List.mem_singleton] at h1
        subst h1
        exact hxU ((hmemO x).mp hx).1

/-! ## the named sets of an Einsum -/

/-- What the repo's validation and naming conventions give (Einsum names are unique —
`Workload._validate`; tensor and rank-variable names are not the reserved set names; a tensor
is not called like a rank variable). -/
structure WF (w : Workload) (e : Einsum) : Prop where
  namesNodup : (w.einsums.map (·.name)).Nodup
  notReserved : ∀ t, t ∈ e.all ∨ t ∈ e.rankVariables → t ∉ reserved
  tensorNotRank : ∀ t ∈ e.all, t ∉ e.rankVariables

theorem lookup_rankEntries_none {e : Einsum} {n : Name} (h : n ∉ e.rankVariables) :
    lookup (rankEntries e).reverse n = none := by
  rw [lookup_eq_none_iff]
  intro p hp
  simp only [rankEntries, List.mem_reverse, List.mem_map] at hp
  obtain ⟨r, hr, rfl⟩ := hp
  intro h'; exact h (h' ▸ hr)

theorem lookup_tensorEntries_none {e : Einsum} {n : Name} (h : n ∉ e.all) :
    lookup (tensorEntries e).reverse n = none := by
  rw [lookup_eq_none_iff]
  intro p hp
  simp only [tensorEntries, List.mem_reverse, List.mem_map] at hp
  obtain ⟨r, hr, rfl⟩ := hp
  intro h'; exact h (h' ▸ hr)

theorem lookup_tensorEntries_some {e : Einsum} {n : Name} (h : n ∈ e.all) :
    lookup (tensorEntries e).reverse n = some (tset e [n]) := by
  apply lookup_reverse_of_all_eq
  · exact ⟨(n, tset e [n]), by simp only [tensorEntries, List.mem_map]; exact ⟨n, h, rfl⟩, rfl⟩
  · intro p hp hpn
    simp only [tensorEntries, List.mem_map] at hp
    obtain ⟨r, _, rfl⟩ := hp
    simp only at hpn
    subst hpn; rfl

theorem renameSymbolTable_eq (w : Workload) (e : Einsum) :
    renameSymbolTable w e =
      (rankEntries e).reverse ++ ((tensorEntries e).reverse ++ (namedEntries w e).reverse) := by
  simp [renameSymbolTable, ofDictLiteral, List.reverse_append]

/-- **Named sets.** In the symbol table `Einsum._eval_expressions` builds, every reserved name and
every tensor name of the Einsum is bound to a set of the one space `U = e.all` (the Einsum's
tensors) whose members are exactly what the documentation says (`leaf`; `Persistent` = the tensors
flagged persistent on their access — this is the table rename sources and `persistent_tensors`
itself are evaluated in; `final_named` covers the table the architecture sees). -/
theorem named_sets_correct {w : Workload} {e : Einsum} (wf : WF w e) {n : Name}
    (hn : n ∈ reserved ∨ n ∈ e.all) :
    ∃ s, lookup (renameSymbolTable w e) n = some s ∧ s.full = e.all ∧ s.space = spaceTensor ∧
      (∀ t ∈ s.inst, t ∈ e.all) ∧ ∀ t, t ∈ s.inst ↔ leaf w e (fun _ => false) n t = true := by
  have hrank : n ∉ e.rankVariables := by
    rcases hn with h | h
    · intro h'; exact wf.notReserved n (Or.inr h') h
    · exact wf.tensorNotRank n h
  rw [renameSymbolTable_eq, lookup_append, lookup_rankEntries_none hrank, Option.none_or, lookup_append]
  by_cases hall : n ∈ e.all
  · have hres : n ∉ reserved := wf.notReserved n (Or.inl hall)
    rw [lookup_tensorEntries_some hall]
    refine ⟨tset e [n], rfl, rfl, rfl, ?_, ?_⟩
    · intro t ht; simp only [tset, List.mem_singleton] at ht; subst ht; exact hall
    · intro t
      rw [leaf_other w e _ t hres]
      simp only [tset, List.mem_singleton, Bool.and_eq_true, beq_iff_eq]
      constructor
      · intro h; subst h; exact ⟨mem_all.mp hall, rfl⟩
      · intro h; exact h.2.symm
  · have hres : n ∈ reserved := by rcases hn with h | h; exact h; exact absurd h hall
    rw [lookup_tensorEntries_none hall, Option.none_or]
    simp only [reserved, List.mem_cons, List.not_mem_nil, or_false] at hres
    rcases hres with rfl | rfl | rfl | rfl | rfl | rfl | rfl | rfl
    · refine ⟨tset e e.all, by simp [namedEntries, lookup], rfl, rfl, fun t h => h, ?_⟩
      intro t; rw [leaf_All]; simp [tset, mem_all]
    · refine ⟨tset e e.all, by simp [namedEntries, lookup], rfl, rfl, fun t h => h, ?_⟩
      intro t; rw [leaf_Tensors]; simp [tset, mem_all]
    · refine ⟨tset e [], by simp [namedEntries, lookup], rfl, rfl, by simp [tset], ?_⟩
      intro t; rw [leaf_Nothing]; simp [tset]
    · refine ⟨tset e e.inputNames, by simp [namedEntries, lookup], rfl, rfl, ?_, ?_⟩
      · intro t h; exact mem_union.mpr (Or.inl h)
      · intro t; rw [leaf_Inputs]; simp only [tset, mem_inputNames, Bool.and_eq_true]
        exact ⟨fun h => ⟨isTensorOf_iff.mpr (Or.inl h), h⟩, fun h => h.2⟩
    · refine ⟨tset e e.outputNames, by simp [namedEntries, lookup], rfl, rfl, ?_, ?_⟩
      · intro t h; exact mem_union.mpr (Or.inr h)
      · intro t; rw [leaf_Outputs]; simp only [tset, mem_outputNames, Bool.and_eq_true]
        exact ⟨fun h => ⟨isTensorOf_iff.mpr (Or.inr h), h⟩, fun h => h.2⟩
    · refine ⟨tset e (intermediates w e), by simp [namedEntries, lookup], rfl, rfl, ?_, ?_⟩
      · intro t h; exact mem_all.mpr (mem_intermediates.mp h).1
      · intro t; rw [leaf_Intermediates]; simp only [tset, mem_intermediates, Bool.and_eq_true]
    · refine ⟨tset e (shared w e), by simp [namedEntries, lookup], rfl, rfl, ?_, ?_⟩
      · intro t h; exact mem_all.mpr ((mem_shared wf.namesNodup).mp h).1
      · intro t; rw [leaf_Shared]; simp only [tset, mem_shared wf.namesNodup, Bool.and_eq_true]
    · have hfl : ∀ t, isFlagged e t = true → isTensorOf e t = true := by
        intro t h
        simp only [isFlagged, List.any_eq_true, Bool.and_eq_true, beq_iff_eq] at h
        obtain ⟨a, ha, hn, _⟩ := h
        simp only [isTensorOf, List.any_eq_true, beq_iff_eq]; exact ⟨a, ha, hn⟩
      refine ⟨tset e e.flaggedPersistent, by simp [namedEntries, lookup], rfl, rfl, ?_, ?_⟩
      · intro t h; exact mem_all.mpr (hfl t (mem_flagged.mp h))
      · intro t; rw [leaf_Persistent]
        simp only [tset, mem_flagged, Bool.and_eq_true, Bool.or_false]
        exact ⟨fun h => ⟨hfl t h, h⟩, fun h => h.2⟩

theorem holds_congr {ρ ρ' : Name → Name → Bool} {U U' : Name → Bool} (x : SExpr) (t : Name)
    (hρ : ∀ n ∈ x.names, ρ n t = ρ' n t) (hU : U t = U' t) :
    holds ρ U x t = holds ρ' U' x t := by
  induction x with
  | name n => simp [holds, hρ n (by simp [SExpr.names])]
  | and a b iha ihb | or a b iha ihb | sub a b iha ihb | xor a b iha ihb =>
    simp only [holds]
    rw [iha (fun n hn => hρ n (by simp [SExpr.names, hn])),
        ihb (fun n hn => hρ n (by simp [SExpr.names, hn]))]
  | inv a iha => simp only [holds]; rw [iha (fun n hn => hρ n (by simp [SExpr.names, hn])), hU]
  | call a iha => simp only [holds]; rw [iha (fun n hn => hρ n (by simp [SExpr.names, hn]))]

/-- **C22, expressions over the named sets.** Any expression over All / Tensors / Nothing / Inputs /
Outputs / Intermediates / Shared / Persistent / the Einsum's tensor names, combined with
`& | - ^ ~ ()`, evaluates in the Einsum's symbol table to exactly the set the same expression denotes
in set algebra, complement taken within the Einsum's tensors. -/
theorem named_expr_setalgebra {w : Workload} {e : Einsum} (wf : WF w e) (x : SExpr)
    (hx : ∀ n ∈ x.names, n ∈ reserved ∨ n ∈ e.all) :
    ∃ r, evalExpr (renameSymbolTable w e) x = .ok r ∧ r.full = e.all ∧
      ∀ t, t ∈ r.inst ↔ holds (leaf w e (fun _ => false)) (isTensorOf e) x t = true := by
  have hss : SameSpace e.all (renameSymbolTable w e) x := by
    intro n hn
    obtain ⟨s, hs, hf, _, hsub, _⟩ := named_sets_correct wf (hx n hn)
    exact ⟨s, hs, hf, hsub⟩
  obtain ⟨r, hr, hf, _, hm⟩ := evalSet_hom e.all _ x hss
  refine ⟨r, hr, hf, fun t => ?_⟩
  rw [hm t]
  rw [holds_congr x t (ρ' := leaf w e (fun _ => false)) (U' := isTensorOf e)]
  · intro n hn
    obtain ⟨s, hs, _, _, _, hmem⟩ := named_sets_correct wf (hx n hn)
    simp only [ρOf, hs]
    have := hmem t
    cases h1 : s.inst.contains t <;> cases h2 : leaf w e (fun _ => false) n t <;> simp_all
  · have := @mem_all e t
    cases h1 : e.all.contains t <;> cases h2 : isTensorOf e t <;> simp_all

/-! ## the table the architecture sees -/

theorem evalExpr_congr {st st' : Table} (x : SExpr)
    (h : ∀ n ∈ x.names, lookup st n = lookup st' n) : evalExpr st x = evalExpr st' x := by
  induction x with
  | name n => simp [evalExpr, h n (by simp [SExpr.names])]
  | and a b iha ihb | or a b iha ihb | sub a b iha ihb | xor a b iha ihb =>
    simp only [evalExpr]
    rw [iha (fun n hn => h n (by simp [SExpr.names, hn])),
        ihb (fun n hn => h n (by simp [SExpr.names, hn]))]
  | inv a iha => simp only [evalExpr]; rw [iha (fun n hn => h n (by simp [SExpr.names, hn]))]
  | call a iha => simp only [evalExpr]; rw [iha (fun n hn => h n (by simp [SExpr.names, hn]))]

theorem evalExpr_space {st : Table} {k : Nat} (x : SExpr) {r : ISet}
    (h : ∀ n ∈ x.names, ∀ s, lookup st n = some s → s.space = k)
    (hr : evalExpr st x = .ok r) : r.space = k := by
  induction x generalizing r with
  | name n =>
    simp only [evalExpr] at hr
    cases hl : lookup st n with
    | none => simp [hl] at hr
    | some s => simp only [hl, Except.ok.injEq] at hr; subst hr; exact h n (by simp [SExpr.names]) s hl
  | and a b iha _ | or a b iha _ | sub a b iha _ | xor a b iha _ =>
    simp only [evalExpr, bind, Except.bind] at hr
    cases ha : evalExpr st a with
    | error e => simp [ha] at hr
    | ok ra =>
      simp only [ha] at hr
      cases hb : evalExpr st b with
      | error e => simp [hb] at hr
      | ok rb =>
        simp only [hb, pure, Except.pure, Except.ok.injEq] at hr
        subst hr
        have := iha (fun n hn => h n (by simp [SExpr.names, hn])) ha
        exact this
  | inv a iha =>
    simp only [evalExpr, bind, Except.bind] at hr
    cases ha : evalExpr st a with
    | error e => simp [ha] at hr
    | ok ra =>
      simp only [ha, pure, Except.pure, Except.ok.injEq] at hr
      subst hr
      have := iha (fun n hn => h n (by simp [SExpr.names, hn])) ha
      exact this
  | call a iha =>
    simp only [evalExpr] at hr
    exact iha (fun n hn => h n (by simp [SExpr.names, hn])) hr

/-- `sel` only matters for `Persistent` -/
theorem leaf_sel_irrelevant (w : Workload) (e : Einsum) (sel sel' : Name → Bool) {n : Name}
    (hn : n ≠ "Persistent") (y : Name) : leaf w e sel n y = leaf w e sel' n y := by
  have : (n == "Persistent") = false := by simpa using hn
  simp [leaf, this]

/-- **Named sets where a user observes them.** `t` is the symbol table
`Spec._spec_eval_expressions(einsum_name=e)` evaluates the architecture against and `sl` the tensors
the workload-level `persistent_tensors` selects for `e`. Every reserved name and every tensor name of
the Einsum that no rename shadows is bound to the documented set — `Persistent` to the tensors
flagged on their access OR selected by `persistent_tensors` — in the space `U = e.all`. -/
theorem final_named {w : Workload} {rs : List EinsumRename} {e : Einsum} (wf : WF w e)
    {t : Table} (ht : einsumTable w rs e = .ok t) {sl : List Name}
    (hsel : workloadPersistent w rs e = .ok sl) {n : Name}
    (hn : n ∈ reserved ∨ n ∈ e.all) (hsh : ∀ r ∈ effectiveRenames rs e, r.name ≠ n) :
    ∃ s, lookup t n = some s ∧ s.full = e.all ∧ s.space = spaceTensor ∧ (∀ y ∈ s.inst, y ∈ e.all) ∧
      ∀ y, y ∈ s.inst ↔ leaf w e (fun y => sl.contains y) n y = true := by
  obtain ⟨l, hl, hcase⟩ := einsumTable_ok ht
  obtain ⟨s0, hs0, hf0, hsp0, hsub0, hm0⟩ := named_sets_correct wf hn
  have hl0 : lookup (ofDictLiteral l) n = some s0 := by
    rw [evaluatedRenames_eq_with] at hl
    exact final_lookup_unshadowed hl hs0 hsh
  by_cases hP : n = "Persistent"
  · subst hP
    rcases hcase with ⟨hor, rfl⟩ | ⟨hpt, _, p, hp, rfl⟩
    · rcases hor with hnone | hhas
      · -- no workload-level persistent_tensors: nothing is selected
        simp only [workloadPersistent, hnone, Except.ok.injEq] at hsel
        subst hsel
        exact ⟨s0, hl0, hf0, hsp0, hsub0, fun y => by rw [hm0 y, leaf_Persistent, leaf_Persistent]; simp⟩
      · simp only [hasName, List.any_eq_true, beq_iff_eq] at hhas
        obtain ⟨r, hr, hrn⟩ := hhas
        exact absurd hrn (hsh r hr)
    · refine ⟨tset e p, ?_, rfl, rfl, ?_, ?_⟩
      · rw [lookup_rebind, if_pos rfl, hl0]; rfl
      · intro y hy
        simp only [persistentAfterEval, hsel, bind, Except.bind, pure, Except.pure,
          Except.ok.injEq] at hp
        subst hp
        simp only [tset, List.mem_filter] at hy
        exact mem_all.mpr (mem_tensorNames.mp hy.1)
      · intro y
        simp only [persistentAfterEval, hsel, bind, Except.bind, pure, Except.pure,
          Except.ok.injEq] at hp
        subst hp
        rw [leaf_Persistent]
        have hc : e.flaggedPersistent.contains y = isFlagged e y := by
          have := @mem_flagged e y
          cases h1 : e.flaggedPersistent.contains y <;> cases h2 : isFlagged e y <;> simp_all
        simp only [tset, List.mem_filter, mem_tensorNames, hc, Bool.and_eq_true]
  · have hlt : lookup t n = some s0 := by
      rcases hcase with ⟨_, rfl⟩ | ⟨_, _, p, _, rfl⟩
      · exact hl0
      · rw [lookup_rebind, if_neg hP]; exact hl0
    exact ⟨s0, hlt, hf0, hsp0, hsub0,
      fun y => by rw [hm0 y, leaf_sel_irrelevant w e _ (fun y => sl.contains y) hP]⟩

/-- **C22 at the place a user observes it.** An expression over the named sets / the Einsum's
tensor names whose leaves are not shadowed by a rename is accepted as a tensor-set expression
(`tensors.keep`, dictionary keys) and evaluates to the set-algebra value, complement within the
Einsum's tensors, with `Persistent` = flagged or selected by the workload-level
`persistent_tensors`. -/
theorem arch_expr_setalgebra {w : Workload} {rs : List EinsumRename} {e : Einsum} (wf : WF w e)
    {t : Table} (ht : einsumTable w rs e = .ok t) {sl : List Name}
    (hsel : workloadPersistent w rs e = .ok sl) (x : SExpr)
    (hx : ∀ n ∈ x.names, (n ∈ reserved ∨ n ∈ e.all) ∧ ∀ r ∈ effectiveRenames rs e, r.name ≠ n) :
    ∃ r, evalSetExpression t x (some spaceTensor) none = .ok r ∧ r.full = e.all ∧
      ∀ y, y ∈ r.inst ↔ holds (leaf w e (fun y => sl.contains y)) (isTensorOf e) x y = true := by
  have hss : SameSpace e.all t x := by
    intro n hn
    obtain ⟨s, hs, hf, _, hsub, _⟩ := final_named wf ht hsel (hx n hn).1 (hx n hn).2
    exact ⟨s, hs, hf, hsub⟩
  obtain ⟨r, hr, hf, _, hm⟩ := evalSet_hom e.all t x hss
  have hsp : r.space = spaceTensor := by
    apply evalExpr_space x _ hr
    intro n hn s hs
    obtain ⟨s', hs', _, hsp, _⟩ := final_named wf ht hsel (hx n hn).1 (hx n hn).2
    rw [hs] at hs'; cases hs'; exact hsp
  refine ⟨r, by simp [evalSetExpression, hr, bind, Except.bind, hsp, pure, Except.pure], hf, fun y => ?_⟩
  rw [hm y, holds_congr x y (ρ' := leaf w e (fun y => sl.contains y)) (U' := isTensorOf e)]
  · intro n hn
    obtain ⟨s, hs, _, _, _, hmem⟩ := final_named wf ht hsel (hx n hn).1 (hx n hn).2
    simp only [ρOf, hs]
    have := hmem y
    cases h1 : s.inst.contains y <;> cases h2 : leaf w e (fun y => sl.contains y) n y <;> simp_all
  · have := @mem_all e y
    cases h1 : e.all.contains y <;> cases h2 : isTensorOf e y <;> simp_all

/-! ## `Persistent` and the workload-level `persistent_tensors` (repaired by fix 629ad68) -/

/-- **`Persistent` = the persistent tensors, full strength.** With or without a workload-level
`persistent_tensors`, the `Persistent` the architecture sees is exactly the set of tensors that are
persistent after evaluation (`hsh`: the user did not define a rename called `Persistent`). -/
theorem persistent_named_set {w : Workload} {rs : List EinsumRename} {e : Einsum}
    (wf : WF w e) (hsh : ∀ r ∈ effectiveRenames rs e, r.name ≠ "Persistent")
    {t : Table} (ht : einsumTable w rs e = .ok t) {p : List Name}
    (hp : persistentAfterEval w rs e = .ok p) :
    ∃ s, lookup t "Persistent" = some s ∧ ∀ y, y ∈ s.inst ↔ y ∈ p := by
  simp only [persistentAfterEval, bind, Except.bind] at hp
  cases hsel : workloadPersistent w rs e with
  | error er => simp [hsel] at hp
  | ok sl =>
    simp only [hsel, pure, Except.pure, Except.ok.injEq] at hp
    subst hp
    obtain ⟨s, hs, _, _, _, hm⟩ :=
      final_named wf ht hsel (n := "Persistent") (Or.inl (by decide)) hsh
    refine ⟨s, hs, fun y => ?_⟩
    rw [hm y, leaf_Persistent]
    have hc : e.flaggedPersistent.contains y = isFlagged e y := by
      have := @mem_flagged e y
      cases h1 : e.flaggedPersistent.contains y <;> cases h2 : isFlagged e y <;> simp_all
    simp only [List.mem_filter, mem_tensorNames, hc, Bool.and_eq_true]

/-- regression witness of the repaired defect: one Einsum reading `A`, `persistent_tensors: All` -/
def cexE : Einsum :=
  { name := "E0", accesses := [{ name := "A", output := false, persistent := false, rankVars := ["m"] }],
    renames := [] }
def cexW : Workload := { einsums := [cexE], persistentTensors := some (.name "All") }

/-- on the former counterexample: `A` is persistent after evaluation and `Persistent` = {A}, in the
model and in the specified table -/
example :
    (match einsumTable cexW [] cexE, persistentAfterEval cexW [] cexE, specTable cexW [] cexE with
     | .ok t, .ok p, .ok ts =>
        ((lookup t "Persistent").map (·.inst) == some ["A"]) && (p == ["A"]) &&
        ((lookup ts "Persistent").map (·.inst) == some ["A"])
     | _, _, _ => false) = true := by
  decide

/-! ## non-vacuity: the hypotheses are satisfiable by non-trivial inputs -/

/-- two chained Einsums: `E0: B = A·W` (W flagged persistent), `E1: C = B·W` -/
def exE0 : Einsum :=
  { name := "E0", renames := [],
    accesses := [⟨"A", false, false, ["m", "k"]⟩, ⟨"W", false, true, ["k"]⟩, ⟨"B", true, false, ["m"]⟩] }
def exE1 : Einsum :=
  { name := "E1", renames := [],
    accesses := [⟨"B", false, false, ["m"]⟩, ⟨"W", false, true, ["k"]⟩, ⟨"C", true, false, ["m", "k"]⟩] }
def exW : Workload := { einsums := [exE0, exE1], persistentTensors := none }

theorem exWF : WF exW exE0 := by
  have h1 : exE0.all = ["A", "W", "B"] := by decide
  have h2 : exE0.rankVariables = ["m", "k"] := by decide
  refine ⟨by decide, ?_, ?_⟩
  · intro t h
    rw [h1, h2] at h
    simp only [List.mem_cons, List.not_mem_nil, or_false] at h
    rcases h with (rfl | rfl | rfl) | (rfl | rfl) <;> decide
  · intro t h
    rw [h1] at h; rw [h2]
    simp only [List.mem_cons, List.not_mem_nil, or_false] at h
    rcases h with rfl | rfl | rfl <;> decide

/-- `~(Inputs & Shared) ^ Persistent` over E0 : ~{W} ^ {W} = {A,B} ^ {W} = {A,B,W} -/
example :
    (evalExpr (renameSymbolTable exW exE0)
      (.xor (.inv (.and (.name "Inputs") (.name "Shared"))) (.name "Persistent"))).toOption.map (·.inst)
      = some ["A", "B", "W"] := by decide

/-- `SameSpace` holds for that expression (every leaf is a named set of E0) -/
example : SameSpace exE0.all (renameSymbolTable exW exE0)
    (.xor (.inv (.and (.name "Inputs") (.name "Shared"))) (.name "Persistent")) := by
  intro n hn
  simp only [SExpr.names, List.cons_append, List.nil_append, List.mem_cons, List.not_mem_nil,
    or_false] at hn
  have hres : n ∈ reserved := by rcases hn with rfl | rfl | rfl <;> decide
  obtain ⟨s, hs, hf, _, hsub, _⟩ := named_sets_correct exWF (Or.inl hres)
  exact ⟨s, hs, hf, hsub⟩

/-- `{Other: 1, Inputs - Shared: 2, Intermediates: 3}` with `Other` first: A ↦ 2, B ↦ 3, W ↦ 1 -/
example :
    (evalDict (renameSymbolTable exW exE0) (some spaceTensor)
      [(.name "Other", 1), (.sub (.name "Inputs") (.name "Shared"), 2), (.name "Intermediates", 3)]).toOption.map
        (fun es => (assigned es "A", assigned es "B", assigned es "W"))
      = some (some 2, some 3, some 1) := by decide

/-- overlapping keys `Inputs` and `W` are rejected; `Other` twice is rejected -/
example : evalDict (renameSymbolTable exW exE0) (some spaceTensor)
    [(.name "Inputs", 1), (.name "Other", 2), (.name "W", 3)] = .error .overlap := by decide
example : evalDict (renameSymbolTable exW exE0) (some spaceTensor)
    [(.name "Other", 1), (.inv (.name "Other"), 2)] = .error .otherTwice := by decide

/-- without `SameSpace` (a rank variable as a leaf) the model, like the code, silently produces a
mixed set in the left operand's space: `Inputs | m` = {A, W, m} with full space = E0's tensors -/
example :
    (evalExpr (renameSymbolTable exW exE0) (.or (.name "Inputs") (.name "m"))).toOption.map
      (fun r => (r.inst, r.full)) = some (["A", "W", "m"], ["A", "W", "B"]) := by decide

end AFV.C22
