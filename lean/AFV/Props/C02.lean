import AFV.Lemmas.SearchExamples
import AFV.Lemmas.MapspaceRef
/-!
# C02 — the returned Pareto front is complete, minimal and duplicate-free (abstract part)

`front rows` is the reference: the rows no row strictly dominates (`≤` in every requested objective and
different), as a canonical (lexicographically sorted, duplicate-free) list, so that "same front" is `=`.
`frontFast` is the algorithm the native driver runs. The statements about `ffm` say that the pipeline of
`join_pmappings` returns such a front of **all** valid combinations, for vector objectives of any
dimension (ENERGY|LATENCY, with RESOURCE_USAGE columns appended, …), and that the final
`_apply_edp_columns` + `make_pareto` of `clean_compress_and_join_pmappings` is harmless.

What the mapper-level harness compares: the objective vectors returned by `map_workload_to_arch`
against `front` of the enumerated mapspace, plus `dominated`/duplicate checks on the returned table.
-/
namespace AFV.C02
open AFV.Front AFV.Search

variable {K : Type} [DecidableEq K]

/-- **Complete**: every row (every valid mapping's objective vector) is weakly dominated by a front row. -/
theorem front_complete {rows : List Vec} {r : Vec} (hr : r ∈ rows) :
    ∃ f ∈ front rows, leqAll f r = true := AFV.Front.front_complete hr

/-- **Minimal**: no front row is strictly dominated by any row — in particular by no other front row. -/
theorem front_minimal {rows : List Vec} {f s : Vec} (hf : f ∈ front rows) (hs : s ∈ rows) :
    dom s f = false := AFV.Front.front_minimal hf hs

/-- **Distinct**: no two front rows have identical objective vectors. -/
theorem front_distinct (rows : List Vec) : (front rows).Nodup := AFV.Front.front_distinct rows

/-- Front rows are rows. -/
theorem front_subset {rows : List Vec} {f : Vec} (hf : f ∈ front rows) : f ∈ rows :=
  AFV.Front.front_subset hf

/-- The three properties characterise the front: a duplicate-free, lexicographically sorted sub-list `L`
of `rows` that is complete and has no internally dominated row **is** `front rows`. (This is what
lets the harness judge a returned table directly.) -/
theorem front_unique {rows L : List Vec} (hsorted : StrictSorted L) (hsub : ∀ x ∈ L, x ∈ rows)
    (hcomplete : ∀ r ∈ rows, ∃ f ∈ L, leqAll f r = true)
    (hminimal : ∀ f ∈ L, ∀ s ∈ L, dom s f = false) : L = front rows := by
  have hcov : Cov leqAll L rows := ⟨hsub, hcomplete⟩
  have h1 : front L = front rows := front_eq_of_cover hcov
  rw [← h1]
  apply hsorted.eq_of_setEq (strictSorted_front L)
  intro x
  rw [mem_front]
  exact ⟨fun hx => ⟨hx, fun s hs => hminimal x hx s hs⟩, fun hx => hx.1⟩

/-- Equality of canonical fronts is equality of the sets of non-dominated vectors. -/
theorem front_canonical {A B : List Vec} :
    front A = front B ↔ SetEq (frontL leqAll A) (frontL leqAll B) := front_eq_iff

/-- The algorithm run by the driver (sort, then one sweep against the front found so far) computes the
reference front, for every input. -/
theorem frontFast_eq_front (rows : List Vec) : frontFast rows = front rows :=
  AFV.Front.frontFast_eq_front rows

/-- `dominated` op of the driver: `none` exactly for front rows, otherwise the index of a dominating row. -/
theorem dominatedBy_spec (rows : List Vec) (i : Nat) (hi : i < rows.length) :
    (((dominatedBy rows)[i]'(by simpa [dominatedBy] using hi)) = none ↔ rows[i] ∈ front rows) ∧
    ∀ j, (dominatedBy rows)[i]'(by simpa [dominatedBy] using hi) = some j →
      ∃ hj : j < rows.length, dom rows[j] rows[i] = true :=
  AFV.Front.dominatedBy_spec rows i hi

/-- **The pipeline returns the front of all valid combinations**, for vector objectives: for every
monotone read-out `g` of a candidate (the requested objective columns, with or without the reservation
columns), the front of the read-outs of the `ffm` rows is the front of the read-outs of *all* valid
combinations. -/
theorem ffm_front {ops : Ops K} (hr : RMono ops) (hc : CapClosed ops) (cap : Int)
    (tables : List (List (Cand K))) (g : Cand K → Vec)
    (hg : ∀ a b, cle a b = true → leqAll (g a) (g b) = true) :
    front ((ffm ops cap tables).map g) = front ((validCombos ops cap tables).map g) :=
  front_eq_of_cover ((cov_ffm hr hc cap tables).map g hg)

/-- … in particular for the objective vector itself and for objectives followed by reservations. -/
theorem ffm_front_obj {ops : Ops K} (hr : RMono ops) (hc : CapClosed ops) (cap : Int)
    (tables : List (List (Cand K))) :
    front ((ffm ops cap tables).map (·.obj)) = front ((validCombos ops cap tables).map (·.obj)) ∧
    front ((ffm ops cap tables).map (fun c => c.obj ++ c.res)) =
      front ((validCombos ops cap tables).map (fun c => c.obj ++ c.res)) :=
  ⟨ffm_front hr hc cap tables _ (fun _ _ h => (cle_iff.1 h).2.1),
   ffm_front hr hc cap tables _ (fun _ _ h => leqAll_append (cle_iff.1 h).2.1 (cle_iff.1 h).2.2)⟩

/-- **`edp_reprune`**: the last two steps of `clean_compress_and_join_pmappings` (apply the EDP column,
deleting energy/latency columns that were not requested; prune again) give the front of the final
columns over *all* rows, although the earlier pruning was done on (energy, latency, …). -/
theorem edp_reprune (wantEdp wantE wantL : Bool) (S : List Vec) (hS : ∀ v ∈ S, ∀ x ∈ v, 0 ≤ x) :
    front ((front S).map (applyEdp wantEdp wantE wantL)) =
      front (S.map (applyEdp wantEdp wantE wantL)) :=
  AFV.Search.edp_reprune wantEdp wantE wantL S hS

/-- Pruning in pieces: the front of a union is the front of the union of the fronts. -/
theorem front_of_union_fronts (A B : List Vec) : front (A ++ B) = front (front A ++ front B) :=
  AFV.Front.front_of_union_fronts A B

theorem front_idem (A : List Vec) : front (front A) = front A := AFV.Front.front_idem A

/-! ## Non-vacuity -/

example : front [[3, 1], [1, 3], [2, 2], [3, 3], [1, 3], [2, 2], [0, 9, 9], [1, 4]] =
    [[0, 9, 9], [1, 3], [2, 2], [3, 1]] := by decide
example : dominatedBy [[3, 1], [1, 3], [3, 3], [1, 3], [1, 4]] =
    [none, none, some 0, none, some 1] := by decide
-- a row equal to another row does not dominate it (ties are kept once)
example : front [[1, 1], [1, 1]] = [[1, 1]] := by decide
-- EDP re-pruning: (E, L) front has three rows, the EDP front one; E·L of a dominated row is never better
example : front ([[2, 8], [4, 4], [8, 2], [5, 5]].map (applyEdp true false false)) = [[16]] := by decide
example : (front [[2, 8], [4, 4], [8, 2], [5, 5]]).length = 3 := by decide
-- `ffm_front` is applicable to the example of C13 and its conclusion is a two-row front
example : front ((ffm opsChain 10 [[⟨1, [5, 2], [3]⟩, ⟨1, [4, 9], [3]⟩, ⟨1, [6, 9], [3]⟩],
    [⟨10, [1, 1], [3]⟩]]).map (·.obj)) = [[5, 10], [6, 3]] := by decide

/-! ## The reference front of the whole mapspace (`AFV/Spec/Mapspace.lean`)

`refFront o D s` is the Pareto front of the objective vectors (exactly scaled by `D` to integers) of every valid member of
`Mapspace.all s`, which is exactly the described space (`AFV.C01.all_complete` / `all_sound`). -/
section Mapspace
open AFV.Mapspace AFV.Nest

/-- **`refFront_complete`**: every valid mapping of the mapspace is weakly dominated — in exact rational arithmetic, on
the requested objectives — by a valid mapping whose objective vector is in `refFront`. -/
theorem refFront_complete (o : Objs) {D : Nat} (hD : 0 < D) (s : SpecDesc) {F : List Vec} (hF : refFront o D s = some F)
    {m : Mapping Nat} (hm : inSpace s m = true) {c : Cost} (hc : cost s m = some c) (hf : c.fits = true) :
    ∃ m' c' f, inSpace s m' = true ∧ cost s m' = some c' ∧ c'.fits = true ∧
      scaleVec D (c'.vecQ o) = some f ∧ f ∈ F ∧ leQ (c'.vecQ o) (c.vecQ o) := by
  unfold refFront at hF
  simp only [Option.map_eq_some_iff] at hF
  obtain ⟨rows, hrows, rfl⟩ := hF
  have hmap := optAll_eq_some hrows
  have hcmem : c ∈ validCosts s (all s) := mem_validCosts.2 ⟨m, (mem_all_iff s m).2 hm, hc, hf⟩
  have h1 : scaleVec D (c.vecQ o) ∈ rows.map some := by
    rw [← hmap]; exact List.mem_map.2 ⟨c, hcmem, rfl⟩
  obtain ⟨v, hv, hsv⟩ := List.mem_map.1 h1
  obtain ⟨f, hf', hle⟩ := AFV.Front.front_complete hv
  have hfrows : f ∈ rows := AFV.Front.front_subset hf'
  have h2 : some f ∈ (validCosts s (all s)).map (fun c => scaleVec D (c.vecQ o)) := by
    rw [hmap]; exact List.mem_map.2 ⟨f, hfrows, rfl⟩
  obtain ⟨c', hc', hsc'⟩ := List.mem_map.1 h2
  obtain ⟨m', hm', hcost', hfit'⟩ := mem_validCosts.1 hc'
  exact ⟨m', c', f, (mem_all_iff s m').1 hm', hcost', hfit', hsc', hf',
    (scaleVec_leqAll hD hsc' hsv.symm).1 hle⟩

/-- **`refFront_minimal`**: no valid mapping of the mapspace strictly dominates a member of `refFront`. -/
theorem refFront_minimal (o : Objs) {D : Nat} (s : SpecDesc) {F : List Vec} (hF : refFront o D s = some F)
    {f : Vec} (hf : f ∈ F) {m : Mapping Nat} (hm : inSpace s m = true) {c : Cost} (hc : cost s m = some c)
    (hfit : c.fits = true) {v : Vec} (hv : scaleVec D (c.vecQ o) = some v) : dom v f = false := by
  unfold refFront at hF
  simp only [Option.map_eq_some_iff] at hF
  obtain ⟨rows, hrows, rfl⟩ := hF
  have hmap := optAll_eq_some hrows
  have hcmem : c ∈ validCosts s (all s) := mem_validCosts.2 ⟨m, (mem_all_iff s m).2 hm, hc, hfit⟩
  have h1 : some v ∈ rows.map some := by
    rw [← hmap, ← hv]; exact List.mem_map.2 ⟨c, hcmem, rfl⟩
  obtain ⟨v', hv', hsv⟩ := List.mem_map.1 h1
  simp only [Option.some.injEq] at hsv
  subst hsv
  exact AFV.Front.front_minimal hf hv'

/-- **`refFront_attained` / `refFront_distinct`**: every member of `refFront` is the objective vector of a valid mapping
of the mapspace, and no vector occurs twice. -/
theorem refFront_attained (o : Objs) {D : Nat} (s : SpecDesc) {F : List Vec} (hF : refFront o D s = some F)
    {f : Vec} (hf : f ∈ F) :
    ∃ m c, inSpace s m = true ∧ cost s m = some c ∧ c.fits = true ∧ scaleVec D (c.vecQ o) = some f := by
  unfold refFront at hF
  simp only [Option.map_eq_some_iff] at hF
  obtain ⟨rows, hrows, rfl⟩ := hF
  have hmap := optAll_eq_some hrows
  have h2 : some f ∈ (validCosts s (all s)).map (fun c => scaleVec D (c.vecQ o)) := by
    rw [hmap]; exact List.mem_map.2 ⟨f, AFV.Front.front_subset hf, rfl⟩
  obtain ⟨c, hc, hsc⟩ := List.mem_map.1 h2
  obtain ⟨m, hm, hcost, hfit⟩ := mem_validCosts.1 hc
  exact ⟨m, c, (mem_all_iff s m).1 hm, hcost, hfit, hsc⟩

theorem refFront_distinct (o : Objs) {D : Nat} (s : SpecDesc) {F : List Vec} (hF : refFront o D s = some F) : F.Nodup := by
  unfold refFront at hF
  simp only [Option.map_eq_some_iff] at hF
  obtain ⟨rows, _, rfl⟩ := hF
  exact AFV.Front.front_distinct rows

/-- The harness obtains the (energy, latency) front from the (energy, latency, usage…) front by dropping the usage
coordinates and pruning again: that is the front of the projected vectors of ALL rows. -/
theorem front_project (k : Nat) (rows : List Vec) :
    front ((front rows).map (List.take k)) = front (rows.map (List.take k)) := by
  apply AFV.Front.front_map_mono
  intro a _ b _ hab
  have h := AFV.Front.leqAll_iff.1 hab
  apply AFV.Front.leqAll_iff.2
  refine ⟨by simp [h.1], ?_⟩
  intro i h₁ h₂
  have h₁' : i < a.length := by simp at h₁; omega
  have h₂' : i < b.length := by simp at h₂; omega
  have := h.2 i h₁' h₂'
  simpa [List.getElem_take] using this

/-- Merging the fronts of the parts of a split scan gives the front of the whole. -/
theorem front_parts (L : List (List Vec)) : front ((L.map front).flatten) = front L.flatten :=
  (AFV.Front.front_flatten_fronts L).symm

/-! ### Non-vacuity: two rank variables of bound 2, an input indexed by both and an output indexed by the first, on a
main memory and a 24-bit buffer: 38 mappings, 36 fit, the (energy, latency) front has two points. -/

def exLevel (sz e thr : Rat) : Level Rat :=
  { (Level.dflt : Level Rat) with size := sz, read := { energy := e, throughput := thr }, write := { energy := e, throughput := thr } }

def exSpec : SpecDesc :=
  { arch := { levels := [exLevel 1 10 4, exLevel 24 1 1],
              compute := { energy := 1, throughput := 8, leak := 0, actionsScale := 1, skipInitial := true } }
    bounds := [2, 2]
    tensors := [{ rvs := [0, 1], isOutput := false, bpv := 8 }, { rvs := [0], isOutput := true, bpv := 8 }]
    nInstances := 1
    rules := [{ keep := [0, 1], mayKeep := [] }, { keep := [], mayKeep := [0, 1] }]
    infSize := [true, false]
    forceOrder := true }

example : refFront ⟨true, true, false⟩ 8 exSpec = some [[4384, 512], [6432, 160]] := by decide +kernel
example : refFront ⟨true, true, true⟩ 24 exSpec = some [[13152, 1536, 0, 8], [19296, 480, 0, 0]] := by decide +kernel
-- a scale that does not clear the denominators is refused, nothing is rounded
example : refFront ⟨true, true, true⟩ 1 exSpec = none := by decide +kernel

end Mapspace

end AFV.C02
