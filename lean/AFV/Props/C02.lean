import AFV.Lemmas.SearchExamples
/-!
# C02 — the returned Pareto front is complete, minimal and duplicate-free (abstract part)

`front rows` is the reference: the rows no row strictly dominates (`≤` in every requested objective and
different), as a canonical (lexicographically sorted, duplicate-free) list, so that "same front" is `=`.
`frontFast` is the algorithm the native driver runs. The statements about `ffm` say that the pipeline of
`join_pmappings` returns such a front of **all** valid combinations, for vector objectives of any
dimension (ENERGY|LATENCY, with RESOURCE_USAGE columns appended, …), and that the final
`_apply_edp_columns` + `make_pareto` of `clean_compress_and_join_pmappings` is harmless.

What the mapper-level harness compares: the objective vectors returned by `map_workload_to_arch`
against `front` of the enumerated mapspace, plus `dominated`/duplicate checks on the returned table.
-/
namespace AFV.C02
open AFV.Front AFV.Search

variable {K : Type} [DecidableEq K]

/-- **Complete**: every row (every valid mapping's objective vector) is weakly dominated by a front row. -/
theorem front_complete {rows : List Vec} {r : Vec} (hr : r ∈ rows) :
    ∃ f ∈ front rows, leqAll f r = true := AFV.Front.front_complete hr

/-- **Minimal**: no front row is strictly dominated by any row — in particular by no other front row. -/
theorem front_minimal {rows : List Vec} {f s : Vec} (hf : f ∈ front rows) (hs : s ∈ rows) :
    dom s f = false := AFV.Front.front_minimal hf hs

/-- **Distinct**: no two front rows have identical objective vectors. -/
theorem front_distinct (rows : List Vec) : (front rows).Nodup := AFV.Front.front_distinct rows

/-- Front rows are rows. -/
theorem front_subset {rows : List Vec} {f : Vec} (hf : f ∈ front rows) : f ∈ rows :=
  AFV.Front.front_subset hf

/-- The three properties characterise the front: a duplicate-free, lexicographically sorted sub-list `L`
of `rows` that is complete and has no internally dominated row **is** `front rows`. (This is what
lets the harness judge a returned table directly.) -/
theorem front_unique {rows L : List Vec} (hsorted : StrictSorted L) (hsub : ∀ x ∈ L, x ∈ rows)
    (hcomplete : ∀ r ∈ rows, ∃ f ∈ L, leqAll f r = true)
    (hminimal : ∀ f ∈ L, ∀ s ∈ L, dom s f = false) : L = front rows := by
  have hcov : Cov leqAll L rows := ⟨hsub, hcomplete⟩
  have h1 : front L = front rows := front_eq_of_cover hcov
  rw [← h1]
  apply hsorted.eq_of_setEq (strictSorted_front L)
  intro x
  rw [mem_front]
  exact ⟨fun hx => ⟨hx, fun s hs => hminimal x hx s hs⟩, fun hx => hx.1⟩

/-- Equality of canonical fronts is equality of the sets of non-dominated vectors. -/
theorem front_canonical {A B : List Vec} :
    front A = front B ↔ SetEq (frontL leqAll A) (frontL leqAll B) := front_eq_iff

/-- The algorithm run by the driver (sort, then one sweep against the front found so far) computes the
reference front, for every input. -/
theorem frontFast_eq_front (rows : List Vec) : frontFast rows = front rows :=
  AFV.Front.frontFast_eq_front rows

/-- `dominated` op of the driver: `none` exactly for front rows, otherwise the index of a dominating row. -/
theorem dominatedBy_spec (rows : List Vec) (i : Nat) (hi : i < rows.length) :
    (((dominatedBy rows)[i]'(by simpa [dominatedBy] using hi)) = none ↔ rows[i] ∈ front rows) ∧
    ∀ j, (dominatedBy rows)[i]'(by simpa [dominatedBy] using hi) = some j →
      ∃ hj : j < rows.length, dom rows[j] rows[i] = true :=
  AFV.Front.dominatedBy_spec rows i hi

/-- **The pipeline returns the front of all valid combinations**, for vector objectives: for every
monotone read-out `g` of a candidate (the requested objective columns, with or without the reservation
columns), the front of the read-outs of the `ffm` rows is the front of the read-outs of *all* valid
combinations. -/
theorem ffm_front {ops : Ops K} (hr : RMono ops) (hc : CapClosed ops) (cap : Int)
    (tables : List (List (Cand K))) (g : Cand K → Vec)
    (hg : ∀ a b, cle a b = true → leqAll (g a) (g b) = true) :
    front ((ffm ops cap tables).map g) = front ((validCombos ops cap tables).map g) :=
  front_eq_of_cover ((cov_ffm hr hc cap tables).map g hg)

/-- … in particular for the objective vector itself and for objectives followed by reservations. -/
theorem ffm_front_obj {ops : Ops K} (hr : RMono ops) (hc : CapClosed ops) (cap : Int)
    (tables : List (List (Cand K))) :
    front ((ffm ops cap tables).map (·.obj)) = front ((validCombos ops cap tables).map (·.obj)) ∧
    front ((ffm ops cap tables).map (fun c => c.obj ++ c.res)) =
      front ((validCombos ops cap tables).map (fun c => c.obj ++ c.res)) :=
  ⟨ffm_front hr hc cap tables _ (fun _ _ h => (cle_iff.1 h).2.1),
   ffm_front hr hc cap tables _ (fun _ _ h => leqAll_append (cle_iff.1 h).2.1 (cle_iff.1 h).2.2)⟩

/-- **`edp_reprune`**: the last two steps of `clean_compress_and_join_pmappings` (apply the EDP column,
deleting energy/latency columns that were not requested; prune again) give the front of the final
columns over *all* rows, although the earlier pruning was done on (energy, latency, …). -/
theorem edp_reprune (wantEdp wantE wantL : Bool) (S : List Vec) (hS : ∀ v ∈ S, ∀ x ∈ v, 0 ≤ x) :
    front ((front S).map (applyEdp wantEdp wantE wantL)) =
      front (S.map (applyEdp wantEdp wantE wantL)) :=
  AFV.Search.edp_reprune wantEdp wantE wantL S hS

/-- Pruning in pieces: the front of a union is the front of the union of the fronts. -/
theorem front_of_union_fronts (A B : List Vec) : front (A ++ B) = front (front A ++ front B) :=
  AFV.Front.front_of_union_fronts A B

theorem front_idem (A : List Vec) : front (front A) = front A := AFV.Front.front_idem A

/-! ## Non-vacuity -/

example : front [[3, 1], [1, 3], [2, 2], [3, 3], [1, 3], [2, 2], [0, 9, 9], [1, 4]] =
    [[0, 9, 9], [1, 3], [2, 2], [3, 1]] := by decide
example : dominatedBy [[3, 1], [1, 3], [3, 3], [1, 3], [1, 4]] =
    [none, none, some 0, none, some 1] := by decide
-- a row equal to another row does not dominate it (ties are kept once)
example : front [[1, 1], [1, 1]] = [[1, 1]] := by decide
-- EDP re-pruning: (E, L) front has three rows, the EDP front one; E·L of a dominated row is never better
example : front ([[2, 8], [4, 4], [8, 2], [5, 5]].map (applyEdp true false false)) = [[16]] := by decide
example : (front [[2, 8], [4, 4], [8, 2], [5, 5]]).length = 3 := by decide
-- `ffm_front` is applicable to the example of C13 and its conclusion is a two-row front
example : front ((ffm opsChain 10 [[⟨1, [5, 2], [3]⟩, ⟨1, [4, 9], [3]⟩, ⟨1, [6, 9], [3]⟩],
    [⟨10, [1, 1], [3]⟩]]).map (·.obj)) = [[5, 10], [6, 3]] := by decide

end AFV.C02
