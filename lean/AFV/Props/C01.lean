import AFV.Lemmas.SearchExamples
import AFV.Lemmas.MapspaceRef
/-!
# C01 — the mapper returns an optimum of the whole mapspace (abstract part only)

Only the search layer is covered here: given the per-Einsum pmapping tables, the best value of a
single-metric objective over what the pipeline returns equals the minimum over **all** compatible,
within-capacity combinations of one pmapping per Einsum. That the tables themselves contain an optimum
of each Einsum's mapspace (template and tile-shape pruning) is the business of C08 and of the mapspace
model; that the costs are right is C05/C07.

A single metric is a non-negative linear read-out `w · obj` of the objective vector (`w = [1]` for one
column; energy only = `[1, 0]` on (energy, latency) tables; EDP is handled through the metric map of
`staged`, see `staged_best_eq_exact_best`).
-/
namespace AFV.C01
open AFV.Front AFV.Search

variable {K : Type} [DecidableEq K]

/-- **`ffm_best_eq_exact_best`.** The best objective among the rows returned by the prune–join–prune
pipeline equals the minimum over all valid combinations (`none` on both sides when there is none). -/
theorem ffm_best_eq_exact_best {ops : Ops K} (hr : RMono ops) (hc : CapClosed ops) (cap : Int)
    {w : Vec} (hw : ∀ u ∈ w, 0 ≤ u) (tables : List (List (Cand K))) :
    best w (ffm ops cap tables) = best w (validCombos ops cap tables) :=
  AFV.Search.ffm_best_eq_exact_best hr hc cap hw tables

/-- No valid combination is strictly better than what is returned, and what is returned is attained by
a valid combination. -/
theorem no_valid_better {ops : Ops K} (hr : RMono ops) (hc : CapClosed ops) (cap : Int)
    {w : Vec} (hw : ∀ u ∈ w, 0 ≤ u) (tables : List (List (Cand K))) {m : Int}
    (hm : best w (ffm ops cap tables) = some m) :
    (∀ s ∈ validCombos ops cap tables, m ≤ dot w s.obj) ∧
    ∃ s ∈ validCombos ops cap tables, dot w s.obj = m := by
  rw [ffm_best_eq_exact_best hr hc cap hw] at hm
  obtain ⟨hex, hlb⟩ := minOf_eq_some.1 hm
  exact ⟨hlb, hex⟩

/-- If some valid combination exists, the pipeline returns at least one row. -/
theorem ffm_nonempty {ops : Ops K} (hr : RMono ops) (hc : CapClosed ops) (cap : Int)
    (tables : List (List (Cand K))) {s : Cand K} (hs : s ∈ validCombos ops cap tables) :
    ffm ops cap tables ≠ [] := by
  obtain ⟨y, hy, _⟩ := (cov_ffm hr hc cap tables).cov s hs
  intro h; rw [h] at hy; cases hy

/-- The same through the staged (accelerated) join: the minimum of every final objective column over
the returned rows equals its minimum over all valid combinations — also when reservation columns were
retained (finding of C14), because the objective part of the returned rows always has the exact front. -/
theorem staged_best_eq_exact_best {cfg : Cfg K} {n : Nat} {tables : List (List (Cand K))}
    (h : StagedHyp cfg n tables) (hd : cfg.dropRes = true) (caps : List Int)
    (hcaps : ∀ c ∈ caps, cfg.cap ≤ c) (i : Nat) :
    minOf (col i) (objPart cfg (staged cfg caps tables)) =
      minOf (col i) ((validCombos cfg.ops cfg.cap tables).map (fun c => cfg.metric c.obj)) := by
  have hf := staged_objPart_front h caps hcaps
  have hmono : ∀ (A : List Vec), ∀ a ∈ A, ∀ b ∈ A, leqAll a b = true → col i a ≤ col i b :=
    fun _ _ _ _ _ hab => col_mono i hab
  rw [← minOf_front (hmono _), hf]
  unfold joinExactV
  rw [minOf_front (hmono _)]
  congr 1
  apply List.map_congr_left
  intro c _
  simp [cvOf, finV, hd, Cand.row]

/-! ## Non-vacuity -/

example : best [1, 0] (ffm opsChain 10 exTables) = some 7 ∧
    best [0, 1] (ffm opsChain 10 exTables) = some 5 ∧
    best [1, 1] (validCombos opsChain 10 exTables) = some 13 := by decide
-- with a capacity that nothing fits, both sides are `none`
example : best [1, 0] (ffm opsChain 5 exTables) = none ∧
    best [1, 0] (validCombos opsChain 5 exTables) = none := by decide

/-! ## The reference mapspace (`AFV/Spec/Mapspace.lean`): the enumerator misses nothing, and `refBest` is the optimum

`inSpace s m` is the declarative description of the mapspace of a single-Einsum spec (storage placements allowed by
keep / may_keep and the memory hierarchy, any loop order, every perfectly factorising tile chain, plus the one
validity rule of the cost model); `all s` is the enumerator the native driver runs (through `foldAll`). -/
section Mapspace
open AFV.Mapspace AFV.Nest

/-- **`all_sound`**: everything the enumerator produces lies in the described space. -/
theorem all_sound (s : SpecDesc) {m : Mapping Nat} (h : m ∈ all s) : inSpace s m = true :=
  (mem_all_iff s m).1 h

/-- **`all_complete`**: the enumerator misses no mapping of the described space — for every spec, no size bound. -/
theorem all_complete (s : SpecDesc) {m : Mapping Nat} (h : inSpace s m = true) : m ∈ all s :=
  (mem_all_iff s m).2 h

/-- The fold the driver runs (nothing materialised) is `List.foldl` over `all s`. -/
theorem foldAll_eq_foldl {β : Type} (s : SpecDesc) (f : β → Mapping Nat → β) (init : β) :
    foldAll s f init = (all s).foldl f init := foldAll_eq s f init

/-- … and the partial scans used to spread a spec over several processes fold over `allPart`. -/
theorem foldAllPart_eq_foldl {β : Type} (s : SpecDesc) (i k : Nat) (f : β → Mapping Nat → β) (init : β) :
    foldAllPart s i k f init = (allPart s i k).foldl f init := foldAllPart_eq s i k f init

/-- **`refBest_le`**: no valid mapping of the mapspace (in the space, evaluable, within capacity) is better than
`refBest`, for energy, latency and EDP. -/
theorem refBest_le (metric : Metric) (s : SpecDesc) {b : Rat} (hb : refBest metric s = some b)
    {m : Mapping Nat} (hm : inSpace s m = true) {c : Cost} (hc : cost s m = some c) (hf : c.fits = true) :
    b ≤ metric.eval c :=
  (minQ_eq_some hb).2 c (mem_validCosts.2 ⟨m, all_complete s hm, hc, hf⟩)

/-- `refBest` is attained by a valid mapping of the mapspace. -/
theorem refBest_attained (metric : Metric) (s : SpecDesc) {b : Rat} (hb : refBest metric s = some b) :
    ∃ m c, inSpace s m = true ∧ cost s m = some c ∧ c.fits = true ∧ metric.eval c = b := by
  obtain ⟨c, hc, hv⟩ := (minQ_eq_some hb).1
  obtain ⟨m, hm, hcost, hfit⟩ := mem_validCosts.1 hc
  exact ⟨m, c, all_sound s hm, hcost, hfit, hv⟩

/-- `refBest = none` exactly when the mapspace has no valid mapping. -/
theorem refBest_none_iff (metric : Metric) (s : SpecDesc) :
    refBest metric s = none ↔ ∀ m c, inSpace s m = true → cost s m = some c → c.fits = false := by
  unfold refBest
  rw [minQ_eq_none]
  constructor
  · intro h m c hm hc
    cases hf : c.fits with
    | false => rfl
    | true =>
      have : c ∈ validCosts s (all s) := mem_validCosts.2 ⟨m, all_complete s hm, hc, hf⟩
      rw [h] at this; cases this
  · intro h
    apply List.eq_nil_iff_forall_not_mem.2
    intro c hc
    obtain ⟨m, hm, hcost, hfit⟩ := mem_validCosts.1 hc
    rw [h m c (all_sound s hm) hcost] at hfit
    cases hfit


/-- The parts a scan is split into (storage choices number i, i+k, …) together cover the whole space. -/
theorem allPart_cover (s : SpecDesc) {k : Nat} (hk : 0 < k) (m : Mapping Nat) :
    inSpace s m = true ↔ ∃ i, i < k ∧ m ∈ allPart s i k := by
  rw [← mem_all_iff s m]; exact mem_all_iff_parts s hk m

/-! ### Two Einsums sharing an intermediate tensor (fused or not)

`all2 S` = the pairs of per-Einsum members that agree on the intermediate tensor's backing level and on the fused
loops above it (≤ 1 per rank variable).  The cost of a pair (`cost2`) ASSUMES additivity of energy / latency and
"peak usage = holders of the shared prefix + max over the two branches"; see `AFV/Spec/Mapspace.lean`. -/

/-- The fused enumerator is exactly: both halves in their Einsum's space, and compatible. -/
theorem all2_iff (S : Spec2) (m0 m1 : Mapping Nat) :
    (m0, m1) ∈ all2 S ↔ inSpace S.s0 m0 = true ∧ inSpace S.s1 m1 = true ∧ compatible S m0 m1 = true :=
  mem_all2_iff S m0 m1

/-- `refBest2` is a lower bound of the (assumed-additive) objective of every valid compatible pair, and is attained. -/
theorem refBest2_le (metric : Metric) (S : Spec2) {b : Rat} (hb : refBest2 metric S = some b)
    {m0 m1 : Mapping Nat} (h0 : inSpace S.s0 m0 = true) (h1 : inSpace S.s1 m1 = true)
    (hcomp : compatible S m0 m1 = true) {c : Cost} (hc : cost2 S (m0, m1) = some c) (hf : c.fits = true) :
    b ≤ metric.eval c :=
  (minQ_eq_some hb).2 c (mem_validCosts2.2 ⟨(m0, m1), (mem_all2_iff S m0 m1).2 ⟨h0, h1, hcomp⟩, hc, hf⟩)

theorem refBest2_attained (metric : Metric) (S : Spec2) {b : Rat} (hb : refBest2 metric S = some b) :
    ∃ m0 m1 c, inSpace S.s0 m0 = true ∧ inSpace S.s1 m1 = true ∧ compatible S m0 m1 = true ∧
      cost2 S (m0, m1) = some c ∧ c.fits = true ∧ metric.eval c = b := by
  obtain ⟨c, hc, hv⟩ := (minQ_eq_some hb).1
  obtain ⟨⟨m0, m1⟩, hp, hcost, hfit⟩ := mem_validCosts2.1 hc
  obtain ⟨h0, h1, hcomp⟩ := (mem_all2_iff S m0 m1).1 hp
  exact ⟨m0, m1, c, h0, h1, hcomp, hcost, hfit, hv⟩


/-- What the driver's two-Einsum scan enumerates — every within-capacity combination of a half (the data `combine`
looks at) of a member of Einsum 0's space with a half of a member of Einsum 1's space — is exactly the set of valid costs of
the fused space. -/
theorem validCosts2_via_halves (S : Spec2) (c : Cost) :
    c ∈ validCosts2 S (all2 S) ↔
      ∃ a ∈ halves S.s0 S.x0, ∃ b ∈ halves S.s1 S.x1, combine S.s0 a b = some c ∧ c.fits = true :=
  mem_validCosts2_halves S c


/-! ### A defect of the real mapper that this check found, delimited

On the unchanged tree the real `map_workload_to_arch` misses mappings that fill a memory EXACTLY when the memory's size is
not a power of two: `make_tile_shapes.get_tile_shape_choices` evaluates the usage formula of a pmapping in float32 and tests
`usage <= 1`; a usage of 7/7 comes out as 1.0000001192092896 and the pmapping is dropped, although `evaluate_mapping`
accepts the same mapping with usage 1.0.  The mapper then returns the optimum over the mappings that fill no memory
exactly (`refBestStrict`).  The model and the reference stay faithful to the property (capacity is `usage ≤ 1`):
`exactly_full_counterexample` is the concrete witness (replayed on the real code from `corpus/C01/`),
`refBest_eq_strict_partial` says where the two optima coincide, i.e. where the defect cannot show. -/

/-- `refBest` is never above the optimum over the strictly fitting mappings. -/
theorem refBest_le_strict (metric : Metric) (s : SpecDesc) {b b' : Rat} (hb : refBest metric s = some b)
    (hb' : refBestStrict metric s = some b') : b ≤ b' := by
  obtain ⟨c, hc, hv⟩ := (minQ_eq_some hb').1
  have hc' : c ∈ validCosts s (all s) := (List.mem_filter.1 hc).1
  rw [← hv]
  exact (minQ_eq_some hb).2 c hc'

/-- **`refBest_eq_strict_partial`**: if no valid mapping of the mapspace fills a memory exactly, the optimum over the
strictly fitting mappings (what the real mapper was observed to return) IS the optimum. -/
theorem refBest_eq_strict_partial (metric : Metric) (s : SpecDesc)
    (h : ∀ c ∈ validCosts s (all s), c.fitsStrict = true) : refBestStrict metric s = refBest metric s := by
  unfold refBestStrict refBest validCostsStrict
  rw [List.filter_eq_self.2 h]

/-- The spec of the witness: `Z[a,b] = X[a,c]·Y[c,b]`, all bounds 2, 8-bit values, MainMemory (50 per bit) above a
GlobalBuffer of 56 bits = 7 values (1 per bit), compute energy 1; this is `corpus/C01/exactly-full-float32.json` as the
repo's front end describes it. -/
def fullSpec : SpecDesc :=
  { arch := { levels := [{ (Level.dflt : Level Rat) with
                            read := { energy := 50, throughput := 0, bpa := some 1 }
                            write := { energy := 50, throughput := 0, bpa := some 1 } },
                         { (Level.dflt : Level Rat) with
                            size := 56
                            read := { energy := 1, throughput := 0, bpa := some 1 }
                            write := { energy := 1, throughput := 0, bpa := some 1 } }],
              compute := { energy := 1, throughput := 1, leak := 0, actionsScale := 1, skipInitial := true } }
    bounds := [2, 2, 2]
    tensors := [{ rvs := [0, 2], isOutput := false, bpv := 8 }, { rvs := [2, 1], isOutput := false, bpv := 8 },
                { rvs := [0, 1], isOutput := true, bpv := 8 }]
    nInstances := 1
    rules := [{ keep := [0, 1, 2], mayKeep := [0, 1, 2] }, { keep := [], mayKeep := [0, 1, 2], keepNotIn := some 0 }]
    infSize := [true, false]
    forceOrder := true }

/-- X and Y whole in the buffer (4 + 2 values after lowering Y through `b`), one value of Z: 7 of 7 values. -/
def fullMapping : Mapping Nat :=
  [.storage 0 [0] true, .storage 0 [1] true, .storage 0 [2] true, .storage 1 [0] true, .storage 1 [1] true,
   .loop 1 1, .storage 1 [2] true, .loop 0 1, .loop 2 1, .compute]

/-- **`exactly_full_counterexample`**: a mapping of the described space that the model evaluates to energy 5128 with the
buffer exactly full (usage = 1: it fits, but not strictly).  The real mapper returns 6632 for this spec. -/
theorem exactly_full_counterexample :
    inSpace fullSpec fullMapping = true ∧
    (cost fullSpec fullMapping).map (fun c => (c.energy, c.usage, c.fits, c.fitsStrict)) =
      some (5128, [0, 1], true, false) := by decide +kernel

/-- Hence the optimum of the witness spec is at most 5128 (the real mapper's 6632 is not optimal). -/
theorem exactly_full_counterexample_bound {b : Rat} (hb : refBest .energy fullSpec = some b) : b ≤ 5128 := by
  have h := exactly_full_counterexample
  cases hc : cost fullSpec fullMapping with
  | none => rw [hc] at h; simp at h
  | some c =>
    rw [hc] at h
    simp only [Option.map_some, Option.some.injEq, Prod.mk.injEq] at h
    have := refBest_le .energy fullSpec hb h.1 hc h.2.2.2.1
    simpa [Metric.eval, h.2.1] using this

/-! ### Non-vacuity: a 2-level matmul-like spec with bounds (2, 2), two tensors -/

/-- Two rank variables of bound 2, tensor 0 indexed by both, tensor 1 (output) by the first; MainMemory keeps both,
a buffer of 64 bits may keep either. -/
def exSpec : SpecDesc :=
  { arch := { levels := [{ (Level.dflt : Level Rat) with read := { energy := 10, throughput := 1 }, write := { energy := 10, throughput := 1 } },
                         { (Level.dflt : Level Rat) with size := 64, read := { energy := 1, throughput := 1 }, write := { energy := 1, throughput := 1 } }],
              compute := { energy := 1, throughput := 1, leak := 0, actionsScale := 1, skipInitial := true } }
    bounds := [2, 2]
    tensors := [{ rvs := [0, 1], isOutput := false, bpv := 8 }, { rvs := [0], isOutput := true, bpv := 8 }]
    nInstances := 1
    rules := [{ keep := [0, 1], mayKeep := [] }, { keep := [], mayKeep := [0, 1] }]
    infSize := [true, false]
    forceOrder := true }

example : (all exSpec).length = 38 := by decide +kernel
example : inSpace exSpec [.storage 0 [0] true, .storage 0 [1] true, .loop 0 1, .storage 1 [1] true, .loop 1 1, .compute] = true := by
  decide +kernel
-- a level-0 holder below a loop, a one-iteration loop and a missing tensor are all outside the space
example : inSpace exSpec [.storage 0 [0] true, .loop 0 1, .storage 0 [1] true, .loop 1 1, .compute] = false := by decide +kernel
example : inSpace exSpec [.storage 0 [0] true, .storage 0 [1] true, .loop 0 2, .loop 0 1, .loop 1 1, .compute] = false := by
  decide +kernel
example : inSpace exSpec [.storage 0 [0] true, .loop 0 1, .loop 1 1, .compute] = false := by decide +kernel

/-- The same workload on a small, slow buffer (24 bits, 1 bit/cycle) under a faster main memory: capacity binds (36 of 38
members fit) and energy, latency and EDP are minimised by three different mappings. -/
def exLevel (sz e thr : Rat) : Level Rat :=
  { (Level.dflt : Level Rat) with size := sz, read := { energy := e, throughput := thr }, write := { energy := e, throughput := thr } }

def exSpec2 : SpecDesc :=
  { exSpec with
    arch := { levels := [exLevel 1 10 4, exLevel 24 1 1],
              compute := { energy := 1, throughput := 8, leak := 0, actionsScale := 1, skipInitial := true } } }

example : (validCosts exSpec2 (all exSpec2)).length = 36 := by decide +kernel
example : refBest .energy exSpec2 = some 548 ∧ refBest .latency exSpec2 = some 20 ∧ refBest .edp exSpec2 = some 16080 := by
  decide +kernel
-- so `refBest_le` / `refBest_attained` are applicable with b = 548 (hypothesis `hb` holds by the line above)
example : ∃ m c, inSpace exSpec2 m = true ∧ cost exSpec2 m = some c ∧ c.fits = true ∧ Metric.energy.eval c = 548 :=
  refBest_attained .energy exSpec2 (by decide +kernel)

end Mapspace

end AFV.C01
