import AFV.Lemmas.SearchExamples
/-!
# C01 — the mapper returns an optimum of the whole mapspace (abstract part only)

Only the search layer is covered here: given the per-Einsum pmapping tables, the best value of a
single-metric objective over what the pipeline returns equals the minimum over **all** compatible,
within-capacity combinations of one pmapping per Einsum. That the tables themselves contain an optimum
of each Einsum's mapspace (template and tile-shape pruning) is the business of C08 and of the mapspace
model; that the costs are right is C05/C07.

A single metric is a non-negative linear read-out `w · obj` of the objective vector (`w = [1]` for one
column; energy only = `[1, 0]` on (energy, latency) tables; EDP is handled through the metric map of
`staged`, see `staged_best_eq_exact_best`).
-/
namespace AFV.C01
open AFV.Front AFV.Search

variable {K : Type} [DecidableEq K]

/-- **`ffm_best_eq_exact_best`.** The best objective among the rows returned by the prune–join–prune
pipeline equals the minimum over all valid combinations (`none` on both sides when there is none). -/
theorem ffm_best_eq_exact_best {ops : Ops K} (hr : RMono ops) (hc : CapClosed ops) (cap : Int)
    {w : Vec} (hw : ∀ u ∈ w, 0 ≤ u) (tables : List (List (Cand K))) :
    best w (ffm ops cap tables) = best w (validCombos ops cap tables) :=
  AFV.Search.ffm_best_eq_exact_best hr hc cap hw tables

/-- No valid combination is strictly better than what is returned, and what is returned is attained by
a valid combination. -/
theorem no_valid_better {ops : Ops K} (hr : RMono ops) (hc : CapClosed ops) (cap : Int)
    {w : Vec} (hw : ∀ u ∈ w, 0 ≤ u) (tables : List (List (Cand K))) {m : Int}
    (hm : best w (ffm ops cap tables) = some m) :
    (∀ s ∈ validCombos ops cap tables, m ≤ dot w s.obj) ∧
    ∃ s ∈ validCombos ops cap tables, dot w s.obj = m := by
  rw [ffm_best_eq_exact_best hr hc cap hw] at hm
  obtain ⟨hex, hlb⟩ := minOf_eq_some.1 hm
  exact ⟨hlb, hex⟩

/-- If some valid combination exists, the pipeline returns at least one row. -/
theorem ffm_nonempty {ops : Ops K} (hr : RMono ops) (hc : CapClosed ops) (cap : Int)
    (tables : List (List (Cand K))) {s : Cand K} (hs : s ∈ validCombos ops cap tables) :
    ffm ops cap tables ≠ [] := by
  obtain ⟨y, hy, _⟩ := (cov_ffm hr hc cap tables).cov s hs
  intro h; rw [h] at hy; cases hy

/-- The same through the staged (accelerated) join: the minimum of every final objective column over
the returned rows equals its minimum over all valid combinations — also when reservation columns were
retained (finding of C14), because the objective part of the returned rows always has the exact front. -/
theorem staged_best_eq_exact_best {cfg : Cfg K} {n : Nat} {tables : List (List (Cand K))}
    (h : StagedHyp cfg n tables) (hd : cfg.dropRes = true) (caps : List Int)
    (hcaps : ∀ c ∈ caps, cfg.cap ≤ c) (i : Nat) :
    minOf (col i) (objPart cfg (staged cfg caps tables)) =
      minOf (col i) ((validCombos cfg.ops cfg.cap tables).map (fun c => cfg.metric c.obj)) := by
  have hf := staged_objPart_front h caps hcaps
  have hmono : ∀ (A : List Vec), ∀ a ∈ A, ∀ b ∈ A, leqAll a b = true → col i a ≤ col i b :=
    fun _ _ _ _ _ hab => col_mono i hab
  rw [← minOf_front (hmono _), hf]
  unfold joinExactV
  rw [minOf_front (hmono _)]
  congr 1
  apply List.map_congr_left
  intro c _
  simp [cvOf, finV, hd, Cand.row]

/-! ## Non-vacuity -/

example : best [1, 0] (ffm opsChain 10 exTables) = some 7 ∧
    best [0, 1] (ffm opsChain 10 exTables) = some 5 ∧
    best [1, 1] (validCombos opsChain 10 exTables) = some 13 := by decide
-- with a capacity that nothing fits, both sides are `none`
example : best [1, 0] (ffm opsChain 5 exTables) = none ∧
    best [1, 0] (validCombos opsChain 5 exTables) = none := by decide

end AFV.C01
