import AFV.Lemmas.SearchExamples
import AFV.Lemmas.MapspaceRef
/-!
# C01 — the mapper returns an optimum of the whole mapspace (abstract part only)

Only the search layer is covered here: given the per-Einsum pmapping tables, the best value of a
single-metric objective over what the pipeline returns equals the minimum over **all** compatible,
within-capacity combinations of one pmapping per Einsum. That the tables themselves contain an optimum
of each Einsum's mapspace (template and tile-shape pruning) is the business of C08 and of the mapspace
model; that the costs are right is C05/C07.

A single metric is a non-negative linear read-out `w · obj` of the objective vector (`w = [1]` for one
column; energy only = `[1, 0]` on (energy, latency) tables; EDP is handled through the metric map of
`staged`, see `staged_best_eq_exact_best`).
-/
namespace AFV.C01
open AFV.Front AFV.Search

variable {K : Type} [DecidableEq K]

/-- **`ffm_best_eq_exact_best`.** The best objective among the rows returned by the prune–join–prune
pipeline equals the minimum over all valid combinations (`none` on both sides when there is none). -/
theorem ffm_best_eq_exact_best {ops : Ops K} (hr : RMono ops) (hc : CapClosed ops) (cap : Int)
    {w : Vec} (hw : ∀ u ∈ w, 0 ≤ u) (tables : List (List (Cand K))) :
    best w (ffm ops cap tables) = best w (validCombos ops cap tables) :=
  AFV.Search.ffm_best_eq_exact_best hr hc cap hw tables

/-- No valid combination is strictly better than what is returned, and what is returned is attained by
a valid combination. -/
theorem no_valid_better {ops : Ops K} (hr : RMono ops) (hc : CapClosed ops) (cap : Int)
    {w : Vec} (hw : ∀ u ∈ w, 0 ≤ u) (tables : List (List (Cand K))) {m : Int}
    (hm : best w (ffm ops cap tables) = some m) :
    (∀ s ∈ validCombos ops cap tables, m ≤ dot w s.obj) ∧
    ∃ s ∈ validCombos ops cap tables, dot w s.obj = m := by
  rw [ffm_best_eq_exact_best hr hc cap hw] at hm
  obtain ⟨hex, hlb⟩ := minOf_eq_some.1 hm
  exact ⟨hlb, hex⟩

/-- If some valid combination exists, the pipeline returns at least one row. -/
theorem ffm_nonempty {ops : Ops K} (hr : RMono ops) (hc : CapClosed ops) (cap : Int)
    (tables : List (List (Cand K))) {s : Cand K} (hs : s ∈ validCombos ops cap tables) :
    ffm ops cap tables ≠ [] := by
  obtain ⟨y, hy, _⟩ := (cov_ffm hr hc cap tables).cov s hs
  intro h; rw [h] at hy; cases hy

/-- The same through the staged (accelerated) join: the minimum of every final objective column over
the returned rows equals its minimum over all valid combinations — also when reservation columns were
retained (finding of C14), because the objective part of the returned rows always has the exact front. -/
theorem staged_best_eq_exact_best {cfg : Cfg K} {n : Nat} {tables : List (List (Cand K))}
    (h : StagedHyp cfg n tables) (hd : cfg.dropRes = true) (caps : List Int)
    (hcaps : ∀ c ∈ caps, cfg.cap ≤ c) (i : Nat) :
    minOf (col i) (objPart cfg (staged cfg caps tables)) =
      minOf (col i) ((validCombos cfg.ops cfg.cap tables).map (fun c => cfg.metric c.obj)) := by
  have hf := staged_objPart_front h caps hcaps
  have hmono : ∀ (A : List Vec), ∀ a ∈ A, ∀ b ∈ A, leqAll a b = true → col i a ≤ col i b :=
    fun _ _ _ _ _ hab => col_mono i hab
  rw [← minOf_front (hmono _), hf]
  unfold joinExactV
  rw [minOf_front (hmono _)]
  congr 1
  apply List.map_congr_left
  intro c _
  simp [cvOf, finV, hd, Cand.row]

/-! ## Non-vacuity -/

example : best [1, 0] (ffm opsChain 10 exTables) = some 7 ∧
    best [0, 1] (ffm opsChain 10 exTables) = some 5 ∧
    best [1, 1] (validCombos opsChain 10 exTables) = some 13 := by decide
-- with a capacity that nothing fits, both sides are `none`
example : best [1, 0] (ffm opsChain 5 exTables) = none ∧
    best [1, 0] (validCombos opsChain 5 exTables) = none := by decide

/-! ## The reference mapspace (`AFV/Spec/Mapspace.lean`): the enumerator misses nothing, and `refBest` is the optimum

`inSpace s m` is the declarative description of the mapspace of a single-Einsum spec (storage placements allowed by
keep / may_keep and the memory hierarchy, any loop order, every perfectly factorising tile chain, plus the one
validity rule of the cost model); `all s` is the enumerator the native driver runs (through `foldAll`). -/
section Mapspace
open AFV.Mapspace AFV.Nest

/-- **`all_sound`**: everything the enumerator produces lies in the described space. -/
theorem all_sound (s : SpecDesc) {m : Mapping Nat} (h : m ∈ all s) : inSpace s m = true :=
  (mem_all_iff s m).1 h

/-- **`all_complete`**: the enumerator misses no mapping of the described space — for every spec, no size bound. -/
theorem all_complete (s : SpecDesc) {m : Mapping Nat} (h : inSpace s m = true) : m ∈ all s :=
  (mem_all_iff s m).2 h

/-- The fold the driver runs (nothing materialised) is `List.foldl` over `all s`. -/
theorem foldAll_eq_foldl {β : Type} (s : SpecDesc) (f : β → Mapping Nat → β) (init : β) :
    foldAll s f init = (all s).foldl f init := foldAll_eq s f init

/-- … and the partial scans used to spread a spec over several processes fold over `allPart`. -/
theorem foldAllPart_eq_foldl {β : Type} (s : SpecDesc) (i k : Nat) (f : β → Mapping Nat → β) (init : β) :
    foldAllPart s i k f init = (allPart s i k).foldl f init := foldAllPart_eq s i k f init

/-- **`refBest_le`**: no valid mapping of the mapspace (in the space, evaluable, within capacity) is better than
`refBest`, for energy, latency and EDP. -/
theorem refBest_le (metric : Metric) (s : SpecDesc) {b : Rat} (hb : refBest metric s = some b)
    {m : Mapping Nat} (hm : inSpace s m = true) {c : Cost} (hc : cost s m = some c) (hf : c.fits = true) :
    b ≤ metric.eval c :=
  (minQ_eq_some hb).2 c (mem_validCosts.2 ⟨m, all_complete s hm, hc, hf⟩)

/-- `refBest` is attained by a valid mapping of the mapspace. -/
theorem refBest_attained (metric : Metric) (s : SpecDesc) {b : Rat} (hb : refBest metric s = some b) :
    ∃ m c, inSpace s m = true ∧ cost s m = some c ∧ c.fits = true ∧ metric.eval c = b := by
  obtain ⟨c, hc, hv⟩ := (minQ_eq_some hb).1
  obtain ⟨m, hm, hcost, hfit⟩ := mem_validCosts.1 hc
  exact ⟨m, c, all_sound s hm, hcost, hfit, hv⟩

/-- `refBest = none` exactly when the mapspace has no valid mapping. -/
theorem refBest_none_iff (metric : Metric) (s : SpecDesc) :
    refBest metric s = none ↔ ∀ m c, inSpace s m = true → cost s m = some c → c.fits = false := by
  unfold refBest
  rw [minQ_eq_none]
  constructor
  · intro h m c hm hc
    cases hf : c.fits with
    | false => rfl
    | true =>
      have : c ∈ validCosts s (all s) := mem_validCosts.2 ⟨m, all_complete s hm, hc, hf⟩
      rw [h] at this; cases this
  · intro h
    apply List.eq_nil_iff_forall_not_mem.2
    intro c hc
    obtain ⟨m, hm, hcost, hfit⟩ := mem_validCosts.1 hc
    rw [h m c (all_sound s hm) hcost] at hfit
    cases hfit

/-! ### Non-vacuity: a 2-level matmul-like spec with bounds (2, 2), two tensors -/

/-- Two rank variables of bound 2, tensor 0 indexed by both, tensor 1 (output) by the first; MainMemory keeps both,
a buffer of 64 bits may keep either. -/
def exSpec : SpecDesc :=
  { arch := { levels := [{ (Level.dflt : Level Rat) with read := { energy := 10, throughput := 1 }, write := { energy := 10, throughput := 1 } },
                         { (Level.dflt : Level Rat) with size := 64, read := { energy := 1, throughput := 1 }, write := { energy := 1, throughput := 1 } }],
              compute := { energy := 1, throughput := 1, leak := 0, actionsScale := 1, skipInitial := true } }
    bounds := [2, 2]
    tensors := [{ rvs := [0, 1], isOutput := false, bpv := 8 }, { rvs := [0], isOutput := true, bpv := 8 }]
    nInstances := 1
    rules := [{ keep := [0, 1], mayKeep := [] }, { keep := [], mayKeep := [0, 1] }]
    infSize := [true, false]
    forceOrder := true }

example : (all exSpec).length = 38 := by decide +kernel
example : inSpace exSpec [.storage 0 [0] true, .storage 0 [1] true, .loop 0 1, .storage 1 [1] true, .loop 1 1, .compute] = true := by
  decide +kernel
-- a level-0 holder below a loop, a one-iteration loop and a missing tensor are all outside the space
example : inSpace exSpec [.storage 0 [0] true, .loop 0 1, .storage 0 [1] true, .loop 1 1, .compute] = false := by decide +kernel
example : inSpace exSpec [.storage 0 [0] true, .storage 0 [1] true, .loop 0 2, .loop 0 1, .loop 1 1, .compute] = false := by
  decide +kernel
example : inSpace exSpec [.storage 0 [0] true, .loop 0 1, .loop 1 1, .compute] = false := by decide +kernel

end Mapspace

end AFV.C01
