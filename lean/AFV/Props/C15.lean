import AFV.Model.Compress
import AFV.Lemmas.Compress
/-!
# C15 — compressing pmapping tables for joining loses no per-row detail

`compress_einsum2pmappings` splits every pmapping table into the columns the join needs (kept,
plus a `<einsum><SEP>compressed_index` column) and the columns it does not (kept aside in a dict
`start_index → frame`).  `decompress_pmappings` re-attaches the kept-aside columns to the join
result by walking that dict in reverse.

Theorems (for every classifier `joining`, every list of Einsums, every list of tables per Einsum with
any row counts including 0, any cells, and every join result whose index cells name existing rows —
repeats and any order allowed):

* `compress_keeps_joining`, `compress_shape`, `compress_index_global`, `compress_index_injective`:
  compression leaves the joining cells of every row untouched, table by table, and numbers the rows
  of an Einsum 0,1,2,… across its tables (so no two rows, in whichever tables, share an index);
* `decompress1_compress`, `decompress_compress_conv`: what decompression returns, exactly: for every
  join row in order, the row's own cells followed, per Einsum, by the kept-aside cells of the source
  row its index names — with the cells of a column that another selected source row lacks passed
  through pandas' NaN-fill conversion `conv` (int64 → float64);
* `decompress_compress_counterexample`: therefore the full property is FALSE for the code as it is —
  an int64 cell 2^53+1 comes back as 2^53 (witness replayed on the real code by the harness);
* `decompress_compress_partial` (+ `roundF64_small`, `decompress_compress_id`): the property holds
  whenever that conversion changes no cell of the tables (all integer cells within ±2^53);
* `payload_is_source_row`, `decompress_lookup`: the payload is an actual row's kept-aside part, and
  read by column name, when kept-aside column names are not shadowed;
* `decompress_empty_selection_raises`: the one input class on which the code does not return — a
  join result without rows makes `pd.concat([])` raise (the property is vacuous there);
* `per_einsum_cols_kept_aside`: `col_used_in_joining` is false for every column whose first
  `<SEP>` part is not one of the reserved words, i.e. for all `<einsum><SEP>…` columns.
-/
namespace AFV.C15
open AFV.Compress

variable {α : Type}

/-! ## compression -/

/-- Joining columns are unchanged by compression: table by table, row by row. -/
theorem compress_keeps_joining (j : String → Bool) (ts : List (Table α)) :
    (compressList j ts).1.map (fun t => t.map (·.keep)) = ts.map (fun t => t.map (keepCells j)) := by
  unfold compressList
  simp only [compressList_fst]
  generalize 0 = s
  induction ts generalizing s with
  | nil => simp [starts]
  | cons t ts ih =>
    simp only [starts, List.zip_cons_cons, List.map_cons, List.cons.injEq]
    refine ⟨?_, ih _⟩
    simp only [List.map_map, Function.comp_def]
    have := label_snd s t
    calc (label s t).map (fun x => keepCells j x.2)
        = ((label s t).map (·.2)).map (keepCells j) := by simp [List.map_map, Function.comp_def]
      _ = t.map (keepCells j) := by rw [this]

/-- The index column numbers the rows of an Einsum consecutively across its tables:
row `k` of the concatenated tables gets index `k`. -/
theorem compress_index_global (j : String → Bool) (ts : List (Table α)) :
    (compressList j ts).1.flatten.map (·.idx) = List.range ts.flatten.length := by
  unfold compressList
  simp only [compressList_fst]
  rw [List.range_eq_range']
  generalize 0 = s
  induction ts generalizing s with
  | nil => simp [starts]
  | cons t ts ih =>
    simp only [starts, List.zip_cons_cons, List.map_cons, List.flatten_cons, List.map_append,
      List.length_append, ih]
    have : ((label s t).map (fun q => ({ keep := keepCells j q.2, idx := q.1 } : CRow α))).map (·.idx)
        = List.range' s t.length := by
      rw [List.map_map, ← label_fst s t]; rfl
    rw [this, ← List.range'_append_1]

/-- Index assignment is injective across all tables of an Einsum. -/
theorem compress_index_injective (j : String → Bool) (ts : List (Table α)) :
    ((compressList j ts).1.flatten.map (·.idx)).Nodup := by
  rw [compress_index_global]; exact List.nodup_range

/-- Compression never adds or drops rows or tables. -/
theorem compress_shape (j : String → Bool) (ts : List (Table α)) :
    (compressList j ts).1.map List.length = ts.map List.length := by
  have := congrArg (List.map List.length) (compress_keeps_joining j ts)
  simpa [List.map_map, Function.comp_def] using this

/-! ## decompression -/

deriving instance DecidableEq for Except

/-- One Einsum: the reverse walk over the dict built by compression re-attaches to every join row
the kept-aside cells of the row its index names (through `pd.concat`'s NaN-fill conversion). -/
theorem decompress1_compress (conv : α → α) (j : String → Bool) (e : String) (ts : List (Table α))
    (data : List (JRow α)) (hne : data ≠ [])
    (hv : ∀ r ∈ data, ∃ k, r.idx.lookup e = some k ∧ k < ts.flatten.length) :
    decompress1 conv e (compressList j ts).2 data =
      .ok (data.map (fun r =>
        addCells r (fillRow conv (data.map (srcOf j e ts)) (srcOf j e ts r)))) := by
  let kf : JRow α → Nat := fun r => (r.idx.lookup e).getD 0
  have hk : ∀ r ∈ data, r.idx.lookup e = some (kf r) := by
    intro r hr
    obtain ⟨k, h1, _⟩ := hv r hr
    simp [kf, h1]
  have hklt : ∀ r ∈ data, kf r < ts.flatten.length := by
    intro r hr
    obtain ⟨k, h1, h2⟩ := hv r hr
    simpa [kf, h1] using h2
  have hcol := mapM_lookup data (fun r => r.idx.lookup e) kf hk
  obtain ⟨G, hG⟩ : ∃ G, G = ts.flatten.map (asideCells j) := ⟨_, rfl⟩
  have hsrc : ∀ r ∈ data, srcOf j e ts r = G[kf r]?.getD [] := by
    intro r hr
    simp only [srcOf, hk r hr, srcAside, hG, getD_map_aside]
  have hpw := pairwise_descSet (data.map kf)
  have hlt : ∀ i ∈ descSet (data.map kf), i < ts.flatten.length := by
    intro i hi
    rw [mem_descSet] at hi
    obtain ⟨r, hr, rfl⟩ := List.mem_map.mp hi
    exact hklt r hr
  have hwalk := walk_RT G (descSet (data.map kf)) _ _ (hG ▸ RT_compressList j ts) hpw hlt
  unfold decompress1
  rw [hcol]
  simp only [hwalk]
  -- the selection is non-empty
  obtain ⟨r0, hr0⟩ := List.exists_mem_of_ne_nil data hne
  have hmem0 : kf r0 ∈ descSet (data.map kf) := (mem_descSet _ _).mpr (List.mem_map.mpr ⟨r0, hr0, rfl⟩)
  cases his : descSet (data.map kf) with
  | nil => rw [his] at hmem0; simp at hmem0
  | cons i is =>
    simp only [picked, List.map_cons]
    congr 1
    have hp : ((i, G[i]?.getD []) :: is.map (fun i => (i, G[i]?.getD []))) =
        picked G (descSet (data.map kf)) := by rw [his]; rfl
    rw [hp]
    -- the rows that were concatenated are, as a set, the source rows of all join rows
    have hmemrows : ∀ x, x ∈ (picked G (descSet (data.map kf))).map (·.2) ↔
        x ∈ data.map (srcOf j e ts) := by
      intro x
      simp only [picked, List.map_map, List.mem_map, Function.comp]
      constructor
      · rintro ⟨i', hi', rfl⟩
        rw [mem_descSet] at hi'
        obtain ⟨r, hr, rfl⟩ := List.mem_map.mp hi'
        exact ⟨r, hr, hsrc r hr⟩
      · rintro ⟨r, hr, rfl⟩
        exact ⟨kf r, (mem_descSet _ _).mpr (List.mem_map.mpr ⟨r, hr, rfl⟩), (hsrc r hr).symm⟩
    -- the merge
    unfold mergeLeft
    apply flatMap_eq_map
    intro r hr
    have hmem : kf r ∈ descSet (data.map kf) := (mem_descSet _ _).mpr (List.mem_map.mpr ⟨r, hr, rfl⟩)
    simp only [hk r hr, concatFrames_filter, picked_filter G _ hpw (kf r) hmem, List.map_cons,
      List.map_nil]
    rw [fillRow_congr_mem conv _ _ _ hmemrows, hsrc r hr]
    rfl

theorem decompressLoop_compress (conv : α → α) (j : String → Bool)
    (e2p : List (String × List (Table α)))
    (data : List (JRow α)) (hne : data ≠ []) (hv : Valid e2p data) :
    decompressLoop conv (compressAll j e2p).2 data =
      .ok (data.map (fun r => addCells r (e2p.flatMap (fun p =>
        fillRow conv (data.map (srcOf j p.1 p.2)) (srcOf j p.1 p.2 r))))) := by
  induction e2p generalizing data with
  | nil => simp [compressAll, decompressLoop, addCells_nil]
  | cons p e2p ih =>
    have h1 := decompress1_compress conv j p.1 p.2 data hne (fun r hr => hv r hr p (by simp))
    simp only [compressAll, List.map_cons, decompressLoop, h1]
    have hne' : data.map (fun r =>
        addCells r (fillRow conv (data.map (srcOf j p.1 p.2)) (srcOf j p.1 p.2 r))) ≠ [] := by
      simpa using hne
    have hv' : Valid e2p (data.map (fun r =>
        addCells r (fillRow conv (data.map (srcOf j p.1 p.2)) (srcOf j p.1 p.2 r)))) := by
      intro r' hr' q hq
      obtain ⟨r, hr, rfl⟩ := List.mem_map.mp hr'
      exact hv r hr q (by simp [hq])
    have := ih _ hne' hv'
    simp only [compressAll] at this
    rw [this]
    simp only [List.map_map, Function.comp_def, srcOf_addCells, addCells_addCells, List.flatMap_cons]

/-- **What the code computes, exactly.**  For every conversion `conv`, classifier, dict of Einsums
with any lists of tables (empty tables, hence duplicate start indices, included) and every non-empty
join result whose index cells name existing rows (any order, repeats allowed): decompressing over
the compressed tables yields, row for row, the join row's own cells followed by the kept-aside cells
of the source rows it was built from — where the cells of a column that some *other* selected
source row of the same Einsum lacks have gone through `conv`. -/
theorem decompress_compress_conv (conv : α → α) (j : String → Bool)
    (e2p : List (String × List (Table α)))
    (rows : List (JRow α)) (hne : rows ≠ []) (hv : Valid e2p rows) :
    decompress conv (compressAll j e2p).2 rows = .ok (rows.map (convRow conv j e2p rows)) := by
  unfold decompress
  rw [decompressLoop_compress conv j e2p rows hne hv]
  simp [List.map_map, Function.comp_def, convRow, addCells]

/-
Full statement of the property (FALSE for the code as it is, see `decompress_compress_counterexample`):

  theorem decompress_compress (conv) (j) (e2p) (rows) (hne : rows ≠ []) (hv : Valid e2p rows) :
      decompress conv (compressAll j e2p).2 rows = .ok (rows.map (specRow j e2p))

What is missing: pandas' `pd.concat` NaN-fills a column that one of the selected source rows lacks,
and that turns an int64 column into float64; integer cells beyond ±2^53 are rounded.  The proved
theorem below assumes `NoLoss`: the conversion leaves every cell value of the tables unchanged.
-/

/-- **Main theorem (partial: under `NoLoss`).**  Decompressing over the compressed tables yields,
row for row, the join row's own cells followed by exactly the kept-aside (non-joining) cells of the
source rows it was built from — for every classifier, every dict of Einsums, every list of tables
(any row counts including 0, any column sets), every non-empty valid selection. -/
theorem decompress_compress_partial (conv : α → α) (j : String → Bool)
    (e2p : List (String × List (Table α))) (hc : NoLoss conv e2p)
    (rows : List (JRow α)) (hne : rows ≠ []) (hv : Valid e2p rows) :
    decompress conv (compressAll j e2p).2 rows = .ok (rows.map (specRow j e2p)) := by
  rw [decompress_compress_conv conv j e2p rows hne hv]
  congr 1
  apply List.map_congr_left
  intro r _
  unfold convRow specRow
  congr 1
  apply flatMap_congr_mem
  intro p hp
  exact fillRow_id conv _ _ (srcOf_noLoss conv j e2p hc p hp r)

/-- **Witness that the full statement fails for the code as it is** (replayed on the real code by
the harness, corpus/C15/k1-int64-nan-fill-witness.json).  Einsum `A` has two one-row tables; only the
first has the column `A<SEP>action<SEP>MAC<SEP>compute`, with the int64 value 2^53+1.  A join result that
selects both rows gets 2^53 for the first: pandas NaN-fills the column for the second row, which
makes the column float64. -/
theorem decompress_compress_counterexample :
    let e2p : List (String × List (Table Int)) :=
      [("A", [[[("Total<SEP>energy", 1), ("A<SEP>action<SEP>MAC<SEP>compute", 9007199254740993)]],
              [[("Total<SEP>energy", 2)]]])]
    let rows : List (JRow Int) := [⟨[("Total<SEP>energy", 3)], [("A", 0)]⟩, ⟨[("Total<SEP>energy", 4)], [("A", 1)]⟩]
    let j : String → Bool := fun c => c == "Total<SEP>energy"
    rows ≠ [] ∧ (∀ r ∈ rows, ∀ p ∈ e2p, ∃ k, r.idx.lookup p.1 = some k ∧ k < p.2.flatten.length) ∧
    decompress roundF64 (compressAll j e2p).2 rows =
      .ok [[("Total<SEP>energy", 3), ("A<SEP>action<SEP>MAC<SEP>compute", 9007199254740992)], [("Total<SEP>energy", 4)]] ∧
    rows.map (specRow j e2p) =
      [[("Total<SEP>energy", 3), ("A<SEP>action<SEP>MAC<SEP>compute", 9007199254740993)], [("Total<SEP>energy", 4)]] := by
  decide

/-- The conversion is lossless on every integer of magnitude ≤ 2^53, so `NoLoss roundF64` holds for
all tables whose integer cells stay in that range. -/
theorem roundF64_small (i : Int) (h : i.natAbs ≤ 2 ^ 53) : roundF64 i = i := by
  unfold roundF64
  split
  · have h1 : i.toNat ≤ 2 ^ 53 := by omega
    simp only [roundF64Nat, h1, if_true]
    omega
  · have h1 : (-i).toNat ≤ 2 ^ 53 := by omega
    simp only [roundF64Nat, h1, if_true]
    omega

/-- With the identity conversion (all values exactly representable) the property holds with no
further hypothesis. -/
theorem decompress_compress_id (j : String → Bool) (e2p : List (String × List (Table α)))
    (rows : List (JRow α)) (hne : rows ≠ []) (hv : Valid e2p rows) :
    decompress id (compressAll j e2p).2 rows = .ok (rows.map (specRow j e2p)) :=
  decompress_compress_partial id j e2p (fun _ _ _ _ _ _ _ _ => rfl) rows hne hv

/-- Under `Valid` the defaults in `specRow` are never used: the payload of Einsum `p` is the
kept-aside part of an actual row of its tables. -/
theorem payload_is_source_row (j : String → Bool) (e2p : List (String × List (Table α)))
    (rows : List (JRow α)) (hv : Valid e2p rows) (r : JRow α) (hr : r ∈ rows)
    (p : String × List (Table α)) (hp : p ∈ e2p) :
    ∃ k, ∃ h : k < p.2.flatten.length, r.idx.lookup p.1 = some k ∧
      srcOf j p.1 p.2 r = asideCells j (p.2.flatten[k]) := by
  obtain ⟨k, h1, h2⟩ := hv r hr p hp
  exact ⟨k, h2, h1, by simp [srcOf, h1, srcAside, List.getElem?_eq_getElem h2]⟩

/-- Reading the result by column name.  If column `c` occurs neither among the join row's own
cells nor among the kept-aside cells contributed by the Einsums before `p` (true for the real
tables, whose kept-aside columns all start with `<einsum><SEP>`), the result row has in column
`c` exactly what the source row of Einsum `p` has there. -/
theorem decompress_lookup [DecidableEq α] (j : String → Bool)
    (pre : List (String × List (Table α))) (p : String × List (Table α))
    (post : List (String × List (Table α))) (r : JRow α) (c : String)
    (hc : (srcOf j p.1 p.2 r).lookup c ≠ none)
    (h1 : r.cells.lookup c = none) (h2 : (specRow j pre ⟨[], r.idx⟩).lookup c = none) :
    (specRow j (pre ++ p :: post) r).lookup c = (srcOf j p.1 p.2 r).lookup c := by
  have lookup_append : ∀ (l₁ l₂ : Row α), (l₁ ++ l₂).lookup c = (l₁.lookup c).or (l₂.lookup c) := by
    intro l₁ l₂
    induction l₁ with
    | nil => simp
    | cons x xs ih =>
      obtain ⟨a, b⟩ := x
      by_cases h : c = a
      · subst h; simp [List.lookup]
      · have : (c == a) = false := by simpa using h
        simp [List.lookup, this, ih]
  have h2' : (pre.flatMap (fun p => srcOf j p.1 p.2 r)).lookup c = none := by
    simpa [specRow, srcOf] using h2
  simp only [specRow, List.flatMap_append, List.flatMap_cons]
  rw [lookup_append, lookup_append, lookup_append, h1, h2']
  cases h : (srcOf j p.1 p.2 r).lookup c with
  | none => exact absurd h hc
  | some v => simp

/-- The single input class on which `decompress_pmappings` does not return: with at least one
Einsum and a join result without rows, `pd.concat([])` raises.  (`join_pmappings` raises
"No mappings found" before it could hand over such a result.) -/
theorem decompress_empty_selection_raises (conv : α → α) (j : String → Bool)
    (p : String × List (Table α)) (e2p : List (String × List (Table α))) :
    decompress conv (compressAll j (p :: e2p)).2 ([] : List (JRow α)) = .error .noObjects := by
  simp [decompress, compressAll, decompressLoop, decompress1, descSet, walk]

/-! ## which columns are kept aside -/

/-- Every column whose first `<SEP>` part is not a reserved word — in particular all
`<einsum><SEP>action…`, `<einsum><SEP>energy…`, `<einsum><SEP>latency…`, `<einsum><SEP>mapping`
columns — is classified non-joining, so it is kept aside and restored by `decompress_compress`. -/
theorem per_einsum_cols_kept_aside (h : String) (rest : List String)
    (h0 : h.startsWith "n_iterations" = false) (h1 : h ≠ "reservation") (h2 : h ≠ "Total")
    (h3 : h ≠ "fused_loop") (h4 : h ≠ "binding") (h5 : h ≠ "tensor") :
    colUsedInJoining (h :: rest) = some false := by
  have hres : isReservation (h :: rest) = some false := by
    unfold isReservation
    split
    · rename_i heq
      simp only [List.cons.injEq] at heq
      exact absurd heq.1 h1
    · rfl
  simp [colUsedInJoining, h0, hres, h2, h3, h4, h5]

/-! ## non-vacuity -/

/-- joining = objective / reservation / tensor columns, as a toy classifier. -/
def exJoin (c : String) : Bool := c == "Total<SEP>energy" || c == "tensor<SEP>T1"

/-- Einsum A: tables of 2, 0, 0, 1 rows (two duplicate start indices) with different column sets;
Einsum B: an empty first table, then 2 rows, then an empty last table. -/
def exTables : List (String × List (Table Nat)) :=
  [("A", [[[("Total<SEP>energy", 5), ("A<SEP>mapping", 70), ("A<SEP>latency", 1)],
           [("Total<SEP>energy", 6), ("A<SEP>mapping", 71), ("A<SEP>latency", 2)]],
          [], [],
          [[("A<SEP>mapping", 72), ("tensor<SEP>T1", 0), ("A<SEP>energy<SEP>DRAM<SEP>read", 9)]]]),
   ("B", [[], [[("B<SEP>mapping", 80), ("Total<SEP>energy", 1)], [("B<SEP>mapping", 81), ("Total<SEP>energy", 2)]], []])]

/-- A join result with repeats and in non-monotone order. -/
def exRows : List (JRow Nat) :=
  [⟨[("Total<SEP>energy", 7)], [("A", 2), ("B", 1)]⟩,
   ⟨[("Total<SEP>energy", 6)], [("A", 0), ("B", 1)]⟩,
   ⟨[("Total<SEP>energy", 8)], [("B", 0), ("A", 2)]⟩]

example : exRows ≠ [] ∧ Valid exTables exRows := by
  refine ⟨by decide, ?_⟩
  intro r hr p hp
  simp only [exRows, exTables, List.mem_cons, List.not_mem_nil, or_false] at hr hp
  rcases hr with rfl | rfl | rfl <;> rcases hp with rfl | rfl <;> simp [List.lookup]

example : NoLoss roundF64 [("A", [[[("A<SEP>mapping", (70 : Int))], [("A<SEP>mapping", -3)]], [], [[("A<SEP>c", 2 ^ 53)]]])] := by
  intro p hp t ht r hr c hc
  simp only [List.mem_cons, List.not_mem_nil, or_false] at hp
  subst hp
  simp only [List.mem_cons, List.not_mem_nil, or_false] at ht
  rcases ht with rfl | rfl | rfl <;> simp at hr <;> (try rcases hr with rfl | rfl) <;> simp at hc <;> subst hc <;> decide
example : (compressList exJoin (exTables[0]!).2).2.map (·.1) = [0, 2] := by decide
example : decompress id (compressAll exJoin exTables).2 exRows = .ok
    [[("Total<SEP>energy", 7), ("A<SEP>mapping", 72), ("A<SEP>energy<SEP>DRAM<SEP>read", 9), ("B<SEP>mapping", 81)],
     [("Total<SEP>energy", 6), ("A<SEP>mapping", 70), ("A<SEP>latency", 1), ("B<SEP>mapping", 81)],
     [("Total<SEP>energy", 8), ("A<SEP>mapping", 72), ("A<SEP>energy<SEP>DRAM<SEP>read", 9), ("B<SEP>mapping", 80)]] := by
  decide
example : colUsedInJoining ["Matmul0", "mapping"] = some false := by decide
example : colUsedInJoining ["reservation", "GlobalBuffer", "0", "left"] = some true := by decide

end AFV.C15
