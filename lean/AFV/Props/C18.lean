import AFV.Lemmas.SearchExamples
/-!
# C18 — relaxing the mapspace never makes the optimum worse (abstract part)

A *relaxation* is any map under which every valid mapping stays valid with a cost that is not larger
(for all the relaxations of the property: the same mapping, the same cost). `none` is "no valid mapping"
and counts as `+∞` (`optLe`).  For the abstract mapper the relaxations of the property are of two kinds:
a larger capacity (larger memory, lower `min_usage` is a weaker validity test) and more pmappings per
Einsum (larger `may_keep`, smaller `keep`, fewer loop-bound constraints, higher fused-loop limit,
imperfect factorisation: each only *adds* rows to the per-Einsum tables — that inclusion for the real
generators is what the C18 harness and C10 establish).
-/
namespace AFV.C18
open AFV.Front AFV.Search

variable {K : Type} [DecidableEq K]

/-- **`relax_mono`.** `M ⊆ M' → best M' ≤ best M`. -/
theorem relax_mono {α : Type} (cost : α → Int) {M M' : List α} (h : ∀ x ∈ M, x ∈ M') :
    optLe (minOf cost M') (minOf cost M) := AFV.Search.relax_mono cost h

/-- Relaxation as a map: every valid mapping of the original space is sent to a valid mapping of the
relaxed space that costs no more. -/
theorem relax_map {α β : Type} (ι : α → β) (valid : α → Bool) (valid' : β → Bool)
    (cost : α → Int) (cost' : β → Int) (M : List α) (M' : List β)
    (hι : ∀ x ∈ M, valid x = true → ι x ∈ M' ∧ valid' (ι x) = true ∧ cost' (ι x) ≤ cost x) :
    optLe (minOf cost' (M'.filter valid')) (minOf cost (M.filter valid)) :=
  AFV.Search.relax_map ι valid valid' cost cost' M M' hι

/-- Weakening the validity test on a fixed mapspace (larger memory, lower `min_usage`, fewer
constraints). -/
theorem relax_validity {α : Type} (valid valid' : α → Bool) (cost : α → Int) (M : List α)
    (h : ∀ x ∈ M, valid x = true → valid' x = true) :
    optLe (minOf cost (M.filter valid')) (minOf cost (M.filter valid)) :=
  relax_map id valid valid' cost cost M M (fun x hx hv => ⟨hx, h x hx hv, Int.le_refl _⟩)

/-- Mapspace inclusion for the abstract mapper. -/
theorem validCombos_relax {ops : Ops K} {cap cap' : Int} (hcap : cap ≤ cap')
    {tables tables' : List (List (Cand K))} (hsub : SubTables tables tables') {s : Cand K}
    (h : s ∈ validCombos ops cap tables) : s ∈ validCombos ops cap' tables' :=
  AFV.Search.validCombos_relax hcap hsub h

/-- The optimum *found by the pipeline* never gets worse under a relaxation (larger capacity and/or
more rows in any per-Einsum table). -/
theorem ffm_relax_mono {ops : Ops K} (hr : RMono ops) (hc : CapClosed ops) {cap cap' : Int}
    (hcap : cap ≤ cap') {w : Vec} (hw : ∀ u ∈ w, 0 ≤ u)
    {tables tables' : List (List (Cand K))} (hsub : SubTables tables tables') :
    optLe (best w (ffm ops cap' tables')) (best w (ffm ops cap tables)) :=
  AFV.Search.ffm_relax_mono hr hc hcap hw hsub

/-! ## Non-vacuity -/

-- a larger capacity strictly improves the optimum in the example of C13, and from "no mapping" to some
example : best [1, 1] (ffm opsChain 10 exTables) = some 13 ∧
    best [1, 1] (ffm opsChain 12 exTables) = some 6 ∧
    best [1, 1] (ffm opsChain 5 exTables) = none := by decide
example : optLe (some 6) (some 13) ∧ optLe (some 13) none ∧ ¬ optLe none (some 13) := by
  simp [optLe]
-- dropping a row from a table is an instance of `SubTables`
example : SubTables [[(⟨1, [5], [3]⟩ : Cand Nat)], [⟨13, [2], [3]⟩]]
    [[⟨1, [5], [3]⟩, ⟨1, [4], [2]⟩], [⟨13, [2], [3]⟩]] := by
  refine ⟨?_, ?_, trivial⟩ <;> intro x hx <;> simp_all

end AFV.C18
