import AFV.Lemmas.NestHom10
import AFV.Lemmas.LExprSound
/-!
# C07 — symbolic cost formulas agree with concrete evaluation at every tile assignment

`analytic` (the proved model of `evaluate_mapping` / `run_model`, C05) is ONE function, generic in its number type.
`analytic_hom`: it commutes with every homomorphism of the number type (a "free theorem", proved by going through
every function it is made of: tracker, per-tensor analysis, `repeat_temporal`, `holderCounts`, assembly).
`eval_hom`: evaluating symbolic expressions (`LExpr.eval ρ`) is such a homomorphism.  Hence
`symbolic_eq_concrete`: evaluating the symbolic result of a template (`analyticPoly`) at ANY assignment σ of its tile-shape
symbols gives exactly `analytic` over the rationals on the mapping instantiated with σ — every action count, energy,
latency, usage and reservation formula at once.  Together with C05 (`analytic = exec` on well-formed mappings) this is
the statement of C07 for the model; the tie to the Python is the translator (exported formulas ≡ `analyticPoly`, checked
by the Lean kernel through `LExpr.equiv`) and the numeric correspondence.
-/
namespace AFV.C07
open AFV AFV.Nest

/-- **`analytic` commutes with every homomorphism of its number type.** -/
theorem analytic_hom {α β : Type}
    [Add α] [Mul α] [Div α] [Max α] [Sub α] [OfNat α 0] [OfNat α 1]
    [Add β] [Mul β] [Div β] [Max β] [Sub β] [OfNat β 0] [OfNat β 1]
    (f : α → β) (hf : IsHom f) (arch : Arch α) (w : Workload α) (m : Mapping α) :
    analytic (arch.map f) (w.map f) (m.map (Node.map f)) = (analytic arch w m).map (Result.map f) := by
  have hlen : (w.map f).tensors.length = w.tensors.length := by simp [Workload.map]
  simp only [analytic, splitHolders_map, insertReservations_map, allBuffets_map hf, hlen]
  cases allBuffets arch w (insertReservations w (splitHolders m)) 0 w.tensors.length with
  | none => rfl
  | some bs => simp only [Option.map_some, assemble_map hf]

/-- Evaluation of symbolic expressions preserves the operations of the cost model. -/
theorem eval_hom (ρ : Nat → Rat) : IsHom (LExpr.eval ρ) := by
  constructor
  · intro a b; show LExpr.eval ρ (.add [a, b]) = _; simp [LExpr.eval, LExpr.evalList, LExpr.sumQ]
  · intro a b; show LExpr.eval ρ (.mul [a, b]) = _; simp [LExpr.eval, LExpr.evalList, LExpr.prodQ]
  · intro a b; show LExpr.eval ρ (.mul [a, .pow b (-1)]) = _
    simp [LExpr.eval, LExpr.evalList, LExpr.prodQ, LExpr.zpow_eq, div_eq_mul_inv]
  · intro a b; show LExpr.eval ρ (.max [a, b]) = _
    simp only [LExpr.eval, LExpr.evalList, LExpr.maxQ, LExpr.rmax]; rfl
  · intro a b; show LExpr.eval ρ (.add [a, .mul [.num (-1), b]]) = _
    simp [LExpr.eval, LExpr.evalList, LExpr.sumQ, LExpr.prodQ]; ring
  · show LExpr.eval ρ (.num ((0 : Nat) : Rat)) = 0; simp [LExpr.eval]
  · show LExpr.eval ρ (.num ((1 : Nat) : Rat)) = 1; simp [LExpr.eval]

theorem pairs_roundtrip (σ : Nat → Rat) (l : List (Nat × Rat)) : mapPairs (LExpr.eval σ) (mapPairs LExpr.num l) = l := by
  simp [mapPairs, List.map_map, Function.comp_def, LExpr.eval]

theorem act_roundtrip (σ : Nat → Rat) (a : Act Rat) : (a.map LExpr.num).map (LExpr.eval σ) = a := by
  cases a; simp [Act.map, pairs_roundtrip, LExpr.eval, Option.map_map, Function.comp_def]

theorem level_roundtrip (σ : Nat → Rat) (lv : Level Rat) : (lv.map LExpr.num).map (LExpr.eval σ) = lv := by
  cases lv; simp [Level.map, pairs_roundtrip, act_roundtrip, LExpr.eval, Option.map_map, Function.comp_def]

theorem arch_roundtrip (σ : Nat → Rat) (arch : Arch Rat) : (arch.map LExpr.num).map (LExpr.eval σ) = arch := by
  obtain ⟨levels, c⟩ := arch
  cases c
  simp [Arch.map, ComputeLevel.map, List.map_map, Function.comp_def, level_roundtrip, LExpr.eval]

theorem workload_roundtrip (σ : Nat → Rat) (w : Workload Rat) : (w.map LExpr.num).map (LExpr.eval σ) = w := by
  obtain ⟨b, ts, ni⟩ := w
  simp only [Workload.map, List.map_map, Function.comp_def, LExpr.eval, List.map_id', TensorSpec.map]

theorem template_inst (σ : Nat → Rat) (tpl : List TNode) :
    (tpl.map TNode.toPoly).map (Node.map (LExpr.eval σ)) = tpl.map (TNode.inst σ) := by
  rw [List.map_map]
  apply List.map_congr_left
  intro n _
  cases n <;> simp [Function.comp, TNode.toPoly, TNode.inst, Node.map, LExpr.eval]

/-- **C07 for the model.** For every template and EVERY assignment σ of its tile-shape symbols, evaluating the symbolic
result at σ is the concrete model's result on the mapping instantiated with σ (all formulas at once; `none` ↔ `none`). -/
theorem symbolic_eq_concrete (arch : Arch Rat) (w : Workload Rat) (tpl : List TNode) (σ : Nat → Rat) :
    (analyticPoly arch w tpl).map (Result.map (LExpr.eval σ)) = analytic arch w (tpl.map (TNode.inst σ)) := by
  have h := analytic_hom (LExpr.eval σ) (eval_hom σ) (arch.map LExpr.num) (w.map LExpr.num) (tpl.map TNode.toPoly)
  rw [arch_roundtrip, workload_roundtrip, template_inst] at h
  exact h.symm

/-- If an exported formula is `LExpr.equiv` to the model's formula, the two agree at every assignment of nonzero
values to the symbols (tile shapes are positive) — the step from the kernel-checked generated obligations to values. -/
theorem exported_formula_sound (gen ref : LExpr) (h : LExpr.equiv gen ref = true) (σ : Nat → Rat) (hσ : ∀ i, σ i ≠ 0) :
    LExpr.eval σ gen = LExpr.eval σ ref := LExpr.equiv_sound h σ hσ

/-- Non-vacuity: a matmul template with two symbolic tile shapes. -/
def exTemplate : List TNode :=
  [.storage 0 [0, 1, 2] true, .loopS 0 0, .storage 1 [0, 2] true, .loopS 1 1, .storage 1 [1] true,
   .loopC 2 1, .loopC 0 1, .loopC 1 1, .compute]

end AFV.C07
