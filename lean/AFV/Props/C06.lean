import AFV.Spec.FusedPeak
import AFV.Lemmas.NestUsage
import AFV.Lemmas.PeakLeaf3
import AFV.Spec.PeakSingle
import AFV.Lemmas.NestScale2
import AFV.Lemmas.PeakAnalytic
/-!
# C06 — reported memory usage equals the execution-time peak occupancy  (single Einsum: PROVED; fused trees: PARTIAL)

The reference is `FusedPeak.peak` (explicit timeline over the execution of a mapping tree, `AFV/Spec/FusedPeak.lean`).

Proved here
* **single Einsum (`peak_single`)**: for every well-formed Toll-free nest with non-negative bit widths, the bits that `analytic`
  (the model of run_model's reservation accounting, tied to the code by C05) reports for a memory equal the reference peak of that
  memory for the one-leaf tree.  Three steps, each a theorem for all inputs:
  - `tracker_allocation_points`: the tracker state machine of `insert_reservation_nodes` allocates the first holder of a tensor where
    it stands and every other holder below the run of loops indexing the tensor that follows it — exactly the reference's allocation
    points (`PeakSingle.resBits_insert`, `tracker_alloc`);
  - `peak_single_timeline`: the loops above an allocation point are the outermost loops of the nest, so the uses of one residency
    are contiguous in execution order (`uses_contiguous`: mixed-radix counting), hence at every instant exactly one residency of
    every buffer is live and the peak is the sum of the buffer sizes (`Nest.live_iff`, `Nest.occupancy_eq`);
  - `memBits_eq_reservations`: the per-tensor analysis records in each buffet the size at its Reservation node and nothing else
    changes it; run_model adds them up per memory.
  `peak_single_check` is the same statement for the decidable instance the driver evaluates (`PeakSingleStatement`).
* about the reference for trees: a residency is live at every instant of its cover (`live_at_cover`, `live_between`); persistent
  residencies are live at every instant (`persistent_live_throughout`); the peak dominates the occupancy of every instant
  (`peak_ge_instant`) and is non-negative (`peak_nonneg`); `fits` / `not_fits_iff` is the validity predicate;
* `oversubscription_rejected`: the verdict of the single-Einsum model is exactly "some memory's reserved bits exceed its size".

NOT proved (covered by the correspondence with `evaluate_mapping` only)
* `merge_peak : usage computed by merge_next / free_to_loop_index / adjust_reservations = peak tree` for fused trees of several
  Einsums — there is no Lean model of the joiner's reservation algebra; every run compares `evaluate_mapping` with `peak` on generated
  and mapper-returned fused mappings;
* Tolls in the single-Einsum statement (they hold no data; `FusedPeak` has no Toll nodes).
-/
namespace AFV.C06
open AFV.FusedPeak

/-- A residency is live at every instant that forces it to be allocated (its uses and the shared-loop executions it spans). -/
theorem live_at_cover (cov : List Nat) (ti : Nat) (h : ti ∈ cov) : liveAt cov ti = true := by
  simp only [liveAt, Bool.and_eq_true, List.any_eq_true, decide_eq_true_eq]
  exact ⟨⟨ti, h, Nat.le_refl _⟩, ⟨ti, h, Nat.le_refl _⟩⟩

/-- Liveness is an interval: between two instants of the cover the residency stays allocated. -/
theorem live_between (cov : List Nat) (a b ti : Nat) (ha : a ∈ cov) (hb : b ∈ cov) (h1 : a ≤ ti) (h2 : ti ≤ b) :
    liveAt cov ti = true := by
  simp only [liveAt, Bool.and_eq_true, List.any_eq_true, decide_eq_true_eq]
  exact ⟨⟨a, ha, h1⟩, ⟨b, hb, h2⟩⟩

/-- A persistent residency is live at every instant of the execution. -/
theorem persistent_live_throughout (ds : List (List Desc)) (evs : List Event) (r : Res) (hp : r.d.persistent = true)
    (ti : Nat) (hti : ti < evs.length) : liveAt (cover ds evs r) ti = true := by
  apply live_at_cover
  simp only [cover, hp, if_true]
  exact List.mem_range.2 hti

theorem ratMaxL_ge_aux (l : List Rat) (x : Rat) :
    x ≤ l.foldl (fun a b => if a ≤ b then b else a) x ∧ ∀ y ∈ l, y ≤ l.foldl (fun a b => if a ≤ b then b else a) x := by
  induction l generalizing x with
  | nil => exact ⟨Rat.le_refl, fun y hy => by simp at hy⟩
  | cons z zs ih =>
    simp only [List.foldl_cons]
    obtain ⟨h1, h2⟩ := ih (if x ≤ z then z else x)
    have hx : x ≤ (if x ≤ z then z else x) := by split <;> [assumption; exact Rat.le_refl]
    have hz : z ≤ (if x ≤ z then z else x) := by
      split
      · exact Rat.le_refl
      · rename_i h; exact Rat.le_of_lt (Rat.not_le.1 h)
    refine ⟨Rat.le_trans hx h1, fun y hy => ?_⟩
    rcases List.mem_cons.1 hy with h | h
    · subst h; exact Rat.le_trans hz h1
    · exact h2 y h

/-- The peak dominates the occupancy of every instant, and is non-negative. -/
theorem peak_ge_instant (l : List Rat) (y : Rat) (hy : y ∈ l) : y ≤ ratMaxL l := (ratMaxL_ge_aux l 0).2 y hy

theorem peak_nonneg (w : Workload) (tree : Tree) (lvl : Lvl) : 0 ≤ peak w tree lvl := (ratMaxL_ge_aux _ 0).1

/-- Validity of a mapping tree: the peak of every memory fits its size. -/
def fits (w : Workload) (tree : Tree) (sizes : List Rat) : Bool :=
  (List.range sizes.length).all (fun l => decide (peak w tree l ≤ sizes.getD l 0))

/-- A mapping that does not fit has a memory whose peak exceeds its size (what `InvalidMappingError` reports). -/
theorem not_fits_iff (w : Workload) (tree : Tree) (sizes : List Rat) :
    fits w tree sizes = false ↔ ∃ l, l < sizes.length ∧ sizes.getD l 0 < peak w tree l := by
  simp only [fits, List.all_eq_false, List.mem_range, decide_eq_true_eq, Rat.not_le]

open AFV.Nest in
/-- **Oversubscription in the single-Einsum model**: the verdict is exactly "the total reservation of some memory exceeds its
size" (run_model's `running_total > size ⇒ InvalidMappingError`). -/
theorem oversubscription_rejected (arch : Arch Rat) (r : Result Rat) :
    r.oversubscribed arch = true ↔ ∃ x ∈ r.memBits, (arch.levels.getD x.1 Level.dflt).size < x.2 := by
  simp only [Result.oversubscribed, List.any_eq_true, decide_eq_true_eq]

/-- **Single Einsum: peak = sum of the buffer sizes at their allocation points** (for every nest satisfying the decidable side
conditions `leafOK`: distinct ids, non-empty loops, persistent holders above the loops, non-negative sizes). -/
theorem peak_single_timeline (w : Workload) (pre : List PNode) (e : Nat) (lvl : Lvl) (h : leafOK w pre e = true) :
    peak w (.leaf pre e) lvl = Nest.allocSum (descsOf w (.leaf pre e) e) lvl := peak_leaf w pre e lvl h

/-- Contiguity of the uses of a residency (the key step), restated. -/
theorem uses_contiguous (pre : List PNode) (A : List NodeId) (shape : List Nat) (env : Env) (i j k : Nat)
    (hA : A <+: loopIds pre) (hnd : (loopIds pre).Nodup) (hij : i ≤ j) (hjk : j ≤ k) (hk : k < count pre shape)
    (h : proj A (ctxAt pre shape env i) = proj A (ctxAt pre shape env k)) :
    proj A (ctxAt pre shape env j) = proj A (ctxAt pre shape env i) :=
  proj_convex pre A shape env i j k hA hnd hij hjk hk h

/-- Non-vacuity of `peak_single_timeline`: the side conditions hold for a nest with lowered and non-lowered buffers, a
persistent backing store and a two-tensor holder; its peak is 4·8·2 + 4·8 + 4·8 = 128 bits in level 0 and 8 + 16 + 8 = 32 bits in level 1. -/
example :
    let w : Workload := { bounds := [2, 2, 2, 2], einsums := [[0, 3, 1], [1, 4, 2]],
                          tensorRvs := [[0, 1], [0, 2], [0, 3], [1, 2], [2, 3]], bits := [[8, 8, 8, 8, 8], [8, 8, 8, 8, 8]], nInstances := 2 }
    let pre : List PNode := [.storage 1 0 [0] true, .storage 2 0 [1, 3] false, .loop 3 0 1, .storage 4 1 [0] false, .loop 5 1 1,
                             .storage 6 1 [3, 1] false, .loop 7 2 1]
    leafOK w pre 0 = true ∧ peak w (.leaf pre 0) 0 = 128 ∧ peak w (.leaf pre 0) 1 = 32 := by decide +kernel

section Statement
open AFV.Nest AFV.NestExec AFV.PeakSingle

/-- bit widths are non-negative (hypothesis of `peak_single`; sizes must not be negative for a maximum to be a sum) -/
def BitsNonneg (arch : Arch Rat) (wq : Workload Rat) (wn : Workload Nat) : Prop :=
  ∀ l t, 0 ≤ ((toWorkload arch wq wn).bits.getD l []).getD t 0

theorem bitsNonneg_of_all (arch : Arch Rat) (wq : Workload Rat) (wn : Workload Nat)
    (h : ((toWorkload arch wq wn).bits.all (fun row => row.all (fun b => decide (0 ≤ b)))) = true) : BitsNonneg arch wq wn := by
  intro l t
  simp only [List.all_eq_true, decide_eq_true_eq] at h
  simp only [List.getD]
  cases hl : (toWorkload arch wq wn).bits[l]? with
  | none => simp
  | some row =>
    simp only [Option.getD_some]
    cases ht : row[t]? with
    | none => simp
    | some b => simp only [Option.getD_some]; exact h row (List.mem_of_getElem? hl) b (List.mem_of_getElem? ht)

/-- **C06 for one Einsum.** For every well-formed Toll-free nest the bits reported for every memory (the model of run_model's
reservation accounting) equal the execution-time peak of the reference timeline. -/
theorem peak_single (arch : Arch Rat) (wq : Workload Rat) (wn : Workload Nat) (m : Mapping Nat)
    (hwf : WF arch wn m = true) (hc : Compat wq wn) (hnt : noToll m = true) (hb : BitsNonneg arch wq wn) :
    ∃ r, analytic arch wq (castMapping m) = some r ∧
      ∀ x ∈ r.memBits, x.2 = peak (toWorkload arch wq wn) (.leaf (toPre 1 m) 0) x.1 :=
  AFV.PeakSingle.peak_single arch wq wn m hwf hc hnt hb

/-- Step 1: the Reservation nodes that the tracker state machine creates for a memory add up to the sum of the reference's buffer
sizes at its allocation points. -/
theorem tracker_allocation_points (arch : Arch Rat) (wq : Workload Rat) (wn : Workload Nat) (m : Mapping Nat) (l : Nat)
    (hM : M2 wn.tensors.length m) :
    resBits (szOf (toWorkload arch wq wn)) l wn.bounds (insertReservations wn (splitHolders m))
      = Nest.allocSum (descsOf (toWorkload arch wq wn) (.leaf (toPre 1 m) 0) 0) l :=
  tracker_alloc arch wq wn m l hM

/-- Step 3: the bits `analytic` reports for a memory are the sizes of the Reservation nodes of that memory. -/
theorem memBits_eq_reservations (arch : Arch Rat) (wq : Workload Rat) (wn : Workload Nat) (m : Mapping Nat)
    (hc : Compat wq wn) (hnt : noToll m = true) (r : Result Rat) (hr : analytic arch wq (castMapping m) = some r) :
    ∀ x ∈ r.memBits,
      x.2 = resBits (restrict 0 wn.tensors.length (szOf (toWorkload arch wq wn))) x.1 wn.bounds
              (insertReservations wn (splitHolders m)) :=
  AFV.PeakSingle.memBits_eq_reservations arch wq wn m hc hnt r hr

/-- The statement in the decidable form the driver evaluates on generated nests (`{"op":"peaksingle"}`). -/
def PeakSingleStatement : Prop :=
  ∀ (arch : Arch Rat) (wq : Workload Rat) (wn : Workload Nat) (m : Mapping Nat),
    WF arch wn m = true → Compat wq wn → noToll m = true → BitsNonneg arch wq wn → peakSingleCheck arch wq wn m = true

theorem peak_single_check : PeakSingleStatement := by
  intro arch wq wn m hwf hc hnt hb
  obtain ⟨r, hr, h⟩ := peak_single arch wq wn m hwf hc hnt hb
  simp only [peakSingleCheck, hr, List.all_eq_true, decide_eq_true_eq]
  exact h

def exArch2 : Arch Rat :=
  let act : Act Rat := { energy := 1, throughput := 1, bpa := none, vpa := [] }
  let mem (s : Rat) : Level Rat := { isToll := false, size := s, leak := 0, actionsScale := 1, skipInitial := true, bpvOv := [],
                                      bpa := none, vpa := [], read := act, write := act, dir := [] }
  { levels := [mem 4096, mem 256], compute := { energy := 1, throughput := 1, leak := 0, actionsScale := 1, skipInitial := true } }
def exWn2 : Workload Nat :=
  { bounds := [4, 6, 2], nInstances := 1,
    tensors := [{ rvs := [0, 1], isOutput := false, bpv := 1 }, { rvs := [1, 2], isOutput := false, bpv := 1 },
                { rvs := [0, 2], isOutput := true, bpv := 1 }] }
def exWq2 : Workload Rat :=
  { bounds := [4, 6, 2], nInstances := 1,
    tensors := [{ rvs := [0, 1], isOutput := false, bpv := 8 }, { rvs := [1, 2], isOutput := false, bpv := 8 },
                { rvs := [0, 2], isOutput := true, bpv := 8 }] }
def exMap2 : Mapping Nat :=
  [.storage 0 [0, 1, 2] true, .loop 0 2, .storage 1 [0, 2] true, .loop 1 1, .storage 1 [1] true, .loop 2 1, .loop 0 1, .compute]

/-- non-vacuity: the hypotheses of `peak_single` hold for a concrete nest (and so does its conclusion, by the theorem) -/
example : WF exArch2 exWn2 exMap2 = true ∧ noToll exMap2 = true := by decide +kernel

theorem exCompat2 : Compat exWq2 exWn2 := by
  refine ⟨by simp [exWq2, exWn2], rfl, ?_, ?_⟩ <;> intro t <;>
    (match t with
     | 0 => rfl
     | 1 => rfl
     | 2 => rfl
     | (n + 3) => rfl)

example : peakSingleCheck exArch2 exWq2 exWn2 exMap2 = true :=
  peak_single_check exArch2 exWq2 exWn2 exMap2 (by decide +kernel) exCompat2 (by decide +kernel)
    (bitsNonneg_of_all _ _ _ (by decide +kernel))

end Statement

/-- Non-vacuity: a two-Einsum tree with a shared loop; the reference evaluates. -/
example :
    let w : Workload := { bounds := [2, 2, 2, 2], einsums := [[0, 3, 1], [1, 4, 2]],
                          tensorRvs := [[0, 1], [0, 2], [0, 3], [1, 2], [2, 3]], bits := [[8, 8, 8, 8, 8], [8, 8, 8, 8, 8]], nInstances := 1 }
    let t : Tree := .seq [.storage 1 0 [0, 2, 3, 4] false, .loop 2 0 1, .storage 3 1 [1] false]
      [.leaf [.storage 4 1 [0] false, .loop 5 1 1, .loop 6 2 1] 0, .leaf [.storage 7 1 [4] false, .loop 8 2 1, .loop 9 3 1] 1]
    peak w t 1 = 24 ∧ peak w t 0 = 128 := by decide +kernel

end AFV.C06
