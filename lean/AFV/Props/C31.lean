import AFV.Lemmas.NestCosts2
import AFV.Model.NestValid
/-!
# C31 — Toll components pass data through without storing it

About the model `analytic` (what `analyze_toll` / `run_model` compute) AND about the reference execution `exec`:
a Toll never contributes occupancy or write actions; it is charged one read per value crossing it in its configured
direction(s) (scaled by values per action) and nothing in the other direction; `tollOutermost` is the validity
predicate of `run_model` ("Toll is the outermost level holding a fusable tensor" ⇒ ValueError) and is never
triggered by a mapping in which every tensor is backed by a Memory.
-/
namespace AFV.C31
open AFV.Nest AFV.NestExec

/-! ## The model, one Toll node -/

/-- `analyze_toll`: occupancy 0, and the write statistics of the buffet are left untouched (they stay 0). -/
theorem toll_no_occupancy_no_writes (lv : Level Rat) (t : TId) (ts : TensorSpec Rat) (hp : Bool) (shape : List Rat)
    (stats : Stats Rat) (child : Option (Stats Rat)) :
    (holderStats lv t ts true hp shape stats child).maxOccupancy = 0 ∧
    (holderStats lv t ts true hp shape stats child).c.writeActions = stats.c.writeActions ∧
    (holderStats lv t ts true hp shape stats child).c.skWriteActions = stats.c.skWriteActions := by
  refine ⟨rfl, ?_, ?_⟩ <;> cases child <;> simp [holderStats, holderCounts] <;> split <;> simp

/-- Reads of a Toll node in the model: the values sent up through it (if its direction is not `down`) plus the values
its child requests (if its direction is not `up`), each divided by values per action; both totals pass through
unchanged. -/
theorem toll_reads_eq_crossings (lv : Level Rat) (t : TId) (ts : TensorSpec Rat) (shape : List Rat) (ch : Counts Rat) :
    (holderCounts lv t ts true true shape Counts.zero (some ch)).readsToParent = ch.readsToParent ∧
    (holderCounts lv t ts true true shape Counts.zero (some ch)).writesToParent
      = (if ts.isOutput then ch.writesToParent else 0) ∧
    (holderCounts lv t ts true true shape Counts.zero (some ch)).readActions
      = (if dirOf lv t != Dir.down then
           (if ts.isOutput then ch.writesToParent else 0) * (1 / valuesPerAction lv lv.read t ts.bpv) else 0)
        + (if dirOf lv t != Dir.up then ch.readsToParent * (1 / valuesPerAction lv lv.read t ts.bpv) else 0) := by
  cases h : dirOf lv t <;> cases ho : ts.isOutput <;> simp [holderCounts, Counts.zero, h, ho]

/-- Nothing is charged for the direction the Toll is not configured for. -/
theorem toll_zero_other_direction (lv : Level Rat) (t : TId) (ts : TensorSpec Rat) (shape : List Rat) (ch : Counts Rat) :
    (dirOf lv t = Dir.up → (holderCounts lv t ts true true shape Counts.zero (some ch)).readActions
        = (if ts.isOutput then ch.writesToParent else 0) * (1 / valuesPerAction lv lv.read t ts.bpv)) ∧
    (dirOf lv t = Dir.down → (holderCounts lv t ts true true shape Counts.zero (some ch)).readActions
        = ch.readsToParent * (1 / valuesPerAction lv lv.read t ts.bpv)) := by
  constructor <;> intro h <;> cases ho : ts.isOutput <;> simp [holderCounts, Counts.zero, h, ho]

/-! ## The reference execution: transfers through a chain of holders -/

/-- Values travelling down: every Toll on the way (before the serving Memory) counts exactly the values that are really
fetched, once, as reads, if its direction is not `up`, and nothing otherwise; `attrT`/`attrK` spell this out. -/
theorem exec_down_crossings (cskip : Bool) (total fresh : Nat) (hle : fresh ≤ total) (chain : List Hold) (l : Lvl) (rw : Bool) :
    countEv (serveDown cskip total fresh chain) l rw + attrK chain (if cskip then fresh else 0) l rw
      = attrT chain total 0 l rw := countEv_serveDown cskip total fresh hle chain l rw

/-- Values travelling up: every Toll on the way counts them once, as reads, if its direction is not `down`. -/
theorem exec_up_crossings (total : Nat) (chain : List Hold) (l : Lvl) (rw : Bool) :
    countEv (serveUp total chain) l rw = attrT chain 0 total l rw := countEv_serveUp total chain l rw

/-- A Toll at the head of the chain: reads = crossings in its direction(s), never a write. -/
theorem exec_toll_head (h : Hold) (r : List Hold) (R W : Nat) (htoll : h.isToll = true) (hfresh : ∀ h' ∈ r, h'.lvl ≠ h.lvl) :
    attrT (h :: r) R W h.lvl false = (if h.dir != Dir.up then R else 0) + (if h.dir != Dir.down then W else 0) ∧
    attrT (h :: r) R W h.lvl true = 0 := by
  have hz : ∀ rw, attrT r R W h.lvl rw = 0 := by
    intro rw
    induction r with
    | nil => rfl
    | cons x xs ih =>
      have hx : x.lvl ≠ h.lvl := hfresh x (List.mem_cons_self ..)
      have := ih (fun h' hh => hfresh h' (List.mem_cons_of_mem _ hh))
      simp only [attrT, this, hx, if_false]
      split <;> simp
  simp [attrT, htoll, hz]

/-! ## The whole model and the whole execution -/

/-- In the execution of a well-formed mapping no value is ever written to a Toll. -/
theorem exec_toll_never_written (arch : Arch Rat) (wn : Workload Nat) (m : Mapping Nat) (hwf : WF arch wn m = true)
    (t : TId) (ht : t < wn.tensors.length) (l : Lvl) (hl : l ∈ holderLevels t m)
    (htoll : (arch.levels.getD l Level.dflt).isToll = true) :
    (valueCounts arch wn m t l).2 = 0 := by
  have hf := wf_facts arch wn m hwf
  have hwfT := wfT_of_wf arch wn.tensors.length (tinfo arch wn t) m false wn.bounds hf.bounds hf.loops hf.nodes
    (Or.inr (hf.backed t ht))
  have hkeys := keys_simpleN arch (tinfo arch wn t) m false false wn.bounds hwfT
  have hk : BKey.mem l ∈ (simpleN arch (tinfo arch wn t) false wn.bounds m).map (·.1) := by
    rw [hkeys]; exact List.mem_append_left _ (List.mem_map.2 ⟨l, hl, rfl⟩)
  obtain ⟨⟨k, cn⟩, hmem, hk'⟩ := List.mem_map.1 hk
  simp only at hk'; subst hk'
  obtain ⟨_, h2⟩ := trace_counts arch wn m hf t ht l cn hmem
  obtain ⟨z1, z2⟩ := simpleN_toll_write arch (tinfo arch wn t) m false false wn.bounds hwfT _ hmem l rfl htoll
  have z1' : cn.writeActions = 0 := z1
  simp only [valueCounts]
  omega

/-- In the model's result for a well-formed mapping every `write` action count of a Toll is 0, and Tolls have no
occupancy / usage rows. -/
theorem toll_rows (arch : Arch Rat) (wq : Workload Rat) (wn : Workload Nat) (m : Mapping Nat)
    (hwf : WF arch wn m = true) (hc : Compat wq wn) :
    ∃ r, analytic arch wq (castMapping m) = some r ∧
      (∀ x ∈ r.actions, (arch.levels.getD x.1 Level.dflt).isToll = true → x.2.2.2 = 0) ∧
      (∀ x ∈ r.occupancy, (arch.levels.getD x.1 Level.dflt).isToll = false) ∧
      (∀ x ∈ r.usage, (arch.levels.getD x.1 Level.dflt).isToll = false) := by
  have hf := wf_facts arch wn m hwf
  obtain ⟨bs, h1, h2⟩ := allBuffets_spec arch wq wn m hf hc wn.tensors.length 0 (by omega)
  refine ⟨assemble arch wq (splitHolders (castMapping m)) bs, by simp only [analytic, hc.len, h1], ?_, ?_, ?_⟩
  · have hact : (assemble arch wq (splitHolders (castMapping m)) bs).actions
        = (rowsE arch wq wn m 0 wn.tensors.length).map (scaleNi wq.nInstances) := by
      rw [← h2]; simp only [assemble, List.map_map]; apply List.map_congr_left; intro b _; rfl
    rw [hact]
    intro x hx htoll
    obtain ⟨y, hy, rfl⟩ := List.mem_map.1 hx
    simp only [rowsE, List.mem_flatMap, List.mem_map] at hy
    obtain ⟨t, _, l, _, rfl⟩ := hy
    simp only [scaleNi, rowE] at htoll ⊢
    rw [if_pos htoll, zero_mul]
  · intro x hx
    simp only [assemble, List.mem_map, List.mem_filter] at hx
    obtain ⟨b, ⟨_, hb⟩, rfl⟩ := hx
    simpa using hb
  · intro x hx
    simp only [assemble, List.mem_map, List.mem_filter] at hx
    obtain ⟨y, ⟨b, ⟨_, hb⟩, rfl⟩, rfl⟩ := hx
    simpa using hb

/-! ## Validity -/

theorem firstHolder_storage (arch : Arch Rat) (ntens : Nat) (t : TId) (m : Mapping Nat)
    (hn : ∀ n ∈ m, wfNode arch ntens n = true) (hb : backedByMemory t m = true) :
    ∃ l, firstHolder t m = some l ∧ (arch.levels.getD l Level.dflt).isToll = false := by
  induction m with
  | nil => simp [backedByMemory] at hb
  | cons n r ih =>
    have hn' : ∀ n ∈ r, wfNode arch ntens n = true := fun n h => hn n (List.mem_cons_of_mem _ h)
    cases n with
    | storage l ts lo =>
      simp only [backedByMemory, firstHolder] at hb ⊢
      split
      · exact ⟨l, rfl, (wfNode_storage arch ntens l ts lo (hn _ (List.mem_cons_self ..))).2.1⟩
      · rename_i hc; rw [if_neg hc] at hb; exact ih hn' hb
    | toll l ts lo =>
      simp only [backedByMemory, firstHolder] at hb ⊢
      split
      · rename_i hc; rw [if_pos hc] at hb; exact absurd hb (by simp)
      · rename_i hc; rw [if_neg hc] at hb; exact ih hn' hb
    | loop rv tile => exact ih hn' (by simpa [backedByMemory] using hb)
    | compute => exact ih hn' (by simpa [backedByMemory] using hb)

/-- **`run_model` never raises the Toll-outermost error on a well-formed mapping** (every tensor is backed by a
Memory), whatever tensors are fusable. -/
theorem toll_not_outermost (arch : Arch Rat) (wn : Workload Nat) (m : Mapping Nat) (hwf : WF arch wn m = true)
    (fusable : List TId) : tollOutermost fusable m = false := by
  have hf := wf_facts arch wn m hwf
  rw [tollOutermost, List.any_eq_false]
  intro n hn
  cases n with
  | toll l ts lo =>
    simp only [Bool.not_eq_true, List.any_eq_false, Bool.and_eq_false_imp]
    intro t ht _
    have hw := hf.nodes _ hn
    obtain ⟨_, htoll, _, _, _⟩ := wfNode_toll arch _ l ts lo hw
    have htl : t < wn.tensors.length := by
      simp only [wfNode, Bool.and_eq_true, List.all_eq_true, decide_eq_true_eq] at hw
      exact hw.1.1.2 t ht
    obtain ⟨l0, h0, hmem⟩ := firstHolder_storage arch _ t m hf.nodes (hf.backed t htl)
    rw [h0]
    by_cases hl : l0 = l
    · subst hl; rw [hmem] at htoll; exact absurd htoll (by simp)
    · simpa using hl
  | storage l ts lo => simp
  | loop rv tile => simp
  | compute => simp

/-- The predicate is not vacuous: a Toll that is the first holder of a fusable tensor is rejected. -/
theorem toll_outermost_rejected :
    tollOutermost [0] ([.toll 1 [0] true, .storage 0 [0] true, .loop 0 1, .compute] : Mapping Nat) = true := by decide

end AFV.C31
