import AFV.Model.Collect
/-!
# C32 — the parallel runner returns each job's result in job order

For any list of jobs and **any completion order** (any permutation of the tagged results) the
collection loop of `parallel` puts the i-th job's result at position i; dict inputs map each key
to its own job's result.
-/
namespace AFV.C32
open AFV.Collect

theorem setSlot_length {α} (l : List (Option α)) (i : Nat) (r : α) :
    (setSlot l i r).length = l.length := by
  induction l generalizing i with
  | nil => simp [setSlot]
  | cons x xs ih => cases i <;> simp [setSlot, ih]

theorem getElem?_setSlot {α} (l : List (Option α)) (i j : Nat) (r : α) :
    (setSlot l i r)[j]? = if i = j ∧ j < l.length then some (some r) else l[j]? := by
  induction l generalizing i j with
  | nil => simp [setSlot]
  | cons x xs ih =>
    cases i with
    | zero => cases j <;> simp [setSlot]
    | succ i =>
      cases j with
      | zero => simp [setSlot]
      | succ j => simp [setSlot, ih]

theorem foldl_setSlot_length {α} (arrivals : List (Nat × α)) (acc : List (Option α)) :
    (arrivals.foldl (fun acc (p : Nat × α) => setSlot acc p.1 p.2) acc).length = acc.length := by
  induction arrivals generalizing acc with
  | nil => rfl
  | cons a as ih => simp [ih, setSlot_length]

/-- Slot `j` after processing `arrivals`: the last arrival tagged `j`, if any. -/
theorem getElem?_foldl_setSlot {α} (arrivals : List (Nat × α)) (acc : List (Option α)) (j : Nat)
    (hj : j < acc.length) :
    (arrivals.foldl (fun acc (p : Nat × α) => setSlot acc p.1 p.2) acc)[j]? =
      some (match (arrivals.reverse.find? (fun p => p.1 == j)) with
            | some p => some p.2
            | none => acc[j]?.join) := by
  induction arrivals generalizing acc with
  | nil => simp [List.getElem?_eq_getElem hj]
  | cons a as ih =>
    have hlen : j < (setSlot acc a.1 a.2).length := by simpa [setSlot_length] using hj
    rw [List.foldl_cons, ih _ hlen]
    simp only [List.reverse_cons, List.find?_append]
    cases h : as.reverse.find? (fun p => p.1 == j) with
    | some p => simp
    | none =>
      simp only [Option.none_or, List.find?_cons, List.find?_nil]
      by_cases haj : a.1 = j
      · simp [haj, getElem?_setSlot, hj]
      · have : (a.1 == j) = false := by simpa using haj
        simp [this, getElem?_setSlot, haj]

/-- Arrivals are exactly the tagged results, in some order. -/
def IsSchedule {α} (vals : List α) (arrivals : List (Nat × α)) : Prop :=
  arrivals.Perm (tagged vals)

theorem mem_tagged {α} (vals : List α) (i : Nat) (r : α) :
    (i, r) ∈ tagged vals ↔ vals[i]? = some r := by
  simp only [tagged, List.mem_map, List.mem_zipIdx_iff_getElem?, Prod.mk.injEq, Prod.exists]
  constructor
  · rintro ⟨a, b, h, rfl, rfl⟩; simpa using h
  · intro h; exact ⟨r, i, by simpa using h, rfl, rfl⟩

/-- **Main theorem (list path).** Whatever the completion order, slot `i` holds job `i`'s result. -/
theorem collect_perm {α} (vals : List α) (arrivals : List (Nat × α))
    (h : IsSchedule vals arrivals) :
    collect vals.length arrivals = vals.map some := by
  apply List.ext_getElem?
  intro j
  unfold collect
  by_cases hj : j < vals.length
  · rw [getElem?_foldl_setSlot _ _ _ (by simpa using hj)]
    have hmem : (j, vals[j]) ∈ arrivals := by
      rw [h.mem_iff, mem_tagged]; simp [hj]
    cases hf : arrivals.reverse.find? (fun p => p.1 == j) with
    | none =>
      have := List.find?_eq_none.mp hf (j, vals[j]) (by simpa using hmem)
      simp at this
    | some p =>
      have hp1 : p.1 = j := by simpa using List.find?_some hf
      have hp : p ∈ arrivals := by simpa using List.mem_of_find?_eq_some hf
      rw [h.mem_iff] at hp
      have : vals[p.1]? = some p.2 := (mem_tagged vals p.1 p.2).mp hp
      rw [hp1] at this
      simp [List.getElem?_eq_getElem hj] at this
      simp [hj, this]
  · have h1 := foldl_setSlot_length arrivals (List.replicate vals.length (none : Option α))
    have hj' : vals.length ≤ j := Nat.le_of_not_lt hj
    rw [List.getElem?_eq_none (by simpa [h1] using hj'), List.getElem?_eq_none (by simpa using hj')]

/-! ## dict path -/

theorem dictOf_eq {κ α} [BEq κ] (arrivals : List (κ × α)) (k : κ) :
    dictOf arrivals k = (arrivals.reverse.find? (fun p => p.1 == k)).map (·.2) := by
  unfold dictOf
  suffices ∀ acc : Option α, arrivals.foldl (fun acc (p : κ × α) => if p.1 == k then some p.2 else acc) acc
      = ((arrivals.reverse.find? (fun p => p.1 == k)).map (·.2)).or acc by simpa using this none
  induction arrivals with
  | nil => intro acc; simp
  | cons a as ih =>
    intro acc
    rw [List.foldl_cons, ih]
    simp only [List.reverse_cons, List.find?_append]
    cases as.reverse.find? (fun p => p.1 == k) with
    | some p => simp
    | none => by_cases h : (a.1 == k) <;> simp [h]

theorem zip_val_unique {κ α} (keys : List κ) (vals : List α) (hn : keys.Nodup)
    {k : κ} {v v' : α} (h : (k, v) ∈ keys.zip vals) (h' : (k, v') ∈ keys.zip vals) : v = v' := by
  induction keys generalizing vals with
  | nil => simp at h
  | cons k0 ks ih =>
    cases vals with
    | nil => simp at h
    | cons v0 vs =>
      simp only [List.zip_cons_cons, List.mem_cons, Prod.mk.injEq] at h h'
      have hk0 : k0 ∉ ks := (List.nodup_cons.mp hn).1
      rcases h with ⟨rfl, rfl⟩ | h <;> rcases h' with ⟨h1, rfl⟩ | h'
      · rfl
      · exact absurd (List.of_mem_zip h').1 hk0
      · exact absurd (h1 ▸ (List.of_mem_zip h).1) hk0
      · exact ih vs (List.nodup_cons.mp hn).2 h h'

/-- **Main theorem (dict path).** Distinct keys (a Python dict), any completion order:
every key is mapped to its own job's result. -/
theorem dict_collect {κ α} [BEq κ] [LawfulBEq κ] (keys : List κ) (vals : List α)
    (arrivals : List (κ × α)) (hn : keys.Nodup) (hl : keys.length = vals.length)
    (h : arrivals.Perm (keys.zip vals)) :
    dictCollect keys arrivals = (keys.zip vals).map (fun p => (p.1, some p.2)) := by
  unfold dictCollect
  apply List.ext_getElem?
  intro i
  simp only [List.getElem?_map]
  by_cases hi : i < keys.length
  · have hiv : i < vals.length := hl ▸ hi
    have hmem : (keys[i], vals[i]) ∈ arrivals := by
      rw [h.mem_iff]; exact List.mem_iff_getElem?.mpr ⟨i, by simp [List.getElem?_zip_eq_some, hi, hiv]⟩
    rw [List.getElem?_eq_getElem hi]
    have hz : (keys.zip vals)[i]? = some (keys[i], vals[i]) := by
      simp [List.getElem?_zip_eq_some, hi, hiv]
    rw [hz]
    simp only [Option.map_some, dictOf_eq]
    cases hf : arrivals.reverse.find? (fun p => p.1 == keys[i]) with
    | none =>
      have := List.find?_eq_none.mp hf (keys[i], vals[i]) (by simpa using hmem)
      simp at this
    | some p =>
      have hp1 : p.1 = keys[i] := by simpa using List.find?_some hf
      have hp : p ∈ keys.zip vals := by
        rw [← h.mem_iff]; simpa using List.mem_of_find?_eq_some hf
      have hp' : (keys[i], p.2) ∈ keys.zip vals := by rw [← hp1]; exact hp
      have hv : (keys[i], vals[i]) ∈ keys.zip vals := by rw [← h.mem_iff]; exact hmem
      have := zip_val_unique keys vals hn hp' hv
      simp [this]
  · have hi' : keys.length ≤ i := Nat.le_of_not_lt hi
    have : (keys.zip vals)[i]? = none := by
      apply List.getElem?_eq_none; simp [List.length_zip]; omega
    rw [List.getElem?_eq_none hi', this]; rfl

/-! ## sequential path (`n_jobs == 1 or len(jobs) == 1`) -/

theorem sequential_path {β α} (run : β → α) (jobs : List β) (i : Nat) (hi : i < jobs.length) :
    (sequential run jobs)[i]? = some (run jobs[i]) := by
  simp [sequential, hi]

/-! ## the two paths agree: results do not depend on the worker count -/

theorem parallel_eq_sequential {β α} (run : β → α) (jobs : List β) (arrivals : List (Nat × α))
    (h : IsSchedule (jobs.map run) arrivals) :
    collect jobs.length arrivals = (sequential run jobs).map some := by
  have := collect_perm (jobs.map run) arrivals h
  simpa [sequential] using this

/-! ## non-vacuity: a concrete out-of-order schedule satisfies the hypotheses -/

example : IsSchedule ["a", "b", "c"] [(2, "c"), (0, "a"), (1, "b")] := by
  unfold IsSchedule tagged; decide
example : collect 3 [(2, "c"), (0, "a"), (1, "b")] = [some "a", some "b", some "c"] := by decide
example : dictCollect ["x", "y"] [("y", 2), ("x", 1)] = [("x", some 1), ("y", some 2)] := by decide

end AFV.C32
