import AFV.Lemmas.ParetoFront
/-!
# C11 — the Pareto filter keeps exactly the non-dominated rows

Model: `AFV.Pareto.fastParetoMask` (AFV/Model/Pareto.lean) follows `fast_pareto_mask` / `_sfs_bnl_core`.
Spec : `AFV.Pareto.paretoMaskSpec` (AFV/Spec/Pareto.lean), the all-pairs definition on the exact values.

Main theorem `fastParetoMask_exact`:  H-cast ∧ H-sweep ∧ H-key → model = spec, for every matrix, goal
vector and float configuration.  The three hypotheses are decidable predicates of the input
(AFV/Spec/ParetoHyp.lean); each can be violated by the real code's float configuration `stdCfg S`, and for
each a `decide`-checked witness below shows the model (like the real code) then violates the spec:

  * H-cast  (`cast_collision_counterexample`)  — the effective dtype is float32 in both branches;
  * H-key   (`sum_tie_counterexample`, `sum_inf_counterexample`) — float32 row sums tie, the window never evicts;
  * H-sweep (`sweep_sentinel_counterexample`)  — `best_c1 = 1e308` hides `+inf`.

Not a hypothesis: the `1e30` initial value of the block minima (`blocks_eq_bnl` holds for every `S`).
-/
namespace AFV.C11
open AFV.Pareto

/-! ## the pieces -/

/-- Window (block-nested-loop) filter: processing the rows in an order in which no later row dominates an
earlier one, the rows kept are exactly those no row of the list dominates. -/
theorem bnl_exact (d : Nat) (xs : List Item) (hT : Topo d xs) (i : Nat) :
    i ∈ bnlGo d [] xs ↔ ∃ x ∈ xs, x.1 = i ∧ (xs.any fun y => domV d y.2 x.2) = false := by
  rw [mem_bnlGo d [] xs hT]; simp

/-- Block minima and the window-min quick check never change the answer, whatever value `S` the block
minima are initialised with (the `1e30` of the code is harmless even for data ≥ 1e30 and `inf`). -/
theorem blocks_eq_bnl (d : Nat) (S : EV) (w : Win) (rows : List Row) (xs : List Item)
    (h : WinOK d w rows) : bnlBlocksGo d S w xs = bnlGo d rows xs :=
  bnlBlocksGo_eq_bnlGo d S w rows xs h

/-- Sorting by a key that is strictly monotone on dominating pairs gives a topological order. -/
theorem sumKey_topo (key : List EV → FKey) (d : Nat) (L : List Item)
    (hk : ∀ x ∈ L, ∀ y ∈ L, domV d x.2 y.2 = true → FKey.lt (key x.2) (key y.2) = true) :
    Topo d (sortByKey key L) := topo_sortByKey key d L hk

/-- General path (sort by float key, block BNL): exact when the key is strictly monotone on dominating pairs. -/
theorem general_path_exact (cfg : Cfg) (d : Nat) (L : List Item)
    (hk : ∀ x ∈ L, ∀ y ∈ L, domV d x.2 y.2 = true → FKey.lt (cfg.key x.2) (cfg.key y.2) = true)
    (i : Nat) :
    i ∈ bnlBlocks cfg d L ↔ ∃ x ∈ L, x.1 = i ∧ (L.any fun y => domV d y.2 x.2) = false :=
  mem_bnlBlocks cfg d L hk i

/-- 2-D sweep: exact when every column-1 value is below the initial `best`. -/
theorem sweep2D_exact (B : EV) (L : List Item) (hB : ∀ x ∈ L, EV.lt (cell x.2 1) B = true) (i : Nat) :
    i ∈ sweep2 B L ↔ ∃ x ∈ L, x.1 = i ∧ (L.any fun y => domV 2 y.2 x.2) = false :=
  mem_sweep2 B L hB i

/-- 1-D paths: exactly the rows minimal in the column. -/
theorem path1D_exact (k : Nat) (G : List Item) (i : Nat) :
    i ∈ path1 k G ↔ ∃ x ∈ G, x.1 = i ∧ ∀ y ∈ G, EV.lt (cell y.2 k) (cell x.2 k) = false :=
  mem_path1 k G i

/-- One group of `_sfs_bnl_core` (all paths, varying-column restriction included). -/
theorem group_exact (cfg : Cfg) (d : Nat) (G : List Item)
    (hs : HsweepG cfg d G = true) (hk : HkeyG cfg d G = true) (i : Nat) :
    i ∈ groupCore cfg d G ↔ ∃ x ∈ G, x.1 = i ∧ (G.any fun y => domV d y.2 x.2) = false :=
  mem_groupCore cfg d G hs hk i

/-- Effective columns (prime-factor expansion, constant removal, cast, negation) compare like the
specification's objective columns when the cast is strictly monotone on every column's values. -/
theorem eff_columns_exact (cfg : Cfg) (goals : List Goal) (data : List Row) (h1 : 0 < cfg.one)
    (hcast : Hcast cfg goals data = true) {j i : Nat} (hj : j < data.length) (hi : i < data.length) :
    domV (effCols cfg goals data).length (effRow (effCols cfg goals data) j)
        (effRow (effCols cfg goals data) i) =
      (leqOpt cfg.one goals (data.getD j []) (data.getD i []) &&
        !leqOpt cfg.one goals (data.getD i []) (data.getD j [])) :=
  domV_eff cfg goals data h1 hcast hj hi

/-- Permutation invariance of the front. -/
theorem front_perm (d : Nat) {A B : List Row} (h : A.Perm B) : (front d A).Perm (front d B) :=
  front_perm' d h

/-- Merge law (`split_in_half`, chunked pruning): pruning the parts first does not change the front. -/
theorem front_of_union_fronts (d : Nat) (A B : List Row) :
    front d (A ++ B) = front d (front d A ++ front d B) := front_append d A B

/-! ## main theorem -/

/-- **C11.**  Under H-cast, H-sweep and H-key the model of `fast_pareto_mask` returns exactly the
specification's mask: non-dominated within equal `diff` columns, first of exact duplicates. -/
theorem fastParetoMask_exact (cfg : Cfg) (goals : List Goal) (data : List Row) (h1 : 0 < cfg.one)
    (hcast : Hcast cfg goals data = true) (hs : Hsweep cfg goals data = true)
    (hk : Hkey cfg goals data = true) :
    fastParetoMask cfg goals data = paretoMaskSpec cfg.one goals data := by
  unfold fastParetoMask paretoMaskSpec
  by_cases hn : data.length ≤ 1
  · rw [if_pos hn]
    match data, hn with
    | [], _ => simp
    | [r], _ => simp [dominates_self]
  · rw [if_neg hn]
    simp only [if_true]
    have hspec : ∀ i, (!(data.any fun r => dominates cfg.one goals r (data.getD i []))) =
        nd cfg.one goals data i := fun i => rfl
    by_cases hc : (effCols cfg goals data).isEmpty = true
    · rw [if_pos hc]
      unfold dedupFirst
      apply List.map_congr_left
      intro i hi
      have hi : i < data.length := List.mem_range.mp hi
      have hlen : (effCols cfg goals data).length = 0 := by
        simpa [List.isEmpty_iff] using hc
      have hnd : (data.any fun r => dominates cfg.one goals r (data.getD i [])) = false := by
        apply List.any_eq_false.mpr
        intro r hr
        obtain ⟨j, hj, rfl⟩ := exists_getD_of_mem hr
        have h := domV_eff cfg goals data h1 hcast hj hi
        rw [hlen, domV0] at h
        unfold dominates
        rw [Bool.and_assoc, ← h]; simp
      show (!(data.take i).any _) = (!(data.any fun r => dominates cfg.one goals r (data.getD i [])) && _)
      rw [hnd]; rfl
    · rw [if_neg hc, coreMask_eq cfg goals data h1 hcast hs hk]
      unfold dedupKept
      apply List.map_congr_left
      intro i hi
      have hi : i < data.length := List.mem_range.mp hi
      rw [hspec i, getD_map_range _ _ _ hi]
      cases hndi : nd cfg.one goals data i
      · simp
      · simp only [Bool.true_and]
        congr 1
        rw [any_take_range data [] _ i (Nat.le_of_lt hi)]
        apply any_congr_mem
        intro j hj
        have hj : j < i := List.mem_range.mp hj
        rw [getD_map_range _ _ _ (Nat.lt_trans hj hi)]
        cases he : (data.getD j [] == data.getD i [])
        · simp
        · rw [nd_congr (by simpa using he), hndi]; rfl

/-
Full-strength statement demanded by the property (FALSE for the code as it is — see the witnesses below):

    theorem fastParetoMask_exact_full (S : Nat) (goals : List Goal) (data : List Row) :
        fastParetoMask (stdCfg S) goals data = paretoMaskSpec (stdCfg S).one goals data

What is proved is the statement under the three hypotheses, for every configuration (`fastParetoMask_exact`,
restated as `fastParetoMask_exact_partial` for the code's own float configuration `stdCfg S`).
-/
/-- the proved part for the code's float configuration (float32 cast, float32 row-sum key, `1e30` / `1e308`). -/
theorem fastParetoMask_exact_partial (S : Nat) (goals : List Goal) (data : List Row)
    (hcast : Hcast (stdCfg S) goals data = true) (hs : Hsweep (stdCfg S) goals data = true)
    (hk : Hkey (stdCfg S) goals data = true) :
    fastParetoMask (stdCfg S) goals data = paretoMaskSpec (stdCfg S).one goals data :=
  fastParetoMask_exact (stdCfg S) goals data (by show (0 : Int) < 2 ^ S; exact Int.pow_pos (by decide))
    hcast hs hk

/-! ### repaired configurations

`stdCfg S wide sweepFirst` models the code after the repairs of the known findings:
`wide` (float32-cast-collision: the effective dtype follows the data, the cast is exact) and `sweepFirst`
(sweep2d-sentinel-hides-inf: `first_run or g_min_c1 < best_c1`).  H-cast resp. H-sweep then hold for every input. -/

theorem Hcast_wide (S : Nat) (sf : Bool) (goals : List Goal) (data : List Row) :
    Hcast (stdCfg S true sf) goals data = true := by
  unfold Hcast
  apply List.all_eq_true.mpr
  intro gc _
  cases hg : (gc.1 != Goal.min && gc.1 != Goal.max)
  · simp only [Bool.false_or]
    apply List.all_eq_true.mpr; intro a _
    apply List.all_eq_true.mpr; intro b _
    show (!EV.lt a b || EV.lt a b) = true
    cases EV.lt a b <;> rfl
  · rfl

theorem Hsweep_first (S : Nat) (w : Bool) (goals : List Goal) (data : List Row) :
    Hsweep (stdCfg S w true) goals data = true := by
  unfold Hsweep
  apply List.all_eq_true.mpr
  intro G _
  unfold HsweepG
  split <;> rfl

/-- with both repairs only H-key remains. -/
theorem fastParetoMask_exact_repaired (S : Nat) (goals : List Goal) (data : List Row)
    (hk : Hkey (stdCfg S true true) goals data = true) :
    fastParetoMask (stdCfg S true true) goals data = paretoMaskSpec (stdCfg S true true).one goals data :=
  fastParetoMask_exact (stdCfg S true true) goals data
    (by show (0 : Int) < 2 ^ S; exact Int.pow_pos (by decide))
    (Hcast_wide S true goals data) (Hsweep_first S true goals data) hk

/-- the repaired sweep keeps `(0, inf)` (the witness of `sweep_sentinel_counterexample`). -/
example : fastParetoMask (stdCfg 0 false true) [.min, .min] [[.fin 0, .pinf], [.fin 1, .fin 5]] = [true, true] := by
  decide +kernel

/-- `distinct=False`: the mask of the non-dominated rows. -/
theorem fastParetoMask_exact_nodistinct (cfg : Cfg) (goals : List Goal) (data : List Row)
    (h1 : 0 < cfg.one) (hcast : Hcast cfg goals data = true) (hs : Hsweep cfg goals data = true)
    (hk : Hkey cfg goals data = true) :
    fastParetoMask cfg goals data false = frontMaskSpec cfg.one goals data := by
  have hfront : frontMaskSpec cfg.one goals data = (List.range data.length).map (nd cfg.one goals data) := by
    unfold frontMaskSpec nd
    apply List.ext_getElem (by simp)
    intro i h1 h2
    simp [List.getD_eq_getElem?_getD, List.getElem?_eq_getElem (by simpa using h1 : i < data.length)]
  unfold fastParetoMask
  by_cases hn : data.length ≤ 1
  · rw [if_pos hn, hfront]
    match data, hn with
    | [], _ => simp
    | [r], _ => simp [nd, dominates_self]
  · rw [if_neg hn]
    simp only [Bool.false_eq_true, if_false]
    by_cases hc : (effCols cfg goals data).isEmpty = true
    · rw [if_pos hc, hfront]
      apply List.ext_getElem (by simp)
      intro i hi1 hi2
      have hi : i < data.length := by simpa using hi2
      have hlen : (effCols cfg goals data).length = 0 := by
        simpa [List.isEmpty_iff] using hc
      have hnd : (data.any fun r => dominates cfg.one goals r (data.getD i [])) = false := by
        apply List.any_eq_false.mpr
        intro r hr
        obtain ⟨j, hj, rfl⟩ := exists_getD_of_mem hr
        have h := domV_eff cfg goals data h1 hcast hj hi
        rw [hlen, domV0] at h
        unfold dominates
        rw [Bool.and_assoc, ← h]; simp
      rw [List.getElem_replicate, List.getElem_map, List.getElem_range]
      unfold nd; rw [hnd]; rfl
    · rw [if_neg hc, coreMask_eq cfg goals data h1 hcast hs hk, hfront]

/-! ## each hypothesis is necessary for the code's float configuration (witnesses) -/

/-- H-cast fails: float64 values `1` and `1 + 2^-40` collide in float32; the dominated row is kept.
(real code: `fast_pareto_mask(np.array([[1.0],[1.0+2**-40]]), ["min"])` → `[True, True]`) -/
theorem cast_collision_counterexample :
    Hcast (stdCfg 40) [.min] [[.fin (2^40)], [.fin (2^40 + 1)]] = false ∧
    fastParetoMask (stdCfg 40) [.min] [[.fin (2^40)], [.fin (2^40 + 1)]] = [true, true] ∧
    paretoMaskSpec (stdCfg 40).one [.min] [[.fin (2^40)], [.fin (2^40 + 1)]] = [true, false] := by
  decide +kernel

/-- H-key fails: `[1e8,2,5]` and `[1e8,1,5]` have the same float32 row sum; the dominated row comes first,
enters the window and is never evicted. -/
theorem sum_tie_counterexample :
    Hkey (stdCfg 0) [.min, .min, .min]
      [[.fin 100000000, .fin 2, .fin 5], [.fin 100000000, .fin 1, .fin 5], [.fin 1, .fin 7, .fin 9]] = false ∧
    Hcast (stdCfg 0) [.min, .min, .min]
      [[.fin 100000000, .fin 2, .fin 5], [.fin 100000000, .fin 1, .fin 5], [.fin 1, .fin 7, .fin 9]] = true ∧
    Hsweep (stdCfg 0) [.min, .min, .min]
      [[.fin 100000000, .fin 2, .fin 5], [.fin 100000000, .fin 1, .fin 5], [.fin 1, .fin 7, .fin 9]] = true ∧
    fastParetoMask (stdCfg 0) [.min, .min, .min]
      [[.fin 100000000, .fin 2, .fin 5], [.fin 100000000, .fin 1, .fin 5], [.fin 1, .fin 7, .fin 9]]
        = [true, true, true] ∧
    paretoMaskSpec (stdCfg 0).one [.min, .min, .min]
      [[.fin 100000000, .fin 2, .fin 5], [.fin 100000000, .fin 1, .fin 5], [.fin 1, .fin 7, .fin 9]]
        = [false, true, true] := by
  decide +kernel

/-- H-key fails with `inf` in a column: both sums are `inf`. -/
theorem sum_inf_counterexample :
    Hkey (stdCfg 0) [.min, .min, .min]
      [[.pinf, .fin 2, .fin 5], [.pinf, .fin 1, .fin 5], [.fin 1, .fin 7, .fin 9]] = false ∧
    fastParetoMask (stdCfg 0) [.min, .min, .min]
      [[.pinf, .fin 2, .fin 5], [.pinf, .fin 1, .fin 5], [.fin 1, .fin 7, .fin 9]] = [true, true, true] ∧
    paretoMaskSpec (stdCfg 0).one [.min, .min, .min]
      [[.pinf, .fin 2, .fin 5], [.pinf, .fin 1, .fin 5], [.fin 1, .fin 7, .fin 9]] = [false, true, true] := by
  decide +kernel

/-- H-sweep fails: in the 2-column path `(0, inf)` is not below `best_c1 = 1e308` and is dropped although
nothing dominates it. -/
theorem sweep_sentinel_counterexample :
    Hsweep (stdCfg 0) [.min, .min] [[.fin 0, .pinf], [.fin 1, .fin 5]] = false ∧
    Hcast (stdCfg 0) [.min, .min] [[.fin 0, .pinf], [.fin 1, .fin 5]] = true ∧
    Hkey (stdCfg 0) [.min, .min] [[.fin 0, .pinf], [.fin 1, .fin 5]] = true ∧
    fastParetoMask (stdCfg 0) [.min, .min] [[.fin 0, .pinf], [.fin 1, .fin 5]] = [false, true] ∧
    paretoMaskSpec (stdCfg 0).one [.min, .min] [[.fin 0, .pinf], [.fin 1, .fin 5]] = [true, true] := by
  decide +kernel

/-! ## non-vacuity: the hypotheses hold on non-trivial inputs of every path -/

/-- general path (3 varying columns), a `diff` column, a `max` column, a duplicate and a dominated row. -/
example :
    let goals := [Goal.diff, .min, .max, .min]
    let data : List Row :=
      [[.fin 0, .fin 1, .fin 5, .fin 3], [.fin 0, .fin 2, .fin 4, .fin 3], [.fin 0, .fin 0, .fin 9, .fin 7],
       [.fin 0, .fin 1, .fin 5, .fin 3], [.fin 1, .fin 9, .fin 0, .fin 9], [.fin 0, .fin 3, .fin 6, .fin 1]]
    Hcast (stdCfg 0) goals data = true ∧ Hsweep (stdCfg 0) goals data = true ∧
    Hkey (stdCfg 0) goals data = true ∧
    fastParetoMask (stdCfg 0) goals data = [true, false, true, false, true, true] := by
  decide +kernel

/-- 2-D sweep path with finite values, and a per-prime-factor goal. -/
example :
    Hsweep (stdCfg 0) [.min, .min] [[.fin 0, .fin 7], [.fin 1, .fin 5], [.fin 1, .fin 6]] = true ∧
    fastParetoMask (stdCfg 0) [.min, .min] [[.fin 0, .fin 7], [.fin 1, .fin 5], [.fin 1, .fin 6]]
      = [true, true, false] ∧
    fastParetoMask (stdCfg 0) [.minPPF, .min] [[.fin 4, .fin 1], [.fin 2, .fin 1], [.fin 3, .fin 1], [.fin 6, .fin 0]]
      = [false, true, true, true] := by
  decide +kernel

/-- `stdCfg` satisfies `0 < one`. -/
example (S : Nat) : 0 < (stdCfg S).one := by
  show (0 : Int) < 2 ^ S
  exact Int.pow_pos (by decide)

end AFV.C11
