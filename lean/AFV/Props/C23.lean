import AFV.Lemmas.EinsumPrint
import AFV.Lemmas.EinsumStrict
import AFV.Lemmas.EinsumMerge
/-!
# C23 — the concise Einsum notation is equivalent to the verbose form; malformed strings are rejected

Model: `AFV/Model/EinsumStr.lean` (character level; the regexes of `workload.py` as scanners).

* `parse_print` / `parse_print_any_blanks` — for every well-formed Einsum, every style choice (shorthand `m` or
  explicit `M: m`) and every insertion of blanks, `_parse_einsum_string` of the printed string gives exactly what
  the verbose form gives after `_projection_factory`.
* `merge_preserves`, `merge_conflict_rejected`, `merge_unknown_rejected`, `merge_nameless_rejected`,
  `entry_preserves_wf` — `_parse_einsum_entry` never changes names / projections / output flags, and rejects
  conflicting or unknown entries.
* malformed strings: the code as it is does NOT reject them (`malformed_accepted_counterexample`, three
  witnesses).  `malformed_rejected_partial` proves rejection under the validation the code lacks, i.e. for the
  repaired parser `parseStrict` (`strict_rejects_malformed`), which still accepts every printed well-formed
  Einsum (`strict_accepts_print`).  `recognise_iff_grammar` ties the executable recogniser used as the judge to
  the grammar `T[…] = T[…] (* T[…])*`.
* `zero_rank_counterexample`, `reserved_word_counterexample`, `duplicate_tensor_counterexample`: Einsums on which
  the two notations differ in the code as it is (outside `WF`).
-/
namespace AFV.C23
open AFV.EinsumStr

/-! ## printed references -/

theorem printVRef_refOK (sty : List Bool) (a : VAccess) (h : okAccess a = true) : RefOK (printVRef sty a) := by
  simp only [okAccess, Bool.and_eq_true] at h
  refine ⟨h.1, ?_⟩
  intro x hx
  have := printProjText_chars sty a.proj h.2 x hx
  intro e; subst e; simp [textChar] at this

theorem printVRefs_refOK (sty : List (List Bool)) (ins : List VAccess)
    (h : ∀ a ∈ ins, okAccess a = true) : ∀ r ∈ printVRefs sty ins, RefOK r := by
  induction ins generalizing sty with
  | nil => cases sty <;> simp [printVRefs]
  | cons a r ih =>
    cases sty with
    | nil =>
      intro x hx
      simp only [printVRefs, List.mem_cons] at hx
      rcases hx with rfl | hx
      · exact printVRef_refOK [] a (h a (by simp))
      · exact ih [] (fun b hb => h b (by simp [hb])) x hx
    | cons b bs =>
      intro x hx
      simp only [printVRefs, List.mem_cons] at hx
      rcases hx with rfl | hx
      · exact printVRef_refOK b a (h a (by simp))
      · exact ih bs (fun b hb => h b (by simp [hb])) x hx

theorem printVRefs_ne_nil (sty : List (List Bool)) (a : VAccess) (r : List VAccess) :
    printVRefs sty (a :: r) ≠ [] := by
  cases sty <;> simp [printVRefs]

/-- The input references: both notations give the same accesses. -/
theorem parseRefs_print (sty : List (List Bool)) (ins : List VAccess)
    (h : ∀ a ∈ ins, a.output = false ∧ okAccess a = true) :
    ∃ accs, normAccesses ins = some accs ∧ parseRefs (printVRefs sty ins) = some accs := by
  induction ins generalizing sty with
  | nil => cases sty <;> exact ⟨[], rfl, rfl⟩
  | cons a r ih =>
    obtain ⟨ho, hok⟩ := h a (by simp)
    have hok' := hok
    simp only [okAccess, Bool.and_eq_true] at hok'
    have step : ∀ b sty', ∃ accs, normAccesses (a :: r) = some accs ∧
        parseRefs (printVRef b a :: printVRefs sty' r) = some accs := by
      intro b sty'
      obtain ⟨d, hd1, hd2⟩ := parseProjection_print b a.proj hok'.2
      obtain ⟨accs, ha1, ha2⟩ := ih sty' (fun x hx => h x (by simp [hx]))
      refine ⟨⟨a.name, d, false⟩ :: accs, ?_, ?_⟩
      · simp only [normAccesses, hd1, ha1, ho]
      · simp only [printVRef, parseRefs, hd2, ha2]
    cases sty with
    | nil => exact step [] []
    | cons b bs => exact step b bs

theorem normAccesses_append (xs : List VAccess) (a : VAccess) (accs : List Access) (d : Proj)
    (h1 : normAccesses xs = some accs) (h2 : projFactory a.proj = some d) :
    normAccesses (xs ++ [a]) = some (accs ++ [⟨a.name, d, a.output⟩]) := by
  induction xs generalizing accs with
  | nil =>
    simp only [normAccesses, Option.some.injEq] at h1
    subst h1
    simp [normAccesses, h2]
  | cons x r ih =>
    simp only [normAccesses] at h1
    split at h1
    · simp at h1
    · rename_i p hp
      split at h1
      · simp at h1
      · rename_i r' hr'
        simp only [Option.some.injEq] at h1
        subst h1
        simp only [List.cons_append, normAccesses, hp, ih r' hr']

/-! ## characters of the canonical string -/

theorem printRef_chars (sty : List Bool) (a : VAccess) (h : okAccess a = true) :
    ∀ c ∈ printRef (printVRef sty a), c ≠ '=' ∧ isSpace c = false := by
  have h' := h
  simp only [okAccess, Bool.and_eq_true] at h'
  intro c hc
  simp only [printRef, printVRef, List.mem_append, List.mem_cons, List.mem_singleton] at hc
  have txt : ∀ c, textChar c = true → c ≠ '=' ∧ isSpace c = false := by
    intro c hc
    simp only [textChar, Bool.and_eq_true, bne_iff_ne, ne_eq, Bool.not_eq_true'] at hc
    exact ⟨hc.1.2, hc.2⟩
  simp only [List.not_mem_nil, or_false] at hc
  rcases hc with hc | rfl | hc | rfl
  · exact txt c (word_textChar c (validName_all_word h'.1 c hc))
  · exact ⟨by decide, by decide⟩
  · exact txt c (printProjText_chars sty a.proj h'.2 c hc)
  · exact ⟨by decide, by decide⟩

theorem rhs_chars (sty : List (List Bool)) (ins : List VAccess) (h : ∀ a ∈ ins, okAccess a = true) :
    ∀ c ∈ joinWith '*' ((printVRefs sty ins).map printRef), c ≠ '=' ∧ isSpace c = false := by
  intro c hc
  rcases mem_joinWith hc with rfl | ⟨p, hp, hcp⟩
  · exact ⟨by decide, by decide⟩
  · simp only [List.mem_map] at hp
    obtain ⟨r, hr, rfl⟩ := hp
    -- r is a printed reference of some access of `ins`
    have : ∀ (sty : List (List Bool)) (ins : List VAccess), (∀ a ∈ ins, okAccess a = true) →
        ∀ r ∈ printVRefs sty ins, ∃ b a, okAccess a = true ∧ r = printVRef b a := by
      intro sty ins
      induction ins generalizing sty with
      | nil => cases sty <;> simp [printVRefs]
      | cons a rest ih =>
        intro h r hr
        cases sty with
        | nil =>
          simp only [printVRefs, List.mem_cons] at hr
          rcases hr with rfl | hr
          · exact ⟨[], a, h a (by simp), rfl⟩
          · exact ih [] (fun x hx => h x (by simp [hx])) r hr
        | cons b bs =>
          simp only [printVRefs, List.mem_cons] at hr
          rcases hr with rfl | hr
          · exact ⟨b, a, h a (by simp), rfl⟩
          · exact ih bs (fun x hx => h x (by simp [hx])) r hr
    obtain ⟨b, a, ha, rfl⟩ := this sty ins h r hr
    exact printRef_chars b a ha c hcp

theorem wf_unpack {out : VAccess} {ins : List VAccess} (h : WF out ins = true) :
    out.output = true ∧ okAccess out = true ∧ ins ≠ [] ∧ ∀ a ∈ ins, a.output = false ∧ okAccess a = true := by
  simp only [WF, Bool.and_eq_true, Bool.not_eq_true', List.isEmpty_eq_false_iff, List.all_eq_true] at h
  exact ⟨h.1.1.1, h.1.1.2, h.1.2, h.2⟩

theorem canon_no_space {out : VAccess} {ins : List VAccess} (sty : List (List Bool)) (h : WF out ins = true) :
    ∀ c ∈ printCanon out ins sty, isSpace c = false := by
  obtain ⟨_, hout, _, hins⟩ := wf_unpack h
  intro c hc
  simp only [printCanon, List.mem_append, List.mem_cons] at hc
  rcases hc with hc | rfl | hc
  · exact (printRef_chars _ out hout c hc).2
  · decide
  · exact (rhs_chars _ ins (fun a ha => (hins a ha).2) c hc).2

theorem strip_of_no_space (t : Str) (h : ∀ c ∈ t, isSpace c = false) : strip t = t := by
  simp only [strip, List.filter_eq_self, Bool.not_eq_true']
  exact h

/-! ## the main theorem on blank-free text -/

theorem parseNoWs_printCanon (out : VAccess) (ins : List VAccess) (sty : List (List Bool))
    (h : WF out ins = true) :
    ∃ e, verbose out.name (ins ++ [out]) = some e ∧ parseNoWs (printCanon out ins sty) = some e := by
  obtain ⟨hoo, hout, hne, hins⟩ := wf_unpack h
  have hout' := hout
  simp only [okAccess, Bool.and_eq_true] at hout'
  obtain ⟨accs, hn1, hn2⟩ := parseRefs_print sty.tail ins hins
  obtain ⟨d, hd1, hd2⟩ := parseProjection_print (sty.headD []) out.proj hout'.2
  refine ⟨⟨out.name, accs ++ [⟨out.name, d, true⟩]⟩, ?_, ?_⟩
  · simp only [verbose, normAccesses_append ins out accs d hn1 hd1, hoo]
  · -- the scanners on the canonical string
    set rhs := joinWith '*' ((printVRefs sty.tail ins).map printRef) with hrhs
    have hrefs := printVRefs_refOK sty.tail ins (fun a ha => (hins a ha).2)
    have hrhs_chars := rhs_chars sty.tail ins (fun a ha => (hins a ha).2)
    have hhead_chars := printRef_chars (sty.headD []) out hout
    have hcanon : printCanon out ins sty = printRef (printVRef (sty.headD []) out) ++ ('=' :: rhs) := rfl
    have hm : matchRef (printCanon out ins sty) = some (out.name, printProjText (sty.headD []) out.proj, '=' :: rhs) := by
      rw [hcanon]
      have hr := printVRef_refOK (sty.headD []) out hout
      exact matchRef_print _ _ _ hr.1 hr.2
    have hcount : (printCanon out ins sty).count '=' = 1 := by
      rw [hcanon, List.count_append, List.count_cons_self]
      have c1 : (printRef (printVRef (sty.headD []) out)).count '=' = 0 :=
        List.count_eq_zero.mpr (fun hc => (hhead_chars _ hc).1 rfl)
      have c2 : rhs.count '=' = 0 := List.count_eq_zero.mpr (fun hc => (hrhs_chars _ hc).1 rfl)
      omega
    have hfind : findAll rhs.length rhs = printVRefs sty.tail ins :=
      findAll_join _ hrefs rhs.length (Nat.le_refl _)
    obtain ⟨a0, r0, hins0⟩ : ∃ a r, ins = a :: r := by
      cases ins with
      | nil => exact absurd rfl hne
      | cons a r => exact ⟨a, r, rfl⟩
    have hrefs_ne : printVRefs sty.tail ins ≠ [] := by rw [hins0]; exact printVRefs_ne_nil _ _ _
    have hrhs_ne : rhs ≠ [] := by
      intro e
      have : findAll rhs.length rhs = [] := by rw [e]; rfl
      rw [hfind] at this; exact hrefs_ne this
    have e1 : (printCanon out ins sty).isEmpty = false := by rw [hcanon]; simp [printRef]
    have e2 : rhs.isEmpty = false := by
      cases hh : rhs with
      | nil => exact absurd hh hrhs_ne
      | cons _ _ => rfl
    have e3 : (printVRefs sty.tail ins).isEmpty = false := by
      cases hh : printVRefs sty.tail ins with
      | nil => exact absurd hh hrefs_ne
      | cons _ _ => rfl
    simp only [parseNoWs, e1, Bool.false_eq_true, if_false, hcount, bne_self_eq_false, hm, e2, hfind, e3,
      hn2, hd2]

/-! ## blanks -/

theorem strip_insertWs (ws : Nat → Str) (i : Nat) (prev : Option Char) (t : Str) :
    strip (insertWs ws i prev t) = strip t := by
  induction t generalizing i prev with
  | nil => simp [insertWs, strip, List.filter_filter]
  | cons c cs ih =>
    simp only [insertWs, strip, List.filter_append, List.filter_cons] at ih ⊢
    have hgap : ∀ g : Str, (∀ x ∈ g, isSpace x = true) → g.filter (fun c => !isSpace c) = [] := by
      intro g hg
      simp only [List.filter_eq_nil_iff, Bool.not_eq_true', Bool.not_eq_false]
      exact hg
    have hg1 : ∀ x ∈ (ws i).filter isSpace, isSpace x = true := by
      intro x hx; exact (List.mem_filter.mp hx).2
    have key : ∀ g : Str, (∀ x ∈ g, isSpace x = true) →
        List.filter (fun c => !isSpace c) g ++ (if (!isSpace c) = true then c :: List.filter (fun c => !isSpace c) (insertWs ws (i + 1) (some c) cs)
          else List.filter (fun c => !isSpace c) (insertWs ws (i + 1) (some c) cs)) =
        if (!isSpace c) = true then c :: List.filter (fun c => !isSpace c) cs else List.filter (fun c => !isSpace c) cs := by
      intro g hg
      rw [hgap g hg, ih]
      simp
    cases prev with
    | none => exact key _ hg1
    | some p =>
      simp only
      split
      · exact key [] (by simp)
      · exact key _ hg1

/-- **Concise ≡ verbose (every blank insertion of the printer).** -/
theorem parse_print (out : VAccess) (ins : List VAccess) (sty : List (List Bool)) (ws : Nat → Str)
    (h : WF out ins = true) :
    ∃ e, verbose out.name (ins ++ [out]) = some e ∧ parse (printWs out ins sty ws) = some e := by
  obtain ⟨e, h1, h2⟩ := parseNoWs_printCanon out ins sty h
  refine ⟨e, h1, ?_⟩
  simp only [parse, printWs, strip_insertWs, strip_of_no_space _ (canon_no_space sty h), h2]

/-- **Concise ≡ verbose (any string whose blank-free form is the printed one).** -/
theorem parse_print_any_blanks (out : VAccess) (ins : List VAccess) (sty : List (List Bool)) (s : Str)
    (h : WF out ins = true) (hs : strip s = printCanon out ins sty) :
    ∃ e, verbose out.name (ins ++ [out]) = some e ∧ parse s = some e := by
  obtain ⟨e, h1, h2⟩ := parseNoWs_printCanon out ins sty h
  exact ⟨e, h1, by simp only [parse, hs, h2]⟩

/-! non-vacuity: a convolution-like Einsum with list and dict projections, expression entries -/
def exOut : VAccess := ⟨"T2".toList, .list ["p".toList, "q".toList, "n".toList], true⟩
def exIn1 : VAccess := ⟨"I2".toList, .dict [("N".toList, "n".toList), ("H".toList, "2*p+r+1".toList), ("W".toList, "q+s".toList)], false⟩
def exIn2 : VAccess := ⟨"W2".toList, .list ["r".toList, "s".toList], false⟩
example : WF exOut [exIn1, exIn2] = true := by decide
example : String.ofList (printCanon exOut [exIn1, exIn2] [[], [true, false], []]) = "T2[p,q,n]=I2[n,H:2*p+r+1,W:q+s]*W2[r,s]" := by
  decide
example : parse (printWs exOut [exIn1, exIn2] [[], [true, false], []] (fun i => if i % 3 = 0 then " \t".toList else [])) =
    verbose exOut.name [exIn1, exIn2, exOut] := by decide
example : (verbose exOut.name [exIn1, exIn2, exOut]).isSome = true := by decide

/-! ## `_parse_einsum_entry`: extra attributes merge without changing names, projections, output flags -/

/-- **Merge preserves the core.** Whatever extra `tensor_accesses` entries are merged, if the merge succeeds the
tensor names, projections and output flags are those of the accesses before the merge, in the same order. -/
theorem merge_preserves {V} (accs res : List (MAccess V)) (extras : List (Extra V))
    (h : mergeAll accs extras = some res) : res.map core = accs.map core :=
  mergeAll_core accs res extras h

/-- An extra entry that sets `projection` or `output` for a tensor of the string is rejected, wherever it is
in the list. -/
theorem merge_conflict_rejected {V} (accs : List (MAccess V)) (pre post : List (Extra V)) (x : Extra V) (n : Str)
    (hn : x.name = some n) (hk : ∃ kv ∈ x.attrs, kv.1 = "projection" ∨ kv.1 = "output") :
    mergeAll accs (pre ++ x :: post) = none := by
  apply mergeAll_none_of_mergeOne_none
  intro accs' _
  simp only [mergeOne, hn]
  split
  · rfl
  · rename_i hany
    simp only [Bool.not_eq_true', Bool.not_eq_false] at hany
    exact applyTo_none n x.attrs accs' (setAttrs_conflict x.attrs hk) hany

/-- An extra entry naming a tensor that is not in the string is rejected. -/
theorem merge_unknown_rejected {V} (accs : List (MAccess V)) (pre post : List (Extra V)) (x : Extra V) (n : Str)
    (hn : x.name = some n) (hu : ∀ a ∈ accs, a.name ≠ n) :
    mergeAll accs (pre ++ x :: post) = none := by
  apply mergeAll_none_of_mergeOne_none
  intro accs' hc
  have : accs'.any (fun b => b.name == n) = false := by
    simp only [List.any_eq_false, beq_iff_eq]
    intro b hb he
    have hm : core b ∈ accs.map core := by rw [← hc]; exact List.mem_map.mpr ⟨b, hb, rfl⟩
    obtain ⟨a, ha, hab⟩ := List.mem_map.mp hm
    have : a.name = b.name := by simpa [core] using congrArg Prod.fst hab
    exact hu a ha (this.trans he)
  simp [mergeOne, hn, this]

/-- An extra entry without a `name` is rejected. -/
theorem merge_nameless_rejected {V} (accs : List (MAccess V)) (pre post : List (Extra V)) (x : Extra V)
    (hn : x.name = none) : mergeAll accs (pre ++ x :: post) = none := by
  apply mergeAll_none_of_mergeOne_none
  intro accs' _
  simp [mergeOne, hn]

/-- `_parse_einsum_entry` as a whole: names, projections and output flags are those of the string. -/
theorem entry_preserves {V} (s : Str) (extras : List (Extra V)) (n : Str) (accs : List (MAccess V))
    (h : parseEntry s extras = some (n, accs)) :
    ∃ p, parse s = some p ∧ n = p.name ∧
      accs.map core = (collapse ([] : List (MAccess V)) (p.accesses.map ofAccess)).map core := by
  simp only [parseEntry] at h
  split at h
  · simp at h
  · rename_i p hp
    split at h
    · simp at h
    · rename_i accs' hm
      simp only [Option.some.injEq, Prod.mk.injEq] at h
      obtain ⟨rfl, rfl⟩ := h
      exact ⟨p, hp, rfl, mergeAll_core _ _ _ hm⟩

/-- For a well-formed Einsum with pairwise different tensor names, concise string + extra attributes gives
exactly the names, projections and output flags of the verbose form. -/
theorem entry_preserves_wf {V} (out : VAccess) (ins : List VAccess) (sty : List (List Bool)) (ws : Nat → Str)
    (extras : List (Extra V)) (n : Str) (accs : List (MAccess V))
    (h : WF out ins = true) (hd : ((ins ++ [out]).map (fun a => a.name)).Nodup)
    (he : parseEntry (printWs out ins sty ws) extras = some (n, accs)) :
    ∃ e, verbose out.name (ins ++ [out]) = some e ∧ n = e.name ∧
      accs.map core = e.accesses.map (fun a => (a.name, a.proj, a.output)) := by
  obtain ⟨e, hv, hp⟩ := parse_print out ins sty ws h
  obtain ⟨p, hp', hn, hc⟩ := entry_preserves _ extras n accs he
  rw [hp] at hp'
  simp only [Option.some.injEq] at hp'
  subst hp'
  refine ⟨e, hv, hn, ?_⟩
  -- names of the parsed accesses are those of the verbose accesses
  have hnames : e.accesses.map (fun a => a.name) = (ins ++ [out]).map (fun a => a.name) := by
    simp only [verbose] at hv
    split at hv
    · simp at hv
    · rename_i r hr
      simp only [Option.some.injEq] at hv
      subst hv
      simp only
      clear hp he hc hn hd h
      generalize ins ++ [out] = l at hr
      induction l generalizing r with
      | nil => simp only [normAccesses, Option.some.injEq] at hr; subst hr; rfl
      | cons a t ih =>
        simp only [normAccesses] at hr
        split at hr
        · simp at hr
        · split at hr
          · simp at hr
          · rename_i r' hr'
            simp only [Option.some.injEq] at hr
            subst hr
            simp [ih r' hr']
  have hnd : ((([] : List (MAccess V)) ++ e.accesses.map (ofAccess (V := V))).map (fun a => a.name)).Nodup := by
    have : (e.accesses.map (ofAccess (V := V))).map (fun a : MAccess V => a.name) = e.accesses.map (fun a => a.name) := by
      simp [ofAccess, List.map_map, Function.comp_def]
    simp only [List.nil_append, this, hnames]
    exact hd
  rw [hc, collapse_nodup _ _ hnd]
  simp [ofAccess, core, List.map_map, Function.comp_def]

/-! ## malformed strings -/

/-- `Grammar` on raw strings: blanks may not split a word, and the blank-free text is in the token grammar. -/
def GrammarWs (s : Str) : Prop := noSplitWord s = true ∧ Grammar (strip s)

/-- The executable recogniser (the judge used by the harness) decides the grammar of the property. -/
theorem recognise_iff_grammar (s : Str) : recognise s = true ↔ GrammarWs s := by
  simp only [recognise, Bool.and_eq_true, GrammarWs, recogniseNoWs_iff]

/-- **Malformed strings are rejected — by the repaired parser.**  Everything outside the grammar is rejected
once the missing validation is added. -/
theorem strict_rejects_malformed (s : Str) (h : recognise s = false) : parseStrict s = none := by
  cases hp : parseStrict s with
  | none => rfl
  | some e =>
    exfalso
    simp only [parseStrict] at hp
    split at hp
    · rename_i hv
      simp only [Bool.and_eq_true] at hv
      have hg := validated_grammar (t := strip s) (e := e) hp hv.2
      have : recognise s = true := (recognise_iff_grammar s).mpr ⟨hv.1, hg⟩
      rw [h] at this; exact absurd this (by decide)
    · simp at hp

/-- **Malformed strings are rejected (partial: under the validation the code does not perform).**
FULL STATEMENT (false for the code as it is, see `malformed_accepted_counterexample`):
    `∀ s, recognise s = false → parse s = none`.
Proved: if blanks do not split a word and the matched references joined by `*` account for the whole
right-hand side (no `[` inside a projection), an accepted string is in the grammar. -/
theorem malformed_rejected_partial (s : Str) (e : Parsed) (h : parse s = some e)
    (h1 : noSplitWord s = true) (h2 : validated (strip s) = true) : GrammarWs s :=
  ⟨h1, validated_grammar (t := strip s) (e := e) h h2⟩

/-- The repaired parser loses nothing: it accepts every printed well-formed Einsum, with the same result. -/
theorem strict_accepts_print (out : VAccess) (ins : List VAccess) (sty : List (List Bool)) (ws : Nat → Str)
    (h : WF out ins = true) :
    parseStrict (printWs out ins sty ws) = parse (printWs out ins sty ws) := by
  have hns := canon_no_space sty h
  have h1 : noSplitWord (printWs out ins sty ws) = true := noSplitWord_insertWs ws 0 none _ hns
  have hstrip : strip (printWs out ins sty ws) = printCanon out ins sty := by
    simp only [printWs, strip_insertWs, strip_of_no_space _ hns]
  obtain ⟨hoo, hout, hne, hins⟩ := wf_unpack h
  have hr := printVRef_refOK (sty.headD []) out hout
  have hrefs := printVRefs_refOK sty.tail ins (fun a ha => (hins a ha).2)
  have hm : matchRef (printCanon out ins sty) = some (out.name, printProjText (sty.headD []) out.proj,
      '=' :: joinWith '*' ((printVRefs sty.tail ins).map printRef)) :=
    matchRef_print _ _ _ hr.1 hr.2
  have hfind := findAll_join _ hrefs _ (Nat.le_refl (joinWith '*' ((printVRefs sty.tail ins).map printRef)).length)
  have hno : ∀ (b : List Bool) (a : VAccess), okAccess a = true → noOpen (printVRef b a).2 = true := by
    intro b a ha
    simp only [okAccess, Bool.and_eq_true] at ha
    simp only [noOpen, printVRef, Bool.not_eq_true']
    cases hc : (printProjText b a.proj).contains '[' with
    | false => rfl
    | true =>
      have hmem : '[' ∈ printProjText b a.proj := by simpa using hc
      have := printProjText_chars b a.proj ha.2 _ hmem
      simp [textChar] at this
  have hall : ∀ (sty : List (List Bool)) (ins : List VAccess), (∀ a ∈ ins, okAccess a = true) →
      ∀ m ∈ printVRefs sty ins, noOpen m.2 = true := by
    intro sty ins
    induction ins generalizing sty with
    | nil => cases sty <;> simp [printVRefs]
    | cons a r ih =>
      intro hh m hmm
      cases sty with
      | nil =>
        simp only [printVRefs, List.mem_cons] at hmm
        rcases hmm with rfl | hmm
        · exact hno [] a (hh a (by simp))
        · exact ih [] (fun x hx => hh x (by simp [hx])) m hmm
      | cons b bs =>
        simp only [printVRefs, List.mem_cons] at hmm
        rcases hmm with rfl | hmm
        · exact hno b a (hh a (by simp))
        · exact ih bs (fun x hx => hh x (by simp [hx])) m hmm
  have h2 : validated (printCanon out ins sty) = true := by
    simp only [validated, hm, rhsCovered, hfind, beq_self_eq_true, Bool.true_and, Bool.and_eq_true,
      List.all_eq_true]
    exact ⟨hno _ out hout, hall sty.tail ins (fun a ha => (hins a ha).2)⟩
  simp only [parseStrict, h1, hstrip, h2, Bool.and_self, if_true]

/-- **The code as it is accepts malformed strings** (witnesses replayed on the real code by the harness):
an unclosed last reference is silently dropped, junk glued to a tensor name, a word split by a blank. -/
theorem malformed_accepted_counterexample :
    (recognise "Z[m,n] = A[m,k] * B[k,n".toList = false ∧
      parse "Z[m,n] = A[m,k] * B[k,n".toList =
        some ⟨"Z".toList, [⟨"A".toList, [("M".toList, "m".toList), ("K".toList, "k".toList)], false⟩,
                           ⟨"Z".toList, [("M".toList, "m".toList), ("N".toList, "n".toList)], true⟩]⟩) ∧
    (recognise "Z[m] = junk A[m] + B[m]".toList = false ∧
      (parse "Z[m] = junk A[m] + B[m]".toList).map (fun p => p.accesses.map (fun a => a.name)) =
        some ["junkA".toList, "B".toList, "Z".toList]) ∧
    (recognise "Z[m] = A[K:x[m]".toList = false ∧ (parse "Z[m] = A[K:x[m]".toList).isSome = true) := by
  decide

/-- Einsums on which the two notations differ in the code as it is (all outside `WF`):
a rank-0 tensor, a rank variable reserved by `_ISL_REGEX`, a tensor used twice. -/
theorem zero_rank_counterexample :
    (verbose "Z".toList [⟨"A".toList, .list [], false⟩, ⟨"Z".toList, .list ["m".toList], true⟩]).isSome = true ∧
    parse (printCanon ⟨"Z".toList, .list ["m".toList], true⟩ [⟨"A".toList, .list [], false⟩] []) = none := by
  decide

theorem reserved_word_counterexample :
    (verbose "Z".toList [⟨"A".toList, .list ["le".toList], false⟩, ⟨"Z".toList, .list ["m".toList], true⟩]).isSome = true ∧
    parse (printCanon ⟨"Z".toList, .list ["m".toList], true⟩ [⟨"A".toList, .list ["le".toList], false⟩] []) = none := by
  decide

theorem duplicate_tensor_counterexample :
    (parseEntry (V := Unit) "Z[m] = Z[m] * A[m]".toList []).map (fun r => r.2.map (fun a => (String.ofList a.name, a.output))) =
      some [("Z", true), ("A", false)] := by
  decide

end AFV.C23
