import AFV.Model.ArchTree
import AFV.Spec.ArchTree
import AFV.Lemmas.ArchTree
/-!
# C25 — architecture flattening yields exactly the root-to-compute path
-/
namespace AFV.C25
open AFV.ArchTree

/-- A node list that contains the compute `c` (names distinct): `_flatten` stops with a list
`q ++ [l]`, `l` the compute, `q` non-compute leaves, and that list is the tree path to `c` whatever follows. -/
theorem present (c : String) (t : Nodes) (hn : (names t).Nodup) (hc : c ∈ computeNames t) :
    ∃ q l, flatten c t = some (q ++ [l]) ∧ l.compute = true ∧ l.name = c ∧ (∀ x ∈ q, x.compute = false) ∧
      ∀ k, pathForest c (toForest t k) = some (q ++ [l]) := by
  induction t with
  | nil => simp [computeNames, leaves] at hc
  | leaf l r ih =>
    rw [names_leaf] at hn
    obtain ⟨hnot, hn'⟩ := List.nodup_cons.mp hn
    by_cases hl : l.compute
    · by_cases he : l.name = c
      · refine ⟨[], l, by simp [flatten, hl, he], hl, he, by simp, fun k => ?_⟩
        simp [toForest, hl, pathForest, Tree.path, he]
      · have hne : (l.name == c) = false := by simpa using he
        have hc' : c ∈ computeNames r := by
          simp [computeNames, leaves, hl] at hc
          rcases hc with h | h
          · exact absurd h.symm he
          · simpa [computeNames] using h
        obtain ⟨q, l', h1, h2, h3, h4, h5⟩ := ih hn' hc'
        refine ⟨q, l', by simp [flatten, hl, hne, h1], h2, h3, h4, fun k => ?_⟩
        simp [toForest, hl, pathForest, Tree.path, hne, h5]
    · have hc' : c ∈ computeNames r := by
        simpa [computeNames, leaves, List.filter_cons, hl] using hc
      have he : l.name ≠ c := fun e => hnot (e ▸ computeNames_sub r c hc')
      have hne : (l.name == c) = false := by simpa using he
      obtain ⟨q, l', h1, h2, h3, h4, h5⟩ := ih hn' hc'
      refine ⟨l :: q, l', by simp [flatten, hl, h1], h2, h3, ?_, fun k => ?_⟩
      · intro x hx; simp at hx; rcases hx with rfl | hx
        · simpa using hl
        · exact h4 x hx
      · simp [toForest, hl, pathForest, Tree.path, hne, h5]
  | hier i r ihi ihr =>
    rw [names_hier] at hn
    obtain ⟨hni, hnr, hdis⟩ := List.nodup_append.mp hn
    have hc' : c ∈ computeNames i ∨ c ∈ computeNames r := by
      simpa [computeNames, leaves, List.filter_append] using hc
    rcases hc' with hci | hcr
    · obtain ⟨q, l', h1, h2, h3, h4, h5⟩ := ihi hni hci
      have hh : hasCompute c (q ++ [l']) = true := by simp [hasCompute, h2, h3]
      refine ⟨q, l', by simp [flatten, h1, hh], h2, h3, h4, fun k => ?_⟩
      simp [toForest, h5]
    · have hci : c ∉ names i := fun h => hdis c h c (computeNames_sub r c hcr) rfl
      obtain ⟨a1, a2⟩ := absent c i hci
      obtain ⟨q, l', h1, h2, h3, h4, h5⟩ := ihr hnr hcr
      refine ⟨chain i ++ q, l', by simp [flatten, a1, hasCompute_chain, h1], h2, h3, ?_, fun k => ?_⟩
      · intro x hx; simp at hx; rcases hx with hx | hx
        · exact chain_noncompute i x hx
        · exact h4 x hx
      · simp [toForest, a2, h5]
  | fork i r ihi ihr =>
    rw [names_fork] at hn
    obtain ⟨hni, hnr, hdis⟩ := List.nodup_append.mp hn
    have hc' : c ∈ computeNames i ∨ c ∈ computeNames r := by
      simpa [computeNames, leaves, List.filter_append] using hc
    rcases hc' with hci | hcr
    · obtain ⟨q, l', h1, h2, h3, h4, h5⟩ := ihi hni hci
      have hh : hasCompute c (q ++ [l']) = true := by simp [hasCompute, h2, h3]
      have hf : find c i = true := (find_iff c i).mpr (computeNames_sub i c hci)
      refine ⟨q, l', by simp [flatten, hf, h1, hh], h2, h3, h4, fun k => ?_⟩
      simp [toForest, pathForest_append, h5]
    · have hci : c ∉ names i := fun h => hdis c h c (computeNames_sub r c hcr) rfl
      obtain ⟨_, a2⟩ := absent c i hci
      have hf : find c i = false := by
        cases hfi : find c i with
        | false => rfl
        | true => exact absurd ((find_iff c i).mp hfi) hci
      obtain ⟨q, l', h1, h2, h3, h4, h5⟩ := ihr hnr hcr
      refine ⟨q, l', by simp [flatten, hf, h1], h2, h3, h4, fun k => ?_⟩
      simp [toForest, pathForest_append, a2, pathForest, h5]

/-! ## The property -/

/-- **C25, main theorem.** For every architecture tree with distinct leaf names and every compute node `c`
in it, `_flatten` returns exactly the root-to-`c` path of the tree. -/
theorem flatten_eq_path (t : Nodes) (c : String) (hn : (names t).Nodup) (hc : c ∈ computeNames t) :
    flatten c t = path t c ∧ (flatten c t).isSome := by
  obtain ⟨q, l, h1, _, _, _, h5⟩ := present c t hn hc
  simp [path, h1, h5 []]

/-- The flattened list is `non-compute leaves ++ [the compute]`. -/
theorem flatten_last (t : Nodes) (c : String) (hn : (names t).Nodup) (hc : c ∈ computeNames t) :
    ∃ q l, flatten c t = some (q ++ [l]) ∧ l.compute = true ∧ l.name = c ∧ ∀ x ∈ q, x.compute = false := by
  obtain ⟨q, l, h1, h2, h3, h4, _⟩ := present c t hn hc
  exact ⟨q, l, h1, h2, h3, h4⟩

/-- Other compute nodes are excluded: the only compute in the result is `c`. -/
theorem other_compute_excluded (t : Nodes) (c : String) (hn : (names t).Nodup) (hc : c ∈ computeNames t)
    (p : List LeafInfo) (hp : flatten c t = some p) : ∀ x ∈ p, x.compute = true → x.name = c := by
  obtain ⟨q, l, h1, _, h3, h4, _⟩ := present c t hn hc
  rw [h1] at hp
  cases hp
  intro x hx hxc
  simp at hx
  rcases hx with hx | rfl
  · simp [h4 x hx] at hxc
  · exact h3

/-- What `Spec._get_flattened_architecture(c)` returns for a valid query: the path, no exception. -/
theorem getFlattened_ok (t : Nodes) (c : String) (hn : (names t).Nodup) (hc : c ∈ computeNames t) :
    ∃ p, path t c = some p ∧ getFlattened t c = .ok p := by
  obtain ⟨q, l, h1, _, h3, _, h5⟩ := present c t hn hc
  refine ⟨q ++ [l], by simp [path, h5 []], ?_⟩
  have hd : hasDup (names t) = false := by
    have : ∀ l : List String, l.Nodup → hasDup l = false := by
      intro l hl
      induction l with
      | nil => rfl
      | cons x xs ih =>
        obtain ⟨h1, h2⟩ := List.nodup_cons.mp hl
        simp [hasDup, ih h2, h1]
    exact this _ hn
  simp [getFlattened, hd, h1, h3]

/-- Names of the leaves inside forks that do not contain `c` (outermost such forks, everything inside). -/
def forkExcluded (c : String) : Nodes → List String
  | .nil => []
  | .leaf _ r => forkExcluded c r
  | .hier i r => forkExcluded c i ++ forkExcluded c r
  | .fork i r => (if find c i then forkExcluded c i else names i) ++ forkExcluded c r

theorem forkExcluded_sub (c : String) (t : Nodes) : ∀ n ∈ forkExcluded c t, n ∈ names t := by
  induction t with
  | nil => simp [forkExcluded]
  | leaf l r ih => intro n hn; rw [names_leaf]; exact List.mem_cons_of_mem _ (ih n hn)
  | hier i r ihi ihr =>
    intro n hn; rw [names_hier]; simp [forkExcluded] at hn ⊢
    rcases hn with h | h; exact Or.inl (ihi n h); exact Or.inr (ihr n h)
  | fork i r ihi ihr =>
    intro n hn; rw [names_fork]; simp only [forkExcluded, List.mem_append] at hn ⊢
    rcases hn with h | h
    · left; split at h
      · exact ihi n h
      · exact h
    · exact Or.inr (ihr n h)

theorem flatten_sub (c : String) (t : Nodes) : ∀ p, flatten c t = some p → ∀ x ∈ p, x.name ∈ names t := by
  induction t with
  | nil => intro p hp; simp [flatten] at hp; subst hp; simp
  | leaf l r ih =>
    intro p hp x hx
    rw [names_leaf]
    by_cases hl : l.compute
    · by_cases he : l.name = c
      · simp [flatten, hl, he] at hp; subst hp; simp at hx; simp [hx]
      · have hne : (l.name == c) = false := by simpa using he
        simp [flatten, hl, hne] at hp
        exact List.mem_cons_of_mem _ (ih p hp x hx)
    · simp [flatten, hl] at hp
      obtain ⟨p', hp', rfl⟩ := hp
      simp at hx
      rcases hx with rfl | hx
      · simp
      · exact List.mem_cons_of_mem _ (ih p' hp' x hx)
  | hier i r ihi ihr =>
    intro p hp x hx
    rw [names_hier, List.mem_append]
    simp only [flatten] at hp
    cases hi : flatten c i with
    | none => simp [hi] at hp
    | some new =>
      simp only [hi] at hp
      split at hp
      · cases hp; exact Or.inl (ihi _ hi x hx)
      · simp at hp
        obtain ⟨p', hp', rfl⟩ := hp
        simp at hx
        rcases hx with hx | hx
        · exact Or.inl (ihi new hi x hx)
        · exact Or.inr (ihr p' hp' x hx)
  | fork i r ihi ihr =>
    intro p hp x hx
    rw [names_fork, List.mem_append]
    simp only [flatten] at hp
    split at hp
    · exact Or.inr (ihr p hp x hx)
    · cases hi : flatten c i with
      | none => simp [hi] at hp
      | some new =>
        simp only [hi] at hp
        split at hp
        · cases hp; exact Or.inl (ihi _ hi x hx)
        · cases hp

/-- **Forks that do not contain the compute are excluded**: no leaf of such a fork appears in the result. -/
theorem fork_excluded (c : String) (t : Nodes) (hn : (names t).Nodup) :
    ∀ p, flatten c t = some p → ∀ x ∈ p, x.name ∉ forkExcluded c t := by
  induction t with
  | nil => intro p _ x _; simp [forkExcluded]
  | leaf l r ih =>
    rw [names_leaf] at hn
    obtain ⟨hnot, hn'⟩ := List.nodup_cons.mp hn
    intro p hp x hx
    simp only [forkExcluded]
    by_cases hl : l.compute
    · by_cases he : l.name = c
      · simp [flatten, hl, he] at hp; subst hp; simp at hx; subst hx
        exact fun h => hnot (forkExcluded_sub c r _ h)
      · have hne : (l.name == c) = false := by simpa using he
        simp [flatten, hl, hne] at hp
        exact ih hn' p hp x hx
    · simp [flatten, hl] at hp
      obtain ⟨p', hp', rfl⟩ := hp
      simp at hx
      rcases hx with rfl | hx
      · exact fun h => hnot (forkExcluded_sub c r _ h)
      · exact ih hn' p' hp' x hx
  | hier i r ihi ihr =>
    rw [names_hier] at hn
    obtain ⟨hni, hnr, hdis⟩ := List.nodup_append.mp hn
    intro p hp x hx
    simp only [forkExcluded, List.mem_append, not_or]
    have inI : ∀ new, flatten c i = some new → x ∈ new →
        x.name ∉ forkExcluded c i ∧ x.name ∉ forkExcluded c r := fun new hi hx =>
      ⟨ihi hni new hi x hx, fun h => hdis _ (flatten_sub c i new hi x hx) _ (forkExcluded_sub c r _ h) rfl⟩
    simp only [flatten] at hp
    cases hi : flatten c i with
    | none => simp [hi] at hp
    | some new =>
      simp only [hi] at hp
      split at hp
      · cases hp; exact inI _ hi hx
      · simp at hp
        obtain ⟨p', hp', rfl⟩ := hp
        simp at hx
        rcases hx with hx | hx
        · exact inI new hi hx
        · exact ⟨fun h => hdis _ (forkExcluded_sub c i _ h) _ (flatten_sub c r p' hp' x hx) rfl,
                 ihr hnr p' hp' x hx⟩
  | fork i r ihi ihr =>
    rw [names_fork] at hn
    obtain ⟨hni, hnr, hdis⟩ := List.nodup_append.mp hn
    intro p hp x hx
    simp only [forkExcluded, List.mem_append, not_or]
    simp only [flatten] at hp
    split at hp
    next hf =>
      have hf' : find c i = false := by simpa using hf
      have hxr := flatten_sub c r p hp x hx
      refine ⟨?_, ihr hnr p hp x hx⟩
      simp only [hf']
      exact fun h => hdis _ h _ hxr rfl
    next hf =>
      have hf' : find c i = true := by simpa using hf
      cases hi : flatten c i with
      | none => simp [hi] at hp
      | some new =>
        simp only [hi] at hp
        split at hp
        · cases hp
          refine ⟨?_, fun h => hdis _ (flatten_sub c i _ hi x hx) _ (forkExcluded_sub c r _ h) rfl⟩
          simp only [hf']
          exact ihi hni _ hi x hx
        · cases hp

/-! ## Non-vacuity: a tree with a fork, a nested hierarchy, a sibling compute -/

def L (n : String) : LeafInfo := ⟨n, false, true, 1, 0, 0⟩
def K (n : String) : LeafInfo := ⟨n, true, true, 1, 0, 0⟩

/-- `[Main, Fork[T, Hier[C0, S]], Buf, MAC0, Hier[Reg], Fork[F2, X], MAC]` -/
def demo : Nodes :=
  .leaf (L "Main") (.fork (.leaf (L "T") (.hier (.leaf (L "C0") (.leaf (K "S") .nil)) .nil))
    (.leaf (L "Buf") (.leaf (K "MAC0") (.hier (.leaf (L "Reg") .nil)
      (.fork (.leaf (L "F2") (.leaf (K "X") .nil)) (.leaf (K "MAC") .nil))))))

example : (names demo).Nodup := by decide
example : "MAC" ∈ computeNames demo ∧ "S" ∈ computeNames demo := by decide
example : (flatten "MAC" demo).map (·.map (·.name)) = some ["Main", "Buf", "Reg", "MAC"] := by decide
example : (flatten "S" demo).map (·.map (·.name)) = some ["Main", "T", "C0", "S"] := by decide
example : (flatten "X" demo).map (·.map (·.name)) = some ["Main", "Buf", "Reg", "F2", "X"] := by decide
example : forkExcluded "MAC" demo = ["T", "C0", "S", "F2", "X"] := by decide
example : flatten "MAC" demo = path demo "MAC" := by decide

end AFV.C25
