import AFV.Lemmas.TopoEval
/-!
# C21 — spec expressions evaluate in dependency order with correct scoping

Model: `AFV/Model/Topo.lean` (`order` = `_get_parsable_field_order`, `evalOrder`/`evalScopeG` =
`_eval_expressions_final`, `evalAll` = `Spec._spec_eval_expressions` threading the symbol table through
spec variables ⊃ arch variables ⊃ component attributes ⊃ the component's own fields).
Reference notions: `AFV/Spec/Topo.lean` (`Dep`, `Cyclic`, `Sem`, `ResEquiv`).

Well-formedness (`WF pre fields`): field names are distinct (dict keys / pydantic fields) and pre-ordered fields are
not integer definitions (in the code they are the nested objects `variables`, `extra_attributes_for_…`).

Built into the model as observed on the current tree: a name used in its own definition denotes the *enclosing*
scope's value (`arch.variables.a: a + 1` with `variables.a: 5` gives 6) and an undefined name raises
`EvaluationError` (`Err.undefined`); that is why `Sem` uses `selfEnv`.
-/
namespace AFV.C21
open AFV.Topo Relation

set_option linter.unusedSectionVars false
variable {α : Type} [DecidableEq α]

/-! ## ordering -/

/-- The result starts with the pre-ordered fields, then the non-evaluated fields, then a permutation of the
fields that go through the dependency sort. -/
theorem order_prefix {pre : List α} {fields : List (Field α)} (hn : (names fields).Nodup) {out : List α}
    (h : order pre fields = .ok out) :
    ∃ suf, out = pre ++ names (plainPart pre fields) ++ suf ∧ suf.Perm (names (sortedPart pre fields)) := by
  obtain ⟨suf, h1, h2, _⟩ := order_ok_spec hn h
  exact ⟨suf, h1, h2⟩

/-- `order_perm`: the output is the pre-ordered names followed by a permutation of all remaining field names. -/
theorem order_perm {pre : List α} {fields : List (Field α)} (hn : (names fields).Nodup) {out : List α}
    (h : order pre fields = .ok out) :
    out.Perm (pre ++ names (fields.filter (fun f => decide (f.name ∉ pre)))) := by
  obtain ⟨suf, h1, h2⟩ := order_prefix hn h
  rw [h1, List.append_assoc]
  apply List.Perm.append_left
  have h3 : (names (plainPart pre fields) ++ suf).Perm
      (names (plainPart pre fields) ++ names (sortedPart pre fields)) := List.Perm.append_left _ h2
  refine h3.trans ?_
  have hp : plainPart pre fields = (fields.filter (fun f => decide (f.name ∉ pre))).filter (fun f => !f.evaluated) := by
    simp [plainPart, List.filter_filter, Bool.and_comm]
  have hs : sortedPart pre fields = (fields.filter (fun f => decide (f.name ∉ pre))).filter (fun f => !!f.evaluated) := by
    simp [sortedPart, List.filter_filter, Bool.and_comm]
  rw [hp, hs, names, names, ← List.map_append]
  exact (List.filter_append_perm _ _).map _

/-- With no pre-ordered fields (every `EvalExtras` dictionary) the output is a permutation of the field names. -/
theorem order_perm_nil {fields : List (Field α)} (hn : (names fields).Nodup) {out : List α}
    (h : order [] fields = .ok out) : out.Perm (names fields) := by
  have := order_perm hn h
  have hf : fields.filter (fun f => decide (f.name ∉ ([] : List α))) = fields := by
    apply List.filter_eq_self.mpr; intro a _; simp
  rw [hf] at this
  simpa using this

/-- `order_respects_deps`: every field comes after every other sorted field its value mentions. -/
theorem order_respects_deps {pre : List α} {fields : List (Field α)} (hn : (names fields).Nodup) {out : List α}
    (h : order pre fields = .ok out) {x y : α} (hxy : Dep pre fields x y) :
    ∀ l1 l2, out = l1 ++ x :: l2 → y ∈ l1 := by
  obtain ⟨suf, h1, _, h3⟩ := order_ok_spec hn h
  intro l1 l2 hs
  have hx0 : x ∉ pre ++ names (plainPart pre fields) := by
    obtain ⟨f, hf, rfl, _⟩ := hxy
    have hfs := mem_sortedPart.mp hf
    intro hin
    rcases List.mem_append.mp hin with h' | h'
    · exact hfs.2.1 h'
    · obtain ⟨p, hp, hpn⟩ := List.mem_map.mp h'
      have hpp := mem_plainPart.mp hp
      have : p = f := eq_of_name_eq hn hpp.1 hfs.1 hpn
      subst this
      rw [hfs.2.2] at hpp
      exact absurd hpp.2.2 (by simp)
  rw [h1] at hs
  rcases List.append_eq_append_iff.mp hs with ⟨a', ha, hb⟩ | ⟨c', hc, hd⟩
  · rw [ha]
    exact List.mem_append.mpr (Or.inr (h3 x y hxy a' l2 hb))
  · cases c' with
    | nil =>
      simp only [List.nil_append] at hd
      have := h3 x y hxy [] l2 hd.symm
      cases this
    | cons c c'' =>
      simp only [List.cons_append, List.cons.injEq] at hd
      exact absurd (by rw [hc, hd.1]; simp) hx0

/-- `order_ok_iff_acyclic`: the ordering fails **iff** the definitions contain a dependency cycle. -/
theorem order_ok_iff_acyclic {pre : List α} {fields : List (Field α)} (hn : (names fields).Nodup) :
    (∃ out, order pre fields = .ok out) ↔ ¬ Cyclic pre fields := by
  constructor
  · rintro ⟨out, h⟩ ⟨x, hx⟩
    obtain ⟨suf, hg⟩ := goodOrder_of_ok hn h
    exact Nat.lt_irrefl _ (dep_idx_lt hg.nodup hg.perm hg.dep hx)
  · intro hc
    cases h : order pre fields with
    | ok out => exact ⟨out, rfl⟩
    | error stuck =>
      obtain ⟨hne, _, hS⟩ := order_err_spec hn h
      obtain ⟨x, _, hx⟩ := exists_cycle (Dep pre fields) stuck hne hS
      exact absurd ⟨x, hx⟩ hc

/-- `cycle_raises`: a dependency cycle makes the evaluation of the object raise the circular-dependency error, and the
reported fields are exactly a non-empty set of sorted fields each of which depends on a reported field. -/
theorem cycle_raises {pre : List α} {fields : List (Field α)} (hn : (names fields).Nodup)
    (hc : Cyclic pre fields) (outer : Table α) :
    ∃ stuck, evalScopeG outer pre fields = .error (.cycle stuck) ∧ stuck ≠ [] ∧
      ∀ x ∈ stuck, ∃ y ∈ stuck, Dep pre fields x y := by
  unfold evalScopeG
  cases h : order pre fields with
  | ok out => exact absurd hc ((order_ok_iff_acyclic hn).mp ⟨out, h⟩)
  | error stuck =>
    obtain ⟨hne, _, hS⟩ := order_err_spec hn h
    exact ⟨stuck, rfl, hne, hS⟩

theorem evalOrder_error_undefined (fields : List (Field α)) :
    ∀ (xs : List α) (st : Table α) (e : Err α), evalOrder fields xs st = .error e → ∃ x, e = .undefined x := by
  intro xs
  induction xs with
  | nil => intro st e h; simp [evalOrder] at h
  | cons x xs ih =>
    intro st e h
    cases he : exprOf fields x with
    | none => rw [evalOrder_cons_none he] at h; exact ih st e h
    | some ex =>
      cases hv : ex.eval st.get with
      | none =>
        rw [evalOrder_cons_undef he xs hv] at h
        exact ⟨x, by cases h; rfl⟩
      | some v => rw [evalOrder_cons_some he xs hv] at h; exact ih _ e h

/-- The circular-dependency error is raised **only** for a cycle. -/
theorem cycle_error_only_if_cyclic {pre : List α} {fields : List (Field α)} (hn : (names fields).Nodup)
    {outer : Table α} {stuck : List α} (h : evalScopeG outer pre fields = .error (.cycle stuck)) :
    Cyclic pre fields := by
  unfold evalScopeG at h
  cases ho : order pre fields with
  | error s =>
    apply Classical.byContradiction
    intro hc
    obtain ⟨out, hout⟩ := (order_ok_iff_acyclic hn).mpr hc
    rw [ho] at hout; cases hout
  | ok out =>
    rw [ho] at h
    obtain ⟨x, hx⟩ := evalOrder_error_undefined fields out outer _ h
    cases hx

/-- The model's order always passes the executable validity check the driver applies to the implementation's order. -/
theorem order_valid {pre : List α} {fields : List (Field α)} (hn : (names fields).Nodup) {out : List α}
    (h : order pre fields = .ok out) : validOrder pre fields out = true := by
  obtain ⟨suf, hg⟩ := goodOrder_of_ok hn h
  unfold validOrder
  simp only [Bool.and_eq_true, beq_iff_eq, List.all_eq_true, decide_eq_true_eq]
  have htake : out.take (pre ++ names (plainPart pre fields)).length = pre ++ names (plainPart pre fields) := by
    rw [hg.out_eq]; exact List.take_left
  have hdrop : out.drop (pre ++ names (plainPart pre fields)).length = suf := by
    rw [hg.out_eq]; exact List.drop_left
  refine ⟨⟨htake, ?_⟩, ?_⟩
  · rw [hdrop]; exact List.isPerm_iff.mpr hg.perm
  · intro f hf g hgd
    rw [hdrop]
    exact dep_idx_lt hg.nodup hg.perm hg.dep (.single ((mem_depsIn_iff hn hf g).mp hgd))

/-! ## evaluation -/

/-- `eval_fixpoint`: after a successful evaluation every defined name has the value of its expression over the
final table (inner definitions shadow the enclosing table), its own occurrence denoting the enclosing value; all
other names keep the enclosing value. -/
theorem eval_fixpoint {pre : List α} {fields : List (Field α)} (hw : WF pre fields) {outer st : Table α}
    (h : evalScopeG outer pre fields = .ok st) : Sem outer.get fields st.get := by
  unfold evalScopeG at h
  cases ho : order pre fields with
  | error s => rw [ho] at h; cases h
  | ok out =>
    rw [ho] at h
    obtain ⟨suf, hg⟩ := goodOrder_of_ok hw.nodup ho
    exact evalOrder_sem hw hg h

/-- An acyclic scope has at most one meaning: the values are determined by the definitions alone. -/
theorem sem_unique {pre : List α} {fields : List (Field α)} (hw : WF pre fields) (hc : ¬ Cyclic pre fields)
    {outer t t' : α → Option Int} (h : Sem outer fields t) (h' : Sem outer fields t') : ∀ y, t y = t' y := by
  obtain ⟨out, ho⟩ := (order_ok_iff_acyclic hw.nodup).mpr hc
  obtain ⟨suf, hg⟩ := goodOrder_of_ok hw.nodup ho
  exact sem_unique_of_order hw hg h h'

/-- Completeness: if an acyclic scope has a meaning at all, evaluation succeeds and returns it
(so `Err.undefined` is raised only when some definition has no value). -/
theorem eval_complete {pre : List α} {fields : List (Field α)} (hw : WF pre fields) (hc : ¬ Cyclic pre fields)
    {outer : Table α} {t : α → Option Int} (hs : Sem outer.get fields t) :
    ∃ st, evalScopeG outer pre fields = .ok st ∧ ∀ y, st.get y = t y := by
  obtain ⟨out, ho⟩ := (order_ok_iff_acyclic hw.nodup).mpr hc
  obtain ⟨suf, hg⟩ := goodOrder_of_ok hw.nodup ho
  obtain ⟨st, hst⟩ := evalOrder_complete hw hg hs
  refine ⟨st, by unfold evalScopeG; rw [ho]; exact hst, ?_⟩
  exact sem_unique_of_order hw hg (evalOrder_sem hw hg hst) hs

/-! ## key order -/

theorem sortedPart_perm {pre : List α} {fields fields' : List (Field α)} (hp : fields.Perm fields') :
    (sortedPart pre fields).Perm (sortedPart pre fields') := hp.filter _

theorem dep_perm {pre : List α} {fields fields' : List (Field α)} (hp : fields.Perm fields') {x y : α}
    (h : Dep pre fields x y) : Dep pre fields' x y := by
  obtain ⟨f, hf, h1, h2, h3, g, hg, h4⟩ := h
  exact ⟨f, (sortedPart_perm hp).mem_iff.mp hf, h1, h2, h3, g, (sortedPart_perm hp).mem_iff.mp hg, h4⟩

theorem cyclic_perm {pre : List α} {fields fields' : List (Field α)} (hp : fields.Perm fields')
    (h : Cyclic pre fields) : Cyclic pre fields' := by
  obtain ⟨x, hx⟩ := h
  exact ⟨x, transGen_mono (fun a b hab => .single (dep_perm hp hab)) hx⟩

theorem sem_perm {fields fields' : List (Field α)} (hp : fields.Perm fields') {outer t : α → Option Int}
    (h : Sem outer fields t) : Sem outer fields' t := by
  refine ⟨fun f hf e he => h.1 f (hp.mem_iff.mpr hf) e he, fun y hy => h.2 y ?_⟩
  rintro ⟨f, hf, h1, h2⟩
  exact hy ⟨f, hp.mem_iff.mp hf, h1, h2⟩

theorem wf_perm {pre : List α} {fields fields' : List (Field α)} (hp : fields.Perm fields')
    (hw : WF pre fields) : WF pre fields' :=
  ⟨(hp.map _).nodup_iff.mp hw.nodup, fun f hf => hw.pre_noexpr f (hp.mem_iff.mpr hf)⟩

/-- `eval_key_order_irrelevant`: listing the same definitions in another order gives the same values, or the same
kind of error.  (Proved for the ordering loop itself, i.e. without relying on `get_fields()` sorting the keys.) -/
theorem eval_key_order_irrelevant {pre : List α} {fields fields' : List (Field α)} (hw : WF pre fields)
    (hp : fields.Perm fields') (outer : Table α) :
    ResEquiv (evalScopeG outer pre fields) (evalScopeG outer pre fields') := by
  have hw' := wf_perm hp hw
  unfold evalScopeG
  cases h1 : order pre fields with
  | error s1 =>
    cases h2 : order pre fields' with
    | error s2 => simp [ResEquiv]
    | ok out2 =>
      have hc : Cyclic pre fields := by
        apply Classical.byContradiction
        intro hc
        obtain ⟨out, ho⟩ := (order_ok_iff_acyclic hw.nodup).mpr hc
        rw [h1] at ho; cases ho
      exact absurd (cyclic_perm hp hc) ((order_ok_iff_acyclic hw'.nodup).mp ⟨out2, h2⟩)
  | ok out1 =>
    cases h2 : order pre fields' with
    | error s2 =>
      have hc : Cyclic pre fields' := by
        apply Classical.byContradiction
        intro hc
        obtain ⟨out, ho⟩ := (order_ok_iff_acyclic hw'.nodup).mpr hc
        rw [h2] at ho; cases ho
      exact absurd (cyclic_perm hp.symm hc) ((order_ok_iff_acyclic hw.nodup).mp ⟨out1, h1⟩)
    | ok out2 =>
      obtain ⟨suf1, hg1⟩ := goodOrder_of_ok hw.nodup h1
      obtain ⟨suf2, hg2⟩ := goodOrder_of_ok hw'.nodup h2
      simp only
      cases e1 : evalOrder fields out1 outer with
      | ok st1 =>
        have hs1 := evalOrder_sem hw hg1 e1
        cases e2 : evalOrder fields' out2 outer with
        | ok st2 =>
          have hs2 := evalOrder_sem hw' hg2 e2
          exact sem_unique_of_order hw hg1 hs1 (sem_perm hp.symm hs2)
        | error err =>
          obtain ⟨st, hst⟩ := evalOrder_complete hw' hg2 (sem_perm hp hs1)
          rw [e2] at hst; cases hst
      | error err1 =>
        obtain ⟨x1, rfl⟩ := evalOrder_error_undefined _ _ _ _ e1
        cases e2 : evalOrder fields' out2 outer with
        | ok st2 =>
          have hs2 := evalOrder_sem hw' hg2 e2
          obtain ⟨st, hst⟩ := evalOrder_complete hw hg1 (sem_perm hp.symm hs2)
          rw [e1] at hst; cases hst
        | error err2 =>
          obtain ⟨x2, rfl⟩ := evalOrder_error_undefined _ _ _ _ e2
          simp [ResEquiv]

/-- The result depends on the enclosing table only through its bindings. -/
theorem eval_outer_congr (pre : List α) (fields : List (Field α)) {outer outer' : Table α}
    (h : ∀ y, outer.get y = outer'.get y) :
    ResEquiv (evalScopeG outer pre fields) (evalScopeG outer' pre fields) := by
  unfold evalScopeG
  cases order pre fields with
  | error s => simp [ResEquiv]
  | ok out => exact evalOrder_congr fields out outer outer' h

/-! ## dictionaries of definitions (`EvalExtras`): sorted keys, then the general loop -/

theorem insertBy_perm {β : Type} (le : β → β → Bool) (a : β) (l : List β) : (insertBy le a l).Perm (a :: l) := by
  induction l with
  | nil => simp [insertBy]
  | cons b l ih =>
    unfold insertBy
    split
    · exact List.Perm.refl _
    · exact (List.Perm.cons b ih).trans (List.Perm.swap a b l)

theorem sortBy_perm {β : Type} (le : β → β → Bool) (l : List β) : (sortBy le l).Perm l := by
  induction l with
  | nil => exact List.Perm.refl _
  | cons a l ih => exact (insertBy_perm le a _).trans (List.Perm.cons a ih)

theorem names_defFields (defs : List (Def α)) : names (defFields defs) = defs.map (·.name) := by
  simp [names, defFields, Def.toField, List.map_map, Function.comp_def]

theorem wf_defs {defs : List (Def α)} (h : DefsWF defs) : WF [] (defFields defs) :=
  ⟨by rw [names_defFields]; exact h, fun _ _ hp => by cases hp⟩

theorem evalScope_eq (le : α → α → Bool) (outer : Table α) (defs : List (Def α)) :
    evalScope le outer defs = evalScopeG outer [] (defFields (sortBy (fun a b => le a.name b.name) defs)) := rfl

theorem defFields_perm {defs defs' : List (Def α)} (h : defs.Perm defs') :
    (defFields defs).Perm (defFields defs') := h.map _

/-- `evalScope` (keys sorted first) returns a meaning of the dictionary. -/
theorem evalScope_sem {le : α → α → Bool} {defs : List (Def α)} (hw : DefsWF defs) {outer t : Table α}
    (h : evalScope le outer defs = .ok t) : Sem outer.get (defFields defs) t.get := by
  rw [evalScope_eq] at h
  have hp := defFields_perm (sortBy_perm (fun a b => le a.name b.name) defs)
  exact sem_perm hp (eval_fixpoint (wf_perm hp.symm (wf_defs hw)) h)

/-- `inner_shadows_outer` for one dictionary evaluated inside an enclosing table: every name defined here gets the
value of **its own** definition (whatever the enclosing table binds it to), other definitions see that inner value,
the name's own occurrence sees the enclosing value, and names not defined here keep the enclosing value. -/
theorem inner_shadows_outer {le : α → α → Bool} {defs : List (Def α)} (hw : DefsWF defs) {outer t : Table α}
    (h : evalScope le outer defs = .ok t) :
    (∀ d ∈ defs, ∃ v, t.get d.name = some v ∧ d.expr.eval (selfEnv outer.get t.get d.name) = some v) ∧
    (∀ y, y ∉ defs.map (·.name) → t.get y = outer.get y) := by
  have hs := evalScope_sem hw h
  constructor
  · intro d hd
    exact hs.1 d.toField (List.mem_map.mpr ⟨d, hd, rfl⟩) d.expr rfl
  · intro y hy
    apply hs.2
    rintro ⟨f, hf, hname, _⟩
    obtain ⟨d, hd, rfl⟩ := List.mem_map.mp hf
    exact hy (List.mem_map.mpr ⟨d, hd, hname⟩)

theorem resEquiv_trans {a b c : Except (Err α) (Table α)} (h1 : ResEquiv a b) (h2 : ResEquiv b c) :
    ResEquiv a c := by
  rcases a with (_ | _) | ta <;> rcases b with (_ | _) | tb <;> rcases c with (_ | _) | tc <;>
    simp_all [ResEquiv]

/-- Key order and (extensionally equal) enclosing tables do not matter for a dictionary. -/
theorem evalScope_key_order_irrelevant {le le' : α → α → Bool} {defs defs' : List (Def α)} (hw : DefsWF defs)
    (hp : defs.Perm defs') {outer outer' : Table α} (ho : ∀ y, outer.get y = outer'.get y) :
    ResEquiv (evalScope le outer defs) (evalScope le' outer' defs') := by
  rw [evalScope_eq, evalScope_eq]
  have p1 := defFields_perm (sortBy_perm (fun a b => le a.name b.name) defs)
  have p2 := defFields_perm (sortBy_perm (fun a b => le' a.name b.name) defs')
  have hpp := p1.trans ((defFields_perm hp).trans p2.symm)
  exact resEquiv_trans (eval_key_order_irrelevant (wf_perm p1.symm (wf_defs hw)) hpp outer)
    (eval_outer_congr _ _ ho)

/-! ## the whole spec: spec variables ⊃ arch variables ⊃ component attributes ⊃ component fields -/

theorem wf_comp {le : α → α → Bool} {c : Comp α} (h : CompWF c) :
    WF c.pre (sortBy (fun a b => le a.name b.name) c.fields) :=
  wf_perm (sortBy_perm _ _).symm ⟨h.2.1, h.2.2⟩

theorem evalComps_sem {le : α → α → Bool} {arch : Table α} :
    ∀ {comps : List (Comp α)} {cs : List (CompOut α)}, (∀ c ∈ comps, CompWF c) →
      evalComps le arch comps = .ok cs →
      All2 (fun (c : Comp α) (co : CompOut α) =>
        Sem arch.get (defFields c.attrs) co.attrs.get ∧ Sem co.attrs.get c.fields co.own.get) comps cs := by
  intro comps
  induction comps with
  | nil => intro cs _ h; simp only [evalComps, Except.ok.injEq] at h; subst h; exact .nil
  | cons c comps ih =>
    intro cs hw h
    simp only [evalComps] at h
    cases hc : evalComp le arch c with
    | error e => rw [hc] at h; cases h
    | ok o =>
      rw [hc] at h
      simp only at h
      cases hr : evalComps le arch comps with
      | error e => rw [hr] at h; cases h
      | ok os =>
        rw [hr] at h
        simp only [Except.ok.injEq] at h
        subst h
        refine .cons ?_ (ih (fun c' hc' => hw c' (List.mem_cons_of_mem _ hc')) hr)
        have hwc := hw c (by simp)
        unfold evalComp at hc
        cases h3 : evalScope le arch c.attrs with
        | error e => rw [h3] at hc; cases hc
        | ok t3 =>
          rw [h3] at hc
          simp only at hc
          cases h4 : evalScopeG t3 c.pre (sortBy (fun a b => le a.name b.name) c.fields) with
          | error e => rw [h4] at hc; cases hc
          | ok t4 =>
            rw [h4] at hc
            simp only [Except.ok.injEq] at hc
            subst hc
            exact ⟨evalScope_sem hwc.1 h3, sem_perm (sortBy_perm _ _) (eval_fixpoint (wf_comp hwc) h4)⟩

/-- **Scoping theorem.** A successful `evalAll` returns *the* meaning of the spec: every scope's values satisfy
its definitions relative to the enclosing scope's table. -/
theorem evalAll_sem {le : α → α → Bool} {s : Spec3 α} (hw : SpecWF s) {o : Out α}
    (h : evalAll le s = .ok o) : SemAll s o := by
  unfold evalAll at h
  cases h1 : evalScope le [] s.specVars with
  | error e => rw [h1] at h; cases h
  | ok t1 =>
    rw [h1] at h
    simp only at h
    cases h2 : evalScope le t1 s.archVars with
    | error e => rw [h2] at h; cases h
    | ok t2 =>
      rw [h2] at h
      simp only at h
      cases h3 : evalComps le t2 s.comps with
      | error e => rw [h3] at h; cases h
      | ok cs =>
        rw [h3] at h
        simp only [Except.ok.injEq] at h
        subst h
        exact ⟨evalScope_sem hw.1 h1, evalScope_sem hw.2.1 h2, evalComps_sem hw.2.2 h3⟩

/-- Consequence for lookups: what a component sees for a name it does not define is the arch-level value, what the
arch level sees for a name it does not define is the spec-level value, and undefined names are unbound. -/
theorem scope_chain {le : α → α → Bool} {s : Spec3 α} (hw : SpecWF s) {o : Out α} (h : evalAll le s = .ok o) :
    (∀ y, y ∉ s.specVars.map (·.name) → o.spec.get y = none) ∧
    (∀ y, y ∉ s.archVars.map (·.name) → o.arch.get y = o.spec.get y) ∧
    All2 (fun (c : Comp α) (co : CompOut α) => ∀ y, y ∉ c.attrs.map (·.name) → co.attrs.get y = o.arch.get y)
      s.comps o.comps := by
  obtain ⟨h1, h2, h3⟩ := evalAll_sem hw h
  have key : ∀ (defs : List (Def α)) y, y ∉ defs.map (·.name) → ¬ isExprName (defFields defs) y := by
    rintro defs y hy ⟨f, hf, hname, _⟩
    obtain ⟨d, hd, rfl⟩ := List.mem_map.mp hf
    exact hy (List.mem_map.mpr ⟨d, hd, hname⟩)
  refine ⟨fun y hy => h1.2 y (key _ y hy), fun y hy => h2.2 y (key _ y hy), ?_⟩
  generalize s.comps = comps at h3
  generalize o.comps = cs at h3
  induction h3 with
  | nil => exact .nil
  | cons hab _ ih => exact .cons (fun y hy => hab.1.2 y (key _ y hy)) ih

/-! ### key order at the level of the whole spec -/

theorem evalComp_key_order_irrelevant {le le' : α → α → Bool} {c c' : Comp α} (hw : CompWF c) (hp : CompPerm c c')
    {arch arch' : Table α} (ho : ∀ y, arch.get y = arch'.get y) :
    match evalComp le arch c, evalComp le' arch' c' with
    | .ok o, .ok o' => CompOutEquiv o o'
    | .error e, .error e' => ErrEquiv e e'
    | _, _ => False := by
  unfold evalComp
  have h3 := evalScope_key_order_irrelevant (le := le) (le' := le') hw.1 hp.1 ho
  cases e3 : evalScope le arch c.attrs with
  | error e =>
    cases e3' : evalScope le' arch' c'.attrs with
    | error e' =>
      rw [e3, e3'] at h3
      rcases e with _ | _ <;> rcases e' with _ | _ <;> simp_all [ResEquiv, ErrEquiv]
    | ok t3' => rw [e3, e3'] at h3; rcases e with _ | _ <;> simp [ResEquiv] at h3
  | ok t3 =>
    cases e3' : evalScope le' arch' c'.attrs with
    | error e' => rw [e3, e3'] at h3; rcases e' with _ | _ <;> simp [ResEquiv] at h3
    | ok t3' =>
      rw [e3, e3'] at h3
      simp only [ResEquiv] at h3
      simp only
      have p1 := sortBy_perm (fun (a b : Field α) => le a.name b.name) c.fields
      have p2 := sortBy_perm (fun (a b : Field α) => le' a.name b.name) c'.fields
      have h4 : ResEquiv (evalScopeG t3 c.pre (sortBy (fun a b => le a.name b.name) c.fields))
          (evalScopeG t3' c'.pre (sortBy (fun a b => le' a.name b.name) c'.fields)) := by
        rw [← hp.2.1]
        exact resEquiv_trans
          (eval_key_order_irrelevant (wf_comp hw) (p1.trans (hp.2.2.trans p2.symm)) t3)
          (eval_outer_congr _ _ h3)
      cases e4 : evalScopeG t3 c.pre (sortBy (fun a b => le a.name b.name) c.fields) with
      | error e =>
        cases e4' : evalScopeG t3' c'.pre (sortBy (fun a b => le' a.name b.name) c'.fields) with
        | error e' =>
          rw [e4, e4'] at h4
          rcases e with _ | _ <;> rcases e' with _ | _ <;> simp_all [ResEquiv, ErrEquiv]
        | ok t4' => rw [e4, e4'] at h4; rcases e with _ | _ <;> simp [ResEquiv] at h4
      | ok t4 =>
        cases e4' : evalScopeG t3' c'.pre (sortBy (fun a b => le' a.name b.name) c'.fields) with
        | error e' => rw [e4, e4'] at h4; rcases e' with _ | _ <;> simp [ResEquiv] at h4
        | ok t4' =>
          rw [e4, e4'] at h4
          exact ⟨h3, h4⟩

theorem evalComps_key_order_irrelevant {le le' : α → α → Bool} {arch arch' : Table α}
    (ho : ∀ y, arch.get y = arch'.get y) :
    ∀ {comps comps' : List (Comp α)}, (∀ c ∈ comps, CompWF c) → All2 CompPerm comps comps' →
      match evalComps le arch comps, evalComps le' arch' comps' with
      | .ok os, .ok os' => All2 CompOutEquiv os os'
      | .error e, .error e' => ErrEquiv e e'
      | _, _ => False := by
  intro comps comps' hw hp
  induction hp with
  | nil => simp only [evalComps]; exact .nil
  | @cons c c' l l' hcc _ ih =>
    have hc := evalComp_key_order_irrelevant (le := le) (le' := le') (hw c (by simp)) hcc ho
    have ih' := ih (fun c hc => hw c (List.mem_cons_of_mem _ hc))
    simp only [evalComps]
    cases e1 : evalComp le arch c with
    | error e =>
      cases e1' : evalComp le' arch' c' with
      | error e' => rw [e1, e1'] at hc; exact hc
      | ok o' => rw [e1, e1'] at hc; exact hc.elim
    | ok o =>
      cases e1' : evalComp le' arch' c' with
      | error e' => rw [e1, e1'] at hc; exact hc.elim
      | ok o' =>
        rw [e1, e1'] at hc
        simp only at hc ⊢
        cases e2 : evalComps le arch l with
        | error e =>
          cases e2' : evalComps le' arch' l' with
          | error e' => rw [e2, e2'] at ih'; exact ih'
          | ok os' => rw [e2, e2'] at ih'; exact ih'.elim
        | ok os =>
          cases e2' : evalComps le' arch' l' with
          | error e' => rw [e2, e2'] at ih'; exact ih'.elim
          | ok os' =>
            rw [e2, e2'] at ih'
            exact .cons hc ih'

/-- **Key order is irrelevant for the whole spec**: permuting the keys of the spec variables, of the arch variables
and of every component's attributes and fields (and using any comparison for the sort) gives the same values in every
scope, or the same kind of `EvaluationError`. -/
theorem evalAll_key_order_irrelevant {le le' : α → α → Bool} {s s' : Spec3 α} (hw : SpecWF s) (hp : SpecPerm s s') :
    OutEquiv (evalAll le s) (evalAll le' s') := by
  unfold evalAll
  have h1 := evalScope_key_order_irrelevant (le := le) (le' := le') (outer := []) (outer' := []) hw.1 hp.1
    (fun _ => rfl)
  cases e1 : evalScope le [] s.specVars with
  | error e =>
    cases e1' : evalScope le' [] s'.specVars with
    | error e' =>
      rw [e1, e1'] at h1
      rcases e with _ | _ <;> rcases e' with _ | _ <;> simp_all [ResEquiv, ErrEquiv, OutEquiv]
    | ok t1' => rw [e1, e1'] at h1; rcases e with _ | _ <;> simp [ResEquiv] at h1
  | ok t1 =>
    cases e1' : evalScope le' [] s'.specVars with
    | error e' => rw [e1, e1'] at h1; rcases e' with _ | _ <;> simp [ResEquiv] at h1
    | ok t1' =>
      rw [e1, e1'] at h1
      simp only [ResEquiv] at h1
      simp only
      have h2 := evalScope_key_order_irrelevant (le := le) (le' := le') hw.2.1 hp.2.1 h1
      cases e2 : evalScope le t1 s.archVars with
      | error e =>
        cases e2' : evalScope le' t1' s'.archVars with
        | error e' =>
          rw [e2, e2'] at h2
          rcases e with _ | _ <;> rcases e' with _ | _ <;> simp_all [ResEquiv, ErrEquiv, OutEquiv]
        | ok t2' => rw [e2, e2'] at h2; rcases e with _ | _ <;> simp [ResEquiv] at h2
      | ok t2 =>
        cases e2' : evalScope le' t1' s'.archVars with
        | error e' => rw [e2, e2'] at h2; rcases e' with _ | _ <;> simp [ResEquiv] at h2
        | ok t2' =>
          rw [e2, e2'] at h2
          simp only [ResEquiv] at h2
          simp only
          have h3 := evalComps_key_order_irrelevant (le := le) (le' := le') h2 hw.2.2 hp.2.2
          cases e3 : evalComps le t2 s.comps with
          | error e =>
            cases e3' : evalComps le' t2' s'.comps with
            | error e' => rw [e3, e3'] at h3; exact h3
            | ok os' => rw [e3, e3'] at h3; exact h3.elim
          | ok os =>
            cases e3' : evalComps le' t2' s'.comps with
            | error e' => rw [e3, e3'] at h3; exact h3.elim
            | ok os' =>
              rw [e3, e3'] at h3
              exact ⟨h1, h2, h3⟩

/-! ## the executable judge used by the driver -/

/-- `semHolds` decides the defining equations of `Sem` (the part that concerns the defined names). -/
theorem semHolds_iff (outer : α → Option Int) (fields : List (Field α)) (t : α → Option Int) :
    semHolds outer fields t = true ↔
      ∀ f ∈ fields, ∀ e, f.expr? = some e → ∃ v, t f.name = some v ∧ e.eval (selfEnv outer t f.name) = some v := by
  unfold semHolds
  rw [List.all_eq_true]
  constructor
  · intro h f hf e he
    have := h f hf
    rw [he] at this
    simp only [Bool.and_eq_true, beq_iff_eq] at this
    obtain ⟨v, hv⟩ := Option.isSome_iff_exists.mp this.1
    exact ⟨v, hv, by rw [← this.2, hv]⟩
  · intro h f hf
    cases he : f.expr? with
    | none => rfl
    | some e =>
      obtain ⟨v, hv1, hv2⟩ := h f hf e he
      simp [hv1, hv2]

/-! ## non-vacuity: concrete inputs satisfying the hypotheses, and the observed behaviours of the current tree -/

section Examples
open Expr

private def le : Nat → Nat → Bool := fun a b => decide (a ≤ b)

/-- names 0,1,2 = `a b c`;  `a: b + c`, `b: c * 2`, `c: 3`, written in an order that is not a dependency order -/
private def defs1 : List (Def Nat) := [⟨0, add (var 1) (var 2)⟩, ⟨1, mul (var 2) (num 2)⟩, ⟨2, num 3⟩]

example : DefsWF defs1 := by unfold DefsWF; decide
example : WF [] (defFields defs1) := wf_defs (by unfold DefsWF; decide)
example : order [] (defFields defs1) = .ok [2, 1, 0] := by rfl
example : evalScope le [] defs1 = .ok [(0, 9), (1, 6), (2, 3)] := by rfl
example : evalScope le [] defs1.reverse = .ok [(0, 9), (1, 6), (2, 3)] := by rfl
example : Dep [] (defFields defs1) 0 1 :=
  ⟨⟨0, .expr (add (var 1) (var 2))⟩, by decide, rfl, by decide, by decide, ⟨1, .expr (mul (var 2) (num 2))⟩, by decide, rfl⟩

/-- a two-node cycle embedded in a larger dictionary: "Circular dependency detected … Fields: 0, 1" -/
private def defsCyc : List (Def Nat) := [⟨0, add (var 1) (num 1)⟩, ⟨1, var 0⟩, ⟨2, num 3⟩]
example : evalScope le [] defsCyc = .error (.cycle [0, 1]) := by rfl
example : Cyclic [] (defFields defsCyc) :=
  ⟨0, .tail (.single ⟨⟨0, .expr (add (var 1) (num 1))⟩, by decide, rfl, by decide, by decide,
      ⟨1, .expr (var 0)⟩, by decide, rfl⟩)
    ⟨⟨1, .expr (var 0)⟩, by decide, rfl, by decide, by decide, ⟨0, .expr (add (var 1) (num 1))⟩, by decide, rfl⟩⟩

/-- self-reference reads the enclosing scope: `arch.variables.a: a + 1` with `variables.a: 5` gives 6;
the component attribute `a: a * 10` gives 60 and its `y: x + a` uses the component's own `a`. -/
private def spec1 : Spec3 Nat :=
  { specVars := [⟨0, num 5⟩, ⟨3, num 2⟩],
    archVars := [⟨0, add (var 0) (num 1)⟩, ⟨1, sub (var 3) (var 0)⟩],
    comps := [{ attrs := [⟨2, add (var 1) (var 0)⟩, ⟨0, mul (var 0) (num 10)⟩], pre := [7],
                fields := [⟨7, .nested⟩, ⟨8, .plain⟩, ⟨4, .expr (add (var 5) (var 2))⟩, ⟨5, .expr (var 0)⟩, ⟨6, .opaque⟩] },
              { attrs := [⟨2, var 0⟩], pre := [7], fields := [⟨7, .nested⟩, ⟨4, .expr (var 2)⟩] }] }

example : SpecWF spec1 := by
  refine ⟨by unfold DefsWF; decide, by unfold DefsWF; decide, ?_⟩
  intro c hc
  simp only [spec1, List.mem_cons, List.mem_nil_iff, or_false] at hc
  rcases hc with rfl | rfl <;> exact ⟨by unfold DefsWF; decide, by decide, by decide⟩

example : (evalAll le spec1).toOption.map (fun o => (o.spec.get 0, o.arch.get 0, o.arch.get 1,
    o.comps.map (fun c => (c.attrs.get 0, c.attrs.get 2, c.own.get 4, c.own.get 5)))) =
    some (some 5, some 6, some (-4), [(some 60, some 56, some 116, some 60), (some 6, some 6, some 6, none)]) := by rfl

/-- a self-reference without an enclosing definition raises (NameError → EvaluationError) -/
example : evalScope le [] [⟨0, add (var 0) (num 1)⟩] = .error (.undefined 0) := by rfl
/-- … and with an enclosing definition it does not -/
example : evalScope le [(0, 5)] [⟨0, add (var 0) (num 1)⟩] = .ok [(0, 6), (0, 5)] := by rfl

/-- "parsables last" and "non-evaluated first" in the ordering of an object with mixed fields -/
example : order [7] [⟨3, .nested⟩, ⟨4, .expr (var 5)⟩, ⟨5, .expr (num 1)⟩, ⟨7, .nested⟩, ⟨8, .plain⟩] =
    .ok [7, 8, 5, 4, 3] := by rfl

end Examples

end AFV.C21
