import AFV.Lemmas.SearchExamples
/-!
# C13 — joining pmappings = exhaustive combination of compatible pmappings (abstract part)

`joinExact ops cap tables` is the statement of the property: every choice of one candidate per Einsum
whose classes are compatible (`Ops.kjoin` = `Compatibility.merge_next`), objectives summed, reservations
combined (`Ops.rjoin`), combinations above capacity dropped, Pareto front inside each class.
`ffm` / `ffmG` is the shape of `join_pmappings` (group → prune → join → `limit_capacity` → prune, left
to right). The theorems hold for **every** list of tables: any number of Einsums, any table sizes,
empty tables, duplicate rows, ties.

Hypotheses, explicit: `RMono ops` (reservation algebra monotone in both profiles) and `CapClosed ops`
(a joined profile within a capacity implies the left operand was within it). The second is what makes
the intermediate `limit_capacity` calls harmless; both are obligations on the reservation algebra
(C06), checked on real tables by the C13 harness.

What these theorems mean for the real mapper is established by the correspondence harness: it exports
real pmapping tables with their compatibility classes and compares `join_pmappings` with `joinExact`
computed by the driver.
-/
namespace AFV.C13
open AFV.Front AFV.Search

variable {K : Type} [DecidableEq K]

/-- **DP lemma.** Pareto-pruning both tables (each row only against rows of its own class) before a join
never changes the front of the joined table: `front {a ⊕ b} = front {a ⊕ b | a ∈ front A, b ∈ front B}`. -/
theorem prune_join_front {ops : Ops K} (hr : RMono ops) (A B : List (Cand K)) :
    SetEq (prune (cross ops (prune A) (prune B))) (prune (cross ops A B)) :=
  prune_cross hr A B

/-- **Main theorem.** The prune–join–prune pipeline over any number of tables returns exactly the
reference join (as a set of candidates: class, objective vector, reservation profile). -/
theorem ffm_eq_joinExact {ops : Ops K} (hr : RMono ops) (hc : CapClosed ops) (cap : Int)
    (tables : List (List (Cand K))) :
    SetEq (ffm ops cap tables) (joinExact ops cap tables) :=
  AFV.Search.ffm_eq_joinExact hr hc cap tables

/-- The output is duplicate-free, sound (every returned row is a compatible, within-capacity
combination of one row per table) and complete (every such combination is weakly dominated, inside its
class, by a returned row). -/
theorem ffm_sound_complete {ops : Ops K} (hr : RMono ops) (hc : CapClosed ops) (cap : Int)
    (tables : List (List (Cand K))) :
    (ffm ops cap tables).Nodup ∧
    (∀ y ∈ ffm ops cap tables, y ∈ allCombos ops tables ∧ fits cap y.res = true) ∧
    (∀ x ∈ allCombos ops tables, fits cap x.res = true →
      ∃ y ∈ ffm ops cap tables, cle y x = true) := by
  have hcov := cov_ffm hr hc cap tables
  refine ⟨?_, fun y hy => ?_, fun x hx hf => ?_⟩
  · cases tables with
    | nil => simp [ffm]
    | cons T Ts => exact frontL_nodup _
  · have := hcov.sub y hy
    simpa [validCombos, List.mem_filter, fitsC] using this
  · exact hcov.cov x (by simpa [validCombos, List.mem_filter, fitsC] using And.intro hx hf)

/-- **`group_consolidate_sound`.** Grouping rows by compatibility, pruning every group and concatenating
groups whose compatibilities became equal (`PmappingGroup.group`, `combine_combineable`) is pruning the
union of the rows. -/
theorem group_consolidate_sound (gs : List (Group K)) :
    SetEq (flatten (consolidate gs)) (prune (flatten gs)) :=
  AFV.Search.group_consolidate_sound gs

/-- The order in which groups are consolidated is irrelevant. -/
theorem consolidate_order_irrelevant {gs gs' : List (Group K)} (h : gs.Perm gs') :
    SetEq (flatten (consolidate gs)) (flatten (consolidate gs')) :=
  consolidate_perm h

/-- The pipeline on grouped tables (all compatible pairs of groups merged, then consolidated, at every
step) also equals the reference join of the flattened tables. -/
theorem ffmG_eq_joinExact {ops : Ops K} (hr : RMono ops) (hc : CapClosed ops) (cap : Int)
    (tables : List (List (Group K))) :
    SetEq (ffmG ops cap tables) (joinExact ops cap (tables.map flatten)) :=
  AFV.Search.ffmG_eq_joinExact hr hc cap tables

/-- Row order, duplicates and the order of arrival of rows in the per-Einsum tables are irrelevant. -/
theorem ffm_rows_order_irrelevant {ops : Ops K} (hr : RMono ops) (hc : CapClosed ops) (cap : Int)
    {tables tables' : List (List (Cand K))} (h : PermTables tables tables') :
    SetEq (ffm ops cap tables) (ffm ops cap tables') :=
  ffm_congr hr hc cap (sameTables_of_perm h)

/-- **`perm_equiv`, abstractly.** If compatibilities are replaced by representatives (`ρ`, e.g. a
canonical order of the loops inside a block) and `merge_next` / the reservation algebra respect the
replacement, exactly the same combinations exist, with the same objectives and reservations. -/
theorem perm_equiv {K' : Type} [DecidableEq K'] {ops : Ops K} {ops' : Ops K'} {ρ : K → K'}
    (h : KeyHom ops ops' ρ) (cap : Int) (tables : List (List (Cand K))) :
    (validCombos ops' cap (tables.map (List.map (mapKey ρ)))).map Cand.row =
      (validCombos ops cap tables).map Cand.row := by
  rw [validCombos_mapKey h, List.map_map]
  rfl

/-! ## Non-vacuity -/

example : RMono opsChain ∧ CapClosed opsChain := ⟨opsChain_rmono, opsChain_capClosed⟩

-- the hypotheses hold and the conclusion is a non-trivial equality of non-empty fronts
example : ffm opsChain 10 exTables = [⟨0, [7, 12], [7]⟩, ⟨0, [8, 5], [7]⟩] := by decide

example : joinExact opsChain 10 exTables = [⟨0, [7, 12], [7]⟩, ⟨0, [8, 5], [7]⟩] := by decide

-- without the capacity filter more combinations exist (so the filter is exercised) …
example : (allCombos opsChain exTables).length = 14 := by decide
-- … and pruning does remove partial combinations on the way
example : (ffmFold opsChain 10 (prune exTables.head!) [exTables[1]!]).length <
    (cross opsChain exTables.head! exTables[1]!).length := by decide

end AFV.C13
