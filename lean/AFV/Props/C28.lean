import AFV.Lemmas.BreakdownMain
/-!
# C28 — result breakdowns aggregate consistently to the reported totals

Model `AFV/Model/Breakdown.lean` (Mappings._get_cols / access / energy / actions / latency /
resource_usage as the code does it), spec `AFV/Spec/Breakdown.lean` (positional column grammar;
fibre sums; Σ_einsum max_component; max reservation per memory).

A. aggregation (no hypothesis, any table):
   `sum_fiberwise`, `groupSum_eq_breakdown`, `aggregate_eq_spec`, `aggregate_sum` (all 16 flag
   combinations), `perEinsumMax_eq`, `perComponentSum_eq`, `latency_agg`, `usage_max`.
B. column selection (`access` chains) against the grammar, under the decidable no-collision
   hypotheses `wfEnergy` / `wfActions` / `wfLatency` / `wfUsage`:
   `table4_eq_spec_partial`, `energy_consistent_partial`, `actions_consistent_partial`,
   `latency_eq_spec_partial`, `usage_eq_spec_partial`.
C. the hypotheses are necessary — witnesses on which the model (like the code) violates the
   property: `energy_tensor_named_like_component_counterexample` (a genuine defect: reachable
   with a workload whose tensor is named like an architecture component), and the reserved-name
   witnesses `latency_einsum_named_Total_counterexample`, `usage_einsum_named_reservation_counterexample`.

FULL STATEMENT (not provable for the current code, see C):
   ∀ row es, ∃ T, energyTable row es = .ok T ∧ T.Perm (energyCols row (names es))
The proved `…_partial` theorems add the hypothesis `wf… = true`.
-/
namespace AFV.C28
open AFV.Breakdown AFV.Breakdown.Spec AFV.Breakdown.Lemmas

/-! ## A. aggregation (any table, no hypothesis) -/

/-- **sum_fiberwise.** Regrouping a table by ANY projection `f` of its keys (any subset of kept key
positions) preserves the grand total: the projected breakdown sums to the sum of the table. -/
theorem sum_fiberwise {κ κ' : Type} [DecidableEq κ'] (f : κ → κ') (tbl : List (κ × Int)) :
    total (groupSum f tbl) = total tbl := Main.sum_fiberwise f tbl

/-- **The regrouping loop (`new_result[newkey] += value`) computes exactly the fibre-wise sums**,
one entry per projected key, in order of first appearance. -/
theorem groupSum_eq_breakdown {κ κ' : Type} [DecidableEq κ'] (f : κ → κ') (tbl : List (κ × Int)) :
    groupSum f tbl = breakdown f tbl := Main.groupSum_eq_breakdown f tbl

/-- What energy()/actions() return for every flag combination is what the property demands. -/
theorem aggregate_eq_spec (mask : Bool × Bool × Bool × Bool) (tbl : List (Key4 × Int)) :
    aggregate mask tbl =
      if mask = (false, false, false, false) then [([], total tbl)] else breakdown (proj mask) tbl :=
  Main.aggregate_eq_spec mask tbl

/-- **All 16 (energy) / 8 (actions) flag combinations sum to the same total.** -/
theorem aggregate_sum (mask : Bool × Bool × Bool × Bool) (tbl : List (Key4 × Int)) :
    total (aggregate mask tbl) = total tbl := Main.aggregate_sum mask tbl

/-- The `if not per_component` loop (`np.maximum`) computes the per-Einsum maximum over components. -/
theorem perEinsumMax_eq (tbl : List (Key2 × Int)) : perEinsumMax tbl = breakdownMax tbl :=
  Main.perEinsumMax_eq tbl

/-- Per-component latency summed over Einsums = fibre sums. -/
theorem perComponentSum_eq (tbl : List (Key2 × Int)) :
    perComponentSum tbl = breakdown (fun k : Key2 => k.2) tbl := Main.perComponentSum_eq tbl

/-- **latency_agg.** latency() with no flags = Σ over Einsums of the maximum component latency. -/
theorem latency_agg (tbl : List (Key2 × Int)) : Breakdown.latencyTotal tbl = Spec.latencyTotal tbl :=
  Main.latency_agg tbl

/-- Σ_einsum max_component does not depend on the order of the table. -/
theorem latencyTotal_perm {T S : List (Key2 × Int)} (h : T.Perm S) :
    Spec.latencyTotal T = Spec.latencyTotal S := Main.latencyTotal_perm h

/-- **usage_max.** resource_usage() = maximum reservation per memory (floor 0, the initial value),
over the 3-part names of the `access("reservation")` table. -/
theorem usage_max (res : Row) : usageOf res = usage (res.filterMap Main.res3) := Main.usage_max res

/-! ## B. column selection (`_get_cols` / `access`) against the grammar -/

/-- **`access(key, col_idx=i)`**: on distinct names, if every selected name has ≥ 2 parts, the result
is exactly the columns whose FIRST occurrence of `key` is at position `i`, with that part removed. -/
theorem access_some_spec (row : Row) (key : String) (i : Nat) (hn : (row.map (·.1)).Nodup)
    (hlen : ∀ pv ∈ row, key ∈ pv.1 → pv.1.idxOf key = i → 2 ≤ pv.1.length) :
    access row key (some i) = .ok (row.filterMap (selAt key i)) := access_some_ok row key i hn hlen

/-- **`access(key)`** without `col_idx`, when the key occurs at most once per name and always at `j`. -/
theorem access_none_spec (row : Row) (key : String) (j : Nat) (hn : (row.map (·.1)).Nodup)
    (h : ∀ pv ∈ row, key ∈ pv.1 → pv.1.idxOf key = j ∧ pv.1.count key ≤ 1 ∧ 2 ≤ pv.1.length) :
    access row key none = .ok (row.filterMap (selAt key j)) := access_none_ok row key j hn h

/-- **energy()/actions() build exactly the grammar's table** (as a set of (key, value) entries —
the dictionary order is the code's loop order, the spec's is column order), on every row whose
names follow the grammar without collisions.

FULL STATEMENT (false for the current code, see `energy_tensor_named_like_component_counterexample`):
the same without `hwf`. -/
theorem table4_eq_spec_partial (kind : String) (withLeak : Bool) (row : Row) (es : Einsums)
    (hwf : wf4 kind withLeak row es = true) :
    ∃ T, table4 kind withLeak row es = .ok T ∧ T.Perm (cols4 kind withLeak row (names es)) :=
  Main.table4_eq_spec_partial kind withLeak row es hwf

/-- **energy(): every one of the 16 flag combinations sums to the sum of all per-Einsum energy
columns, and each entry of each breakdown is the fibre sum of the grammar's table.** -/
theorem energy_consistent_partial (row : Row) (es : Einsums) (hwf : wfEnergy row es = true) :
    ∃ T, energyTable row es = .ok T ∧ T.Perm (energyCols row (names es)) ∧
      (∀ mask, total (aggregate mask T) = total (energyCols row (names es))) ∧
      (∀ mask k', fiberSum (proj mask) T k' = fiberSum (proj mask) (energyCols row (names es)) k') :=
  Main.energy_consistent_partial row es hwf

/-- **actions(): the same for the 8 flag combinations (per_action is always kept).** -/
theorem actions_consistent_partial (row : Row) (es : Einsums) (hwf : wfActions row es = true) :
    ∃ T, actionsTable row es = .ok T ∧ T.Perm (actionCols row (names es)) ∧
      (∀ mask, total (aggregate mask T) = total (actionCols row (names es))) ∧
      (∀ mask k', fiberSum (proj mask) T k' = fiberSum (proj mask) (actionCols row (names es)) k') :=
  Main.actions_consistent_partial row es hwf

/-- If the data satisfies the invariant "Total<SEP>energy = Σ per-Einsum energy columns" (established
by run_model/join, checked by the harness on every real result), energy() equals the Total column. -/
theorem energy_eq_total_column_partial (row : Row) (es : Einsums) (hwf : wfEnergy row es = true)
    (tot : Int) (hinv : totalCol row "energy" = some tot) (hsum : tot = total (energyCols row (names es))) :
    ∃ T, energyTable row es = .ok T ∧
      aggregate (false, false, false, false) T = [([], tot)] ∧ totalCol row "energy" = some tot :=
  Main.energy_eq_total_column_partial row es hwf tot hinv hsum

/-- **latency() reads exactly the `<einsum><SEP>latency<SEP><component>` columns** of the Einsums in
`einsum_names` (well-formed rows).  FULL STATEMENT without `hwf` is false:
`latency_einsum_named_Total_counterexample`. -/
theorem latency_eq_spec_partial (row : Row) (es : List String) (hwf : wfLatency row es = true) :
    ∃ T, latencyTable row es = .ok T ∧ T.Perm (latencyCols row es) :=
  Main.latency_eq_spec_partial row es hwf

/-- **latency() = Σ over Einsums of the maximum of the Einsum's `latency` columns.** -/
theorem latency_total_partial (row : Row) (es : List String) (hwf : wfLatency row es = true) :
    ∃ T, latencyTable row es = .ok T ∧
      Breakdown.latencyTotal T = Spec.latencyTotal (latencyCols row es) :=
  Main.latency_total_partial row es hwf

/-- **resource_usage() = maximum over the `reservation<SEP><memory><SEP>…` columns, per memory.**
FULL STATEMENT without `hwf` is false: `usage_einsum_named_reservation_counterexample`. -/
theorem usage_eq_spec_partial (row : Row) (hwf : wfUsage row = true) :
    usageTable row = .ok (usage (reservationCols row)) := Main.usage_eq_spec_partial row hwf

/-! ## C. the hypotheses are necessary (witnesses), and they are satisfiable (non-vacuity) -/

deriving instance DecidableEq for Except


/-- A result row in which tensor `X` is named like component `X`
(real reproduction: arches.simple with a matmul whose input tensor is named `MainMemory`). -/
def rowD1 : Row :=
  [(["Total", "energy"], 7),
   (["E", "energy", "X", "X", "read"], 5),
   (["E", "energy", "X", "T", "read"], 2),
   (["E", "action", "X", "X", "read"], 50),
   (["E", "action", "X", "T", "read"], 20)]

def esD1 : Einsums := [("E", ["X", "T"])]

/-- **Defect witness.** The model (like the code) silently drops the column of tensor `X` at
component `X`: energy() = 2 although the per-Einsum energy columns sum to 7 = `Total<SEP>energy`;
the row violates only the "tensor not named like its component" clause of `wfEnergy`. -/
theorem energy_tensor_named_like_component_counterexample :
    energyTable rowD1 esD1 = .ok [(("E", "X", some "T", "read"), 2)] ∧
    aggregate (false, false, false, false) [(("E", "X", some "T", "read"), 2)] = [([], 2)] ∧
    total (energyCols rowD1 (names esD1)) = 7 ∧ totalCol rowD1 "energy" = some 7 ∧
    wfEnergy rowD1 esD1 = false := by decide

/-- The same for actions(). -/
theorem actions_tensor_named_like_component_counterexample :
    actionsTable rowD1 esD1 = .ok [(("E", "X", some "T", "read"), 20)] ∧
    total (actionCols rowD1 (names esD1)) = 70 ∧ wfActions rowD1 esD1 = false := by decide

/-- Reserved name (rejected by the frontend): an Einsum named `Total` makes latency() count the
`Total<SEP>latency` column as a component of that Einsum. -/
theorem latency_einsum_named_Total_counterexample :
    let row : Row := [(["Total", "latency"], 9), (["Total", "latency", "MAC"], 4), (["B", "latency", "MAC"], 5)]
    latencyTable row ["Total", "B"] = .ok [(("Total", ""), 9), (("Total", "MAC"), 4), (("B", "MAC"), 5)] ∧
    Breakdown.latencyTotal [(("Total", ""), 9), (("Total", "MAC"), 4), (("B", "MAC"), 5)] = some 14 ∧
    Spec.latencyTotal (latencyCols row ["Total", "B"]) = some 9 ∧ wfLatency row ["Total", "B"] = false := by
  decide

/-- Reserved name (the pipeline cannot carry it): an Einsum named `reservation` makes
resource_usage() report its leak-energy column as a resource. -/
theorem usage_einsum_named_reservation_counterexample :
    let row : Row := [(["reservation", "GLB", "0", "right"], 3), (["reservation", "energy", "MAC", "leak"], 8)]
    usageTable row = .ok [("GLB", 3), ("energy", 8)] ∧ usage (reservationCols row) = [("GLB", 3)] ∧
    wfUsage row = false := by decide

/-- A keyword used as a tensor name is refused loudly (`ValueError`), not mis-aggregated. -/
theorem keyword_as_tensor_raises :
    energyTable [(["Total", "energy"], 1), (["E", "action", "C", "energy", "read"], 1)] [("E", ["energy"])]
      = .error .varying := by decide

/-- Matching is by whole `<SEP>`-separated parts: names that are prefixes of each other do not collide. -/
theorem prefix_names_do_not_collide :
    energyTable [(["E1", "energy", "C", "T", "r"], 1), (["E10", "energy", "C", "T", "r"], 2)] [("E1", ["T"])]
      = .ok [(("E1", "C", some "T", "r"), 1)] := by decide

/-! Non-vacuity: a realistic row (two Einsums, shared tensor, compute with the `"None"` tensor, leak,
several reservations per memory) satisfies every well-formedness hypothesis. -/
def rowOk : Row :=
  [(["Total", "latency"], 11), (["Total", "energy"], 30),
   (["reservation", "GLB", "0", "right"], 3), (["reservation", "GLB", "1", "left"], 5),
   (["reservation", "DRAM", "-1", "right"], 0),
   (["M0", "usage", "memory", "DRAM", "T0"], 1),
   (["M0", "action", "DRAM", "T0", "read"], 4), (["M0", "action", "MAC", "None", "compute"], 8),
   (["M0", "energy", "DRAM", "T0", "read"], 8), (["M0", "energy", "DRAM", "T1", "write"], 6),
   (["M0", "energy", "MAC", "None", "compute"], 8), (["M0", "energy", "MAC", "leak"], 1),
   (["M0", "latency", "DRAM"], 2), (["M0", "latency", "MAC"], 8), (["M0", "mapping"], 0),
   (["M1", "energy", "DRAM", "T1", "read"], 6), (["M1", "energy", "GLB", "leak"], 1),
   (["M1", "latency", "DRAM"], 3), (["M1", "latency", "MAC"], 1), (["Total", "mapping"], 0)]

def esOk : Einsums := [("M0", ["T0", "W0", "T1"]), ("M1", ["T1", "W1", "T2"])]

example : wfEnergy rowOk esOk = true ∧ wfActions rowOk esOk = true ∧
    wfLatency rowOk (names esOk) = true ∧ wfUsage rowOk = true := by decide

example : (energyTable rowOk esOk).toOption.map total = some 30 ∧ totalCol rowOk "energy" = some 30 := by
  decide

example : (latencyTable rowOk (names esOk)).toOption.bind Breakdown.latencyTotal = some 11 ∧
    totalCol rowOk "latency" = some 11 := by decide

example : usageTable rowOk = .ok [("GLB", 5), ("DRAM", 0)] := by decide

example : (energyTable rowOk esOk).toOption.map (aggregate (false, true, false, false)) =
    some [([some "DRAM"], 20), ([some "MAC"], 9), ([some "GLB"], 1)] := by decide

example : splitSep "a<SEP<SEP>>b<SEP>" = ["a<SEP", ">b", ""] := by decide

end AFV.C28
