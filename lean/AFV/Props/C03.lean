import AFV.Model.Valid
/-!
# C03 — every returned mapping is valid for the architecture and constraints

`AFV.Valid.valid` is the decidable predicate evaluated by the driver on every mapping the real mapper returns.
The theorems below say what its checks *mean*, for all inputs: a passing tile chain iterates the rank variable
fully with perfectly factorising tile shapes (the product of the iteration counts is the bound, every count is
a positive integer, the innermost tile is 1); `computesOnce` means each Einsum is computed by exactly one
branch; passing `fanoutOK`/`loopBoundOK` is exactly the stated inequality on the spatial iteration counts.
-/
namespace AFV.C03
open AFV.Valid

theorem prod_cons (a : Nat) (l : List Nat) : prod (a :: l) = a * prod l := by
  unfold prod
  simp only [List.foldl_cons, Nat.one_mul]
  suffices ∀ (l : List Nat) (x : Nat), l.foldl (· * ·) x = x * l.foldl (· * ·) 1 by
    exact this l a
  intro l
  induction l with
  | nil => intro x; simp
  | cons b t ih => intro x; simp only [List.foldl_cons, Nat.one_mul]; rw [ih (x * b), ih b, Nat.mul_assoc]

/-- **Perfect factorisation, full iteration.** If the chain check passes, the product of the loops' iteration
counts is exactly the rank-variable bound. -/
theorem chain_product (b : Nat) (ts : List Nat) (h : chainOK b ts = true) : prod (counts b ts) = b := by
  induction ts generalizing b with
  | nil => simp [chainOK] at h; simp [counts, prod, h]
  | cons t ts ih =>
    simp only [chainOK, Bool.and_eq_true, bne_iff_ne, ne_eq, beq_iff_eq] at h
    obtain ⟨⟨ht, hdiv⟩, hrest⟩ := h
    rw [counts, prod_cons, ih t hrest]
    exact Nat.div_mul_cancel (Nat.dvd_of_mod_eq_zero hdiv)

/-- Every tile shape in a passing chain is positive and divides the enclosing tile (perfect factorisation). -/
theorem chain_divides (b : Nat) (t : Nat) (ts : List Nat) (h : chainOK b (t :: ts) = true) :
    0 < t ∧ t ∣ b ∧ chainOK t ts = true := by
  simp only [chainOK, Bool.and_eq_true, bne_iff_ne, ne_eq, beq_iff_eq] at h
  exact ⟨Nat.pos_of_ne_zero h.1.1, Nat.dvd_of_mod_eq_zero h.1.2, h.2⟩

/-- The innermost tile shape of a passing chain is 1 (or there is no loop and the bound is 1). -/
theorem chain_last_one (b : Nat) (ts : List Nat) (h : chainOK b ts = true) : (b :: ts).getLast? = some 1 := by
  induction ts generalizing b with
  | nil => simp [chainOK] at h; simp [h]
  | cons t ts ih =>
    have := (chain_divides b t ts h).2.2
    have := ih t this
    simpa [List.getLast?_cons_cons] using this

/-- Every iteration count of a passing chain is a positive integer. -/
theorem chain_counts_pos (b : Nat) (hb : 0 < b) (ts : List Nat) (h : chainOK b ts = true) :
    ∀ c ∈ counts b ts, 0 < c := by
  induction ts generalizing b with
  | nil => simp [counts]
  | cons t ts ih =>
    obtain ⟨ht, hd, hr⟩ := chain_divides b t ts h
    intro c hc
    simp only [counts, List.mem_cons] at hc
    rcases hc with rfl | hc
    · exact Nat.div_pos (Nat.le_of_dvd hb hd) ht
    · exact ih t ht hr c hc

/-- **Computed exactly once.** If `computesOnce` passes, each Einsum of the workload is computed by exactly one
branch of the mapping and no branch computes an unknown Einsum. -/
theorem computes_once (es : List EinsumSpec) (ps : List Path) (h : computesOnce es ps = true) :
    (∀ e ∈ es, (ps.filter (fun p => p.einsum == e.name)).length = 1) ∧
    (∀ p ∈ ps, ∃ e ∈ es, e.name = p.einsum) := by
  simp only [computesOnce, Bool.and_eq_true, List.all_eq_true, beq_iff_eq, List.any_eq_true] at h
  exact ⟨h.1, h.2⟩

/-- A branch that passes `endsWithCompute` has exactly one compute node, it is last, and it computes the
branch's Einsum. -/
theorem ends_with_compute (p : Path) (h : endsWithCompute p = true) :
    ∃ c, p.nodes.getLast? = some (Node.compute c p.einsum) ∧ (p.nodes.filter isCompute).length = 1 := by
  unfold endsWithCompute at h
  split at h
  · rename_i c e heq
    simp only [Bool.and_eq_true, beq_iff_eq] at h
    exact ⟨c, by rw [heq, h.1], h.2⟩
  · simp at h

/-- **Spatial fanout.** `fanoutOK` is the statement that, for each architecture fanout, the product of the
iteration counts of the spatial loops mapped to it does not exceed it. -/
theorem fanout_sound (fs : List Fanout) (e : EinsumSpec) (p : Path) (h : fanoutOK fs e p = true) :
    ∀ f ∈ fs, prod ((spatialCounts f.comp f.dim e.ranks p.nodes).map (·.2)) ≤ f.fanout := by
  intro f hf
  simp only [fanoutOK, List.all_eq_true, decide_eq_true_eq] at h
  exact h f hf

/-- **Product loop bounds.** A passing `product…` constraint bounds the product of the iteration counts of all spatial
loops of that dimension over the constraint's rank variables (strictly for `product<` / `product>`). -/
theorem product_bound_sound (lb : LoopBound) (e : EinsumSpec) (p : Path) (hp : isProduct lb.op = true)
    (h : loopBoundOK lb e p = true) :
    let cs := (spatialCounts lb.comp lb.dim e.ranks p.nodes).filter (fun (r, _) => lb.rvs.contains r)
    cs = [] ∨ cmp lb.op (prod (cs.map (·.2))) lb.value = true := by
  simp only [loopBoundOK, hp, if_true, Bool.or_eq_true, List.isEmpty_iff] at h
  exact h

/-- **Keep sets.** `keepOK` says every tensor a memory's keep set requires (for this Einsum) is held by a storage
node of that memory on the branch. -/
theorem keep_sound (ks : List Keep) (p : Path) (h : keepOK ks p = true) :
    ∀ k ∈ ks, k.einsum = p.einsum → ∀ t ∈ k.tensors, keptIn k.comp t p.nodes = true := by
  intro k hk he t ht
  simp only [keepOK, List.all_eq_true, Bool.or_eq_true, bne_iff_ne, ne_eq] at h
  rcases h k hk with h1 | h2
  · exact absurd he h1
  · exact h2 t ht

/-- **Fused-loop limit.** If `fusedLoopsOK` passes with a total limit `m`, then for every shared tensor held on the
branch at most `m` loops lie above its outermost holder. -/
theorem fused_sound (shared : List String) (m : Nat) (mp : Option Nat) (p : Path)
    (h : fusedLoopsOK shared (some m) mp p = true) :
    ∀ t ∈ shared, heldBy t p.nodes = true → (loopsAboveFirstHolder t p.nodes).length ≤ m := by
  intro t ht hh
  simp only [fusedLoopsOK, List.all_eq_true] at h
  have := h t ht
  simp only [hh, if_true, Bool.and_eq_true, decide_eq_true_eq] at this
  exact this.1

theorem ite_nil_iff (c : Bool) (s : String) : (if c = true then ([] : List String) else [s]) = [] ↔ c = true := by
  cases c <;> simp

/-- The whole predicate: a valid mapping passes every individual check on every branch. -/
theorem valid_checks (es : List EinsumSpec) (ps : List Path) (ks : List Keep) (fs : List Fanout) (lbs : List LoopBound)
    (h : valid es ps ks fs lbs = true) :
    computesOnce es ps = true ∧
    ∀ p ∈ ps, ∀ e, es.find? (fun e => e.name == p.einsum) = some e →
      endsWithCompute p = true ∧ chainsOK e p = true ∧ everyTensorHeld e p = true ∧ keepOK ks p = true ∧
      fanoutOK fs e p = true ∧ lbs.all (fun lb => loopBoundOK lb e p) = true := by
  unfold valid failures at h
  simp only [List.isEmpty_iff, List.append_eq_nil_iff, List.flatMap_eq_nil_iff] at h
  obtain ⟨h1, h2⟩ := h
  refine ⟨(ite_nil_iff _ _).mp h1, ?_⟩
  intro p hp e he
  have := h2 p hp
  rw [he] at this
  simp only [List.append_eq_nil_iff, ite_nil_iff] at this
  obtain ⟨⟨⟨⟨⟨⟨a, _⟩, c⟩, d⟩, k⟩, f⟩, g⟩ := this
  exact ⟨a, c, d, k, f, g⟩

/-! ## non-vacuity: a concrete fused two-Einsum mapping with a spatial loop is valid; a broken chain is not -/

def exEinsums : List EinsumSpec :=
  [⟨"Matmul0", [("m", 4), ("n0", 6), ("n1", 6)], ["T0", "W0", "T1"]⟩]
def exPath : Path := ⟨"Matmul0",
  [Node.storage "MainMemory" ["T0", "W0", "T1"], Node.loop "m" 2, Node.storage "GlobalBuffer" ["T0"],
   Node.spatial "m" 1 "MACArray" "X", Node.loop "n0" 1, Node.loop "n1" 3, Node.loop "n1" 1, Node.compute "MAC" "Matmul0"]⟩

example : valid exEinsums [exPath] [⟨"Matmul0", "MainMemory", ["T0", "W0"]⟩] [⟨"MACArray", "X", 2⟩]
    [⟨"MACArray", "X", ["n0", "n1"], Op.eq, 1⟩] = true := by decide
example : failures exEinsums [exPath] [] [⟨"MACArray", "X", 1⟩] [] = ["fanout-exceeded"] := by decide
def exFused : Path := ⟨"Matmul0",
  [Node.storage "MainMemory" ["T0", "W0"], Node.loop "m" 2, Node.storage "GlobalBuffer" ["T1"], Node.loop "m" 1,
   Node.loop "n0" 1, Node.loop "n1" 1, Node.compute "MAC" "Matmul0"]⟩
example : fusedLoopsOK ["T1"] (some 1) (some 1) exFused = true ∧ fusedLoopsOK ["T1"] (some 0) none exFused = false := by decide
example : loopBoundOK ⟨"MACArray", "X", ["m", "n0"], Op.plt, 4⟩ ⟨"E", [("m", 4), ("n0", 4)], []⟩
    ⟨"E", [Node.spatial "m" 2 "MACArray" "X", Node.spatial "n0" 2 "MACArray" "X", Node.compute "MAC" "E"]⟩ = false := by decide
example : loopBoundOK ⟨"MACArray", "X", ["m", "n0"], Op.ple, 4⟩ ⟨"E", [("m", 4), ("n0", 4)], []⟩
    ⟨"E", [Node.spatial "m" 2 "MACArray" "X", Node.spatial "n0" 2 "MACArray" "X", Node.compute "MAC" "E"]⟩ = true := by decide
example : chainOK 6 [4, 1] = false := by decide
example : chainOK 6 [3] = false := by decide
example : counts 12 [6, 2, 1] = [2, 3, 2] ∧ prod (counts 12 [6, 2, 1]) = 12 := by decide

end AFV.C03
