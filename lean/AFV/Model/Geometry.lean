/-!
Workload geometry: boxes, affine projections, images — model of
`accelforge/frontend/_workload_isl/_isl.py` (`get_dim_bounds`, `get_rank_variable_bounds`, `_card_box`,
`get_tensor_size`, `get_operation_space_size`, `get_tensor_data_space`) and
`_workload_isl/_symbolic.py` (`get_stride_and_halo_of_einsum`, `compute_rank_occupancy`,
`compute_dense_tile_occupancy`).

islpy is an oracle in the trusted base: the code builds an `isl.Set`, asks `dim_min/dim_max`, `is_box`,
`apply`, `intersect`.  Here a set is the finite list of its integer points, and those queries are
computed by enumeration (`lmin`/`lmax` per coordinate, `isBox`, `image`, `inter`).  What is modelled of the
code is what it does WITH the answers: `max - min + 1`, the product over dimensions, "error unless box",
the coefficient, the evaluation at `shape - 1` with the own variable's shape set to 1.
-/
namespace AFV.Geometry

/-- A box: per rank variable `(lo, n)`, meaning `lo ≤ x < lo + n`. -/
abbrev Box := List (Int × Nat)

/-- `lo, lo+1, …, lo+n-1` -/
def range : Int → Nat → List Int
  | _, 0 => []
  | lo, n + 1 => lo :: range (lo + 1) n

/-- `x :: p` for every `x` of `xs` and every `p` of `ps`, in lexicographic order. -/
def consAll : List Int → List (List Int) → List (List Int)
  | [], _ => []
  | x :: xs, ps => ps.map (fun p => x :: p) ++ consAll xs ps

/-- All integer points of a box (the iteration space of an Einsum), in lexicographic order. -/
def points : Box → List (List Int)
  | [] => [[]]
  | (lo, n) :: b => consAll (range lo n) (points b)

def dot : List Int → List Int → Int
  | a :: as, x :: xs => a * x + dot as xs
  | _, _ => 0

/-- `const + Σ coeffs_i · x_i` -/
structure Aff where
  coeffs : List Int
  const : Int
deriving DecidableEq, Repr

def Aff.eval (p : Aff) (x : List Int) : Int := p.const + dot p.coeffs x

def dedup {α} [DecidableEq α] : List α → List α
  | [] => []
  | x :: xs => if x ∈ dedup xs then dedup xs else x :: dedup xs

/-- Image of a box under a tuple of affine functions (one per tensor rank): `operation_space.apply(map)`. -/
def image (ps : List Aff) (b : Box) : List (List Int) :=
  dedup ((points b).map (fun x => ps.map (fun p => p.eval x)))

/-- `isl.Set.intersect` -/
def inter {α} [DecidableEq α] (s t : List α) : List α := s.filter (fun x => x ∈ t)

/-- `get_tensor_data_space`: intersection of the images over the canonical Einsums (≥ 1). -/
def dataSpace : List (List (List Int)) → List (List Int)
  | [] => []
  | s :: rest => rest.foldl inter s

/-! ### `dim_min` / `dim_max` per coordinate -/

def lmin : List Int → Int
  | [] => 0
  | x :: xs => xs.foldl min x

def lmax : List Int → Int
  | [] => 0
  | x :: xs => xs.foldl max x

/-- `max - min + 1` of a non-empty list of values (`get_dim_bounds`, `_card_box`). -/
def extentOf (vals : List Int) : Nat := (lmax vals - lmin vals).toNat + 1

def heads (s : List (List Int)) : List Int := s.map (fun p => p.headD 0)
def tails (s : List (List Int)) : List (List Int) := s.map List.tail

/-- `get_dim_bounds` of a set of `dim`-dimensional points. -/
def extents : Nat → List (List Int) → List Nat
  | 0, _ => []
  | d + 1, s => extentOf (heads s) :: extents d (tails s)

/-- The bounding box `[dim_min, dim_max]` per coordinate. -/
def bbox : Nat → List (List Int) → Box
  | 0, _ => []
  | d + 1, s => (lmin (heads s), extentOf (heads s)) :: bbox d (tails s)

def prod : List Nat → Nat
  | [] => 1
  | x :: xs => x * prod xs

/-- `_card_box`: product of `max - min + 1`. -/
def cardBox (dim : Nat) (s : List (List Int)) : Nat := prod (extents dim s)

/-- `isl.Set.is_box` on a non-empty finite set: the set is its bounding box. -/
def isBox (dim : Nat) (s : List (List Int)) : Bool := (points (bbox dim s)).all (fun p => p ∈ s)

/-- `get_tensor_size` / `get_operation_space_size` (islpy without barvinok): the box cardinality, or an
error when the set is not a box. -/
def sizeOrError (dim : Nat) (s : List (List Int)) : Option Nat :=
  if isBox dim s then some (cardBox dim s) else none

/-- `get_rank_variable_bounds` for a box-shaped iteration space. -/
def rankVariableBounds (b : Box) : List Nat := extents b.length (points b)

/-- `get_operation_space_size` -/
def nComputes (b : Box) : Option Nat := sizeOrError b.length (points b)

/-! ### stride, halo, dense tile occupancy (`_symbolic.py`) -/

/-- `rank_projection.coeff(rank_var)` -/
def strideCode (p : Aff) (k : Nat) : Int := p.coeffs.getD k 0

/-- `shape - 1` with the shape of variable `k` set to 1: the point where `compute_rank_occupancy` evaluates. -/
def haloPoint : List Nat → Nat → List Int
  | [], _ => []
  | _ :: ns, 0 => 0 :: ns.map (fun (n : Nat) => (n : Int) - 1)
  | n :: ns, k + 1 => ((n : Int) - 1) :: haloPoint ns k

/-- `halo = compute_rank_occupancy(rank_projection, shape[rank_var := 1]) - 1`:
the projection — constant term included — evaluated at `shape - 1`. -/
def haloCode (p : Aff) (shape : List Nat) (k : Nat) : Int := p.eval (haloPoint shape k)

/-- `compute_dense_tile_occupancy`: `∏_ranks (projection(shape - 1) + 1)`. -/
def iprod : List Int → Int
  | [] => 1
  | x :: xs => x * iprod xs

def occCode (ps : List Aff) (shape : List Nat) : Int :=
  iprod (ps.map (fun p => p.eval (shape.map (fun (n : Nat) => (n : Int) - 1)) + 1))

/-! ### what the property demands (by enumeration) -/

/-- Values of one projection over a box. -/
def imageVals (p : Aff) (b : Box) : List Int := (points b).map p.eval

/-- Replace the size of variable `k`. -/
def setN : Box → Nat → Nat → Box
  | [], _, _ => []
  | (lo, _) :: b, 0, t => (lo, t) :: b
  | e :: b, k + 1, t => e :: setN b k t

/-- Extent (`max - min + 1`) of the image of a tile of `t` values of variable `k`, other variables full. -/
def tileExtent (p : Aff) (b : Box) (k t : Nat) : Nat := extentOf (imageVals p (setN b k t))

/-- The halo: extent added by the other variables = extent of the image when `x_k` is fixed, minus 1. -/
def haloSpec (p : Aff) (b : Box) (k : Nat) : Nat := tileExtent p b k 1 - 1

/-- Step of the projection in `x_k`: `p(x + e_k) - p(x)`. -/
def bump : List Int → Nat → List Int
  | [], _ => []
  | x :: xs, 0 => (x + 1) :: xs
  | x :: xs, k + 1 => x :: bump xs k

def stepSpec (p : Aff) (x : List Int) (k : Nat) : Int := p.eval (bump x k) - p.eval x

/-- Dense tile occupancy: the number of points of the bounding box of the tile's image. -/
def occSpec (ps : List Aff) (b : Box) : Nat := prod (ps.map (fun p => extentOf (imageVals p b)))

/-- Closed forms proved equal to the enumerations (used by the theorems, exported for the harness). -/
def absSum : List Int → Box → Nat
  | a :: as, (_, n) :: b => a.natAbs * (n - 1) + absSum as b
  | _, _ => 0

/-- Is `{Σ aᵢ xᵢ : 0 ≤ xᵢ < nᵢ}` (coefficients sorted increasingly, all positive, sizes ≥ 2) an interval?
Each coefficient must not exceed 1 + the largest value reachable with the smaller ones. -/
def intervalCond : Nat → List (Nat × Nat) → Bool
  | _, [] => true
  | m, (a, n) :: ts => decide (a ≤ m + 1) && intervalCond (m + a * (n - 1)) ts

end AFV.Geometry
