/-!
# LExpr — symbolic expressions exported from sympy/symengine, evaluator and normaliser

Shared library of the *translator tie* (DESIGN §2.3).  `harness/translate.py` turns a sympy /
symengine expression into an `LExpr` term; Lean models produce `LExpr` terms for the same
template; `LExpr.equiv gen ref = true` is then kernel-checked by `decide +kernel`.

`AFV/Lemmas/LExprSound.lean` proves

* `normalize_sound : (∀ i, ρ i ≠ 0) → evalPoly ρ (normalize e) = eval ρ e`
* `equiv_sound     : equiv a b = true → (∀ i, ρ i ≠ 0) → eval ρ a = eval ρ b`

so one kernel check gives equality of the two formulas at **every** assignment with nonzero
symbol values (symbols stand for loop bounds / strides / volumes, which are positive).

Core Lean only: this file is linked into the native driver `afv`.

Normal form.  A *monomial* is a product of symbol powers with nonzero `Int` exponents (sorted by
symbol index) times a product of *opaque atoms* with positive `Nat` exponents.  An opaque atom is
an `LExpr` the normaliser does not look through algebraically: `max`, `min`, `ceil` (arguments are
normalised and reified, so equal arguments written differently still give the same atom; the
arguments of `max`/`min` are sorted and deduplicated; `ceil` of a constant is computed) and the
reciprocal of a polynomial that is not a single symbol monomial.  A *polynomial* is a list of
(monomial, nonzero `Rat` coefficient) sorted by a fixed total order on monomials, with no
repeated monomial.  Only symbols may carry negative exponents or cancel — that is why
soundness needs nothing more than `ρ i ≠ 0`.
-/
namespace AFV

/-- Symbolic expression.  `sym i` is the i-th symbol of the template. -/
inductive LExpr where
  | num (q : Rat)
  | sym (i : Nat)
  | add (xs : List LExpr)
  | mul (xs : List LExpr)
  | pow (b : LExpr) (e : Int)
  | max (xs : List LExpr)
  | min (xs : List LExpr)
  | ceil (x : LExpr)
  deriving Repr, Inhabited

namespace LExpr

/-! ## Evaluation -/

/-- Integer power on `Rat` (core Lean has only `Rat ^ Nat`).  `0⁻¹ = 0` as everywhere in Lean. -/
def zpow (q : Rat) : Int → Rat
  | .ofNat n => q ^ n
  | .negSucc n => (q ^ (n + 1))⁻¹

def rmax (a b : Rat) : Rat := if a ≤ b then b else a
def rmin (a b : Rat) : Rat := if a ≤ b then a else b

def sumQ (l : List Rat) : Rat := l.foldr (· + ·) 0
def prodQ (l : List Rat) : Rat := l.foldr (· * ·) 1

/-- `Max()` of nothing is taken to be 0 (sympy would return `-oo`; the translator never emits it). -/
def maxQ : List Rat → Rat
  | [] => 0
  | [x] => x
  | x :: xs => rmax x (maxQ xs)

def minQ : List Rat → Rat
  | [] => 0
  | [x] => x
  | x :: xs => rmin x (minQ xs)

mutual
/-- Value of an expression under the assignment `ρ` of symbols. -/
def eval (ρ : Nat → Rat) : LExpr → Rat
  | .num q => q
  | .sym i => ρ i
  | .add xs => sumQ (evalList ρ xs)
  | .mul xs => prodQ (evalList ρ xs)
  | .pow b e => zpow (eval ρ b) e
  | .max xs => maxQ (evalList ρ xs)
  | .min xs => minQ (evalList ρ xs)
  | .ceil x => ((eval ρ x).ceil : Int)
def evalList (ρ : Nat → Rat) : List LExpr → List Rat
  | [] => []
  | x :: xs => eval ρ x :: evalList ρ xs
end

/-! ## Structural equality and a total order (through an injective integer code) -/

mutual
def beq : LExpr → LExpr → Bool
  | .num p, .num q => p == q
  | .sym i, .sym j => i == j
  | .add xs, .add ys => beqList xs ys
  | .mul xs, .mul ys => beqList xs ys
  | .pow a e, .pow b f => beq a b && e == f
  | .max xs, .max ys => beqList xs ys
  | .min xs, .min ys => beqList xs ys
  | .ceil a, .ceil b => beq a b
  | _, _ => false
def beqList : List LExpr → List LExpr → Bool
  | [], [] => true
  | x :: xs, y :: ys => beq x y && beqList xs ys
  | _, _ => false
end

mutual
/-- Prefix serialisation; used only to order opaque atoms deterministically. -/
def code : LExpr → List Int
  | .num q => [0, q.num, q.den]
  | .sym i => [1, i]
  | .add xs => 2 :: codeList xs
  | .mul xs => 3 :: codeList xs
  | .pow b e => 4 :: e :: code b
  | .max xs => 5 :: codeList xs
  | .min xs => 6 :: codeList xs
  | .ceil x => 7 :: code x
def codeList : List LExpr → List Int
  | [] => [-1]
  | x :: xs => -2 :: (code x ++ codeList xs)
end

/-- Lexicographic strict order on codes. -/
def ltCode : List Int → List Int → Bool
  | [], [] => false
  | [], _ :: _ => true
  | _ :: _, [] => false
  | a :: as, b :: bs => if a < b then true else if b < a then false else ltCode as bs

/-- Insert into a list kept sorted by `code`, dropping structural duplicates (arguments of
`max`/`min`, which are insensitive to order and repetition). -/
def insertArg (a : LExpr) : List LExpr → List LExpr
  | [] => [a]
  | x :: rest =>
    if beq a x then x :: rest
    else if ltCode a.code x.code then a :: x :: rest
    else x :: insertArg a rest

def sortArgs (l : List LExpr) : List LExpr := l.foldr insertArg []

/-! ## Sorted association lists with merging insertion

Used three times: symbol ↦ `Int` exponent, atom ↦ `Nat` exponent, monomial ↦ `Rat` coefficient.
Soundness of the normaliser needs only `eq k k' = true → k = k'`; canonicity needs `lt` to be a
strict total order on keys, which holds for the instances below but is not needed by any proof. -/

def insertKV {K V : Type} (eq lt : K → K → Bool) (addV : V → V → V) (isZero : V → Bool)
    (k : K) (v : V) : List (K × V) → List (K × V)
  | [] => [(k, v)]
  | (k', v') :: rest =>
    if eq k k' then
      (if isZero (addV v v') then rest else (k', addV v v') :: rest)
    else if lt k k' then (k, v) :: (k', v') :: rest
    else (k', v') :: insertKV eq lt addV isZero k v rest

/-- Insert unless the value is zero. -/
def insertNZ {K V : Type} (eq lt : K → K → Bool) (addV : V → V → V) (isZero : V → Bool)
    (k : K) (v : V) (l : List (K × V)) : List (K × V) :=
  if isZero v then l else insertKV eq lt addV isZero k v l

/-- Merge every entry of `l₂` into `l₁`. -/
def mergeKV {K V : Type} (eq lt : K → K → Bool) (addV : V → V → V) (isZero : V → Bool)
    (l₁ l₂ : List (K × V)) : List (K × V) :=
  l₂.foldr (fun kv acc => insertNZ eq lt addV isZero kv.1 kv.2 acc) l₁

/-! ## Monomials -/

/-- Symbol powers (any nonzero integer exponent) times opaque-atom powers (positive exponents). -/
structure Mono where
  syms : List (Nat × Int)
  ops : List (LExpr × Nat)
  deriving Repr, Inhabited

namespace Mono

def one : Mono := ⟨[], []⟩

def beqOps : List (LExpr × Nat) → List (LExpr × Nat) → Bool
  | [], [] => true
  | (a, j) :: as, (b, k) :: bs => LExpr.beq a b && j == k && beqOps as bs
  | _, _ => false

def beq (a b : Mono) : Bool := a.syms == b.syms && beqOps a.ops b.ops

def symsCode : List (Nat × Int) → List Int
  | [] => [-1]
  | (i, e) :: r => (i : Int) :: e :: symsCode r

def opsCode : List (LExpr × Nat) → List Int
  | [] => [-1]
  | (a, k) :: r => -2 :: (k : Int) :: (LExpr.code a ++ opsCode r)

def code (m : Mono) : List Int := symsCode m.syms ++ opsCode m.ops

def lt (a b : Mono) : Bool := ltCode a.code b.code

def mulSyms (a b : List (Nat × Int)) : List (Nat × Int) :=
  mergeKV (fun i j => i == j) (fun i j => decide (i < j)) (· + ·) (fun e => e == 0) a b

def mulOps (a b : List (LExpr × Nat)) : List (LExpr × Nat) :=
  mergeKV LExpr.beq (fun x y => ltCode x.code y.code) (· + ·) (fun e => e == 0) a b

def mul (a b : Mono) : Mono := ⟨mulSyms a.syms b.syms, mulOps a.ops b.ops⟩

/-- Reciprocal of a pure symbol monomial. -/
def invSyms (l : List (Nat × Int)) : List (Nat × Int) := l.map (fun p => (p.1, -p.2))

def evalSyms (ρ : Nat → Rat) (l : List (Nat × Int)) : Rat :=
  l.foldr (fun p acc => zpow (ρ p.1) p.2 * acc) 1

def evalOps (ρ : Nat → Rat) (l : List (LExpr × Nat)) : Rat :=
  l.foldr (fun p acc => (LExpr.eval ρ p.1) ^ p.2 * acc) 1

def eval (ρ : Nat → Rat) (m : Mono) : Rat := evalSyms ρ m.syms * evalOps ρ m.ops

end Mono

/-! ## Polynomials -/

abbrev Poly := List (Mono × Rat)

namespace Poly

def zero : Poly := []
def const (q : Rat) : Poly := if q == 0 then [] else [(Mono.one, q)]
def one : Poly := [(Mono.one, 1)]
def ofSym (i : Nat) : Poly := [(⟨[(i, 1)], []⟩, 1)]
def ofAtom (a : LExpr) : Poly := [(⟨[], [(a, 1)]⟩, 1)]

def add (p q : Poly) : Poly :=
  mergeKV Mono.beq Mono.lt (· + ·) (fun c => c == 0) p q

/-- `p · (c·m)` accumulated into `acc`. -/
def mulMonoInto (acc : Poly) (m : Mono) (c : Rat) (p : Poly) : Poly :=
  p.foldr (fun mc acc => insertNZ Mono.beq Mono.lt (· + ·) (fun c => c == 0)
                            (Mono.mul mc.1 m) (mc.2 * c) acc) acc

def mul (p q : Poly) : Poly :=
  q.foldr (fun mc acc => mulMonoInto acc mc.1 mc.2 p) []

def sum (ps : List Poly) : Poly := ps.foldr add zero
def prod (ps : List Poly) : Poly := ps.foldr mul one

def powNat (p : Poly) : Nat → Poly
  | 0 => one
  | k + 1 => mul p (powNat p k)

def eval (ρ : Nat → Rat) (p : Poly) : Rat :=
  p.foldr (fun mc acc => mc.2 * Mono.eval ρ mc.1 + acc) 0

def beq : Poly → Poly → Bool
  | [], [] => true
  | (m, c) :: p, (n, d) :: q => Mono.beq m n && c == d && beq p q
  | _, _ => false

/-- Back to an expression (used for the arguments of opaque atoms). -/
def reify (p : Poly) : LExpr :=
  .add (p.map fun mc =>
    .mul (.num mc.2 :: (mc.1.syms.map (fun ie => LExpr.pow (.sym ie.1) ie.2)
                        ++ mc.1.ops.map (fun ak => LExpr.pow ak.1 (ak.2 : Int)))))

/-- Reciprocal: exact for a single pure-symbol monomial, an opaque atom otherwise. -/
def inv (p : Poly) : Poly :=
  match p with
  | [(⟨syms, []⟩, c)] => [(⟨Mono.invSyms syms, []⟩, c⁻¹)]
  | _ => ofAtom (.pow (reify p) (-1))

/-- `ceil` of a constant polynomial is computed; anything else becomes an opaque atom. -/
def ceil (p : Poly) : Poly :=
  match p with
  | [] => []
  | [(⟨[], []⟩, c)] => const ((c.ceil : Int) : Rat)
  | _ => ofAtom (.ceil (reify p))

def powInt (p : Poly) : Int → Poly
  | .ofNat k => powNat p k
  | .negSucc k => powNat (inv p) (k + 1)

end Poly

/-! ## The normaliser -/

mutual
def normalize : LExpr → Poly
  | .num q => Poly.const q
  | .sym i => Poly.ofSym i
  | .add xs => Poly.sum (normList xs)
  | .mul xs => Poly.prod (normList xs)
  | .pow b e => Poly.powInt (normalize b) e
  | .max xs => Poly.ofAtom (.max (sortArgs ((normList xs).map Poly.reify)))
  | .min xs => Poly.ofAtom (.min (sortArgs ((normList xs).map Poly.reify)))
  | .ceil x => Poly.ceil (normalize x)
def normList : List LExpr → List Poly
  | [] => []
  | x :: xs => normalize x :: normList xs
end

/-- Kernel-checkable equivalence test: equal normal forms. -/
def equiv (a b : LExpr) : Bool := (normalize a).beq (normalize b)

/-! ## Small conveniences for models written in Lean -/

instance : OfNat LExpr n := ⟨.num (n : Nat)⟩
instance : Add LExpr := ⟨fun a b => .add [a, b]⟩
instance : Mul LExpr := ⟨fun a b => .mul [a, b]⟩
instance : Sub LExpr := ⟨fun a b => .add [a, .mul [.num (-1), b]]⟩
instance : Neg LExpr := ⟨fun a => .mul [.num (-1), a]⟩
instance : Div LExpr := ⟨fun a b => .mul [a, .pow b (-1)]⟩
instance : HPow LExpr Nat LExpr := ⟨fun a k => .pow a (k : Int)⟩

/-- Assignment from a list (symbol `i` ↦ `l[i]`, 1 beyond the end: never zero). -/
def assign (l : List Rat) : Nat → Rat := fun i => l.getD i 1

end LExpr
end AFV
