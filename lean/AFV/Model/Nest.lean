/-!
# Nest — data model of single-Einsum LoopTree mappings and `analytic`, the model of accelforge's
# symbolic reuse analysis (what `evaluate_mapping` / `run_model` compute today)

Anchors (all under /repo/accelforge):
* `model/_looptree/reuse/symbolic/_symbolic.py` — `insert_reservation_nodes` (+ `ReservationAnalysisTracker`),
  `analyze_node` / `analyze_temporal` / `analyze_storage` / `analyze_toll` / `analyze_reservation` / `analyze_compute`
* `model/_looptree/reuse/symbolic/_stats.py` — `BuffetStats.repeat_temporal`, `__add__`, `ComputeStats`
* `model/_looptree/reuse/symbolic/_common.py` — `loop_stride_and_shape` (perfect factor: repeats = shape / stride)
* `model/_looptree/energy.py` — `gather_actions`, `compute_energy_from_actions`
* `model/_looptree/latency/memory.py` — `component_latency` (default `total_latency = sum(a.n_calls / a.throughput)`)
* `model/run_model.py` — `run_model` (df columns, usage, reservation running totals, `InvalidMappingError`)
* `frontend/arch/components.py` — `TensorHolder._get_values_per_action`
* `frontend/mapping/mapping.py` — `_split_tensor_holders_with_multiple_tensors`, `_get_single_tensor_mapping`

Fragment: ONE Einsum (not a copy operation), temporal loops only, every tensor rank indexed by one rank variable
(each rank variable is fully relevant or irrelevant to each tensor).  `analytic` is written once, generically over
any type `α` with `+ * / max 0 1`, so that it can be run on rationals (numeric correspondence, proofs against the
reference execution `Spec/NestExec.lean`) and on symbolic expressions (translator tie, property C07).
No control flow of `analytic` depends on a value of type `α`.

Modelling notes (each is also listed in the evidence of the checks that use this file):
* per-unit statistics (`max_per_unit_*`, `min_per_unit_*`, `max_per_parent_*`) coincide with the `total_*` statistics when
  there is no spatial loop (`max_nonzero(0,x) = x`, `n_active_physical_units = 1`), so one set of fields is kept;
  latency, which the code computes from the per-unit fields, is computed here from the totals;
* peer-to-peer fields are always 0 without spatial loops and are omitted;
* `precomputed_iterations` (iteration counts recorded in the tensor-independent first pass) equal `shape / stride`
  of the per-tensor pass because without spatial loops `_get_single_tensor_mapping` only filters nodes;
* the tracker fields `is_fill_level`, `insert_fill_under`, `has_filled` never influence the output and are dropped;
* `if occupancy == 0: continue` in `run_model` is modelled structurally (occupancy is 0 exactly for Tolls).
-/
namespace AFV.Nest

abbrev RV := Nat     -- rank variable id
abbrev TId := Nat    -- tensor id
abbrev Lvl := Nat    -- index of a TensorHolder component in the (flattened) architecture, 0 = outermost

inductive Dir | up | down | upDown
  deriving DecidableEq, Repr, Inhabited

/-- One tensor of the Einsum: the rank variables indexing its ranks, output flag, workload bits per value. -/
structure TensorSpec (α : Type) where
  rvs : List RV
  isOutput : Bool
  bpv : α
  deriving Repr

structure Workload (α : Type) where
  bounds : List α               -- rank_variable_bounds, indexed by RV
  tensors : List (TensorSpec α) -- indexed by TId; the Python iterates tensors in sorted-name order = this order
  nInstances : α                -- workload.n_instances * einsum.n_instances
  deriving Repr

/-- An action of a TensorHolder (`TensorHolderAction`). -/
structure Act (α : Type) where
  energy : α
  throughput : α
  bpa : Option α := none           -- bits_per_action given on the action itself
  vpa : List (TId × α) := []       -- values_per_action given on the action itself
  deriving Repr

/-- A TensorHolder component of the architecture (`Memory` or `Toll`). -/
structure Level (α : Type) where
  isToll : Bool
  size : α                         -- Memory.size (bits); unused for Tolls
  leak : α                         -- total_leak_power
  actionsScale : α
  skipInitial : Bool               -- Memory.skip_initial_output_write
  bpvOv : List (TId × α)           -- component.bits_per_value (per tensor override)
  bpa : Option α                   -- component.bits_per_action
  vpa : List (TId × α)             -- component.values_per_action
  read : Act α
  write : Act α                    -- Tolls have no write action; unused for them
  dir : List (TId × Dir)           -- Toll.direction per tensor
  deriving Repr

structure ComputeLevel (α : Type) where
  energy : α
  throughput : α
  leak : α
  actionsScale : α
  skipInitial : Bool
  deriving Repr

structure Arch (α : Type) where
  levels : List (Level α)
  compute : ComputeLevel α
  deriving Repr

/-- Mapping node.  `lower` is `TensorHolder._lower` (default `True` in the code). -/
inductive Node (α : Type)
  | storage (lvl : Lvl) (ts : List TId) (lower : Bool)
  | toll (lvl : Lvl) (ts : List TId) (lower : Bool)
  | loop (rv : RV) (tile : α)
  | compute
  deriving Repr

abbrev Mapping (α : Type) := List (Node α)

/-- A concrete mapping (natural tile shapes) seen as a mapping over the rationals. -/
def castNode : Node Nat → Node Rat
  | .storage l ts lo => .storage l ts lo
  | .toll l ts lo => .toll l ts lo
  | .loop rv tile => .loop rv (tile : Rat)
  | .compute => .compute

def castMapping (m : Mapping Nat) : Mapping Rat := m.map castNode

/-- Mapping node after `insert_reservation_nodes`. -/
inductive RNode (α : Type)
  | node (n : Node α)
  | reservation (t : TId) (lvl : Lvl)
  deriving Repr

/-! ## Small helpers -/

def lookup {β : Type} (l : List (Nat × β)) (k : Nat) : Option β :=
  match l with
  | [] => none
  | (k', v) :: r => if k' = k then some v else lookup r k

def Workload.relevant {α} (w : Workload α) (t : TId) (rv : RV) : Bool :=
  match w.tensors[t]? with
  | some ts => ts.rvs.contains rv
  | none => false

def Workload.isOutput {α} (w : Workload α) (t : TId) : Bool :=
  match w.tensors[t]? with
  | some ts => ts.isOutput
  | none => false

/-- `Mapping._split_tensor_holders_with_multiple_tensors` -/
def splitHolders {α} : Mapping α → Mapping α
  | [] => []
  | .storage l ts lo :: r =>
    (if ts.length > 1 then ts.map (fun t => Node.storage l [t] lo) else [.storage l ts lo]) ++ splitHolders r
  | .toll l ts lo :: r =>
    (if ts.length > 1 then ts.map (fun t => Node.toll l [t] lo) else [.toll l ts lo]) ++ splitHolders r
  | n :: r => n :: splitHolders r

/-! ## Reservation placement: the tracker state machine of `insert_reservation_nodes` -/

structure Tracker where
  tensor : TId
  lvl : Lvl
  shouldStop : Bool := false
  insertUnder : Bool := false
  deriving Repr

/-- Scan the trackers from the last to the first (`for j in range(len(trackers)-1, -1, -1)`); pop those that
should stop.  Returns (remaining trackers in order, reservations to insert below, reservations to insert above),
the latter two in pop order. -/
def popStopped {α} (trackers : List Tracker) : List Tracker × List (RNode α) × List (RNode α) :=
  trackers.reverse.foldl
    (fun (acc : List Tracker × List (RNode α) × List (RNode α)) tr =>
      if tr.shouldStop then
        if tr.insertUnder then (acc.1, acc.2.1 ++ [RNode.reservation tr.tensor tr.lvl], acc.2.2)
        else (acc.1, acc.2.1, acc.2.2 ++ [RNode.reservation tr.tensor tr.lvl])
      else (tr :: acc.1, acc.2.1, acc.2.2))
    ([], [], [])

/-- Result of the two insertion loops (`mapping.insert(i+1, …); i += 1` for the "below" list, then
`mapping.insert(i, …); i += 1` for the "above" list — note that `i` has already moved when "below" is non-empty). -/
def placeAround {α} (n : RNode α) (below above : List (RNode α)) : List (RNode α) :=
  match below.reverse with
  | [] => above ++ [n]
  | bk :: binitRev => n :: (binitRev.reverse ++ above ++ [bk])

def newTrackers (seen : List TId) (lvl : Lvl) (lower : Bool) : List TId → List TId × List Tracker
  | [] => (seen, [])
  | t :: ts =>
    let top := !lower || !seen.contains t
    let seen' := if top then (if seen.contains t then seen else seen ++ [t]) else seen
    let tr : Tracker := { tensor := t, lvl := lvl, shouldStop := top, insertUnder := top }
    let (s, r) := newTrackers seen' lvl lower ts
    (s, tr :: r)

def insertReservationsAux {α} (w : Workload α) : List Tracker → List TId → Mapping α → List (RNode α)
  | _, _, [] => []
  | trackers, seen, n :: rest =>
    let (trackers1, seen1) : List Tracker × List TId :=
      match n with
      | .loop rv _ =>
        (trackers.map (fun tr =>
            { tr with insertUnder := false, shouldStop := !(w.relevant tr.tensor rv) }), seen)
      | .storage l ts lo =>
        let old := trackers.map (fun tr => { tr with shouldStop := true, insertUnder := false })
        let (s, nt) := newTrackers seen l lo ts
        (old ++ nt, s)
      | .toll l ts lo =>
        let old := trackers.map (fun tr => { tr with shouldStop := true, insertUnder := false })
        let (s, nt) := newTrackers seen l lo ts
        (old ++ nt, s)
      | .compute =>
        (trackers.map (fun tr => { tr with shouldStop := true, insertUnder := false }), seen)
    let (remaining, below, above) := popStopped (α := α) trackers1
    placeAround (.node n) below above ++ insertReservationsAux w remaining seen1 rest

def insertReservations {α} (w : Workload α) (m : Mapping α) : List (RNode α) :=
  insertReservationsAux w [] [] m

/-- `_get_single_tensor_mapping(tensor)` without spatial loops: keep loops, compute, and the holders /
reservations of `t`. -/
def singleTensor {α} (t : TId) : List (RNode α) → List (RNode α)
  | [] => []
  | .node (.storage l ts lo) :: r =>
    if ts.contains t then .node (.storage l ts lo) :: singleTensor t r else singleTensor t r
  | .node (.toll l ts lo) :: r =>
    if ts.contains t then .node (.toll l ts lo) :: singleTensor t r else singleTensor t r
  | .reservation t' l :: r => if t' = t then .reservation t' l :: singleTensor t r else singleTensor t r
  | n :: r => n :: singleTensor t r

/-! ## Buffet statistics (`BuffetStats`) -/

/-- The access statistics of a buffet (`total_*` fields of `BuffetStats`). -/
structure Counts (α : Type) where
  readsToParent : α
  writesToParent : α
  skippedFirst : α          -- total_skipped_first_reads_to_parent
  readActions : α
  writeActions : α
  skReadActions : α         -- total_skipped_first_read_actions
  skWriteActions : α        -- total_skipped_first_write_actions
  deriving Repr

/-- `BuffetStats`: access statistics, `max_occupancy`, `n_loops_above`. -/
structure Stats (α : Type) where
  c : Counts α
  maxOccupancy : α
  nLoopsAbove : Nat
  deriving Repr

/-- Key of a buffet in the per-tensor analysis: a holder level or the compute level. -/
inductive BKey | mem (l : Lvl) | comp
  deriving DecidableEq, Repr, Inhabited

section Generic
variable {α : Type} [Add α] [Mul α] [Div α] [Max α] [OfNat α 0] [OfNat α 1]

def Act.dflt : Act α := { energy := 0, throughput := 1 }

def Level.dflt : Level α :=
  { isToll := false, size := 1, leak := 0, actionsScale := 1, skipInitial := true, bpvOv := [], bpa := none, vpa := [],
    read := Act.dflt, write := Act.dflt, dir := [] }

def Counts.zero : Counts α :=
  { readsToParent := 0, writesToParent := 0, skippedFirst := 0,
    readActions := 0, writeActions := 0, skReadActions := 0, skWriteActions := 0 }

def Stats.zero : Stats α := { c := Counts.zero, maxOccupancy := 0, nLoopsAbove := 0 }

/-- `BuffetStats.repeat_temporal(factor, is_fully_relevant)` followed by `blank() += …` (identity on every field):
every `total_`/`max_`/`min_` field is multiplied, except `skipped_first` fields through a loop that is not fully
relevant (and `max_occupancy`, see `Stats.repeatTemporal`). -/
def Counts.repeatTemporal (s : Counts α) (n : α) (relevant : Bool) : Counts α :=
  { readsToParent := s.readsToParent * n
    writesToParent := s.writesToParent * n
    skippedFirst := if relevant then s.skippedFirst * n else s.skippedFirst
    readActions := s.readActions * n
    writeActions := s.writeActions * n
    skReadActions := if relevant then s.skReadActions * n else s.skReadActions
    skWriteActions := if relevant then s.skWriteActions * n else s.skWriteActions }

/-- `repeat_temporal` on the whole record: `max_occupancy` is not affected by temporal loops above; also the
`n_loops_above + 1` of `analyze_temporal`. -/
def Stats.repeatTemporal (s : Stats α) (n : α) (relevant : Bool) : Stats α :=
  { c := s.c.repeatTemporal n relevant, maxOccupancy := s.maxOccupancy, nLoopsAbove := s.nLoopsAbove + 1 }

def getShape (shape : List α) (rv : RV) : α := shape.getD rv 1

/-- `compute_dense_tile_occupancy` when every rank is indexed by one rank variable: product of the tile shapes. -/
def tileSize (shape : List α) : List RV → α
  | [] => 1
  | rv :: r => getShape shape rv * tileSize shape r

/-- `TensorHolder._get_values_per_action`: action.values_per_action ▸ component.values_per_action ▸
(action.bits_per_action ▸ component.bits_per_action ▸ 1) / (component.bits_per_value ▸ workload bits_per_value). -/
def valuesPerAction (lv : Level α) (a : Act α) (t : TId) (workloadBpv : α) : α :=
  match lookup a.vpa t with
  | some v => v
  | none =>
    match lookup lv.vpa t with
    | some v => v
    | none =>
      let tensorBpv := (lookup lv.bpvOv t).getD workloadBpv
      let actionBpa := match a.bpa with
        | some b => b
        | none => (match lv.bpa with | some b => b | none => 1)
      actionBpa / tensorBpv

def bitsPerValue (lv : Level α) (t : TId) (workloadBpv : α) : α :=
  (lookup lv.bpvOv t).getD workloadBpv

/-- Buffet table of one tensor, OUTERMOST FIRST (the Python dict is in creation order, innermost first, and is
always consulted through `reversed(...)` or by key). -/
abbrev Table (α : Type) := List (BKey × Stats α)

def Table.find (tb : Table α) (k : BKey) : Option (Stats α) :=
  match tb with
  | [] => none
  | (k', s) :: r => if k' = k then some s else Table.find r k

/-- `SymbolicAnalysisOutput.get_child_buffet_stats`: the next buffet (of the same tensor) after `k` in
reversed creation order. -/
def Table.child (tb : Table α) (k : BKey) : Option (Stats α) :=
  match tb with
  | [] => none
  | (k', _) :: r => if k' = k then (match r with | [] => none | (_, s) :: _ => some s) else Table.child r k

def Table.set (tb : Table α) (k : BKey) (s : Stats α) : Table α :=
  match tb with
  | [] => []
  | (k', s') :: r => if k' = k then (k', s) :: r else (k', s') :: Table.set r k s

/-- Context of the per-tensor analysis. -/
structure Ctx (α : Type) where
  arch : Arch α
  w : Workload α
  t : TId

def Ctx.spec (c : Ctx α) : TensorSpec α := c.w.tensors.getD c.t { rvs := [], isOutput := false, bpv := 1 }

def dirOf (lv : Level α) (t : TId) : Dir := (lookup lv.dir t).getD Dir.upDown

/-- The body of `analyze_storage` for one tensor (also the body of `analyze_toll`, which calls it with
`propagate_child_results=True`, per-tensor direction flags and `count_writes=False`).
`stats` are the buffet's statistics created by its Reservation node below, `child` the statistics of the next buffet
of the tensor below (`get_child_buffet_stats`).  `hasParent` = a TensorHolder of this tensor occurs above; the backing
holder of a tensor is the first node holding it, so `is_backing = ¬hasParent` and `below_backing = hasParent` for a
node that holds the tensor. -/
def holderCounts (lv : Level α) (t : TId) (ts : TensorSpec α) (isTollNode : Bool) (hasParent : Bool) (shape : List α)
    (stats : Counts α) (child : Option (Counts α)) : Counts α :=
  let isOut := ts.isOutput
  -- Toll component ⇒ skip_initial = True ("inherits the value from the child"); Memory ⇒ its setting
  let skipInitial := if lv.isToll then true else lv.skipInitial
  let propagate := isTollNode
  let countWrites := !isTollNode
  let countUp := if isTollNode then dirOf lv t != Dir.down else true
  let countDown := if isTollNode then dirOf lv t != Dir.up else true
  let isBacking := !hasParent
  let belowBacking := hasParent
  let fills := tileSize shape ts.rvs
  let inherit := propagate && child.isSome
  let val (f : Counts α → α) : α := match child with
    | some ch => if inherit then f ch else fills
    | none => fills
  -- (the sequence of `+=` statements of the code, one `let` per updated field, in the order of the code)
  -- totals exchanged with the parent
  let reads := if hasParent && (!isBacking && belowBacking) then
      val (·.readsToParent) + stats.readsToParent else stats.readsToParent
  let writes := if hasParent && (isOut || !belowBacking) then
      val (·.writesToParent) + stats.writesToParent else stats.writesToParent
  let skipped := if hasParent && (isOut && !isBacking && belowBacking && skipInitial) then
      val (·.skippedFirst) + stats.skippedFirst else stats.skippedFirst
  -- conversion to actions
  let readScale : α := 1 / valuesPerAction lv lv.read t ts.bpv
  let writeScale : α := if countWrites then 1 / valuesPerAction lv lv.write t ts.bpv else 0
  -- parent → me
  let writeActions1 := if countDown then stats.writeActions + reads * writeScale else stats.writeActions
  let skWriteActions1 := if countDown then stats.skWriteActions + skipped * writeScale else stats.skWriteActions
  -- me → parent
  let readActions1 := if countUp then stats.readActions + writes * readScale else stats.readActions
  -- exchanges with the child: me → child (reads, skipped first reads), child → me (writes)
  let readActions2 := match child with
    | some ch => if countDown then readActions1 + ch.readsToParent * readScale else readActions1
    | none => readActions1
  let skReadActions1 := match child with
    | some ch => if countDown && skipInitial then stats.skReadActions + ch.skippedFirst * readScale
                 else stats.skReadActions
    | none => stats.skReadActions
  let writeActions2 := match child with
    | some ch => if countUp then writeActions1 + ch.writesToParent * writeScale else writeActions1
    | none => writeActions1
  { readsToParent := reads, writesToParent := writes, skippedFirst := skipped,
    readActions := readActions2, writeActions := writeActions2,
    skReadActions := skReadActions1, skWriteActions := skWriteActions1 }

/-- `analyze_storage` on the whole record; `analyze_toll` afterwards sets `max_occupancy = 0`. -/
def holderStats (lv : Level α) (t : TId) (ts : TensorSpec α) (isTollNode : Bool) (hasParent : Bool) (shape : List α)
    (stats : Stats α) (child : Option (Stats α)) : Stats α :=
  { c := holderCounts lv t ts isTollNode hasParent shape stats.c (child.map (·.c))
    maxOccupancy := if isTollNode then 0 else stats.maxOccupancy
    nLoopsAbove := stats.nLoopsAbove }

/-- `analyze_storage` / `analyze_toll` on the buffet table `tb` produced by the nodes below. -/
def analyzeHolder (c : Ctx α) (lvl : Lvl) (isTollNode : Bool) (hasParent : Bool) (shape : List α)
    (tb : Table α) : Option (Table α) :=
  match c.arch.levels[lvl]?, Table.find tb (.mem lvl) with
  | some lv, some stats =>
    some (Table.set tb (.mem lvl)
      (holderStats lv c.t c.spec isTollNode hasParent shape stats (Table.child tb (.mem lvl))))
  | _, _ => none

/-- `analyze_compute`: the buffet of the compute level for one tensor. -/
def computeCounts (isOut computeSkip : Bool) : Counts α :=
  { (Counts.zero : Counts α) with
    readsToParent := 1
    writesToParent := if isOut then 1 else 0
    skippedFirst := if isOut && computeSkip then 1 else 0 }

/-- `analyze_node` on the single-tensor mapping.  Returns the buffet table of the tensor and the compute count
(`ComputeStats.total_ops` = `max_latency` = `max_per_unit_ops` without spatial loops). `none` = the Python raises. -/
def analyzeNodes (c : Ctx α) : (hasParent : Bool) → (shape : List α) → List (RNode α) → Option (Table α × α)
  | _, _, [] => none
  | _, _, .node .compute :: _ =>
    -- analyze_compute
    let isOut := c.spec.isOutput
    some ([(.comp, { c := computeCounts isOut c.arch.compute.skipInitial, maxOccupancy := 1, nLoopsAbove := 0 })], 1)
  | hp, shape, .node (.loop rv tile) :: rest =>
    -- analyze_temporal with loop_stride_and_shape: repeats = shape / stride, child shape = stride
    let n := getShape shape rv / tile
    match analyzeNodes c hp (shape.set rv tile) rest with
    | none => none
    | some (tb, ops) =>
      let rel := c.w.relevant c.t rv
      some (tb.map (fun (k, s) => (k, s.repeatTemporal n rel)), ops * n)
  | hp, shape, .reservation _ lvl :: rest =>
    -- analyze_reservation: creates the buffet's stats with the occupancy at this position
    match analyzeNodes c hp shape rest, c.arch.levels[lvl]? with
    | some (tb, ops), some lv =>
      if (Table.find tb (.mem lvl)).isSome then none else
      let s : Stats α :=
        { c := Counts.zero, maxOccupancy := tileSize shape c.spec.rvs * bitsPerValue lv c.t c.spec.bpv, nLoopsAbove := 0 }
      some ((.mem lvl, s) :: tb, ops)
    | _, _ => none
  | hp, shape, .node (.storage lvl _ _) :: rest =>
    match analyzeNodes c true shape rest with
    | none => none
    | some (tb, ops) => (analyzeHolder c lvl false hp shape tb).map (fun tb' => (tb', ops))
  | hp, shape, .node (.toll lvl _ _) :: rest =>
    match analyzeNodes c true shape rest with
    | none => none
    | some (tb, ops) => (analyzeHolder c lvl true hp shape tb).map (fun tb' => (tb', ops))

/-- Loops and compute only (`tensor = None` first pass): the compute count. -/
def computeOps : (shape : List α) → Mapping α → α
  | _, [] => 1
  | shape, .loop rv tile :: rest => computeOps (shape.set rv tile) rest * (getShape shape rv / tile)
  | shape, _ :: rest => computeOps shape rest

/-! ## `run_model`: actions, energy, latency, usage -/

/-- One buffet of the whole analysis. -/
structure Buffet (α : Type) where
  lvl : Lvl
  t : TId
  s : Stats α
  deriving Repr

def tableBuffets (t : TId) : Table α → List (Buffet α)
  | [] => []
  | (.mem l, s) :: r => { lvl := l, t := t, s := s } :: tableBuffets t r
  | (.comp, _) :: r => tableBuffets t r

/-- All buffets, tensors in order; per tensor outermost first.  `none` if some per-tensor analysis fails. -/
def allBuffets (arch : Arch α) (w : Workload α) (rm : List (RNode α)) : Nat → Nat → Option (List (Buffet α))
  | _, 0 => some []
  | t, fuel + 1 =>
    match analyzeNodes { arch := arch, w := w, t := t } false w.bounds (singleTensor t rm),
          allBuffets arch w rm (t + 1) fuel with
    | some (tb, _), some r => some (tableBuffets t tb ++ r)
    | _, _ => none

def sumList (l : List α) : α := l.foldr (· + ·) 0

def maxList (x : α) (l : List α) : α := l.foldl max x

/-- Output of the model: what `run_model` puts into `df` (already multiplied by `n_instances` where the code does). -/
structure Result (α : Type) where
  /-- (level, tensor, read count, write count): `action<SEP>level<SEP>tensor<SEP>read|write` -/
  actions : List (Lvl × TId × α × α)
  computes : α
  /-- (level, tensor, read energy, write energy) -/
  energies : List (Lvl × TId × α × α)
  computeEnergy : α
  /-- leak energy per TensorHolder level (all levels of the architecture), then of the compute -/
  leaks : List α
  computeLeak : α
  /-- `latency<SEP>component` for the components that appear in the mapping -/
  latencies : List (Lvl × α)
  computeLatency : α
  totalLatency : α
  dynamicEnergy : α
  leakEnergy : α
  totalEnergy : α
  /-- (level, tensor, occupancy in bits) of Memory buffets; usage = bits / size -/
  occupancy : List (Lvl × TId × α)
  /-- (level, tensor, usage fraction) -/
  usage : List (Lvl × TId × α)
  /-- `reservation<SEP>memory<SEP>n_loops`: running totals / size -/
  reservations : List (Lvl × Nat × α)
  /-- per memory: total bits and `usage<SEP>memory<SEP>m` = total / size -/
  memBits : List (Lvl × α)
  memUsage : List (Lvl × α)
  deriving Repr

def netRead (s : Stats α) [Sub α] : α := s.c.readActions - s.c.skReadActions
def netWrite (s : Stats α) [Sub α] : α := s.c.writeActions - s.c.skWriteActions

def insertSorted (n : Nat) : List Nat → List Nat
  | [] => [n]
  | m :: r => if n < m then n :: m :: r else if n = m then m :: r else m :: insertSorted n r

def levelIds (arch : Arch α) : List Lvl := List.range arch.levels.length

variable [Sub α]

/-- `gather_actions` + `_apply_actions_scale` + `compute_energy_from_actions` + `component_latency` + the usage
part of `run_model`. -/
def assemble (arch : Arch α) (w : Workload α) (m : Mapping α) (bs : List (Buffet α)) : Result α :=
  let ni := w.nInstances
  let lvOf (l : Lvl) : Level α := arch.levels.getD l Level.dflt
  -- gather_actions (verbose keys) with actions_scale
  let acts : List (Lvl × TId × α × α) :=
    bs.map (fun b => (b.lvl, b.t, netRead b.s * (lvOf b.lvl).actionsScale, netWrite b.s * (lvOf b.lvl).actionsScale))
  let ops := computeOps w.bounds m
  let computeCount := ops * arch.compute.actionsScale
  -- energy per (level, tensor, action)
  let ens : List (Lvl × TId × α × α) :=
    acts.map (fun (l, t, r, wr) => (l, t, r * (lvOf l).read.energy, wr * (lvOf l).write.energy))
  let computeEnergy := computeCount * arch.compute.energy
  -- component_latency, default total_latency = sum(a.n_calls / a.throughput for a in actions)
  let usedLevels := (levelIds arch).filter (fun l => bs.any (fun b => b.lvl == l))
  let lats : List (Lvl × α) := usedLevels.map (fun l =>
    let lv := lvOf l
    let mine := bs.filter (fun b => b.lvl == l)
    let reads := sumList (mine.map (fun b => netRead b.s))
    let writes := sumList (mine.map (fun b => netWrite b.s))
    let rl := reads * lv.actionsScale / lv.read.throughput
    (l, if lv.isToll then rl else rl + writes * lv.actionsScale / lv.write.throughput))
  let computeLat := ops * arch.compute.actionsScale / arch.compute.throughput
  let overall := maxList computeLat (lats.map (·.2))
  -- leak
  let leaks := arch.levels.map (fun lv => lv.leak * overall)
  let computeLeak := arch.compute.leak * overall
  let dyn := sumList (ens.map (fun (_, _, r, wr) => r + wr)) + computeEnergy
  let leak := sumList leaks + computeLeak
  -- usage
  let memB := bs.filter (fun b => !(lvOf b.lvl).isToll)
  let occ : List (Lvl × TId × α) := memB.map (fun b => (b.lvl, b.t, b.s.maxOccupancy))
  let nOpts : List Nat := memB.foldl (fun acc b => insertSorted b.s.nLoopsAbove acc) []
  let mems := (levelIds arch).filter (fun l => memB.any (fun b => b.lvl == l))
  let resv : List (Lvl × Nat × α) := mems.flatMap (fun l =>
    let mine := memB.filter (fun b => b.lvl == l)
    let step (acc : α × List (Lvl × Nat × α)) (n : Nat) : α × List (Lvl × Nat × α) :=
      let here := mine.filter (fun b => b.s.nLoopsAbove == n)
      if here.isEmpty then acc else
        let tot := acc.1 + sumList (here.map (fun b => b.s.maxOccupancy))
        (tot, acc.2 ++ [(l, n, tot / (lvOf l).size)])
    (nOpts.foldl step (0, [])).2)
  let memBits : List (Lvl × α) := mems.map (fun l =>
    (l, sumList ((memB.filter (fun b => b.lvl == l)).map (fun b => b.s.maxOccupancy))))
  { actions := acts.map (fun (l, t, r, wr) => (l, t, r * ni, wr * ni))
    computes := computeCount * ni
    energies := ens.map (fun (l, t, r, wr) => (l, t, r * ni, wr * ni))
    computeEnergy := computeEnergy * ni
    leaks := leaks.map (· * ni)
    computeLeak := computeLeak * ni
    latencies := lats.map (fun (l, x) => (l, x * ni))
    computeLatency := computeLat * ni
    totalLatency := overall * ni
    dynamicEnergy := dyn * ni
    leakEnergy := leak * ni
    totalEnergy := leak * ni + dyn * ni
    occupancy := occ
    usage := occ.map (fun (l, t, o) => (l, t, o / (lvOf l).size))
    reservations := resv
    memBits := memBits
    memUsage := memBits.map (fun (l, b) => (l, b / (lvOf l).size)) }

/-- **The model of `evaluate_mapping` on one Einsum.**  `none` = the Python raises inside the analysis
(e.g. the same (component, tensor) pair held twice). -/
def analytic (arch : Arch α) (w : Workload α) (m : Mapping α) : Option (Result α) :=
  let m' := splitHolders m
  let rm := insertReservations w m'
  match allBuffets arch w rm 0 w.tensors.length with
  | none => none
  | some bs => some (assemble arch w m' bs)

end Generic

/-! ## Well-formedness of a concrete mapping (the fragment the theorems speak about)

Mirrors what the real code rejects or what lies outside the modelled fragment:
* the node list ends with the only Compute;
* every loop has a tile shape ≥ 1 dividing the current shape of its rank variable (perfect factorisation),
  and at the Compute every rank variable has shape 1 (`_assert_valid_pmapping`);
* every holder node refers to an existing component of the matching kind (Storage ↔ Memory, Toll ↔ Toll), holds a
  non-empty duplicate-free list of existing tensors and has `_lower = True` (the default; what `evaluate_mapping` builds
  from YAML); no (component, tensor) pair occurs twice (`assert buffet not in child_result.buffet_stats`);
* every tensor is held somewhere, and its first (backing) holder is a Memory;
* every tensor's rank variables exist and are pairwise different (one rank variable per rank);
* bounds ≥ 1. -/

def wfLoops : List Nat → Mapping Nat → Bool
  | _, [] => false
  | shape, [.compute] => shape.all (· == 1)
  | _, .compute :: _ => false
  | shape, .loop rv tile :: r =>
    decide (rv < shape.length) && decide (1 ≤ tile) && (shape.getD rv 1 % tile == 0) && wfLoops (shape.set rv tile) r
  | shape, _ :: r => wfLoops shape r

def holderKeys {α} : Mapping α → List (Lvl × TId)
  | [] => []
  | .storage l ts _ :: r => ts.map (fun t => (l, t)) ++ holderKeys r
  | .toll l ts _ :: r => ts.map (fun t => (l, t)) ++ holderKeys r
  | _ :: r => holderKeys r

def nodupB {β} [DecidableEq β] : List β → Bool
  | [] => true
  | x :: r => !r.contains x && nodupB r

def wfNode (arch : Arch Rat) (ntens : Nat) : Node Nat → Bool
  | .storage l ts lo =>
    (match arch.levels[l]? with | some lv => !lv.isToll | none => false) && !ts.isEmpty && ts.all (· < ntens) && nodupB ts && lo
  | .toll l ts lo =>
    (match arch.levels[l]? with | some lv => lv.isToll | none => false) && !ts.isEmpty && ts.all (· < ntens) && nodupB ts && lo
  | _ => true

/-- Is the first holder of `t` a Storage (Memory) node? `false` if `t` is never held. -/
def backedByMemory (t : TId) : Mapping Nat → Bool
  | [] => false
  | .storage _ ts _ :: r => if ts.contains t then true else backedByMemory t r
  | .toll _ ts _ :: r => if ts.contains t then false else backedByMemory t r
  | _ :: r => backedByMemory t r

def wfTensor (nrv : Nat) (ts : TensorSpec Nat) : Bool := ts.rvs.all (· < nrv) && nodupB ts.rvs

def WF (arch : Arch Rat) (w : Workload Nat) (m : Mapping Nat) : Bool :=
  w.bounds.all (1 ≤ ·) && w.tensors.all (wfTensor w.bounds.length) &&
  wfLoops w.bounds m && m.all (wfNode arch w.tensors.length) && nodupB (holderKeys m) &&
  (List.range w.tensors.length).all (fun t => backedByMemory t m)

/-- `InvalidMappingError`: some memory's total reservation exceeds its size. -/
def Result.oversubscribed (arch : Arch Rat) (r : Result Rat) : Bool :=
  r.memBits.any (fun (l, b) => decide ((arch.levels.getD l Level.dflt).size < b))

end AFV.Nest
