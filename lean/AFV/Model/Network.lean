import AFV.Model.LExpr
/-!
# Model of `accelforge/model/_looptree/reuse/symbolic/_network.py` (topology cost models)

The code is symbolic: called with sympy symbols it returns formulas.  The model therefore produces
`LExpr` formulas, built operation by operation the way the Python helpers build them
(`multicast_cost`, `unicast_cost`, `arithmetic_sum`, the branches of
`MeshTopologyModel.per_loop_transfer_cost` and `AllToAllTopologyModel.per_loop_transfer_cost`),
and its numeric reading is `LExpr.eval`.

Scope: **non-distributed source** (`src_component._get_physical_fanout_along(dim) ≤ 1`); the
distributed branch of the mesh model (local binding with `min_nonzero/max_nonzero`) is outside the
property and is not modelled.

Core Lean only (linked into the driver).
-/
namespace AFV.Network
open AFV LExpr

/-- Relevancy of the spatial loop's rank variable to the tensor. -/
inductive Relevancy where
  | irrelevant          -- every destination needs the same value: multicast
  | relevant            -- every destination needs its own value: unicast
  | partiallyRelevant   -- `raise NotImplementedError()`
  deriving DecidableEq, Repr

/-- `PerLoopTransferCost`. -/
structure PerLoop where
  total : LExpr        -- `total_cost`: total hops contributed by this spatial loop
  maxHops : LExpr      -- `max_hops`
  maxTraffic : LExpr   -- `max_traffic`: maximum traffic on any single link along this dimension
  deriving Repr

/-- `multicast_cost(n_dsts, stride) = (n_dsts - 1) * stride`. -/
def multicastCost (nDsts stride : LExpr) : LExpr := (nDsts - 1) * stride

/-- `arithmetic_sum(n) = 0.5 * (n + 1) * n`. -/
def arithmeticSum (n : LExpr) : LExpr := LExpr.num (1/2) * (n + 1) * n

/-- `unicast_cost(n_dsts, stride) = arithmetic_sum(n_dsts - 1) * stride`. -/
def unicastCost (nDsts stride : LExpr) : LExpr := arithmeticSum (nDsts - 1) * stride

/-- `MeshTopologyModel.per_loop_transfer_cost`, non-distributed source.
`none` = the code raises `NotImplementedError`. -/
def meshPerLoop (rel : Relevancy) (shapeRepeats lastFanout volume : LExpr) : Option PerLoop :=
  match rel with
  | .irrelevant => some {
      total := multicastCost shapeRepeats lastFanout * volume
      maxHops := shapeRepeats * lastFanout
      maxTraffic := volume }
  | .relevant => some {
      total := unicastCost shapeRepeats lastFanout * volume
      maxHops := shapeRepeats * lastFanout
      maxTraffic := (shapeRepeats - 1) * volume }
  | .partiallyRelevant => none

/-- `AllToAllTopologyModel.HOPS_PER_TRANSFER`. -/
def hopsPerTransfer : LExpr := 1

/-- `AllToAllTopologyModel.per_loop_transfer_cost` (`last_fanout` is ignored by the code). -/
def a2aPerLoop (rel : Relevancy) (shapeRepeats _lastFanout volume : LExpr) : Option PerLoop :=
  let hops := hopsPerTransfer
  let nDsts := shapeRepeats - 1
  match rel with
  | .irrelevant => some {
      total := nDsts * hops * volume
      maxHops := hops
      maxTraffic := volume }
  | .relevant => some {
      total := nDsts * hops * volume
      maxHops := hops
      maxTraffic := nDsts * volume }
  | .partiallyRelevant => none

inductive Topology where
  | mesh | allToAll
  deriving DecidableEq, Repr

/-- `get_topology_model(topology)().per_loop_transfer_cost(...)`. -/
def perLoop : Topology → Relevancy → LExpr → LExpr → LExpr → Option PerLoop
  | .mesh => meshPerLoop
  | .allToAll => a2aPerLoop

/-! ## `TopologyModel.accumulate_max_hops` — running total per network -/

/-- `overall_max_hops` dict as an association list (network id ↦ running total). -/
abbrev HopState := List (Nat × Rat)

def HopState.get (st : HopState) (net : Nat) : Rat :=
  match st.find? (fun p => p.1 == net) with
  | some p => p.2
  | none => 0

def HopState.set (st : HopState) (net : Nat) (x : Rat) : HopState :=
  match st with
  | [] => [(net, x)]
  | (k, y) :: rest => if k == net then (k, x) :: rest else (k, y) :: HopState.set rest net x

/-- `accumulate_max_hops(network, max_hops)`: add to the running total and return it. -/
def accumulateMaxHops (st : HopState) (net : Nat) (maxHops : Rat) : HopState × Rat :=
  let t := st.get net + maxHops
  (st.set net t, t)

/-- A whole sequence of calls: final state and the list of returned totals. -/
def accumulateAll (st : HopState) : List (Nat × Rat) → HopState × List Rat
  | [] => (st, [])
  | (net, h) :: calls =>
    let (st', t) := accumulateMaxHops st net h
    let (st'', ts) := accumulateAll st' calls
    (st'', t :: ts)

end AFV.Network
