/-!
How the joiner combines per-Einsum pmapping values into the totals it reports (property C04).

`PmappingDataframe.merge_next` adds the objective columns of the two sides row by row; the final table therefore
carries, per result row, the sum over Einsums of each summable column.  Latency of one Einsum is the maximum over
its components (`run_model`: `overall_latency = max_nonzero(*latency.values())`), the total the sum over Einsums.
Core Lean only.
-/
namespace AFV.Fuse

/-- What one Einsum contributes: its energy breakdown columns and its per-component latency columns. -/
structure Part where
  energies  : List Int
  latencies : List Int
  deriving Repr

def sum (l : List Int) : Int := l.foldl (· + ·) 0
def maxOf (l : List Int) : Int := l.foldl max 0

def Part.energy (p : Part) : Int := sum p.energies
def Part.latency (p : Part) : Int := maxOf p.latencies

/-- The pair of summable objective columns of one side of a join. -/
structure Obj where
  energy : Int
  latency : Int
  deriving Repr, DecidableEq

def Part.obj (p : Part) : Obj := ⟨p.energy, p.latency⟩

/-- `merge_next` on the objective columns. -/
def merge (a b : Obj) : Obj := ⟨a.energy + b.energy, a.latency + b.latency⟩

/-- The joiner: left-to-right pairwise merges over the Einsum order. -/
def joined : List Part → Obj
  | [] => ⟨0, 0⟩
  | p :: ps => ps.foldl (fun acc q => merge acc q.obj) p.obj

/-- The reference: totals computed directly from all breakdown columns. -/
def totalEnergy (ps : List Part) : Int := sum (ps.flatMap (·.energies))
def totalLatency (ps : List Part) : Int := sum (ps.map Part.latency)

/-- Σ over groups of the maximum of each group (what the driver evaluates for the harness). -/
def sumOfMax (gs : List (List Int)) : Int := sum (gs.map maxOf)

def edp (o : Obj) : Int := o.energy * o.latency

end AFV.Fuse
