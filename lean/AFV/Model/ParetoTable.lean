import AFV.Model.Pareto
/-!
Model of `accelforge/mapper/FFM/_pareto_df/pareto.py:makepareto` and the column classification of
`df_convention.py` it relies on (`is_objective_col`, `col2reservation`, `col_used_in_pareto`,
`is_fused_loop_col`, `is_n_iterations_col`).

    columns        = [c for c in df.columns if col_used_in_pareto(c)]            (when not given)
    split_by_cols += [c for c in df.columns if is_fused_loop_col(c) and not is_n_iterations_col(c)]
    for c in df.columns:
        skip constant columns (and everything when there is ≤ 1 row)
        c in columns and objective   → 'min' on logscale_to_tolerance(col, objective_tolerance)
        c in split_by_cols           → 'diff'
        c in columns                 → 'min' (multi_round(col, …) when c is a reservation column)
    nothing left → first row only;  else rows selected by fast_pareto_mask(combined, goals)

Column names follow the `<SEP>` grammar: `Total<SEP>…` objective, `reservation<SEP>name<SEP>nloops<SEP>left|right`
reservation (any other number of parts, or a non-integer `nloops`, makes `col2reservation` raise ValueError),
`fused_loop<SEP>…` fused-loop tile shape, `fused_loop<SEP>n_iterations…` iteration count (not split on).
The rounding functions are parameters (`Rounding`): the identity for zero tolerance.
-/
namespace AFV.Pareto

/-! String handling is done on `List Char` with structural recursion (kernel-evaluable). -/

def sepChars : List Char := "<SEP>".toList

/-- `str.split("<SEP>")`: leftmost non-overlapping occurrences. `skip` = characters of a matched separator
still to be skipped, `cur` = current part, reversed. -/
def splitGo : List Char → Nat → List Char → List (List Char)
  | [], _, cur => [cur.reverse]
  | _ :: cs, skip + 1, cur => splitGo cs skip cur
  | c :: cs, 0, cur =>
    if (c :: cs).take 5 == sepChars then cur.reverse :: splitGo cs 4 [] else splitGo cs 0 (c :: cur)

def sepParts (s : String) : List (List Char) := splitGo s.toList 0 []

/-- `str.startswith`. -/
def startsWithL (s : List Char) (p : String) : Bool := s.take p.toList.length == p.toList

/-- `is_objective_col`: first `<SEP>` part is `Total`. -/
def isObjectiveCol (c : String) : Bool := (sepParts c).head? == some "Total".toList

/-- Python `int(s)` accepts an optional sign followed by digits (we model exactly that). -/
def isIntLit (s : List Char) : Bool :=
  let body := match s with
    | '-' :: r => r
    | '+' :: r => r
    | r => r
  !body.isEmpty && body.all Char.isDigit

/-- `col2reservation(c) is not None`; `none` = the call raises ValueError. -/
def isReservationCol (c : String) : Option Bool :=
  match sepParts c with
  | first :: rest =>
    if first == "reservation".toList then
      match rest with
      | [_, nloops, _] => if isIntLit nloops then some true else none
      | _ => none
    else some false
  | [] => some false

def isFusedLoopCol (c : String) : Bool := startsWithL c.toList "fused_loop<SEP>"
def isNIterCol (c : String) : Bool := startsWithL c.toList "fused_loop<SEP>n_iterations"

/-- what `makepareto` does with a column. -/
inductive Kind where
  | objective | reservation | split | ignored
  deriving DecidableEq, Repr

/-- classification of one column with `columns = None` (every caller in the repository; an explicit
`columns` list is not modelled): `used = col_used_in_pareto(c)`; `none` = ValueError from `col2reservation`. -/
def classify (splitBy : List String) (c : String) : Option Kind :=
  match isReservationCol c with
  | none => none
  | some isRes =>
    let used := isRes || isObjectiveCol c
    let isSplit := splitBy.contains c || (isFusedLoopCol c && !isNIterCol c)
    some (if used && isObjectiveCol c then .objective
          else if isSplit then .split
          else if used then .reservation
          else .ignored)

def Kind.goal : Kind → Option Goal
  | .objective => some .min
  | .reservation => some .min
  | .split => some .diff
  | .ignored => none

structure TCol where
  name : String
  vals : List EV

/-- column-level rounding (`logscale_to_tolerance` looks at the column minimum). -/
structure Rounding where
  obj : List EV → List EV
  res : List EV → List EV

def Rounding.id : Rounding := ⟨fun c => c, fun c => c⟩

def Kind.round (r : Rounding) : Kind → List EV → List EV
  | .objective, c => r.obj c
  | .reservation, c => r.res c
  | _, c => c

/-- rows of a column-major table. -/
def rowsOf (cols : List (List EV)) (n : Nat) : List Row := (List.range n).map fun i => cols.map (cell · i)

/-- `mappings.iloc[0:1]` as a mask. -/
def firstOnly (n : Nat) : List Bool := (List.range n).map (· == 0)

/-- the classified columns: (goal, values), in table order; `none` = ValueError. -/
def classified (splitBy : List String) (tab : List TCol) : Option (List (Kind × List EV)) :=
  tab.mapM fun c => (classify splitBy c.name).map fun k => (k, c.vals)

/-- the columns handed to `fast_pareto_mask`: classified, not ignored, not constant, rounded. -/
def activeCols (r : Rounding) (n : Nat) (cl : List (Kind × List EV)) : List (Goal × List EV) :=
  cl.filterMap fun kc =>
    match kc.1.goal with
    | none => none
    | some g => if n ≤ 1 || isConst kc.2 then none else some (g, kc.1.round r kc.2)

/-- `makepareto(df, split_by_cols=splitBy, …)` as a mask over the `n` rows; `none` = ValueError
(the default column list is computed first: `col2reservation` is called on every column name). -/
def makeparetoMask (cfg : Cfg) (r : Rounding) (splitBy : List String) (n : Nat) (tab : List TCol) :
    Option (List Bool) :=
  (classified splitBy tab).map fun cl =>
    let act := activeCols r n cl
    if act.isEmpty then firstOnly n
    else fastParetoMask cfg (act.map (·.1)) (rowsOf (act.map (·.2)) n)

end AFV.Pareto
