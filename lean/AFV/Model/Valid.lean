/-!
Decidable validity predicate for a returned mapping (property C03).

A mapping is given per Einsum as its root-to-compute node list (shared fused prefix repeated), plus what the
spec demands: rank-variable bounds, tensors, required keep sets, spatial fanouts, loop-bound constraints.
Core Lean only (linked into the driver).
-/
namespace AFV.Valid

inductive Node where
  | storage (comp : String) (tensors : List String)
  | toll    (comp : String) (tensors : List String)
  | loop    (rv : String) (tile : Nat)                                   -- temporal
  | spatial (rv : String) (tile : Nat) (comp : String) (dim : String)
  | compute (comp : String) (einsum : String)
  deriving Repr, DecidableEq

structure Path where
  einsum : String
  nodes  : List Node
  deriving Repr

structure EinsumSpec where
  name    : String
  ranks   : List (String × Nat)        -- rank variable ↦ bound
  tensors : List String
  deriving Repr

structure Keep where
  einsum : String
  comp   : String
  tensors : List String

structure Fanout where
  comp : String
  dim  : String
  fanout : Nat

/-- operators of `Comparison`: per-loop (`==,<=,<,>=,>`) and product forms. -/
inductive Op where | eq | le | lt | ge | gt | peq | ple | plt | pge | pgt
  deriving Repr, DecidableEq

structure LoopBound where
  comp : String
  dim  : String
  rvs  : List String
  op   : Op
  value : Nat

/-! ### tile chains -/

/-- Tiles of the loops over one rank variable, outermost first.  Each tile must divide the enclosing tile
(perfect factorisation), be positive, and the innermost tile must be 1 (the rank variable is iterated fully).
With no loop at all the rank variable must have bound 1. -/
def chainOK : Nat → List Nat → Bool
  | b, [] => b == 1
  | b, t :: ts => t != 0 && b % t == 0 && chainOK t ts

/-- Iteration counts of the loops of a chain: enclosing tile / tile. -/
def counts : Nat → List Nat → List Nat
  | _, [] => []
  | b, t :: ts => (b / t) :: counts t ts

def prod (l : List Nat) : Nat := l.foldl (· * ·) 1

/-- tiles of all loops (temporal and spatial) over `rv`, outermost first. -/
def tilesOf (rv : String) : List Node → List Nat
  | [] => []
  | Node.loop r t :: ns => if r == rv then t :: tilesOf rv ns else tilesOf rv ns
  | Node.spatial r t _ _ :: ns => if r == rv then t :: tilesOf rv ns else tilesOf rv ns
  | _ :: ns => tilesOf rv ns

def chainsOK (e : EinsumSpec) (p : Path) : Bool :=
  e.ranks.all (fun (rv, b) => chainOK b (tilesOf rv p.nodes))

/-- every loop of the path is over a rank variable of the Einsum -/
def loopsKnown (e : EinsumSpec) (p : Path) : Bool :=
  p.nodes.all (fun n => match n with
    | Node.loop r _ => e.ranks.any (·.1 == r)
    | Node.spatial r _ _ _ => e.ranks.any (·.1 == r)
    | _ => true)

/-! ### structure -/

def isCompute : Node → Bool
  | Node.compute _ _ => true
  | _ => false

/-- the path ends with its only compute node, which computes the path's Einsum -/
def endsWithCompute (p : Path) : Bool :=
  match p.nodes.getLast? with
  | some (Node.compute _ e) => e == p.einsum && (p.nodes.filter isCompute).length == 1
  | _ => false

/-- every Einsum of the workload is computed by exactly one path -/
def computesOnce (es : List EinsumSpec) (ps : List Path) : Bool :=
  es.all (fun e => (ps.filter (fun p => p.einsum == e.name)).length == 1) &&
  ps.all (fun p => es.any (fun e => e.name == p.einsum))

def heldBy (t : String) (nodes : List Node) : Bool :=
  nodes.any (fun n => match n with
    | Node.storage _ ts => ts.contains t
    | _ => false)

def everyTensorHeld (e : EinsumSpec) (p : Path) : Bool := e.tensors.all (fun t => heldBy t p.nodes)

def keptIn (comp t : String) (nodes : List Node) : Bool :=
  nodes.any (fun n => match n with
    | Node.storage c ts => c == comp && ts.contains t
    | _ => false)

def keepOK (ks : List Keep) (p : Path) : Bool :=
  ks.all (fun k => k.einsum != p.einsum || k.tensors.all (fun t => keptIn k.comp t p.nodes))

/-! ### spatial fanout and loop bounds -/

/-- (rv, iteration count) of every spatial loop in (comp, dim), with the enclosing tile tracked per rank variable. -/
def spatialCounts (comp dim : String) (bounds : List (String × Nat)) : List Node → List (String × Nat)
  | [] => []
  | Node.loop r t :: ns =>
      spatialCounts comp dim (bounds.map (fun (x, b) => if x == r then (x, t) else (x, b))) ns
  | Node.spatial r t c d :: ns =>
      let cur := (bounds.find? (·.1 == r)).map (·.2) |>.getD 0
      let rest := spatialCounts comp dim (bounds.map (fun (x, b) => if x == r then (x, t) else (x, b))) ns
      if c == comp && d == dim then (r, if t == 0 then 0 else cur / t) :: rest else rest
  | _ :: ns => spatialCounts comp dim bounds ns

def fanoutOK (fs : List Fanout) (e : EinsumSpec) (p : Path) : Bool :=
  fs.all (fun f => prod ((spatialCounts f.comp f.dim e.ranks p.nodes).map (·.2)) ≤ f.fanout)

def cmp (op : Op) (a b : Nat) : Bool :=
  match op with
  | .eq | .peq => a == b
  | .le | .ple => a ≤ b
  | .lt | .plt => a < b
  | .ge | .pge => a ≥ b
  | .gt | .pgt => a > b

def isProduct : Op → Bool
  | .peq | .ple | .plt | .pge | .pgt => true
  | _ => false

/-- A loop-bound constraint of a spatial dimension.  Per-loop operators constrain every spatial loop of the dimension over a
rank variable of the constraint; `product…` operators constrain the product of the iteration counts of ALL those loops
together (as `_make_tile_shapes` does: `targets = [Mul(*targets)]`); with no such loop the constraint is vacuous. -/
def loopBoundOK (lb : LoopBound) (e : EinsumSpec) (p : Path) : Bool :=
  let cs := (spatialCounts lb.comp lb.dim e.ranks p.nodes).filter (fun (r, _) => lb.rvs.contains r)
  if isProduct lb.op then cs.isEmpty || cmp lb.op (prod (cs.map (·.2))) lb.value
  else cs.all (fun (_, n) => cmp lb.op n lb.value)

/-! ### fused loops -/

def isLoop : Node → Bool
  | Node.loop _ _ => true
  | Node.spatial _ _ _ _ => true
  | _ => false

def holds (t : String) : Node → Bool
  | Node.storage _ ts => ts.contains t
  | Node.toll _ ts => ts.contains t
  | _ => false

/-- loops above the outermost holder of tensor `t` (all loops if nobody holds it) -/
def loopsAboveFirstHolder (t : String) (nodes : List Node) : List Node :=
  (nodes.takeWhile (fun n => !holds t n)).filter isLoop

def loopRv : Node → String
  | Node.loop r _ => r
  | Node.spatial r _ _ _ => r
  | _ => ""

/-- Fused loops of a branch: the loops above the outermost holder of a tensor shared with another Einsum;
their number must not exceed `maxFused`, and per rank variable `maxPerRv` (`none` = unlimited). -/
def fusedLoopsOK (shared : List String) (maxFused maxPerRv : Option Nat) (p : Path) : Bool :=
  shared.all (fun t =>
    if heldBy t p.nodes then
      let ls := loopsAboveFirstHolder t p.nodes
      (match maxFused with | none => true | some m => ls.length ≤ m) &&
      (match maxPerRv with
       | none => true
       | some m => ls.all (fun l => (ls.filter (fun l' => loopRv l' == loopRv l)).length ≤ m))
    else true)

/-! ### Tolls -/

def isToll : Node → Bool
  | Node.toll _ _ => true
  | _ => false

/-- No Toll is the outermost holder of a tensor shared between Einsums. -/
def tollNotOutermost (shared : List String) (p : Path) : Bool :=
  shared.all (fun t => match p.nodes.find? (holds t) with
    | some n => !isToll n
    | none => true)

/-! ### the whole predicate, as the list of failed checks (empty = valid) -/

def failures (es : List EinsumSpec) (ps : List Path) (ks : List Keep) (fs : List Fanout) (lbs : List LoopBound) :
    List String :=
  (if computesOnce es ps then [] else ["computes-once"]) ++
  ps.flatMap (fun p =>
    match es.find? (fun e => e.name == p.einsum) with
    | none => ["unknown-einsum"]
    | some e =>
      (if endsWithCompute p then [] else ["ends-with-compute"]) ++
      (if loopsKnown e p then [] else ["unknown-rank-variable"]) ++
      (if chainsOK e p then [] else ["tile-chain"]) ++
      (if everyTensorHeld e p then [] else ["tensor-not-held"]) ++
      (if keepOK ks p then [] else ["keep-violated"]) ++
      (if fanoutOK fs e p then [] else ["fanout-exceeded"]) ++
      (if lbs.all (fun lb => loopBoundOK lb e p) then [] else ["loop-bound-violated"]))

def valid (es : List EinsumSpec) (ps : List Path) (ks : List Keep) (fs : List Fanout) (lbs : List LoopBound) : Bool :=
  (failures es ps ks fs lbs).isEmpty

end AFV.Valid
