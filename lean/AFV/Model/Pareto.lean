import AFV.Model.ParetoBase
/-!
Model of `accelforge/mapper/FFM/_pareto_df/fast_pareto.py` (`fast_pareto_mask` and everything it calls),
following the code step by step:

  goal parsing → prime-factor expansion (`prime_factor_counts`) → constant-column removal (`_is_constant`)
  → cast to the effective dtype (float32 in both branches: `NUMPY_FLOAT_TYPE` is float32) and negation of
  `max` columns → grouping by the `diff` columns (`_encode_groups` + `_counting_sort`)
  → per group (`_sfs_bnl_core`): size-1 shortcut, 1-D path, varying-column detection, single-varying-column
  path, 2-D sorted sweep with the `1e308` sentinel, general path = stable sort on the float32 row sum +
  block-nested-loop window filter with block minima (initialised to `1e30`) and the window-min quick check
  → deduplication (`pd.DataFrame.duplicated(keep="first")` on the surviving original rows, or
  `_dedup_mask` when there is no objective column).

Layout differences that are not observable: the window is a list of blocks of ≤ 16 rows each carrying its
`block_mins` row (the code keeps a flat `window` array and indexes blocks by `w >> 4`); a group is the list of
its (original index, effective row) pairs in increasing index order (what `_counting_sort` produces);
the order of the groups is irrelevant for the mask and is taken as first occurrence.
-/
namespace AFV.Pareto

abbrev Row := List EV

/-- `row[k]` (out of range reads never happen on well-formed input; they give 0). -/
def cell (r : Row) (k : Nat) : EV := r.getD k (EV.fin 0)

/-- Everything float-specific the algorithm uses, as parameters (the theorems hold for every `Cfg`;
`stdCfg S` is what the code uses at scale `S`). -/
structure Cfg where
  /-- the number 1 in scaled units (`2^S`) -/
  one : Int
  /-- cast to the effective dtype -/
  cast : EV → EV
  /-- float row-sum key of a local row -/
  key : List EV → FKey
  /-- initial value of `block_mins` -/
  blockInit : EV
  /-- initial value of `best_c1` in the 2-D sweep -/
  sweepInit : EV
  /-- repaired 2-D sweep (`first_run or g_min_c1 < best_c1`): the first run is accepted unconditionally.
  `false` = the code as it is. -/
  sweepFirst : Bool := false

/-- the code's float configuration at scale `S`.  The two switches describe repaired versions of the code
(both `false` = the code as it is):
* `wide`: the effective dtype follows the data (`float64` for non-float32 data), i.e. the cast is exact;
* `sweepFirst`: the 2-D sweep accepts its first run unconditionally. -/
def stdCfg (S : Nat) (wide : Bool := false) (sweepFirst : Bool := false) : Cfg where
  one := 2 ^ S
  cast := if wide then fun v => v else castF32 S
  key := sumKeyF S
  blockInit := EV.fin (c1e30F32 * 2 ^ S)
  sweepInit := EV.fin (c1e308 * 2 ^ S)
  sweepFirst := sweepFirst

inductive Goal where
  | min | max | diff | minPPF | maxPPF
  deriving DecidableEq, Repr

def parseGoal : String → Option Goal
  | "min" => some .min
  | "max" => some .max
  | "diff" => some .diff
  | "min_per_prime_factor" => some .minPPF
  | "max_per_prime_factor" => some .maxPPF
  | _ => none

/-! ## dominance on effective rows (all columns minimised) -/

/-- `all_leq`: `w[k] ≤ c[k]` for every `k < d`. -/
def leqAll (d : Nat) (w c : Row) : Bool := (List.range d).all fun k => EV.le (cell w k) (cell c k)
/-- `any_less`. -/
def anyLt (d : Nat) (w c : Row) : Bool := (List.range d).any fun k => EV.lt (cell w k) (cell c k)
/-- the inner test of the window scan: `all_leq and any_less`. -/
def domV (d : Nat) (w c : Row) : Bool := leqAll d w c && anyLt d w c

/-- (original row index, effective row) -/
abbrev Item := Nat × Row

/-! ## stable sort (`np.argsort(kind="mergesort")`): any stable sort gives the same list -/

/-- insert `x` before the first element `y` with `x ≤ y` (so `x`, which came earlier, stays first among equals). -/
def insertBy {α} (le : α → α → Bool) (x : α) : List α → List α
  | [] => [x]
  | y :: ys => if le x y then x :: y :: ys else y :: insertBy le x ys

/-- stable insertion sort. -/
def isort {α} (le : α → α → Bool) : List α → List α
  | [] => []
  | x :: xs => insertBy le x (isort le xs)

/-! ## 1-D paths -/

/-- running minimum of column `k` (`if v < min_val: min_val = v`). -/
def colMin (k : Nat) (init : EV) (G : List Item) : EV :=
  G.foldl (fun m y => if EV.lt (cell y.2 k) m then cell y.2 k else m) init

def colMax (k : Nat) (init : EV) (G : List Item) : EV :=
  G.foldl (fun m y => if EV.lt m (cell y.2 k) then cell y.2 k else m) init

/-- `d == 1` and `dv == 1` paths: keep the rows with `v <= min_val`. -/
def path1 (k : Nat) (G : List Item) : List Nat :=
  match G with
  | [] => []
  | x :: xs =>
    let m := colMin k (cell x.2 k) xs
    (G.filter fun y => EV.le (cell y.2 k) m).map (·.1)

/-- indices of the columns with `col_min != col_max` inside the group. -/
def varying (d : Nat) (G : List Item) : List Nat :=
  match G with
  | [] => []
  | x :: xs => (List.range d).filter fun k => colMin k (cell x.2 k) xs != colMax k (cell x.2 k) xs

/-- `local[i, kk] = data[gi, varying[kk]]`. -/
def pick (vs : List Nat) (r : Row) : Row := vs.map (cell r)

/-! ## 2-D path: stable sort on column 0, sweep over runs of equal column 0 -/

/-- maximal runs of consecutive items with equal column-0 value. -/
def runs : List Item → List (List Item)
  | [] => []
  | x :: xs =>
    match runs xs with
    | [] => [[x]]
    | [] :: rest => [x] :: rest
    | (y :: ys) :: rest =>
      if cell x.2 0 == cell y.2 0 then (x :: y :: ys) :: rest else [x] :: (y :: ys) :: rest

/-- the `while i_start < n` loop: `best` is `best_c1`. -/
def sweepGo : EV → List (List Item) → List Nat
  | _, [] => []
  | best, R :: Rs =>
    match R with
    | [] => sweepGo best Rs
    | x :: xs =>
      let g := colMin 1 (cell x.2 1) xs
      if EV.lt g best then
        ((R.filter fun y => cell y.2 1 == g).map (·.1)) ++ sweepGo g Rs
      else sweepGo best Rs

def sweep2 (B : EV) (L : List Item) : List Nat :=
  sweepGo B (runs (isort (fun x y => EV.le (cell x.2 0) (cell y.2 0)) L))

/-- repaired loop (`first_run or g_min_c1 < best_c1`): the first run is always accepted. -/
def sweepGoFirst : List (List Item) → List Nat
  | [] => []
  | [] :: Rs => sweepGoFirst Rs
  | (x :: xs) :: Rs =>
    let g := colMin 1 (cell x.2 1) xs
    (((x :: xs).filter fun y => cell y.2 1 == g).map (·.1)) ++ sweepGo g Rs

def sweep2F (L : List Item) : List Nat :=
  sweepGoFirst (runs (isort (fun x y => EV.le (cell x.2 0) (cell y.2 0)) L))

/-! ## general path: sum-sorted block-nested-loop filter -/

/-- plain window filter (reference algorithm; no block minima). `w` is the window. -/
def bnlGo (d : Nat) : List Row → List Item → List Nat
  | _, [] => []
  | w, x :: xs =>
    if w.any (fun r => domV d r x.2) then bnlGo d w xs else x.1 :: bnlGo d (w ++ [x.2]) xs

structure Block where
  /-- `block_mins[b, :]` -/
  mins : Row
  /-- `window[16 b : 16 b + 16]` (the filled part) -/
  rows : List Row

structure Win where
  blocks : List Block
  /-- `window_min` -/
  wmin : Row

/-- `if v < m: m = v` -/
def minUpd (m v : EV) : EV := if EV.lt v m then v else m

def minRow (d : Nat) (m v : Row) : Row := (List.range d).map fun k => minUpd (cell m k) (cell v k)

/-- append a row to the last block; when that block is full the next (empty) block becomes current,
its minima still at their initial value `S`. -/
def pushBlocks (d : Nat) (S : EV) : List Block → Row → List Block
  | [], v => [⟨minRow d (List.replicate d S) v, [v]⟩]
  | [b], v =>
    let b' : Block := ⟨minRow d b.mins v, b.rows ++ [v]⟩
    if b'.rows.length == 16 then [b', ⟨List.replicate d S, []⟩] else [b']
  | b :: b2 :: bs, v => b :: pushBlocks d S (b2 :: bs) v

def Win.push (d : Nat) (S : EV) (w : Win) (v : Row) : Win :=
  ⟨pushBlocks d S w.blocks v, minRow d w.wmin v⟩

/-- `quick_safe`: some `window_min[kk] > local[i, kk]`. -/
def quickSafe (d : Nat) (wmin c : Row) : Bool := (List.range d).any fun k => EV.lt (cell c k) (cell wmin k)

/-- `block_ok`: no `block_mins[b, kk] > local[i, kk]`. -/
def blockOk (d : Nat) (mins c : Row) : Bool := !((List.range d).any fun k => EV.lt (cell c k) (cell mins k))

def Win.dominates (d : Nat) (w : Win) (c : Row) : Bool :=
  !quickSafe d w.wmin c &&
    w.blocks.any fun b => blockOk d b.mins c && b.rows.any fun r => domV d r c

def bnlBlocksGo (d : Nat) (S : EV) : Win → List Item → List Nat
  | _, [] => []
  | w, x :: xs =>
    if w.dominates d x.2 then bnlBlocksGo d S w xs
    else x.1 :: bnlBlocksGo d S (w.push d S x.2) xs

/-- stable argsort of the group by the float key. -/
def sortByKey (key : List EV → FKey) (L : List Item) : List Item :=
  isort (fun x y => FKey.le (key x.2) (key y.2)) L

def bnlBlocks (cfg : Cfg) (d : Nat) (L : List Item) : List Nat :=
  match sortByKey cfg.key L with
  | [] => []
  | x :: xs => x.1 :: bnlBlocksGo d cfg.blockInit ⟨[⟨x.2, [x.2]⟩], x.2⟩ xs

/-! ## one group of `_sfs_bnl_core` -/

/-- which path of `_sfs_bnl_core` a group takes (`d` = number of effective columns). -/
inductive Path where
  /-- `n == 0` / `n == 1` -/
  | trivial
  /-- `d == 1` (column 0) or exactly one varying column -/
  | one (k : Nat)
  /-- no varying column: every row kept -/
  | all
  /-- exactly two varying columns: sorted sweep -/
  | sweep (vs : List Nat)
  /-- three or more: sum-sorted block-nested-loop -/
  | general (vs : List Nat)
  deriving Repr, DecidableEq

def groupPath (d : Nat) (G : List Item) : Path :=
  match G with
  | [] => .trivial
  | [_] => .trivial
  | _ =>
    if d == 1 then .one 0 else
    match varying d G with
    | [] => .all
    | [vc] => .one vc
    | vs => if vs.length == 2 then .sweep vs else .general vs

/-- the group restricted to its varying columns (`local`). -/
def localOf (vs : List Nat) (G : List Item) : List Item := G.map fun y => (y.1, pick vs y.2)

/-- indices kept in a group. -/
def groupCore (cfg : Cfg) (d : Nat) (G : List Item) : List Nat :=
  match groupPath d G with
  | .trivial => G.map (·.1)
  | .one k => path1 k G
  | .all => G.map (·.1)
  | .sweep vs => if cfg.sweepFirst then sweep2F (localOf vs G) else sweep2 cfg.sweepInit (localOf vs G)
  | .general vs => bnlBlocks cfg vs.length (localOf vs G)

def groupBranch (d : Nat) (G : List Item) : String :=
  match groupPath d G with
  | .trivial => if G.isEmpty then "n0" else "n1"
  | .one _ => if d == 1 then "d1" else "dv1"
  | .all => "dv0"
  | .sweep _ => "dv2"
  | .general _ => if G.length > 16 then "general-blocks" else "general"

/-! ## columns: goals, prime factors, constant filter, cast -/

def column (data : List Row) (c : Nat) : List EV := data.map (cell · c)

/-- `_is_constant`. -/
def isConst (col : List EV) : Bool :=
  match col with
  | [] => true
  | v :: vs => vs.all (· == v)

/-- `np.asarray(arr, dtype=int)` on a scaled value. -/
def natOf (one : Int) : EV → Nat
  | EV.fin k => (k.tdiv one).toNat
  | _ => 0

def expo (p : Nat) : Nat → Nat → Nat
  | 0, _ => 0
  | f + 1, x => if 2 ≤ p ∧ 0 < x ∧ x % p = 0 then 1 + expo p f (x / p) else 0

/-- exponent of `p` in `x`. -/
def expoOf (p x : Nat) : Nat := expo p x x

def isPrime (p : Nat) : Bool := decide (2 ≤ p) && (List.range p).all fun d => decide (d < 2) || p % d != 0

/-- `all_primes`: the primes dividing some value of the column, ascending. -/
def primesOf (col : List Nat) : List Nat :=
  (List.range (col.foldl Nat.max 0 + 1)).filter fun p => isPrime p && col.any fun x => x % p == 0

/-- `prime_factor_counts`: one column per prime (one zero column if there is no prime at all). -/
def ppfCols (one : Int) (col : List Nat) : List (List EV) :=
  match primesOf col with
  | [] => [col.map fun _ => EV.fin 0]
  | ps => ps.map fun p => col.map fun x => EV.fin (Int.ofNat (expoOf p x) * one)

/-- effective `min`/`max` columns: non-constant, cast, `max` negated. -/
def simpleCols (cfg : Cfg) (goals : List Goal) (data : List Row) : List (List EV) :=
  goals.zipIdx.filterMap fun gc =>
    match gc.1 with
    | .min => if isConst (column data gc.2) then none else some ((column data gc.2).map cfg.cast)
    | .max => if isConst (column data gc.2) then none
              else some ((column data gc.2).map fun v => EV.neg (cfg.cast v))
    | _ => none

/-- effective prime-factor-count columns. -/
def extraCols (cfg : Cfg) (goals : List Goal) (data : List Row) : List (List EV) :=
  goals.zipIdx.flatMap fun gc =>
    match gc.1 with
    | .minPPF => (ppfCols cfg.one ((column data gc.2).map (natOf cfg.one))).filter (!isConst ·)
    | .maxPPF => ((ppfCols cfg.one ((column data gc.2).map (natOf cfg.one))).filter (!isConst ·)).map
                    (·.map EV.neg)
    | _ => []

def effCols (cfg : Cfg) (goals : List Goal) (data : List Row) : List (List EV) :=
  simpleCols cfg goals data ++ extraCols cfg goals data

def effRow (cols : List (List EV)) (i : Nat) : Row := cols.map (cell · i)

/-! ## groups -/

def diffIdx (goals : List Goal) : List Nat :=
  goals.zipIdx.filterMap fun gc => if gc.1 = .diff then some gc.2 else none

def gkey (goals : List Goal) (r : Row) : List EV := (diffIdx goals).map (cell r)

def nub {α} [BEq α] : List α → List α
  | [] => []
  | x :: xs => x :: (nub xs).filter (· != x)

/-- the groups: for every distinct tuple of `diff` values, the items carrying it, in index order. -/
def groupsOf (goals : List Goal) (data : List Row) (cols : List (List EV)) : List (List Item) :=
  let items : List Item := (List.range data.length).map fun i => (i, effRow cols i)
  (nub (data.map (gkey goals))).map fun k =>
    items.filter fun it => gkey goals (data.getD it.1 []) == k

/-! ## deduplication -/

/-- `_dedup_mask`: first occurrence of every distinct row. -/
def dedupFirst (data : List Row) : List Bool :=
  (List.range data.length).map fun i => !((data.take i).any (· == data.getD i []))

/-- the core mask before deduplication. -/
def coreMask (cfg : Cfg) (goals : List Goal) (data : List Row) : List Bool :=
  let cols := effCols cfg goals data
  let kept := (groupsOf goals data cols).flatMap (groupCore cfg cols.length)
  (List.range data.length).map kept.contains

/-- `duplicated(keep="first")` among the rows selected by `mask`. -/
def dedupKept (data : List Row) (mask : List Bool) : List Bool :=
  (List.range data.length).map fun i =>
    mask.getD i false &&
      !((List.range i).any fun j => mask.getD j false && data.getD j [] == data.getD i [])

/-- `fast_pareto_mask(data, goals, distinct)`. -/
def fastParetoMask (cfg : Cfg) (goals : List Goal) (data : List Row) (distinct : Bool := true) : List Bool :=
  if data.length ≤ 1 then List.replicate data.length true
  else if (effCols cfg goals data).isEmpty then
    -- no objective column at all, or all of them constant
    if distinct then dedupFirst data else List.replicate data.length true
  else
    let m := coreMask cfg goals data
    if distinct then dedupKept data m else m

/-- with goal strings: an unknown goal raises `ValueError` (only reached when there are ≥ 2 rows). -/
def fastParetoMaskStr (cfg : Cfg) (goals : List String) (data : List Row) (distinct : Bool := true) :
    Option (List Bool) :=
  if data.length ≤ 1 then some (List.replicate data.length true)
  else (goals.mapM parseGoal).map fun gs => fastParetoMask cfg gs data distinct

end AFV.Pareto
