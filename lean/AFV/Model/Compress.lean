/-!
Model of `accelforge/mapper/FFM/_join_pmappings/compress_pmappings.py`
(`_compress`, `_compress_pmapping_list`, `compress_einsum2pmappings`, `decompress_pmappings`)
and of the column classifier `col_used_in_joining` of `_pareto_df/df_convention.py`.

Data representation.  A pandas row is a list of `(column name, value)` cells in column order; a
DataFrame is a list of rows (plus, for the decompress frames, an explicit integer index label per
row).  A column that is absent from a row's cells is what pandas shows as NaN after `pd.concat` /
`pd.merge` of frames with different column sets.  Values are opaque (`α`); the only thing pandas does
to a value on this path is the dtype conversion of a NaN-filled column in `pd.concat` (int64 →
float64), modelled by the parameter `conv`.  The
`<einsum><SEP>compressed_index` columns are kept apart from the other cells (`CRow.idx`,
`JRow.idx`) because the code addresses them by that reserved name.

Python (abridged):

    def _compress(einsum_name, pmappings, start_index):
        data = pmappings.mappings.data
        data.reset_index(drop=True, inplace=True); data.index += start_index
        keep_cols     = [c for c in data.columns if col_used_in_joining(c)]
        compress_cols = [c for c in data.columns if c not in keep_cols]
        compressed_data = data[keep_cols].copy(); decompress_data = data[compress_cols].copy()
        compressed_data[f"{einsum_name}<SEP>compressed_index"] = data.index
        return compressed_data, decompress_data

    def _compress_pmapping_list(einsum_name, pmappings):
        decompress_data = {}; compressed = []; start_index = 0; jobs = []
        for pmapping in pmappings:
            jobs.append(delayed(job)(start_index, pmapping)); start_index += len(pmapping.mappings.data)
        for compress, decompress, start_index in parallel(jobs, n_jobs=1):
            compressed.append(compress); decompress_data[start_index] = decompress   # dict: overwrite on equal key
        return compressed, decompress_data

    def decompress_pmappings(pmappings, decompress_data):
        data = pmappings.data
        for einsum_name, decompress in decompress_data.data.items():
            decompress_sub_dfs = []
            decompressed_iter = reversed(decompress.items())
            start_index, chosen = float("inf"), None
            for i in reversed(sorted(oset(data[f"{einsum_name}<SEP>compressed_index"]))):
                while chosen is None or i < start_index:
                    start_index, chosen = next(decompressed_iter)
                cur_chosen = chosen[chosen.index == i]
                assert len(cur_chosen) == 1
                decompress_sub_dfs.append(cur_chosen)
            data = pd.merge(data, pd.concat(decompress_sub_dfs),
                            left_on=f"{einsum_name}<SEP>compressed_index", right_index=True, how="left")
        data = data.drop(columns=[c for c in data.columns if "compressed_index" in c])
        return pmappings.update(data=data, skip_pareto=True)
-/
namespace AFV.Compress

/-- One DataFrame row: `(column, value)` cells in column order. -/
abbrev Row (α : Type) := List (String × α)
/-- `pmappings.mappings.data` of one PmappingGroup. -/
abbrev Table (α : Type) := List (Row α)

/-- A row of a compressed table: `data[keep_cols]` plus the `<einsum><SEP>compressed_index` cell. -/
structure CRow (α : Type) where
  keep : Row α
  idx : Nat
deriving Repr, DecidableEq

/-- A kept-aside frame `data[compress_cols]`: index label and cells of every row. -/
abbrev Frame (α : Type) := List (Nat × Row α)

/-- Python `dict[int, DataFrame]` in insertion order. -/
abbrev Dict (α : Type) := List (Nat × Frame α)

/-- `data[keep_cols]` restricted to one row. -/
def keepCells {α} (joining : String → Bool) (r : Row α) : Row α := r.filter (fun c => joining c.1)
/-- `data[compress_cols]` restricted to one row (`c not in keep_cols`). -/
def asideCells {α} (joining : String → Bool) (r : Row α) : Row α := r.filter (fun c => !joining c.1)

/-- `_compress`: `reset_index(drop=True); index += start`, split the columns, add the index column. -/
def compress1 {α} (joining : String → Bool) (t : Table α) (start : Nat) : List (CRow α) × Frame α :=
  let data := ((List.range t.length).map (· + start)).zip t
  (data.map (fun p => { keep := keepCells joining p.2, idx := p.1 }),
   data.map (fun p => (p.1, asideCells joining p.2)))

/-- First loop of `_compress_pmapping_list`: the start index handed to every job. -/
def starts {α} : List (Table α) → Nat → List Nat
  | [], _ => []
  | t :: ts, s => s :: starts ts (s + t.length)

/-- Python `d[k] = v`: overwrite in place when the key exists (position kept), else append. -/
def dictSet {β} : List (Nat × β) → Nat → β → List (Nat × β)
  | [], k, v => [(k, v)]
  | (k', v') :: d, k, v => if k' = k then (k', v) :: d else (k', v') :: dictSet d k v

/-- `_compress_pmapping_list`. -/
def compressList {α} (joining : String → Bool) (ts : List (Table α)) : List (List (CRow α)) × Dict α :=
  let res := (ts.zip (starts ts 0)).map (fun p => (compress1 joining p.1 p.2, p.2))
  (res.map (fun r => r.1.1), res.foldl (fun d r => dictSet d r.2 r.1.2) [])

/-- `compress_einsum2pmappings` (results are re-ordered to `name_order`; the unordered collection
itself is property C32). -/
def compressAll {α} (joining : String → Bool) (e2p : List (String × List (Table α))) :
    List (String × List (List (CRow α))) × List (String × Dict α) :=
  (e2p.map (fun p => (p.1, (compressList joining p.2).1)),
   e2p.map (fun p => (p.1, (compressList joining p.2).2)))

/-! ## decompress -/

inductive Err where
  | keyError        -- `data[f"{einsum}<SEP>compressed_index"]` missing
  | stopIteration   -- `next(decompressed_iter)` on an exhausted iterator
  | assertion       -- `assert len(cur_chosen) == 1`
  | noObjects       -- `pd.concat([])`: ValueError("No objects to concatenate")
deriving Repr, DecidableEq

/-- A row of the join result: its ordinary cells and its `<einsum><SEP>compressed_index` cells. -/
structure JRow (α : Type) where
  cells : Row α
  idx : List (String × Nat)
deriving Repr, DecidableEq

/-- Insert into a strictly descending list, dropping duplicates. -/
def insDesc (x : Nat) : List Nat → List Nat
  | [] => [x]
  | y :: ys => if y < x then x :: y :: ys else if y = x then y :: ys else y :: insDesc x ys

/-- `reversed(sorted(oset(col)))`: the distinct values, descending. -/
def descSet (col : List Nat) : List Nat := col.foldr insDesc []

/-- `while chosen is None or i < start_index: start_index, chosen = next(decompressed_iter)`.
`cur` is `(start_index, chosen)` (`none` = the initial `(inf, None)`), `it` what the reversed
iterator still has to yield.  `none` result = StopIteration. -/
def advance {α} (i : Nat) : Option (Nat × Frame α) → List (Nat × Frame α) →
    Option ((Nat × Frame α) × List (Nat × Frame α))
  | none, [] => none
  | none, x :: it => advance i (some x) it
  | some c, [] => if i < c.1 then none else some (c, [])
  | some c, x :: it => if i < c.1 then advance i (some x) it else some (c, x :: it)

/-- The `for i in …` loop: collects `chosen[chosen.index == i]` for every distinct index. -/
def walk {α} : List Nat → Option (Nat × Frame α) → List (Nat × Frame α) → Except Err (Frame α)
  | [], _, _ => .ok []
  | i :: is, cur, it =>
    match advance i cur it with
    | none => .error .stopIteration
    | some (c, it') =>
      match c.2.filter (fun p => p.1 == i) with
      | [r] =>
        match walk is (some c) it' with
        | .ok rest => .ok (r :: rest)
        | .error e => .error e
      | _ => .error .assertion

/-- `pd.merge(data, right, left_on=<index col>, right_index=True, how="left")`: every left row, in
order, once per matching right row (unmatched rows are kept, NaN-filled). -/
def mergeLeft {α} (e : String) (data : List (JRow α)) (right : Frame α) : List (JRow α) :=
  data.flatMap (fun r =>
    match r.idx.lookup e with
    | none => [r]
    | some k =>
      match right.filter (fun p => p.1 == k) with
      | [] => [r]
      | ms => ms.map (fun m => { r with cells := r.cells ++ m.2 }))

/-- The cells of row `r` after `pd.concat` together with the rows `others`: the result has the union
of the columns, and a column that is absent from one of the rows is NaN-filled there, which converts
the whole column (pandas: an int64 column becomes float64).  `conv` is that conversion of a cell. -/
def fillRow {α} (conv : α → α) (others : List (Row α)) (r : Row α) : Row α :=
  r.map (fun c =>
    (c.1, if others.all (fun r' => r'.any (fun c' => c'.1 == c.1)) then c.2 else conv c.2))

/-- numpy int64 → float64 on a non-negative integer: round to 53 significant bits, ties to even. -/
def roundF64Nat (n : Nat) : Nat :=
  if n ≤ 2 ^ 53 then n else
    let sh := (n.log2 + 1) - 53
    let q := n >>> sh
    let rem := n - (q <<< sh)
    let half := 1 <<< (sh - 1)
    let q' := if rem > half || (rem == half && q % 2 == 1) then q + 1 else q
    q' <<< sh

/-- numpy int64 → float64, as an integer (every float64 of magnitude ≥ 2^53 is an integer). -/
def roundF64 (i : Int) : Int :=
  if i ≥ 0 then (roundF64Nat i.toNat : Int) else -(roundF64Nat (-i).toNat : Int)

/-- `pd.concat(decompress_sub_dfs)`. -/
def concatFrames {α} (conv : α → α) (subs : Frame α) : Frame α :=
  subs.map (fun p => (p.1, fillRow conv (subs.map (·.2)) p.2))

/-- One iteration of the per-Einsum loop of `decompress_pmappings`. -/
def decompress1 {α} (conv : α → α) (e : String) (dec : Dict α) (data : List (JRow α)) :
    Except Err (List (JRow α)) :=
  match data.mapM (fun r => r.idx.lookup e) with
  | none => .error .keyError
  | some col =>
    match walk (descSet col) none dec.reverse with
    | .error x => .error x
    | .ok [] => .error .noObjects
    | .ok (s :: subs) => .ok (mergeLeft e data (concatFrames conv (s :: subs)))

def decompressLoop {α} (conv : α → α) :
    List (String × Dict α) → List (JRow α) → Except Err (List (JRow α))
  | [], data => .ok data
  | (e, dec) :: rest, data =>
    match decompress1 conv e dec data with
    | .ok d => decompressLoop conv rest d
    | .error x => .error x

/-- `decompress_pmappings`: the loop, then drop every `…compressed_index…` column. -/
def decompress {α} (conv : α → α) (dd : List (String × Dict α)) (data : List (JRow α)) :
    Except Err (List (Row α)) :=
  match decompressLoop conv dd data with
  | .ok d => .ok (d.map (·.cells))
  | .error x => .error x

/-! ## reference semantics (what the property demands) -/

/-- The kept-aside cells of row number `k` of the concatenation of an Einsum's tables. -/
def srcAside {α} (joining : String → Bool) (ts : List (Table α)) (k : Nat) : Row α :=
  asideCells joining ((ts.flatten)[k]?.getD [])

/-- The kept-aside cells of the source row that join row `r` names for Einsum `e`. -/
def srcOf {α} (joining : String → Bool) (e : String) (ts : List (Table α)) (r : JRow α) : Row α :=
  match r.idx.lookup e with
  | some k => srcAside joining ts k
  | none => []

/-- The result row the property demands for join row `r`: its own cells, then for every Einsum (in
dict order) exactly the kept-aside cells of the source row it names. -/
def specRow {α} (joining : String → Bool) (e2p : List (String × List (Table α))) (r : JRow α) : Row α :=
  r.cells ++ e2p.flatMap (fun p => srcOf joining p.1 p.2 r)

/-- What the code computes (theorem `decompress_compress_conv`): as `specRow`, except that the cells
of a column that is absent from the source row of *another* join row (same Einsum) went through
pandas' NaN-fill conversion `conv`. -/
def convRow {α} (conv : α → α) (joining : String → Bool) (e2p : List (String × List (Table α)))
    (rows : List (JRow α)) (r : JRow α) : Row α :=
  r.cells ++ e2p.flatMap (fun p =>
    fillRow conv (rows.map (srcOf joining p.1 p.2)) (srcOf joining p.1 p.2 r))

/-- Every join row names, for every Einsum, an existing row of that Einsum's tables. -/
def Valid {α} (e2p : List (String × List (Table α))) (rows : List (JRow α)) : Prop :=
  ∀ r ∈ rows, ∀ p ∈ e2p, ∃ k, r.idx.lookup p.1 = some k ∧ k < p.2.flatten.length

/-! ## `col_used_in_joining` on a column name already split at `<SEP>` -/

/-- `col2reservation(c) is not None`; `none` models the ValueError of `partition_col(…, 4)`. -/
def isReservation (parts : List String) : Option Bool :=
  match parts with
  | "reservation" :: rest => if rest.length = 3 then some true else none
  | _ => some false

/-- `col_used_in_joining(c)` for `c = "<SEP>".join(parts)`; `none` = raises. -/
def colUsedInJoining (parts : List String) : Option Bool :=
  match parts with
  | [] => some false
  | h :: rest =>
    if h.startsWith "n_iterations" then none else
    match isReservation (h :: rest) with
    | none => none
    | some true => some true
    | some false =>
      some (h == "Total" ||
            ((h == "fused_loop" || h == "binding" || h == "tensor") && !rest.isEmpty))

end AFV.Compress
