/-!
# Expression trees for the symbolic comparator (C09, C08)

`E` mirrors the sympy expression trees the tile-shape explorer feeds to `geq_leq_zero` /
`diff_geq_leq_zero`: rational constants, positive integer symbols (indexed in `str` order),
n-ary `Add` / `Mul` / `Max` / `Min`, integer powers (`x**-1` is how sympy writes a quotient),
`ceiling`, `floor`, `Heaviside`, the unevaluated derivative of `ceiling`
(`dceil x` = `Subs(Derivative(ceiling(ξ), ξ), ξ, x)`, what `sympy.diff` returns), what is left of it once
`ceiling` has been replaced by its argument (`did x` = `Subs(Derivative(ξ, ξ), ξ, x)`, which sympy leaves
unevaluated until the next `doit()`; its value is 1) and an opaque node for anything else (e.g. `DiracDelta`).

`eval` is the exact value over `Rat` (core Lean; no Mathlib: this file is linked into the driver).
Conventions fixed here and used by the Python exporter: `Heaviside(0) = 1/2` (sympy's default),
`0⁻¹ = 0` (the harness skips points where sympy reports `zoo`/`nan`), empty `Max`/`Min` = 0,
`dceil` and opaque nodes evaluate to 0 (they only ever occur in derivative expressions, which are
never evaluated: derivative verdicts are judged by finite differences of the formula itself).
-/
namespace AFV.Expr9

inductive E where
  | num (n : Int) (d : Nat)
  | sym (i : Nat)
  | add (xs : List E)
  | mul (xs : List E)
  | pow (b : E) (k : Int)
  | max (xs : List E)
  | min (xs : List E)
  | ceil (x : E)
  | floor (x : E)
  | heav (x : E)
  | dceil (x : E)
  | did (x : E)
  | opq (tag : String) (xs : List E)
  deriving Repr, Inhabited

/-- `a` if `b ≤ a` else `b` — written out so that proofs do not depend on an instance of `Max Rat`. -/
def rmax (a b : Rat) : Rat := if a ≤ b then b else a
def rmin (a b : Rat) : Rat := if a ≤ b then a else b

/-- sympy's `Heaviside` with the default `H0 = 1/2`. -/
def heavQ (q : Rat) : Rat := if 0 < q then 1 else if q < 0 then 0 else mkRat 1 2

/-- `q ^ k` for an integer exponent, `0⁻¹ = 0`. -/
def ratPow (q : Rat) (k : Int) : Rat :=
  if 0 ≤ k then q ^ k.toNat else (q ^ (-k).toNat)⁻¹

mutual
def eval (ρ : Nat → Rat) : E → Rat
  | .num n d => mkRat n d
  | .sym i => ρ i
  | .add xs => sumL ρ xs
  | .mul xs => prodL ρ xs
  | .pow b k => ratPow (eval ρ b) k
  | .max xs => (maxL ρ xs).getD 0
  | .min xs => (minL ρ xs).getD 0
  | .ceil x => ((eval ρ x).ceil : Int)
  | .floor x => ((eval ρ x).floor : Int)
  | .heav x => heavQ (eval ρ x)
  | .dceil _ => 0
  | .did _ => 1
  | .opq _ _ => 0
def sumL (ρ : Nat → Rat) : List E → Rat
  | [] => 0
  | x :: xs => eval ρ x + sumL ρ xs
def prodL (ρ : Nat → Rat) : List E → Rat
  | [] => 1
  | x :: xs => eval ρ x * prodL ρ xs
def maxL (ρ : Nat → Rat) : List E → Option Rat
  | [] => none
  | x :: xs => match maxL ρ xs with
    | none => some (eval ρ x)
    | some m => some (rmax (eval ρ x) m)
def minL (ρ : Nat → Rat) : List E → Option Rat
  | [] => none
  | x :: xs => match minL ρ xs with
    | none => some (eval ρ x)
    | some m => some (rmin (eval ρ x) m)
end

/-! ## the two rewrites `_compare_to_zero` performs itself -/

mutual
/-- `f.replace(ceiling(x) ↦ x)` (bottom-up, so nested ceilings all go). The derivative of
`ceiling` becomes the (unevaluated) derivative of the identity. -/
def strip : E → E
  | .num n d => .num n d
  | .sym i => .sym i
  | .add xs => .add (stripL xs)
  | .mul xs => .mul (stripL xs)
  | .pow b k => .pow (strip b) k
  | .max xs => .max (stripL xs)
  | .min xs => .min (stripL xs)
  | .ceil x => strip x
  | .floor x => .floor (strip x)
  | .heav x => .heav (strip x)
  | .dceil x => .did (strip x)
  | .did x => .did (strip x)
  | .opq t xs => .opq t (stripL xs)
def stripL : List E → List E
  | [] => []
  | x :: xs => strip x :: stripL xs
end

mutual
/-- `f.has(Heaviside)` -/
def hasHeav : E → Bool
  | .num _ _ => false
  | .sym _ => false
  | .add xs => hasHeavL xs
  | .mul xs => hasHeavL xs
  | .pow b _ => hasHeav b
  | .max xs => hasHeavL xs
  | .min xs => hasHeavL xs
  | .ceil x => hasHeav x
  | .floor x => hasHeav x
  | .heav _ => true
  | .dceil x => hasHeav x
  | .did x => hasHeav x
  | .opq _ xs => hasHeavL xs
def hasHeavL : List E → Bool
  | [] => false
  | x :: xs => hasHeav x || hasHeavL xs
end

mutual
/-- `expr_replace(f, Heaviside, v)`: EVERY Heaviside term becomes the same constant `v`. -/
def setHeav (v : Int) : E → E
  | .num n d => .num n d
  | .sym i => .sym i
  | .add xs => .add (setHeavL v xs)
  | .mul xs => .mul (setHeavL v xs)
  | .pow b k => .pow (setHeav v b) k
  | .max xs => .max (setHeavL v xs)
  | .min xs => .min (setHeavL v xs)
  | .ceil x => .ceil (setHeav v x)
  | .floor x => .floor (setHeav v x)
  | .heav _ => .num v 1
  | .dceil x => .dceil (setHeav v x)
  | .did x => .did (setHeav v x)
  | .opq t xs => .opq t (setHeavL v xs)
def setHeavL (v : Int) : List E → List E
  | [] => []
  | x :: xs => setHeav v x :: setHeavL v xs
end

mutual
/-- `f.count(s)` for a symbol: number of leaf occurrences. -/
def count (s : Nat) : E → Nat
  | .num _ _ => 0
  | .sym i => if i = s then 1 else 0
  | .add xs => countL s xs
  | .mul xs => countL s xs
  | .pow b _ => count s b
  | .max xs => countL s xs
  | .min xs => countL s xs
  | .ceil x => count s x
  | .floor x => count s x
  | .heav x => count s x
  | .dceil x => count s x
  | .did x => count s x
  | .opq _ xs => countL s xs
def countL (s : Nat) : List E → Nat
  | [] => 0
  | x :: xs => count s x + countL s xs
end

mutual
/-- an upper bound on the symbol indices that occur (max index + 1) -/
def symBound : E → Nat
  | .num _ _ => 0
  | .sym i => i + 1
  | .add xs => symBoundL xs
  | .mul xs => symBoundL xs
  | .pow b _ => symBound b
  | .max xs => symBoundL xs
  | .min xs => symBoundL xs
  | .ceil x => symBound x
  | .floor x => symBound x
  | .heav x => symBound x
  | .dceil x => symBound x
  | .did x => symBound x
  | .opq _ xs => symBoundL xs
def symBoundL : List E → Nat
  | [] => 0
  | x :: xs => Nat.max (symBound x) (symBoundL xs)
end

/-- `min(f.free_symbols, key=lambda s: (f.count(s), str(s)))`; symbols are indexed in `str` order,
so the tie-break is the smaller index. `none` when the formula has no symbol (Python: ValueError). -/
def chooseSym (f : E) : Option Nat :=
  let rec go (i : Nat) (best : Option (Nat × Nat)) : Nat → Option (Nat × Nat)
    | 0 => best
    | fuel + 1 =>
      let c := count i f
      let best' := if c = 0 then best else
        match best with
        | none => some (c, i)
        | some (bc, bi) => if c < bc then some (c, i) else some (bc, bi)
      go (i + 1) best' fuel
  (go 0 none (symBound f)).map (·.2)

/-! ## boxes -/

/-- A box: closed integer interval per symbol index. -/
abbrev Box := List (Int × Int)

/-- `ρ` is an integer point of the box. -/
def InBox (box : Box) (ρ : Nat → Rat) : Prop :=
  ∀ i (h : i < box.length), ∃ z : Int, ρ i = (z : Rat) ∧ (box[i]).1 ≤ z ∧ z ≤ (box[i]).2

/-- environment from a list of integer values -/
def envOf (vals : List Int) : Nat → Rat := fun i => ((vals.getD i 0 : Int) : Rat)

/-- all integer points of a box, first symbol slowest -/
def points : Box → List (List Int)
  | [] => [[]]
  | (lo, hi) :: rest =>
    let tails := points rest
    (List.range (hi - lo + 1).toNat).flatMap fun (k : Nat) => tails.map fun t => (lo + Int.ofNat k) :: t

/-! ## structural equality and the per-atom Heaviside partition (the repaired `partition_heaviside`) -/

mutual
/-- structural equality (sympy's `==` on the exported trees) -/
def beq : E → E → Bool
  | .num n d, .num n' d' => n == n' && d == d'
  | .sym i, .sym j => i == j
  | .add xs, .add ys => beqL xs ys
  | .mul xs, .mul ys => beqL xs ys
  | .pow b k, .pow b' k' => beq b b' && k == k'
  | .max xs, .max ys => beqL xs ys
  | .min xs, .min ys => beqL xs ys
  | .ceil x, .ceil y => beq x y
  | .floor x, .floor y => beq x y
  | .heav x, .heav y => beq x y
  | .dceil x, .dceil y => beq x y
  | .did x, .did y => beq x y
  | .opq t xs, .opq t' ys => t == t' && beqL xs ys
  | _, _ => false
def beqL : List E → List E → Bool
  | [], [] => true
  | x :: xs, y :: ys => beq x y && beqL xs ys
  | _, _ => false
end

/-- append `x` unless an equal element is already there -/
def addNew (acc : List E) (x : E) : List E := if acc.any (fun y => beq y x) then acc else acc ++ [x]

mutual
/-- the arguments of the distinct Heaviside terms of `f` (`f.atoms(Heaviside)`), in order of first occurrence;
a Heaviside term nested inside another one's argument is not listed separately -/
def heavArgs (acc : List E) : E → List E
  | .num _ _ => acc
  | .sym _ => acc
  | .add xs => heavArgsL acc xs
  | .mul xs => heavArgsL acc xs
  | .pow b _ => heavArgs acc b
  | .max xs => heavArgsL acc xs
  | .min xs => heavArgsL acc xs
  | .ceil x => heavArgs acc x
  | .floor x => heavArgs acc x
  | .heav x => addNew acc x
  | .dceil x => heavArgs acc x
  | .did x => heavArgs acc x
  | .opq _ xs => heavArgsL acc xs
def heavArgsL (acc : List E) : List E → List E
  | [] => acc
  | x :: xs => heavArgsL (heavArgs acc x) xs
end

mutual
/-- `f.xreplace({Heaviside(x): v, …})` -/
def replaceH (σ : List (E × Int)) : E → E
  | .num n d => .num n d
  | .sym i => .sym i
  | .add xs => .add (replaceHL σ xs)
  | .mul xs => .mul (replaceHL σ xs)
  | .pow b k => .pow (replaceH σ b) k
  | .max xs => .max (replaceHL σ xs)
  | .min xs => .min (replaceHL σ xs)
  | .ceil x => .ceil (replaceH σ x)
  | .floor x => .floor (replaceH σ x)
  | .heav x =>
    match σ.find? (fun p => beq p.1 x) with
    | some p => .num p.2 1
    | none => .heav x
  | .dceil x => .dceil (replaceH σ x)
  | .did x => .did (replaceH σ x)
  | .opq t xs => .opq t (replaceHL σ xs)
def replaceHL (σ : List (E × Int)) : List E → List E
  | [] => []
  | x :: xs => replaceH σ x :: replaceHL σ xs
end

/-- `itertools.product((1, 0), repeat=k)` -/
def assignments : Nat → List (List Int)
  | 0 => [[]]
  | k + 1 => (assignments k).flatMap fun t => [1 :: t, 0 :: t]

/-- the repaired `partition_heaviside(f)` for a formula that has Heaviside terms: one formula per assignment of
0 / 1 to every distinct Heaviside term. (The order of the parts only matters for which oracle queries get made.) -/
def heavParts (f : E) : List E :=
  let atoms := heavArgs [] f
  (assignments atoms.length).map fun vs => replaceH (atoms.zip vs) f

end AFV.Expr9
