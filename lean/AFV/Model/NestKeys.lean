import AFV.Model.NestMap
/-!
# Addressing one formula of a `Result` (a df column of `run_model`)
-/
namespace AFV.Nest

inductive FKey
  | actionR (l : Lvl) (t : TId) | actionW (l : Lvl) (t : TId) | computes
  | energyR (l : Lvl) (t : TId) | energyW (l : Lvl) (t : TId) | computeEnergy
  | leak (l : Lvl) | computeLeak
  | latency (l : Lvl) | computeLatency | totalLatency
  | dynamicEnergy | leakEnergy
  | usage (l : Lvl) (t : TId) | reservation (l : Lvl) (n : Nat) | memUsage (l : Lvl)
  deriving Repr, DecidableEq

def find4 {α : Type} (l : Lvl) (t : TId) : List (Lvl × TId × α × α) → Option (α × α)
  | [] => none
  | (l', t', r, w) :: rest => if l' = l ∧ t' = t then some (r, w) else find4 l t rest

def find3 {α : Type} (l : Lvl) (t : Nat) : List (Lvl × Nat × α) → Option α
  | [] => none
  | (l', t', v) :: rest => if l' = l ∧ t' = t then some v else find3 l t rest

def find2 {α : Type} (l : Lvl) : List (Lvl × α) → Option α
  | [] => none
  | (l', v) :: rest => if l' = l then some v else find2 l rest

def Result.get {α : Type} (r : Result α) : FKey → Option α
  | .actionR l t => (find4 l t r.actions).map (·.1)
  | .actionW l t => (find4 l t r.actions).map (·.2)
  | .computes => some r.computes
  | .energyR l t => (find4 l t r.energies).map (·.1)
  | .energyW l t => (find4 l t r.energies).map (·.2)
  | .computeEnergy => some r.computeEnergy
  | .leak l => r.leaks[l]?
  | .computeLeak => some r.computeLeak
  | .latency l => find2 l r.latencies
  | .computeLatency => some r.computeLatency
  | .totalLatency => some r.totalLatency
  | .dynamicEnergy => some r.dynamicEnergy
  | .leakEnergy => some r.leakEnergy
  | .usage l t => find3 l t r.usage
  | .reservation l n => find3 l n r.reservations
  | .memUsage l => find2 l r.memUsage

/-- Is the exported formula `gen` the model's formula `key` of this template (as normal forms)? -/
def formulaOK (arch : Arch Rat) (w : Workload Rat) (tpl : List TNode) (key : FKey) (gen : LExpr) : Option Bool :=
  match analyticPoly arch w tpl with
  | none => none
  | some r => (r.get key).map (fun ref => LExpr.equiv gen ref)

end AFV.Nest
