import AFV.Spec.Front
/-!
# Model: the abstract mapper (library L3 "Search"), core Lean only

An abstract rendering of `accelforge/mapper/FFM/_join_pmappings`:

* a **candidate** (`Cand`) is one pmapping (or one partial mapping of several Einsums) seen through the
  three things the joiner looks at: its *compatibility class* `key` (the `Compatibility` object together
  with the values of the fused-loop tile-shape columns that `PmappingDataframe.merge_next` matches on),
  its objective vector `obj` (the `Total<SEP>…` columns; they are **summed** by a join) and its
  reservation profile `res` (the `reservation<SEP>…` columns; combined by the reservation algebra).
  The payload (which mapping it is) is deliberately erased: every property served by this library
  observes vectors only.
* `Ops.kjoin` is `Compatibility.merge_next` (it fails on incompatible classes and returns the class of the
  joined partial mapping *with dead tensors cleared*; whether a partial mapping can be joined with later
  Einsums depends only on that class); `Ops.rjoin` is the reservation algebra of
  `PmappingDataframe.merge_next` (a parameter: its correctness is C06's business; here only monotonicity
  and "reservations never shrink below the left operand's capacity verdict" are assumed, explicitly).
* `joinExact` is the reference: every choice of one candidate per Einsum, folded left to right with
  `combine`, capacity filter on the full combination only, Pareto front inside each class.
* `ffm` is the shape of `join_pmappings`: prune every per-Einsum table, then join left to right over the
  Einsum order, filtering capacity (`limit_capacity`) and pruning (`make_pareto`) after each join.
  `ffmG` is the same on tables stored as groups (`PmappingGroup`: one key, many rows) with
  consolidation of equal keys (`combine_combineable`).
* `pipe` adds the per-stage row filters of the accelerated path (optimality thresholds and lookahead);
  `staged` is `multi_strategy_join` / `join_strategy_2`: relaxed-capacity rounds, each made of a dirty
  join on tolerance-pruned inputs that only serves to produce thresholds, then a join filtered by them,
  then the `finished` capacity check with the rule that keeps or drops the reservation columns.
* `ffmT` is `ffm` with an approximate pruning function (tolerances).
-/
namespace AFV.Search
open AFV.Front

/-- A (partial) mapping as the joiner sees it. -/
structure Cand (K : Type) where
  key : K
  obj : Vec
  res : Vec
deriving DecidableEq, Repr

/-- The two operations a join performs besides summing objectives. -/
structure Ops (K : Type) where
  /-- `Compatibility.merge_next`: class of the joined partial mapping, `none` if incompatible. -/
  kjoin : K → K → Option K
  /-- reservation algebra of `PmappingDataframe.merge_next` (may depend on the two classes). -/
  rjoin : K → K → Vec → Vec → Vec

section
variable {K : Type} [DecidableEq K]

/-- Objectives are summed column by column. -/
def addv (a b : Vec) : Vec := List.zipWith (· + ·) a b

/-- Every reservation is within capacity (`limit_capacity`: `col <= 1 + tolerance`, scaled). -/
def fits (cap : Int) (r : Vec) : Bool := r.all (fun x => decide (x ≤ cap))

def fitsC (cap : Int) (c : Cand K) : Bool := fits cap c.res

/-- Join two candidates (one row of the left table with one row of the right table). -/
def combine (ops : Ops K) (a b : Cand K) : Option (Cand K) :=
  match ops.kjoin a.key b.key with
  | none => none
  | some k => some ⟨k, addv a.obj b.obj, ops.rjoin a.key b.key a.res b.res⟩

/-- Dominance between candidates: same class, `≤` on every objective and every reservation. -/
def cle (a b : Cand K) : Bool :=
  decide (a.key = b.key) && leqAll a.obj b.obj && leqAll a.res b.res

/-- `make_pareto` on a table: the non-dominated candidates (compared inside their class only). -/
def prune (cs : List (Cand K)) : List (Cand K) := frontL cle cs

/-- All joins of a row of `A` with a compatible row of `B` (cross / inner merge). -/
def cross (ops : Ops K) (A B : List (Cand K)) : List (Cand K) :=
  A.flatMap (fun a => B.filterMap (fun b => combine ops a b))

/-! ## Reference: exhaustive combination -/

/-- All ways to choose one element from each list, in order. -/
def choices {α : Type} : List (List α) → List (List α)
  | [] => [[]]
  | T :: Ts => T.flatMap (fun a => (choices Ts).map (fun c => a :: c))

/-- Left fold of `combine` starting from `a`. -/
def combineFrom (ops : Ops K) : Cand K → List (Cand K) → Option (Cand K)
  | a, [] => some a
  | a, b :: bs => match combine ops a b with
    | none => none
    | some c => combineFrom ops c bs

/-- The combination of one candidate per Einsum (in Einsum order), if they are compatible. -/
def combineAll (ops : Ops K) : List (Cand K) → Option (Cand K)
  | [] => none
  | a :: bs => combineFrom ops a bs

/-- Every compatible combination of one candidate per table. -/
def allCombos (ops : Ops K) (tables : List (List (Cand K))) : List (Cand K) :=
  (choices tables).filterMap (combineAll ops)

/-- … that fits in every memory. -/
def validCombos (ops : Ops K) (cap : Int) (tables : List (List (Cand K))) : List (Cand K) :=
  (allCombos ops tables).filter (fitsC cap)

/-- **Reference join**: all compatible combinations, capacity filter, Pareto front. -/
def joinExact (ops : Ops K) (cap : Int) (tables : List (List (Cand K))) : List (Cand K) :=
  prune (validCombos ops cap tables)

/-! ## The pipeline of `join_pmappings` -/

/-- One `merge_next`: join, `limit_capacity`, `make_pareto`. -/
def joinStep (ops : Ops K) (cap : Int) (A B : List (Cand K)) : List (Cand K) :=
  prune ((cross ops A B).filter (fitsC cap))

def ffmFold (ops : Ops K) (cap : Int) : List (Cand K) → List (List (Cand K)) → List (Cand K)
  | acc, [] => acc
  | acc, T :: Ts => ffmFold ops cap (joinStep ops cap acc (prune T)) Ts

/-- Fast-and-fusiest shape: prune each table, join left to right pruning after every join, and finish
with the final `limit_capacity` + `make_pareto`. -/
def ffm (ops : Ops K) (cap : Int) : List (List (Cand K)) → List (Cand K)
  | [] => []
  | T :: Ts => prune ((ffmFold ops cap (prune T) Ts).filter (fitsC cap))

/-! ## The same pipeline on grouped tables (`PmappingGroup`) -/

/-- A row of a `PmappingDataframe`. -/
structure Row where
  obj : Vec
  res : Vec
deriving DecidableEq, Repr

/-- A `PmappingGroup`: one compatibility, a table of rows. -/
structure Group (K : Type) where
  key : K
  rows : List Row

def Group.cands (g : Group K) : List (Cand K) := g.rows.map (fun r => ⟨g.key, r.obj, r.res⟩)

/-- All candidates of a list of groups. -/
def flatten (gs : List (Group K)) : List (Cand K) := gs.flatMap Group.cands

def rle (a b : Row) : Bool := leqAll a.obj b.obj && leqAll a.res b.res

/-- `make_pareto` inside one group. -/
def pruneRows (rows : List Row) : List Row := frontL rle rows

/-- `PmappingGroup.group` + per-group `make_pareto`: bucket candidates by class, prune each bucket. -/
def group (cs : List (Cand K)) : List (Group K) :=
  (dedup (cs.map (·.key))).map (fun k =>
    ⟨k, pruneRows ((cs.filter (fun c => decide (c.key = k))).map (fun c => ⟨c.obj, c.res⟩))⟩)

/-- `combine_combineable`: groups whose classes have become equal are concatenated and pruned. -/
def consolidate (gs : List (Group K)) : List (Group K) := group (flatten gs)

/-- `PmappingGroup.merge_next` on a pair of groups. -/
def mergeGroups (ops : Ops K) (cap : Int) (ga gb : Group K) : Option (Group K) :=
  match ops.kjoin ga.key gb.key with
  | none => none
  | some k =>
    some ⟨k, pruneRows ((ga.rows.flatMap (fun a => gb.rows.map (fun b =>
      (⟨addv a.obj b.obj, ops.rjoin ga.key gb.key a.res b.res⟩ : Row)))).filter
        (fun r => fits cap r.res))⟩

/-- One iteration of the `while pmgroups:` loop: all compatible pairs of groups, then consolidation. -/
def joinStepG (ops : Ops K) (cap : Int) (L R : List (Group K)) : List (Group K) :=
  consolidate (L.flatMap (fun ga => R.filterMap (fun gb => mergeGroups ops cap ga gb)))

def ffmFoldG (ops : Ops K) (cap : Int) : List (Group K) → List (List (Group K)) → List (Group K)
  | acc, [] => acc
  | acc, T :: Ts => ffmFoldG ops cap (joinStepG ops cap acc (consolidate T)) Ts

/-- Grouped pipeline. The result is the final table (all groups concatenated). -/
def ffmG (ops : Ops K) (cap : Int) : List (List (Group K)) → List (Cand K)
  | [] => []
  | T :: Ts => prune ((flatten (ffmFoldG ops cap (consolidate T) Ts)).filter (fitsC cap))

/-! ## Stage filters: optimality thresholds and lookahead -/

/-- `t` is strictly below `v` in every coordinate (and they have the same columns). A mismatch of columns
means "not worse" (the code's `if k not in columns: nondominated |= True`). With *no* column at all the
answer is `true`, as in the code, where the accumulator starts at `False` and nothing sets it. -/
def allLt : Vec → Vec → Bool
  | [], [] => true
  | t :: ts, v :: vs => decide (t < v) && allLt ts vs
  | _, _ => false

/-- `OptimalityThresholder.__call__`: keep a row unless some threshold is strictly better than it in
every compared column. -/
def thrKeep (cv : Cand K → Vec) (T : List Vec) (c : Cand K) : Bool :=
  !(T.any (fun t => allLt t (cv c)))

/-- Lookahead: a joined group survives only if, in every later table, some candidate may be joined with
it according to the necessary test `may` (compatibilities cleared of tile patterns match up to a loop
permutation; tables sharing no tensor always pass). -/
def lookKeep (may : K → K → Bool) (rest : List (List (Cand K))) (c : Cand K) : Bool :=
  rest.all (fun T => T.any (fun d => may c.key d.key))

/-- What a stage keeps of the joined rows, given the tables still to come. -/
structure Filters (K : Type) where
  /-- filter on the rows of every input table (`filter_rows` at the start of `join_pmappings`) -/
  keepI : Cand K → Bool
  /-- filter on the joined rows of a stage, given the remaining tables -/
  keepJ : List (List (Cand K)) → Cand K → Bool

def joinStepF (ops : Ops K) (F : Filters K) (rest : List (List (Cand K))) (A B : List (Cand K)) :
    List (Cand K) :=
  prune ((cross ops A (prune (B.filter F.keepI))).filter (F.keepJ rest))

def pipeFold (ops : Ops K) (F : Filters K) : List (Cand K) → List (List (Cand K)) → List (Cand K)
  | acc, [] => acc
  | acc, T :: Ts => pipeFold ops F (joinStepF ops F Ts acc T) Ts

/-- The joining loop with stage filters; result = rows after the last join (pruned), before `finish`. -/
def pipe (ops : Ops K) (F : Filters K) : List (List (Cand K)) → List (Cand K)
  | [] => []
  | T :: Ts => pipeFold ops F (prune (T.filter F.keepI)) Ts

/-- The same loop without any pruning: the partial combinations that survive the filters. -/
def survFold (ops : Ops K) (F : Filters K) : List (Cand K) → List (List (Cand K)) → List (Cand K)
  | acc, [] => acc
  | acc, T :: Ts => survFold ops F ((cross ops acc (T.filter F.keepI)).filter (F.keepJ Ts)) Ts

def surv (ops : Ops K) (F : Filters K) : List (List (Cand K)) → List (Cand K)
  | [] => []
  | T :: Ts => survFold ops F (T.filter F.keepI) Ts

/-- The filters of one accelerated join: capacity `capi`, thresholds `T` on the vector `cv`, lookahead. -/
def stageFilters (capi : Int) (cv : Cand K → Vec) (T : List Vec) (may : K → K → Bool) : Filters K where
  keepI := thrKeep cv T
  keepJ := fun rest c => fitsC capi c && thrKeep cv T c && lookKeep may rest c

/-! ## `multi_strategy_join` -/

/-- Configuration of the staged join. -/
structure Cfg (K : Type) where
  ops : Ops K
  /-- capacity (the `1` of `col <= 1`, scaled) -/
  cap : Int
  /-- `_apply_edp_columns` on the objective columns (identity, or `(E, L) ↦ (E·L)` …) -/
  metric : Vec → Vec
  /-- number of metric columns (length of every `metric v`) -/
  m : Nat
  /-- column merge done by the last `free_to_loop_index(-2)` on kept reservation columns -/
  resFin : Vec → Vec
  /-- lookahead test -/
  may : K → K → Bool
  /-- `RESOURCE_USAGE` is *not* requested: valid reservation columns are dropped at the end -/
  dropRes : Bool
  /-- tolerance pruning of an input table in the dirty round (`prune_with_tolerance`) -/
  dirty : List (Cand K) → List (Cand K)
  /-- the at most 100 rows of the dirty result used as thresholds -/
  pick : List Vec → List Vec

def Cand.row (c : Cand K) : Row := ⟨c.obj, c.res⟩

/-- Final Pareto columns of a finished row: the metric columns, followed by the merged reservation
columns when those are kept. -/
def finV (cfg : Cfg K) (keepRes : Bool) (r : Row) : Vec :=
  cfg.metric r.obj ++ (if keepRes then cfg.resFin r.res else [])

/-- Compared vector of the optimality filter: the final Pareto columns. -/
def cvOf (cfg : Cfg K) (c : Cand K) : Vec := finV cfg (!cfg.dropRes) c.row

/-- Result of one round: the returned front, whether `multi_strategy_join` accepts it, and whether the
reservation columns were kept although `RESOURCE_USAGE` was not requested. -/
structure RoundOut where
  rows : List Vec
  accepted : Bool
  retained : Bool
deriving Repr, DecidableEq

/-- Tail of `join_pmappings` + the acceptance test of `multi_strategy_join`.
All remaining groups are concatenated and pruned (`combine_combineable` with no live tensor);
`limit_capacity(finished=True)` filters rows above `capi`; it drops the reservation columns only if
`RESOURCE_USAGE` is not requested **and** (`capi = cap` or no remaining row is above `cap`); otherwise
the columns stay, are merged by `resFin`, and take part in the final `make_pareto`; the caller then
accepts the round iff no returned row has a reservation above `cap`. -/
def finish (cfg : Cfg K) (capi : Int) (rows : List (Cand K)) : RoundOut :=
  let r2 := (pruneRows (rows.map Cand.row)).filter (fun r => fits capi r.res)
  if cfg.dropRes && (decide (capi = cfg.cap) || r2.all (fun r => fits cfg.cap r.res)) then
    ⟨front (r2.map (finV cfg false)), true, false⟩
  else
    let f := front (r2.map (finV cfg true))
    ⟨f, !cfg.dropRes || f.all (fun v => fits cfg.cap (v.drop cfg.m)), cfg.dropRes⟩

/-- One call of `join_strategy_2` with capacity `capi`: dirty join on tolerance-pruned inputs (no
thresholds), thresholds picked from its finished result, then the join filtered by them. -/
def round (cfg : Cfg K) (capi : Int) (tables : List (List (Cand K))) : RoundOut :=
  let d := pipe cfg.ops (stageFilters capi (cvOf cfg) [] cfg.may) (tables.map cfg.dirty)
  let T := cfg.pick ((d.filter (fitsC capi)).map (cvOf cfg))
  finish cfg capi (pipe cfg.ops (stageFilters capi (cvOf cfg) T cfg.may) tables)

/-- `multi_strategy_join`: try the relaxed capacities in turn, return the first accepted round; the
last round uses the exact capacity and is returned whatever happens. With `RESOURCE_USAGE` requested
there is a single exact round. -/
def stagedLoop (cfg : Cfg K) (tables : List (List (Cand K))) : List Int → RoundOut
  | [] => round cfg cfg.cap tables
  | c :: cs =>
    let r := round cfg c tables
    if r.accepted then r else stagedLoop cfg tables cs

def staged (cfg : Cfg K) (caps : List Int) (tables : List (List (Cand K))) : RoundOut :=
  stagedLoop cfg tables (if cfg.dropRes then caps else [])

/-- What one exact, unaccelerated join returns: all valid combinations, final columns, front. -/
def joinExactV (cfg : Cfg K) (tables : List (List (Cand K))) : List Vec :=
  front ((validCombos cfg.ops cfg.cap tables).map (cvOf cfg))

/-! ## Tolerances -/

/-- `ffm` with an arbitrary (approximate) pruning function `P` used on the per-Einsum tables
(`P₀`, the two result-affecting places of the code: tile-shape exploration and pmapping Pareto) and
after every join (`P₁`; the code prunes exactly there: `P₁ = prune`). -/
def ffmTFold (ops : Ops K) (cap : Int) (P₀ P₁ : List (Cand K) → List (Cand K)) :
    List (Cand K) → List (List (Cand K)) → List (Cand K)
  | acc, [] => acc
  | acc, T :: Ts => ffmTFold ops cap P₀ P₁ (P₁ ((cross ops acc (P₀ T)).filter (fitsC cap))) Ts

def ffmT (ops : Ops K) (cap : Int) (P₀ P₁ : List (Cand K) → List (Cand K)) :
    List (List (Cand K)) → List (Cand K)
  | [] => []
  | T :: Ts => prune ((ffmTFold ops cap P₀ P₁ (P₀ T) Ts).filter (fitsC cap))

/-- The linear objective `w · obj`. -/
def dot : Vec → Vec → Int
  | w :: ws, v :: vs => w * v + dot ws vs
  | _, _ => 0

/-- Best value of the linear objective `w · obj` (`none` if there is no candidate). -/
def best (w : Vec) (cs : List (Cand K)) : Option Int := minOf (fun c => dot w c.obj) cs

/-- A candidate with its objectives replaced by their tolerance buckets (`logscale_to_tolerance`). -/
def bucketObj (β : Int → Int) (c : Cand K) : Cand K := ⟨c.key, c.obj.map β, c.res⟩

/-- … and its reservations too (what `PmappingDataframe.make_pareto` does when
`drop_valid_reservations` is set: `resource_usage_tolerance = objective_tolerance`). -/
def bucketObjRes (β : Int → Int) (c : Cand K) : Cand K := ⟨c.key, c.obj.map β, c.res.map β⟩

/-- Tolerance pruning as `makepareto` does it: map every row to its bucket image `img`, take the
Pareto front of the images (duplicates removed), and keep for every front image the **first** row
having that image. -/
def pruneTol (img : Cand K → Cand K) (cs : List (Cand K)) : List (Cand K) :=
  (prune (cs.map img)).filterMap (fun f => cs.find? (fun c => decide (img c = f)))

/-- `_apply_edp_columns` on a row whose first two Pareto columns are energy and latency: when EDP is
requested a column `energy * latency` is appended, and the energy (latency) column is deleted unless
ENERGY (LATENCY) is requested as well. Other columns are untouched. -/
def applyEdp (wantEdp wantE wantL : Bool) : Vec → Vec
  | e :: l :: rest =>
    if wantEdp then
      (if wantE then [e] else []) ++ (if wantL then [l] else []) ++ rest ++ [e * l]
    else e :: l :: rest
  | v => v

/-! ## Fast executable versions used by the driver (proved equal in `Lemmas/SearchFast.lean`) -/

/-- A candidate as one vector on which `leqAll` is candidate dominance inside a class: the number of
objective columns (twice, with both signs, so that it must agree), then objectives, then reservations. -/
def encC (c : Cand K) : Vec := (c.obj.length : Int) :: -(c.obj.length : Int) :: (c.obj ++ c.res)

def decC (k : K) : Vec → Cand K
  | n :: _ :: rest => ⟨k, rest.take n.toNat, rest.drop n.toNat⟩
  | _ => ⟨k, [], []⟩

/-- `prune`, class by class, with the sort-and-sweep front. -/
def pruneFast (cs : List (Cand K)) : List (Cand K) :=
  (dedup (cs.map (·.key))).flatMap (fun k =>
    (frontFast ((cs.filter (fun c => decide (c.key = k))).map encC)).map (decC k))

/-- No stage filter. -/
def noFilter : Filters K := ⟨fun _ => true, fun _ _ => true⟩

/-- `joinExact` without materialising the tuples: fold the tables, keep within-capacity full
combinations, prune fast. -/
def joinExactFast (ops : Ops K) (cap : Int) (tables : List (List (Cand K))) : List (Cand K) :=
  pruneFast ((surv ops noFilter tables).filter (fitsC cap))

/-- Rename the compatibility class of a candidate. -/
def mapKey {K' : Type} (ρ : K → K') (c : Cand K) : Cand K' := ⟨ρ c.key, c.obj, c.res⟩

end
end AFV.Search
