/-!
# Tile-shape pruning: goals and the exact Pareto front (C08)

`Goal` / `Goal.or` / `Goal.inv` follow `make_tile_shapes.Goal.__or__` / `__invert__` (the `goal` string only;
tolerances are 0 in the property's domain).  `frontIdx` is the all-pairs definition of the Pareto front over
integer rows with a per-column sense (`min` or `diff`), the oracle the harness uses for `tileFront`.
Core Lean only (linked into the driver).
-/
namespace AFV.TilePrune

inductive Goal where
  | none | min | max | minPpf | maxPpf | diff
  deriving DecidableEq, Repr, Inhabited

/-- `Goal.__or__` -/
def Goal.or : Goal → Goal → Goal
  | .none, g => g
  | g, .none => g
  | a, b =>
    if a = b then a
    else if (a = .min ∧ b = .minPpf) ∨ (a = .minPpf ∧ b = .min) then .minPpf
    else if (a = .max ∧ b = .maxPpf) ∨ (a = .maxPpf ∧ b = .max) then .maxPpf
    else .diff

/-- `Goal.__invert__` (`none` result = the Python raises ValueError) -/
def Goal.inv : Goal → Option Goal
  | .min => some .max
  | .max => some .min
  | .minPpf => Option.none
  | .maxPpf => Option.none
  | g => some g

/-- "choice with value `x'` is at least as good as the one with value `x`" for a tracked quantity with this goal.
`minPpf`: every prime exponent of `x'` is ≤ that of `x`, i.e. `x' ∣ x` (see `Props/C08.lean`). -/
def Goal.dom : Goal → Nat → Nat → Prop
  | .none, _, _ => True
  | .min, x', x => x' ≤ x
  | .max, x', x => x ≤ x'
  | .minPpf, x', x => x' ∣ x
  | .maxPpf, x', x => x ∣ x'
  | .diff, x', x => x' = x

inductive Sense where
  | min | diff
  deriving DecidableEq, Repr, Inhabited

/-- `a` is at least as good as `b` in every column -/
def weakDom : List Sense → List Int → List Int → Bool
  | [], [], [] => true
  | s :: ss, x :: xs, y :: ys => (match s with | .min => decide (x ≤ y) | .diff => decide (x = y)) && weakDom ss xs ys
  | _, _, _ => false

/-- `a` dominates `b`: at least as good everywhere and not the same row -/
def dominates (ss : List Sense) (a b : List Int) : Bool := weakDom ss a b && !(a == b)

/-- indices of the rows no other row dominates (all pairs) -/
def frontIdx (ss : List Sense) (rows : List (List Int)) : List Nat :=
  (List.range rows.length).filter fun i =>
    match rows[i]? with
    | some r => !(rows.any fun q => dominates ss q r)
    | Option.none => false

/-- indices of the rows that no candidate weakly dominates (empty ⇒ the front of `rows ++ cands` is the front of `cands`) -/
def uncovered (ss : List Sense) (cands rows : List (List Int)) : List Nat :=
  (List.range rows.length).filter fun i =>
    match rows[i]? with
    | some r => !(cands.any fun q => weakDom ss q r)
    | Option.none => false

end AFV.TilePrune
