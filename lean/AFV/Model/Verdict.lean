import AFV.Model.Expr9
/-!
# Model of the symbolic comparator of `make_tile_shapes.py` (C09)

What the repo's own code does with the answers of sympy:

* `ComparisonResult.__or__`                                  → `CR.or`
* `_compare_to_zero(f, bounds, check_lt_zero)`               → `compare`
    - strip every `ceiling`, partition on Heaviside (all terms 1 / all terms 0, `any`),
    - ask sympy `f >= 0` (resp. `f <= 0`); a decided answer is returned negated,
    - `Min`/`Max`: `any`/`all` over the arguments (which one depends on the direction),
    - otherwise pick the symbol with the fewest occurrences, ask sympy for the range of `f` over
      that symbol's interval; failure ⇒ `True`; finite set ⇒ `any`; interval ⇒ recurse on the
      relevant endpoint.
* `geq_leq_zero(f, bounds, terms_do_not_cross_zero)`         → `geqLeqZero`
    - the four `terms_do_not_cross_zero` shortcuts at the all-low / all-high corner,
    - the two early returns after each direction,
    - the table over (may-be-negative, may-be-positive).
* `diff_geq_leq_zero(f, s, bounds)`                          → `diffVerdict`

sympy is an ORACLE: `f >= 0`, `function_range`, `expand`, `diff`, `doit` and the automatic evaluation
that happens when a rewritten tree is rebuilt (`norm`) are functions handed to the model.  An oracle
function returns `none` when the table the driver was given has no answer yet: the model then stops
with `Stop.need q`, the harness asks sympy exactly that question, and runs the model again.  The
theorems quantify over arbitrary oracle functions.

The Python recursion has no fuel; `fuel` stands for the interpreter's recursion limit and running
out is reported as `Stop.exc` (Python: RecursionError), never as a verdict.
-/
namespace AFV.Verdict
open AFV.Expr9

inductive CR where
  | geq | leq | eq | unknown
  deriving DecidableEq, Repr, Inhabited

/-- `ComparisonResult.__or__` -/
def CR.or (a b : CR) : CR :=
  if a = b then a else if a = .eq then b else if b = .eq then a else .unknown

/-- what `function_range` (through the repo's wrapper and its `except`) hands back -/
inductive RangeAns where
  | fail                      -- NotImplementedError / TypeError  ⇒ the code answers `True`
  | finite (l : List E)       -- a FiniteSet
  | interval (lo hi : E)      -- anything with `.left` / `.right`
  deriving Inhabited

inductive Query where
  | rel (f : E) (ge : Bool)        -- `f >= 0` (ge) or `f <= 0`
  | range (f : E) (s : Nat)
  | norm (f : E)
  | corner (f : E) (lt : Bool) (hi : Bool)
  | doit (f : E)
  | expand (f : E)
  | diff (f : E) (s : Nat)
  deriving Inhabited

inductive Stop where
  | need (q : Query)
  | exc (msg : String)
  deriving Inhabited

abbrev M := Except Stop

/-- sympy, as far as the comparator uses it.  Outer `none` = "not in the table yet". -/
structure Oracle where
  /-- `some (some b)`: the relational evaluated to `b`; `some none`: it stayed symbolic (TypeError). -/
  rel : E → Bool → Option (Option Bool)
  range : E → Nat → Option RangeAns
  norm : E → Option E
  /-- `v = f.subs(corner); v.is_number and (v < 0 | v > 0)`: `some (some true)` = contradicted, `some none` = TypeError -/
  corner : E → Bool → Bool → Option (Option Bool)
  doit : E → Option E
  expand : E → Option E
  diff : E → Nat → Option E

def askRel (o : Oracle) (f : E) (ge : Bool) : M (Option Bool) :=
  match o.rel f ge with | some a => .ok a | none => .error (.need (.rel f ge))
def askRange (o : Oracle) (f : E) (s : Nat) : M RangeAns :=
  match o.range f s with | some a => .ok a | none => .error (.need (.range f s))
def askNorm (o : Oracle) (f : E) : M E :=
  match o.norm f with | some a => .ok a | none => .error (.need (.norm f))
def askCorner (o : Oracle) (f : E) (lt hi : Bool) : M (Option Bool) :=
  match o.corner f lt hi with | some a => .ok a | none => .error (.need (.corner f lt hi))
def askDoit (o : Oracle) (f : E) : M E :=
  match o.doit f with | some a => .ok a | none => .error (.need (.doit f))
def askExpand (o : Oracle) (f : E) : M E :=
  match o.expand f with | some a => .ok a | none => .error (.need (.expand f))
def askDiff (o : Oracle) (f : E) (s : Nat) : M E :=
  match o.diff f s with | some a => .ok a | none => .error (.need (.diff f s))

/-- Python `any(g(x) for x in xs)` (stops at the first `True`; an exception propagates) -/
def anyE (g : E → M Bool) : List E → M Bool
  | [] => .ok false
  | x :: xs =>
    match g x with
    | .error e => .error e
    | .ok true => .ok true
    | .ok false => anyE g xs

/-- Python `all(g(x) for x in xs)` (stops at the first `False`) -/
def allE (g : E → M Bool) : List E → M Bool
  | [] => .ok true
  | x :: xs =>
    match g x with
    | .error e => .error e
    | .ok true => allE g xs
    | .ok false => .ok false

/-- Switches for the repairs made to the comparator. `Cfg.repaired` is the code in /repo today (THE model);
`Cfg.asIs` is the code as it was when the defects were found (kept for the counterexample theorems and so
that the harness can tell which behaviour a tree shows). -/
structure Cfg where
  /-- `if terms_do_not_cross_zero and lt_zero: return LEQ` / `… and gt_zero: return GEQ` are present (old) -/
  tdnczEarly : Bool
  /-- `expr_replace(f, Heaviside, 1)` returns a Python int when `f` IS a Heaviside term (→ AttributeError) (old) -/
  heavIntCrash : Bool
  /-- `partition_heaviside` assigns 0/1 to every DISTINCT Heaviside term (new) instead of all-1 / all-0 (old) -/
  heavPerAtom : Bool
  /-- a decided "never negative / never positive" relational is only kept if it survives both corners of the box (new) -/
  relCorner : Bool
  deriving Repr, DecidableEq

def Cfg.asIs : Cfg := ⟨true, true, false, false⟩
def Cfg.repaired : Cfg := ⟨false, false, true, true⟩

def isHeav : E → Bool
  | .heav _ => true
  | _ => false

/-- `partition_heaviside(f)` for a formula with Heaviside terms -/
def partsOf (cfg : Cfg) (f1 : E) : List E :=
  if cfg.heavPerAtom then heavParts f1 else [setHeav 1 f1, setHeav 0 f1]

/-- rebuild every part (sympy's automatic evaluation), in order -/
def normAll (o : Oracle) : List E → M (List E)
  | [] => .ok []
  | p :: ps =>
    match askNorm o p with
    | .error e => .error e
    | .ok a =>
      match normAll o ps with
      | .error e => .error e
      | .ok as => .ok (a :: as)

/-- the part of `_compare_to_zero` after the relational shortcut: Min/Max rules, then the range recursion -/
def rest (o : Oracle) (box : Box) (rec : E → M Bool) (f1 : E) (lt : Bool) : M Bool :=
  match f1 with
  | .min xs => if lt then anyE rec xs else allE rec xs
  | .max xs => if lt then allE rec xs else anyE rec xs
  | _ =>
    match chooseSym f1 with
    | none => .error (.exc "no free symbol")
    | some s =>
      if box.length ≤ s then .error (.exc "symbol not in bounds") else
      match askRange o f1 s with
      | .error e => .error e
      | .ok .fail => .ok true
      | .ok (.finite l) => anyE rec l
      | .ok (.interval lo hi) => rec (if lt then lo else hi)

/-- does a decided relational survive the corner `hi`? (`some true` = contradicted at that corner;
`none` = the comparison raised TypeError, which the code treats like an undecided relational) -/
def cornersPass (o : Oracle) (f1 : E) (lt : Bool) : M Bool :=
  match askCorner o f1 lt false with
  | .error e => .error e
  | .ok (some false) =>
    match askCorner o f1 lt true with
    | .error e => .error e
    | .ok (some false) => .ok true
    | .ok _ => .ok false
  | .ok _ => .ok false

/-- One activation of `_compare_to_zero(f, bounds, check_lt_zero = lt)`; `rec g` is the recursive call
`_compare_to_zero(g, bounds, lt)`.
`true` = "f may be negative somewhere" (lt) / "f may be positive somewhere" (¬lt). -/
def step (cfg : Cfg) (o : Oracle) (box : Box) (rec : E → M Bool) (f : E) (lt : Bool) : M Bool :=
  -- f = f.doit()
  match askDoit o f with
  | .error e => .error e
  | .ok f0 =>
  -- f = f.replace(ceiling(x) ↦ x)        (the tree is rebuilt: `norm`)
  match askNorm o (strip f0) with
  | .error e => .error e
  | .ok f1 =>
    if hasHeav f1 then
      -- fs = partition_heaviside(f); any(_compare_to_zero(f2, …) for f2 in fs)
      if cfg.heavIntCrash && isHeav f1 then .error (.exc "AttributeError") else
      match normAll o (partsOf cfg f1) with
      | .error e => .error e
      | .ok parts => anyE rec parts
    else
      -- try: decided = not f >= 0 (resp. not f <= 0) … except TypeError: pass
      match askRel o f1 lt with
      | .error e => .error e
      | .ok (some ans) =>
        if !ans then .ok true
        else if !cfg.relCorner then .ok false
        else
          match cornersPass o f1 lt with
          | .error e => .error e
          | .ok true => .ok false
          | .ok false => rest o box rec f1 lt
      | .ok none => rest o box rec f1 lt

/-- `_compare_to_zero(f, bounds, check_lt_zero = lt)` -/
def compare (cfg : Cfg) (o : Oracle) (box : Box) : Nat → E → Bool → M Bool
  | 0, _, _ => .error (.exc "recursion limit")
  | fuel + 1, f, lt => step cfg o box (fun g => compare cfg o box fuel g lt) f lt

/-- the table at the end of `geq_leq_zero` -/
def table (lt gt : Bool) : CR :=
  if lt && gt then .unknown else if lt then .leq else if gt then .geq else .eq

def lowEnv (box : Box) : Nat → Rat := envOf (box.map (·.1))
def highEnv (box : Box) : Nat → Rat := envOf (box.map (·.2))

/-- the `terms_do_not_cross_zero` shortcuts: plug in every lower bound, then every upper bound -/
def shortcut (box : Box) (f : E) : Option CR :=
  let mn := eval (lowEnv box) f
  if 0 < mn then some .geq else if mn < 0 then some .leq else
  let mx := eval (highEnv box) f
  if 0 < mx then some .geq else if mx < 0 then some .leq else none

/-- `geq_leq_zero(f, bounds, terms_do_not_cross_zero = tdncz)` -/
def geqLeqZero (cfg : Cfg) (o : Oracle) (box : Box) (fuel : Nat) (f : E) (tdncz : Bool) : M CR :=
  match (if tdncz then shortcut box f else none) with
  | some v => .ok v
  | none =>
    match compare cfg o box fuel f true with
    | .error e => .error e
    | .ok lt =>
      if cfg.tdnczEarly && tdncz && lt then .ok .leq else
      match compare cfg o box fuel f false with
      | .error e => .error e
      | .ok gt =>
        if cfg.tdnczEarly && tdncz && gt then .ok .geq else .ok (table lt gt)

/-- `diff_geq_leq_zero(f, s, bounds)` = `geq_leq_zero(diff(expand(f), s), bounds)` -/
def diffVerdict (cfg : Cfg) (o : Oracle) (box : Box) (fuel : Nat) (f : E) (s : Nat) : M CR :=
  match askExpand o f with
  | .error e => .error e
  | .ok e =>
    match askDiff o e s with
    | .error e => .error e
    | .ok d => geqLeqZero cfg o box fuel d false

/-! ## what a verdict claims (the spec side) -/

/-- A sign verdict about `f` on the integer points of `box`. -/
def Holds (box : Box) (f : E) : CR → Prop
  | .geq => ∀ ρ, InBox box ρ → 0 ≤ eval ρ f
  | .leq => ∀ ρ, InBox box ρ → eval ρ f ≤ 0
  | .eq => ∀ ρ, InBox box ρ → eval ρ f = 0
  | .unknown => True

/-- `ρ` with coordinate `s` replaced by `v` -/
def upd (ρ : Nat → Rat) (s : Nat) (v : Rat) : Nat → Rat := fun i => if i = s then v else ρ i

/-- A derivative verdict about `f` along symbol `s`: what the callers use it for
(`Goal("min")` for geq: a smaller tile shape never gives a larger value; `Goal("max")` for leq;
"does not depend on `s`" for eq) — stated on adjacent integer points. -/
def HoldsMono (box : Box) (f : E) (s : Nat) : CR → Prop
  | .geq => ∀ ρ, InBox box ρ → InBox box (upd ρ s (ρ s + 1)) → eval ρ f ≤ eval (upd ρ s (ρ s + 1)) f
  | .leq => ∀ ρ, InBox box ρ → InBox box (upd ρ s (ρ s + 1)) → eval (upd ρ s (ρ s + 1)) f ≤ eval ρ f
  | .eq => ∀ ρ, InBox box ρ → InBox box (upd ρ s (ρ s + 1)) → eval (upd ρ s (ρ s + 1)) f = eval ρ f
  | .unknown => True

end AFV.Verdict
