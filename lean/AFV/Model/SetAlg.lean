/-!
Model of `accelforge/util/_setexpressions.py` as it is in /repo.

* `InvertibleSet`  : `instance`, `full_space`, `space_type`; `& | - ^` go through
  `to_my_space(a OP b)` — the result takes `full_space` / `space_type` of the LEFT operand and
  nothing checks that the right operand lives in the same space (`check_match_space_name` is
  defined and never called); `~x = to_my_space(full_space - instance)`; `x()` returns `x`.
* `eval_set_expression` : symbol-table lookup / Python `eval` of the expression with the symbol
  table as locals, then `set_expression_type_check` (space type, expected count).
  Python's parser is not modelled: expressions arrive as the tree `ast.parse` produces.
* `eval_set_expression_dict` : the `Other` key (at most once, evaluated last, bound to
  `All − ⋃ previous keys`) and the pairwise-overlap check.
* `_eval_tensor2number` (components.py): `{tensor: value}` from the evaluated dictionary.

Python `frozenset`s are lists here; every observable is compared as a set (the driver sorts).
-/
namespace AFV.SetAlg

abbrev Name := String

/-! ## frozenset operations -/

def inter (a b : List Name) : List Name := a.filter (fun x => b.contains x)
def union (a b : List Name) : List Name := a ++ b.filter (fun x => !a.contains x)
def diff (a b : List Name) : List Name := a.filter (fun x => !b.contains x)
def symm (a b : List Name) : List Name := diff a b ++ diff b a

/-- `oset(xs)` / `frozenset(xs)`: first occurrences only. -/
def dedup : List Name → List Name
  | [] => []
  | x :: xs => x :: (dedup xs).filter (fun y => !(y == x))

/-! ## InvertibleSet -/

structure ISet where
  inst : List Name
  full : List Name
  /-- `space_type`.  In /repo `TensorName` and `RankVariable` are both aliases of `str`,
  see `spaceTensor`, `spaceRankVar`. -/
  space : Nat
deriving Repr, DecidableEq, Inhabited

/-- `TensorName: TypeAlias = str` -/
def spaceTensor : Nat := 0
/-- `RankVariable: TypeAlias = str` — the same Python object as `TensorName`. -/
def spaceRankVar : Nat := 0

namespace ISet
/-- `to_my_space(other)`: keep my `full_space` and `space_type`. -/
def toMySpace (s : ISet) (i : List Name) : ISet := { s with inst := i }
def and (a b : ISet) : ISet := a.toMySpace (inter a.inst b.inst)
def or (a b : ISet) : ISet := a.toMySpace (union a.inst b.inst)
def sub (a b : ISet) : ISet := a.toMySpace (diff a.inst b.inst)
def xor (a b : ISet) : ISet := a.toMySpace (symm a.inst b.inst)
def inv (a : ISet) : ISet := a.toMySpace (diff a.full a.inst)
/-- `x - frozenset` (`symbol_table["Other"] -= ins`). -/
def subRaw (a : ISet) (b : List Name) : ISet := a.toMySpace (diff a.inst b)
end ISet

/-! ## expressions (the tree CPython's parser builds for the operator subset) -/

inductive SExpr
  | name (n : Name)
  | and (a b : SExpr)
  | or (a b : SExpr)
  | sub (a b : SExpr)
  | xor (a b : SExpr)
  | inv (a : SExpr)
  /-- `e()` : `InvertibleSet.__call__` returns the set itself. -/
  | call (a : SExpr)
deriving Repr, DecidableEq, Inhabited

namespace SExpr
def names : SExpr → List Name
  | name n => [n]
  | and a b | or a b | sub a b | xor a b => names a ++ names b
  | inv a | call a => names a
/-- `re.findall(r"\bOther\b", key)` for keys made of identifiers and operators. -/
def mentionsOther (e : SExpr) : Bool := e.names.contains "Other"
end SExpr

inductive Err
  | undefinedName      -- NameError inside `eval` → EvaluationError
  | wrongSpace         -- set_expression_type_check: space type
  | wrongCount         -- expected_count mismatch
  | otherTwice         -- "Other appears more than once"
  | overlap            -- "keys … overlap"
  | noAll              -- no `All` in the symbol table (KeyError; never with a workload Einsum)
deriving Repr, DecidableEq, Inhabited

def Err.tag : Err → String
  | .undefinedName => "undefined-name"
  | .wrongSpace => "wrong-space"
  | .wrongCount => "wrong-count"
  | .otherTwice => "other-twice"
  | .overlap => "overlap"
  | .noAll => "no-All"

/-- Symbol table; the FIRST match wins, so `insert` shadows (Python dict assignment). -/
abbrev Table := List (Name × ISet)

def lookup (st : Table) (n : Name) : Option ISet :=
  match st with
  | [] => none
  | (k, v) :: rest => if k == n then some v else lookup rest n

def insert (st : Table) (n : Name) (v : ISet) : Table := (n, v) :: st

/-- Python `eval(expression, {...}, symbol_table)` on the operator subset. -/
def evalExpr (st : Table) : SExpr → Except Err ISet
  | .name n => match lookup st n with
    | some s => .ok s
    | none => .error .undefinedName
  | .and a b => do let x ← evalExpr st a; let y ← evalExpr st b; pure (x.and y)
  | .or a b => do let x ← evalExpr st a; let y ← evalExpr st b; pure (x.or y)
  | .sub a b => do let x ← evalExpr st a; let y ← evalExpr st b; pure (x.sub y)
  | .xor a b => do let x ← evalExpr st a; let y ← evalExpr st b; pure (x.xor y)
  | .inv a => do let x ← evalExpr st a; pure x.inv
  | .call a => evalExpr st a

/-- `eval_set_expression` (+ `set_expression_type_check`). `expectedSpace = none` ↔ `None`. -/
def evalSetExpression (st : Table) (e : SExpr) (expectedSpace : Option Nat)
    (expectedCount : Option Nat) : Except Err ISet := do
  let r ← evalExpr st e
  match expectedSpace with
  | some sp => if r.space != sp then throw .wrongSpace
  | none => pure ()
  match expectedCount with
  | some k => if r.inst.length != k then throw .wrongCount
  | none => pure ()
  pure r

/-! ## dictionaries keyed by set expressions -/

structure Entry where
  ins : List Name
  val : Int
deriving Repr, DecidableEq, Inhabited

/-- The `_eval(i)` loop: evaluate keys in `order`, shrinking `Other` as it goes. -/
def evalDictLoop (st : Table) (sp : Option Nat) (other : ISet) :
    List (SExpr × Int) → Except Err (List Entry)
  | [] => .ok []
  | (k, v) :: rest => do
    let r ← evalSetExpression (insert st "Other" other) k sp none
    let es ← evalDictLoop st sp (other.subRaw r.inst) rest
    pure ({ ins := r.inst, val := v } :: es)

def overlaps (a b : List Name) : Bool := a.any (fun x => b.contains x)

/-- `for (a, b) in itertools.combinations(evaluated, 2): if a & b: raise`. -/
def hasOverlap : List Entry → Bool
  | [] => false
  | e :: rest => rest.any (fun e' => overlaps e.ins e'.ins) || hasOverlap rest

/-- `eval_set_expression_dict(d, symbol_table, expected_space, location, disjoint=True)`.
Result in evaluation order (non-`Other` keys in dictionary order, then the `Other` key). -/
def evalDict (st : Table) (sp : Option Nat) (items : List (SExpr × Int)) : Except Err (List Entry) :=
  let others := items.filter (fun p => p.1.mentionsOther)
  if others.length > 1 then .error .otherTwice else
  match lookup st "All" with
  | none => .error .noAll
  | some all =>
    let order := items.filter (fun p => !p.1.mentionsOther) ++ others
    match evalDictLoop st sp all order with
    | .error e => .error e
    | .ok es => if hasOverlap es then .error .overlap else .ok es

/-- `_eval_tensor2number`: `result[frozenset] = value`, then `{t: v for k, v in result for t in k}`.
A later entry overwrites an earlier one for the same tensor (dict comprehension). -/
def assign (es : List Entry) : List (Name × Int) :=
  es.flatMap (fun e => e.ins.map (fun t => (t, e.val)))

/-- value finally bound to tensor `t` (last write wins), if any. -/
def assigned (es : List Entry) (t : Name) : Option Int :=
  ((assign es).reverse.find? (fun p => p.1 == t)).map (·.2)

end AFV.SetAlg
