/-!
Values compared by `accelforge/mapper/FFM/_pareto_df/fast_pareto.py`.

A finite IEEE float is a dyadic rational.  A whole matrix is sent with one common scale `S`:
every finite entry `v` is the integer `k = v · 2^S` (exact).  `±inf` are tags.  The order, equality and
negation of the floats involved are then the order, equality and negation of these integers
(`-0.0` and `0.0` are the same dyadic: the model identifies them; NaN is outside the input domain).

`FKey` is the type of the float32 row-sum used as sort key: a sum can be NaN (`inf + -inf`), and
numba's / numpy's stable argsort places NaN last.

Float rounding (`roundF`) is round-to-nearest-even to `p` significant bits with the subnormal
spacing and overflow threshold of the format, on scaled integers.
-/
namespace AFV.Pareto

/-- extended exact value: `fin k` is the number `k / 2^S` for the scale `S` of the matrix. -/
inductive EV where
  | ninf
  | fin (k : Int)
  | pinf
  deriving DecidableEq, Repr, Inhabited

namespace EV

def le : EV → EV → Bool
  | ninf, _ => true
  | _, pinf => true
  | fin a, fin b => decide (a ≤ b)
  | _, _ => false

/-- strict order of a linear order: `a < b` iff not `b ≤ a`. -/
def lt (a b : EV) : Bool := !le b a

def neg : EV → EV
  | ninf => pinf
  | pinf => ninf
  | fin k => fin (-k)

def min (a b : EV) : EV := if le a b then a else b

def isFin : EV → Bool
  | fin _ => true
  | _ => false

end EV

/-- float sort key: a value or NaN; NaN sorts last (numpy / numba argsort). -/
inductive FKey where
  | val (v : EV)
  | nan
  deriving DecidableEq, Repr, Inhabited

namespace FKey
def le : FKey → FKey → Bool
  | _, nan => true
  | nan, val _ => false
  | val a, val b => EV.le a b
def lt (a b : FKey) : Bool := !le b a
end FKey

/-! ## IEEE rounding on scaled integers -/

/-- Round the magnitude `m` to at most `p` significant bits, the result being a multiple of `2^q`
(round to nearest, ties to even). -/
def roundMag (p q m : Nat) : Nat :=
  if m == 0 then 0 else
  let bl := Nat.log2 m + 1
  let sh := Nat.max (bl - p) q
  if sh == 0 then m else
  let qv := m >>> sh
  let rem := m % (2 ^ sh)
  let half := 2 ^ (sh - 1)
  let qv' := if rem > half || (rem == half && qv % 2 == 1) then qv + 1 else qv
  qv' <<< sh

/-- Round a scaled integer to a float format: `p` bits, spacing `2^q`, overflow at magnitude `ovf`. -/
def roundF (p q ovf : Nat) (k : Int) : EV :=
  let m := roundMag p q k.natAbs
  if m ≥ ovf then (if k < 0 then EV.ninf else EV.pinf)
  else EV.fin (if k < 0 then -(Int.ofNat m) else Int.ofNat m)

/-- `astype(float32)` at scale `S`. -/
def castF32 (S : Nat) : EV → EV
  | EV.fin k => roundF 24 (S - 149) (2 ^ (128 + S)) k
  | v => v

/-- rounding to float64 at scale `S`. -/
def roundF64 (S : Nat) (k : Int) : EV := roundF 53 (S - 1074) (2 ^ (1024 + S)) k

/-- `s += x` with `s : float64`, `x` a float32 promoted to float64. -/
def addF64 (S : Nat) : FKey → EV → FKey
  | FKey.nan, _ => FKey.nan
  | FKey.val EV.pinf, EV.ninf => FKey.nan
  | FKey.val EV.ninf, EV.pinf => FKey.nan
  | FKey.val EV.pinf, _ => FKey.val EV.pinf
  | FKey.val EV.ninf, _ => FKey.val EV.ninf
  | FKey.val (EV.fin _), EV.pinf => FKey.val EV.pinf
  | FKey.val (EV.fin _), EV.ninf => FKey.val EV.ninf
  | FKey.val (EV.fin a), EV.fin b => FKey.val (roundF64 S (a + b))

/-- `s = 0.0; for kk: s += local[i, kk]; sums_buf[i] = s` (`sums_buf` is float32). -/
def sumKeyF (S : Nat) (r : List EV) : FKey :=
  match r.foldl (addF64 S) (FKey.val (EV.fin 0)) with
  | FKey.nan => FKey.nan
  | FKey.val v => FKey.val (castF32 S v)

/-- `float32(1e30)`, the initial value of `block_mins`. -/
def c1e30F32 : Int := 1000000015047466219876688855040
/-- `float64(1e308)`, the initial value of `best_c1`. -/
def c1e308 : Int := 100000000000000001097906362944045541740492309677311846336810682903157585404911491537163328978494688899061249669721172515611590283743140088328307009198146046031271664502933027185697489699588559043338384466165001178426897626212945177628091195786707458122783970171784415105291802893207873272974885715430223118336

end AFV.Pareto
