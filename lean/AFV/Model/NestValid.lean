import AFV.Model.Nest
/-!
# Validity checks of `run_model` that are not part of the cost computation

`tollOutermost`: "A Toll is a pass-through and must never be the outermost level backing a fusable tensor" —
`run_model` raises `ValueError` when a Toll node holds a fusable tensor whose backing component
(`tensor_to_backing[tensor]` = component of the first TensorHolder node holding it) is that Toll's component.
-/
namespace AFV.Nest

/-- `tensor_to_backing[t]`: component of the first TensorHolder node holding `t`. -/
def firstHolder {α : Type} (t : TId) : Mapping α → Option Lvl
  | [] => none
  | .storage l ts _ :: r => if ts.contains t then some l else firstHolder t r
  | .toll l ts _ :: r => if ts.contains t then some l else firstHolder t r
  | _ :: r => firstHolder t r

/-- Does `run_model` raise the "Toll is the outermost level holding fusable tensor" ValueError? -/
def tollOutermost {α : Type} (fusable : List TId) (m : Mapping α) : Bool :=
  m.any (fun n => match n with
    | .toll l ts _ => ts.any (fun t => fusable.contains t && firstHolder t m == some l)
    | _ => false)

end AFV.Nest
