/-!
Character-level model of the concise Einsum notation of `accelforge/frontend/workload.py`
(`_parse_einsum_string`, `_parse_projection`, `_parse_einsum_entry`, `_projection_factory`).

Strings are `List Char`, restricted to ASCII (Python's `\w`, `\s`, `str.isupper` … also accept
non-ASCII letters / blanks; that part of `re` is not modelled and the harness only generates ASCII).

The regular expressions of the code are modelled by hand-written scanners that accept exactly what
the regexes accept on ASCII input:

    tensor_pattern = ([A-Za-z_]\w*)\[([^\]]*)\]          ↦ `matchRef`  (anchored at the start)
    re.match(^tensor_pattern=(.+)$, s)                    ↦ `matchRef` + `'=' :: rhs`, `rhs ≠ []`
    re.findall(tensor_pattern, rhs)                       ↦ `findAll`   (leftmost, non-overlapping, skipping
                                                                         every position where no match starts)
    re.fullmatch(_ISL_REGEX, k)                           ↦ `islIdent`
    re.sub(r"\s+", "", s.strip())                         ↦ `strip`

`\w*` is greedy and must be followed by `[`, which is not a word character, so the only candidate is
the maximal run of word characters; `[^\]]*\]` can only stop at the first `]`.  No other backtracking
is possible in these patterns, which is what makes the scanners exact.
-/
namespace AFV.EinsumStr

abbrev Str := List Char

/-- Python `\s` / `str.strip()` blanks below U+0080: `\t \n \v \f \r`, `\x1c`–`\x1f`, space. -/
def isSpace (c : Char) : Bool :=
  c == ' ' || c == '\t' || c == '\n' || c == '\r' || c == '\x0b' || c == '\x0c' ||
  c == '\x1c' || c == '\x1d' || c == '\x1e' || c == '\x1f'

/-- `\w` on ASCII. -/
def isWord (c : Char) : Bool := c.isAlphanum || c == '_'

/-- `[A-Za-z_]`. -/
def isNameStart (c : Char) : Bool := c.isAlpha || c == '_'

/-- `re.sub(r"\s+", "", s.strip())`: every blank disappears, wherever it is. -/
def strip (s : Str) : Str := s.filter (fun c => !isSpace c)

/-- `tensor_pattern` anchored at the start of `s`: `(name, projection text, rest)`. -/
def matchRef : Str → Option (Str × Str × Str)
  | [] => none
  | c :: cs =>
    if isNameStart c then
      match cs.dropWhile isWord with
      | '[' :: r =>
        match r.dropWhile (fun x => x != ']') with
        | ']' :: rest => some (c :: cs.takeWhile isWord, r.takeWhile (fun x => x != ']'), rest)
        | _ => none
      | _ => none
    else none

/-- `re.findall(tensor_pattern, s)`; `fuel ≥ s.length` suffices. Text between matches is skipped. -/
def findAll : Nat → Str → List (Str × Str)
  | 0, _ => []
  | _, [] => []
  | fuel + 1, c :: cs =>
    match matchRef (c :: cs) with
    | some (n, p, rest) => (n, p) :: findAll fuel rest
    | none => findAll fuel cs

/-- `str.split(sep)` for a one-character separator. -/
def splitOn (sep : Char) : Str → List Str
  | [] => [[]]
  | c :: cs =>
    if c == sep then [] :: splitOn sep cs
    else match splitOn sep cs with
      | [] => [[c]]
      | p :: ps => (c :: p) :: ps

/-- `sep.join(parts)`. -/
def joinWith (sep : Char) : List Str → Str
  | [] => []
  | [p] => p
  | p :: q :: ps => p ++ sep :: joinWith sep (q :: ps)

def clist : List Str :=
  ["EQ", "NE", "LT", "GT", "LE", "GE", "NG", "NL", "AND", "OR"].map String.toList

/-- `re.fullmatch(_ISL_REGEX, k)`: a letter, then word characters, and not one of CLIST_OPERATORS
(the leading `\b` excludes the `#$@` alternatives of the character class). -/
def islIdent : Str → Bool
  | [] => false
  | c :: cs => c.isAlpha && cs.all isWord && !clist.contains (c :: cs)

def upper (s : Str) : Str := s.map Char.toUpper

/-- A projection: ordered `rank ↦ expression` entries (a Python dict). -/
abbrev Proj := List (Str × Str)

/-- `d[k] = v` on an insertion-ordered dict. -/
def dictSet : Proj → Str → Str → Proj
  | [], k, v => [(k, v)]
  | (k', v') :: d, k, v => if k' = k then (k', v) :: d else (k', v') :: dictSet d k v

def hasKey (d : Proj) (k : Str) : Bool := d.any (fun e => e.1 == k)

/-- One iteration of the loop of `_parse_projection`. -/
def parseItem (acc : Proj) (part : Str) : Option Proj :=
  if part.contains ':' then
    match splitOn ':' part with
    | [k, v] =>
      if !islIdent k then none
      else match k with
        | [] => none
        | k0 :: _ =>
          if k0.isLower then none
          else if hasKey acc k then none
          else some (acc ++ [(k, v)])
    | _ => none
  else
    match part with
    | [] => none
    | p0 :: _ =>
      if p0.isUpper then none
      else if !islIdent (upper part) then none
      else some (dictSet acc (upper part) part)

def foldItems : Proj → List Str → Option Proj
  | acc, [] => some acc
  | acc, p :: ps => match parseItem acc p with
    | some acc' => foldItems acc' ps
    | none => none

/-- `_parse_projection` (on blank-free text). -/
def parseProjection (p : Str) : Option Proj :=
  if p.isEmpty then none else foldItems [] (splitOn ',' p)

structure Access where
  name : Str
  proj : Proj
  output : Bool
deriving DecidableEq, Repr

structure Parsed where
  name : Str
  accesses : List Access
deriving DecidableEq, Repr

def parseRefs : List (Str × Str) → Option (List Access)
  | [] => some []
  | (n, p) :: ms => match parseProjection p with
    | none => none
    | some pr => match parseRefs ms with
      | none => none
      | some as => some (⟨n, pr, false⟩ :: as)

/-- `_parse_einsum_string` after blanks have been removed. -/
def parseNoWs (t : Str) : Option Parsed :=
  if t.isEmpty then none
  else if t.count '=' != 1 then none
  else match matchRef t with
    | some (on, op, '=' :: rhs) =>
      if rhs.isEmpty then none
      else
        let ms := findAll rhs.length rhs
        if ms.isEmpty then none
        else match parseRefs ms with
          | none => none
          | some ins => match parseProjection op with
            | none => none
            | some out => some ⟨on, ins ++ [⟨on, out, true⟩]⟩
    | _ => none

/-- `_parse_einsum_string`. -/
def parse (s : Str) : Option Parsed := parseNoWs (strip s)

/-! ### the validation the code does not do (proposed repair) -/

def printRef (r : Str × Str) : Str := r.1 ++ '[' :: (r.2 ++ [']'])

/-- The matched references, joined by single `*`, account for the whole right-hand side. -/
def rhsCovered (rhs : Str) : Bool :=
  joinWith '*' ((findAll rhs.length rhs).map printRef) == rhs

/-- No `[` inside a projection text. -/
def noOpen (p : Str) : Bool := !p.contains '['

/-- No blank run separates two word characters (blank removal does not glue two tokens together). -/
def noSplitWord : Str → Bool
  | [] => true
  | c :: cs =>
    (match cs with
     | d :: _ =>
       if isWord c && isSpace d then
         (match cs.dropWhile isSpace with
          | e :: _ => !isWord e
          | [] => true)
       else true
     | [] => true) && noSplitWord cs

/-- The validation `_parse_einsum_string` lacks, on blank-free text: the matched references joined by
single `*` are the whole right-hand side, and no projection text contains `[`. -/
def validated (t : Str) : Bool :=
  match matchRef t with
  | some (_, op, '=' :: rhs) =>
    rhsCovered rhs && noOpen op && (findAll rhs.length rhs).all (fun m => noOpen m.2)
  | _ => false

/-- `_parse_einsum_string` with the missing validation added (the proposed repair). -/
def parseStrict (s : Str) : Option Parsed :=
  if noSplitWord s && validated (strip s) then parse s else none

/-! ### `_parse_einsum_entry`: merging extra tensor-access attributes -/

/-- A tensor-access dict as the merge sees it: the three keys written by the string parser plus
whatever extra keys have been merged so far. -/
structure MAccess (V : Type) where
  name : Str
  proj : Proj
  output : Bool
  extra : List (String × V)

/-- An entry of the user's `tensor_accesses` list: its `name` (may be missing) and its other keys. -/
structure Extra (V : Type) where
  name : Option Str
  attrs : List (String × V)

/-- `{ta["name"]: ta for ta in parsed}`: a later access with the same name replaces the earlier one
but keeps the earlier one's position. -/
def collapse {V} : List (MAccess V) → List (MAccess V) → List (MAccess V)
  | acc, [] => acc
  | acc, a :: as =>
    collapse (if acc.any (fun b => b.name == a.name)
              then acc.map (fun b => if b.name == a.name then a else b) else acc ++ [a]) as

def ofAccess {V} (a : Access) : MAccess V := ⟨a.name, a.proj, a.output, []⟩

/-- `for k, v in ta.items(): if k != "name" and k in name2access[name]: raise; name2access[name][k] = v`
for one target dict. `"name"` is handled by the caller (`Extra.name`), so `attrs` has the other keys. -/
def setAttrs {V} : MAccess V → List (String × V) → Option (MAccess V)
  | a, [] => some a
  | a, (k, v) :: kvs =>
    if k == "projection" || k == "output" || a.extra.any (fun e => e.1 == k) then none
    else setAttrs { a with extra := a.extra ++ [(k, v)] } kvs

/-- `name2access[n]` is updated; names are unique after `collapse`, the scan mirrors the dict lookup. -/
def applyTo {V} (n : Str) (attrs : List (String × V)) : List (MAccess V) → Option (List (MAccess V))
  | [] => some []
  | b :: bs =>
    match (if b.name == n then setAttrs b attrs else some b) with
    | none => none
    | some b' => match applyTo n attrs bs with
      | none => none
      | some bs' => some (b' :: bs')

def mergeOne {V} (accs : List (MAccess V)) (x : Extra V) : Option (List (MAccess V)) :=
  match x.name with
  | none => none
  | some n =>
    if !accs.any (fun b => b.name == n) then none
    else applyTo n x.attrs accs

def mergeAll {V} : List (MAccess V) → List (Extra V) → Option (List (MAccess V))
  | accs, [] => some accs
  | accs, x :: xs => match mergeOne accs x with
    | none => none
    | some accs' => mergeAll accs' xs

/-- `_parse_einsum_entry` on `{"einsum": s, "tensor_accesses": extras}`. -/
def parseEntry {V} (s : Str) (extras : List (Extra V)) : Option (Str × List (MAccess V)) :=
  match parse s with
  | none => none
  | some p => match mergeAll (collapse [] (p.accesses.map ofAccess)) extras with
    | none => none
    | some accs => some (p.name, accs)

/-- `_parse_einsum_entry` of the proposed repair: strict string parser, and a tensor may appear only once. -/
def parseEntryStrict {V} (s : Str) (extras : List (Extra V)) : Option (Str × List (MAccess V)) :=
  match parseStrict s with
  | none => none
  | some p =>
    let accs : List (MAccess V) := p.accesses.map ofAccess
    if (collapse [] accs).length != accs.length then none
    else match mergeAll accs extras with
      | none => none
      | some accs' => some (p.name, accs')

/-! ### the verbose form and `_projection_factory` -/

inductive VProj where
  | list (vars : List Str)
  | dict (items : Proj)
deriving DecidableEq, Repr

structure VAccess where
  name : Str
  proj : VProj
  output : Bool
deriving DecidableEq, Repr

/-- Python `str.isidentifier()` on ASCII. -/
def isPyIdent : Str → Bool
  | [] => false
  | c :: cs => isNameStart c && cs.all isWord

/-- Element check of the list branch of `_projection_factory`: non-empty, `_ISL_REGEX.match` (a letter
first; the look-ahead only bites on upper-case words, which the next test rejects anyway), not upper-case. -/
def okListVar : Str → Bool
  | [] => false
  | c :: _ => c.isAlpha && !c.isUpper

def okKey : Str → Bool
  | [] => false
  | c :: cs => isPyIdent (c :: cs) && !c.isLower

/-- `_projection_factory`. -/
def projFactory : VProj → Option Proj
  | .list xs =>
    if xs.all okListVar then
      let d := xs.foldl (fun d x => dictSet d (upper x) x) []
      if d.all (fun e => okKey e.1) then some d else none
    else none
  | .dict items => if items.all (fun e => okKey e.1) then some items else none

def normAccesses : List VAccess → Option (List Access)
  | [] => some []
  | a :: as => match projFactory a.proj with
    | none => none
    | some p => match normAccesses as with
      | none => none
      | some r => some (⟨a.name, p, a.output⟩ :: r)

/-- What `Workload(einsums=[{name, tensor_accesses}])` keeps of the verbose form. -/
def verbose (name : Str) (accs : List VAccess) : Option Parsed :=
  match normAccesses accs with
  | none => none
  | some r => some ⟨name, r⟩

/-! ### printer: verbose Einsum ↦ concise string -/

/-- Is the shorthand `m` available for the entry `M: m`? -/
def shorthandOK (k v : Str) : Bool :=
  match v with
  | [] => false
  | c :: _ => !c.isUpper && islIdent (upper v) && k == upper v

/-- `style b`: use the shorthand where it is available and `b` asks for it. -/
def printItem (short : Bool) (kv : Str × Str) : Str :=
  if short && shorthandOK kv.1 kv.2 then kv.2 else kv.1 ++ ':' :: kv.2

def printItems : List Bool → Proj → List Str
  | _, [] => []
  | [], kv :: r => printItem false kv :: printItems [] r
  | b :: bs, kv :: r => printItem b kv :: printItems bs r

def printProjText (sty : List Bool) : VProj → Str
  | .list xs => joinWith ',' xs
  | .dict items => joinWith ',' (printItems sty items)

def printVRef (sty : List Bool) (a : VAccess) : Str × Str := (a.name, printProjText sty a.proj)

def printVRefs : List (List Bool) → List VAccess → List (Str × Str)
  | _, [] => []
  | [], a :: r => printVRef [] a :: printVRefs [] r
  | b :: bs, a :: r => printVRef b a :: printVRefs bs r

/-- Canonical (blank-free) concise string of `out = in₁ * in₂ * …`. One style list per access
(the first one is the output's). -/
def printCanon (out : VAccess) (ins : List VAccess) (sty : List (List Bool)) : Str :=
  printRef (printVRef (sty.headD []) out) ++ '=' ::
    joinWith '*' ((printVRefs sty.tail ins).map printRef)

/-- Insert blanks: `ws i` is put in front of the `i`-th character of `t` (and `ws t.length` at the end)
unless that would separate two word characters. -/
def insertWs (ws : Nat → Str) : Nat → Option Char → Str → Str
  | i, _, [] => (ws i).filter isSpace
  | i, prev, c :: cs =>
    let gap := (ws i).filter isSpace
    let gap := match prev with
      | some p => if isWord p && isWord c then [] else gap
      | none => gap
    gap ++ c :: insertWs ws (i + 1) (some c) cs

def printWs (out : VAccess) (ins : List VAccess) (sty : List (List Bool)) (ws : Nat → Str) : Str :=
  insertWs ws 0 none (printCanon out ins sty)

/-! ### the grammar of the property, as a recogniser on blank-free text

    T '[' … ']' '=' T '[' … ']' ( '*' T '[' … ']' )*       `…` free of `[`, `]`, `=`
-/

def okText (p : Str) : Bool := p.all (fun c => c != '[' && c != ']' && c != '=')

/-- `ref ('*' ref)*` up to the end of the text. -/
def refsStrict : Nat → Str → Bool
  | 0, _ => false
  | fuel + 1, s =>
    match matchRef s with
    | some (_, p, rest) =>
      okText p && (match rest with
        | [] => true
        | '*' :: rest' => refsStrict fuel rest'
        | _ => false)
    | none => false

def recogniseNoWs (t : Str) : Bool :=
  match matchRef t with
  | some (_, p, '=' :: rhs) => okText p && refsStrict (rhs.length + 1) rhs
  | _ => false

/-- The grammar on raw text: blanks may not split a word; the rest is the token grammar. -/
def recognise (s : Str) : Bool := noSplitWord s && recogniseNoWs (strip s)

end AFV.EinsumStr
