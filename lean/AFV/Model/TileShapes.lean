/-!
Model of the tile-shape candidate generation and of the mapspace-size counter (property C10).

Anchored code (as it is in /repo today):

`accelforge/mapper/FFM/_make_pmappings/make_pmappings_from_templates/make_tile_shapes.py`

    def _factorize(n):
        factors = []
        for i in range(1, math.ceil(n**0.5) + 1):
            if n % i == 0:
                factors.append(i)
                factors.append(math.ceil(n / i))
        return np.array(sorted(oset(factors)))

    def get_possible_factor_sizes(outer_size, imperfect, inner_size, coarseness=1):
        factors = set(); n_tiles = set()
        def _try_admit(n):
            if n > outer_size or n in factors: return False
            cur_n_tiles = math.ceil(outer_size / n)
            if cur_n_tiles not in n_tiles:
                n_tiles.add(cur_n_tiles)
                new_n = math.ceil(outer_size / cur_n_tiles)
                factors.add(new_n)
            return True
        if imperfect:
            n = inner_size
            while n <= outer_size:
                _try_admit(round(n / inner_size) * inner_size)
                n = n * coarseness if coarseness > 1 else n + inner_size
        else:
            try_add = set(_factorize(math.ceil(outer_size / inner_size)) * inner_size)
            factors = set(); prev = 0
            for f in sorted(try_add):
                if f >= prev * coarseness:
                    factors.add(f); prev = f
        _try_admit(outer_size)
        return np.array(sorted(factors))

`accelforge/util/_mathfuncs.py`

    def _divisors(n): return tuple(d for d in range(1, n + 1) if n % d == 0)
    def _count_factorizations(n, imperfect_per_loop):
        if len(imperfect_per_loop) <= 1: return 1
        others = imperfect_per_loop[1:]
        if imperfect_per_loop[0]:
            return sum(_count_factorizations(ceil(n / s), others) for s in range(1, n + 1))
        return sum(_count_factorizations(n // d, others) for d in _divisors(n))

FLOAT PRECONDITION (stated, checked by the harness on every run, not modelled):
for the sizes in scope (all operands < 2^52, in the checked domain ≤ 2^20)
  * `math.ceil(a / b)` equals the exact integer ceiling `(a + b - 1) / b`  (`ceilDiv`),
  * `math.ceil(n ** 0.5)` equals the least `r` with `n ≤ r*r`            (`ceilSqrt`),
  * `round(n / inner) ` is the round-half-even of the exact quotient, and `n * coarseness` is exact
    (only relevant for coarseness > 1; the harness uses dyadic coarseness values there),
  * `f >= prev * coarseness` is the exact rational comparison.
`coarseness` is modelled as the exact rational `cn / cd` (`cd > 0`).

Python sets are modelled as lists used only through membership tests; `sorted(set)` / `sorted(oset(..))`
is `sortDedup`.  Core Lean only (this file is linked into the native driver).
-/
namespace AFV.TileShapes

/-- `math.ceil(a / b)` for positive `b` (exact integer ceiling; see the float precondition). -/
def ceilDiv (a b : Nat) : Nat := (a + b - 1) / b

/-- search loop for `ceilSqrt` -/
def ceilSqrtGo (n : Nat) : Nat → Nat → Nat
  | 0, r => r
  | fuel + 1, r => if n ≤ r * r then r else ceilSqrtGo n fuel (r + 1)

/-- `math.ceil(n ** 0.5)`: the least `r` with `n ≤ r * r`. -/
def ceilSqrt (n : Nat) : Nat := ceilSqrtGo n n 0

/-- insertion into a strictly increasing list, dropping duplicates -/
def insertSorted (x : Nat) : List Nat → List Nat
  | [] => [x]
  | y :: ys => if x < y then x :: y :: ys else if x = y then y :: ys else y :: insertSorted x ys

/-- `sorted(set(l))` -/
def sortDedup (l : List Nat) : List Nat := l.foldr insertSorted []

/-- body of the `for i in range(1, ceil(sqrt n) + 1)` loop of `_factorize` -/
def factorizeStep (n : Nat) (acc : List Nat) (i : Nat) : List Nat :=
  if n % i = 0 then acc ++ [i, ceilDiv n i] else acc

/-- `_factorize(n)`: the sqrt-bounded divisor loop, then `sorted(oset(factors))`. -/
def factorize (n : Nat) : List Nat :=
  sortDedup ((List.range' 1 (ceilSqrt n)).foldl (factorizeStep n) [])

/-- the two closure variables `factors`, `n_tiles` of `get_possible_factor_sizes` -/
structure St where
  factors : List Nat
  nTiles : List Nat

/-- `_try_admit(n)` (the returned bool is never used by the caller) -/
def tryAdmit (outer : Nat) (st : St) (n : Nat) : St :=
  if n > outer || st.factors.contains n then st
  else
    let t := ceilDiv outer n
    if st.nTiles.contains t then st
    else { factors := ceilDiv outer t :: st.factors, nTiles := t :: st.nTiles }

/-- Python `round(p / q)` for exact rationals: round half to even (`q > 0`). -/
def roundHalfEven (p q : Nat) : Nat :=
  let f := p / q
  let r := p % q
  if 2 * r < q then f else if q < 2 * r then f + 1 else if f % 2 = 0 then f else f + 1

/-- The imperfect-mode `while n <= outer_size` loop.  `n` is the exact rational `a / b`
(`b = 1` as long as `coarseness ≤ 1`); `fuel` bounds the number of iterations (see `impFuel`). -/
def impLoop (outer inner cn cd : Nat) : Nat → Nat → Nat → St → St
  | 0, _, _, st => st
  | fuel + 1, a, b, st =>
    if a ≤ outer * b then
      let st' := tryAdmit outer st (roundHalfEven a (b * inner) * inner)
      if cd < cn then impLoop outer inner cn cd fuel (a * cn) (b * cd) st'
      else impLoop outer inner cn cd fuel (a + inner * b) b st'
    else st

/-- enough iterations for the loop to leave `n ≤ outer` when `inner ≥ 1`:
additive steps need `outer / inner + 1`; multiplicative steps grow `n` by at least `1 / cd`. -/
def impFuel (outer cd : Nat) : Nat := outer * cd + 2

/-- body of the perfect-mode `for f in sorted(try_add)` loop; state is `(prev, factors)` -/
def coarseStep (cn cd : Nat) (s : Nat × List Nat) (f : Nat) : Nat × List Nat :=
  if s.1 * cn ≤ f * cd then (f, f :: s.2) else s

/-- `get_possible_factor_sizes(outer, imperfect, inner, coarseness = cn / cd)` -/
def candidates (imperfect : Bool) (inner outer : Nat) (cn : Nat := 1) (cd : Nat := 1) : List Nat :=
  let st :=
    if imperfect then
      impLoop outer inner cn cd (impFuel outer cd) inner 1 { factors := [], nTiles := [] }
    else
      let tryAdd := sortDedup ((factorize (ceilDiv outer inner)).map (· * inner))
      { factors := (tryAdd.foldl (coarseStep cn cd) (0, [])).2, nTiles := [] }
  sortDedup (tryAdmit outer st outer).factors

/-- `_divisors(n)` -/
def divisors (n : Nat) : List Nat := (List.range' 1 n).filter (fun d => n % d = 0)

/-- `_count_factorizations(n, imperfect_per_loop)` -/
def countFactorizations : Nat → List Bool → Nat
  | _, [] => 1
  | _, [_] => 1
  | n, imp :: o :: os =>
    if imp then ((List.range' 1 n).map (fun s => countFactorizations (ceilDiv n s) (o :: os))).sum
    else ((divisors n).map (fun d => countFactorizations (n / d) (o :: os))).sum

end AFV.TileShapes
