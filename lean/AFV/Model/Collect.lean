/-!
Model of `accelforge/util/parallel.py:parallel` — the index-tagged unordered collection.

The Python code (list path, `n_jobs > 1` and more than one job):

    jobs    = [delayed(f)(i, job) for i, job in enumerate(jobs)]     -- f returns (i, result_i)
    results = [None] * total_jobs
    for i, result in yield_results():                                -- any completion order
        results[i] = result
    return results

dict path:  `result = {k: v for k, v in <unordered (key, value) arrivals>}` then
            `{k: result[k] for k in jobs}`.

sequential path (`n_jobs == 1 or len(jobs) == 1`): `[j() for j in jobs]`.
-/
namespace AFV.Collect

/-- `results[i] = r` on a list of optional slots; out-of-range writes are ignored
(Python would raise IndexError; arrivals are always in range, see `collect_perm`). -/
def setSlot {α} : List (Option α) → Nat → α → List (Option α)
  | [], _, _ => []
  | _ :: xs, 0, r => some r :: xs
  | x :: xs, i+1, r => x :: setSlot xs i r

/-- The collection loop: start from `[None] * n`, process arrivals in completion order. -/
def collect {α} (n : Nat) (arrivals : List (Nat × α)) : List (Option α) :=
  arrivals.foldl (fun acc (p : Nat × α) => setSlot acc p.1 p.2) (List.replicate n none)

/-- Tagging: what the wrapped jobs return, in submission order. -/
def tagged {α} (vals : List α) : List (Nat × α) := vals.zipIdx.map (fun p => (p.2, p.1))

/-- Python dict built from arrivals (later entries overwrite earlier ones), as an assoc lookup. -/
def dictOf {κ α} [BEq κ] (arrivals : List (κ × α)) (k : κ) : Option α :=
  arrivals.foldl (fun acc (p : κ × α) => if p.1 == k then some p.2 else acc) none

/-- `{k: result[k] for k in jobs}`. -/
def dictCollect {κ α} [BEq κ] (keys : List κ) (arrivals : List (κ × α)) : List (κ × Option α) :=
  keys.map (fun k => (k, dictOf arrivals k))

/-- Sequential path. -/
def sequential {β α} (run : β → α) (jobs : List β) : List α := jobs.map run

end AFV.Collect
