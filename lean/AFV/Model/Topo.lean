/-!
# Model of accelforge's expression ordering and scoped evaluation  (property C21)

Anchored code (as it is in /repo today):

* `accelforge/util/_basetypes.py : _get_parsable_field_order`  →  `Topo.split`, `Topo.depsIn`, `Topo.kahn`, `Topo.order`
* `accelforge/util/_basetypes.py : Evalable._eval_expressions_final` + `eval_field` →  `Topo.evalOrder`, `Topo.evalScopeG`
* `accelforge/util/_eval_expressions.py : eval_expression`  →  `Expr.eval` (Python's `eval` on `+ - *`, unary minus,
  parentheses, integer constants and identifiers is modelled by an arithmetic AST; an undefined identifier is
  `NameError → EvaluationError`, here `none`)
* `accelforge/frontend/spec.py : Spec._spec_eval_expressions`, `frontend/arch/arch.py : Arch._eval_expressions`,
  `frontend/arch/components.py : Component._eval_expressions`  →  `Topo.evalAll` (symbol table threaded through
  spec variables ⊃ arch variables ⊃ component extra attributes ⊃ the component's own fields; every nested object
  works on a *copy* of the table, so nothing leaks to siblings)

Core Lean only (linked into the native driver).
-/
namespace AFV.Topo

/-! ## expressions -/

/-- Arithmetic expressions over integer constants and identifiers. -/
inductive Expr (α : Type) where
  | num (n : Int)
  | var (x : α)
  | neg (a : Expr α)
  | add (a b : Expr α)
  | sub (a b : Expr α)
  | mul (a b : Expr α)
  deriving Repr, DecidableEq

namespace Expr
variable {α : Type}

/-- Identifiers occurring in the expression: what the code's `re.findall(r"\bname\b", value)` detects
for arithmetic over identifiers (exact identifier matching). -/
def vars : Expr α → List α
  | num _ => []
  | var x => [x]
  | neg a => a.vars
  | add a b => a.vars ++ b.vars
  | sub a b => a.vars ++ b.vars
  | mul a b => a.vars ++ b.vars

/-- Python `eval` of the expression in the symbol table `ρ`; `none` = `NameError` (→ `EvaluationError`). -/
def eval (ρ : α → Option Int) : Expr α → Option Int
  | num n => some n
  | var x => ρ x
  | neg a => (a.eval ρ).map (fun v => -v)
  | add a b => (a.eval ρ).bind fun x => (b.eval ρ).map fun y => x + y
  | sub a b => (a.eval ρ).bind fun x => (b.eval ρ).map fun y => x - y
  | mul a b => (a.eval ρ).bind fun x => (b.eval ρ).map fun y => x * y

end Expr

/-! ## symbol tables -/

/-- The symbol table restricted to integer-valued names: newest binding first (`dict[k] = v` = cons). -/
abbrev Table (α : Type) := List (α × Int)

def Table.get {α} [DecidableEq α] (t : Table α) (x : α) : Option Int := List.lookup x t

/-! ## fields and the ordering algorithm -/

/-- What `_get_parsable_field_order` / `eval_field` distinguish about a field's (value, validator):
* `plain`  : validator is not `EvalsTo[...]` and the value is not an `Evalable` → never sorted, placed first;
* `nested` : the value is an `Evalable` (sub-object, "parsable") → sorted, but taken last among the ready ones;
* `opaque` : `EvalsTo` validator, value is not a string and not an integer (None, dict, …) → sorted, no dependencies;
* `expr e` : `EvalsTo` validator, value is an expression string (or an integer constant) → sorted with its
  dependencies, evaluated to an integer that is bound in the symbol table. -/
inductive Kind (α : Type) where
  | plain
  | nested
  | opaque
  | expr (e : Expr α)
  deriving Repr, DecidableEq

structure Field (α : Type) where
  name : α
  kind : Kind α
  deriving Repr, DecidableEq

namespace Field
variable {α : Type}

/-- goes through the dependency sort (`get_origin(validator) is EvalsTo or is_parsable(value)`) -/
def evaluated (f : Field α) : Bool := match f.kind with
  | .plain => false
  | _ => true

def parsable (f : Field α) : Bool := match f.kind with
  | .nested => true
  | _ => false

def expr? (f : Field α) : Option (Expr α) := match f.kind with
  | .expr e => some e
  | _ => none

/-- identifiers occurring in the field's value (only string values are searched) -/
def rawDeps (f : Field α) : List α := match f.kind with
  | .expr e => e.vars
  | _ => []

end Field

variable {α : Type} [DecidableEq α]

/-- First loop of `_get_parsable_field_order`: returns (`order`, `to_sort`).
`order` starts as the pre-ordered fields; a field already in `order` is skipped, a non-evaluated field is appended to
`order`, everything else is appended to `to_sort`. -/
def split (pre : List α) (fields : List (Field α)) : List α × List (Field α) :=
  fields.foldl
    (fun (acc : List α × List (Field α)) f =>
      if f.name ∈ acc.1 then acc
      else if !f.evaluated then (acc.1 ++ [f.name], acc.2)
      else (acc.1, acc.2 ++ [f]))
    (pre, [])

/-- `dependencies[f]`: the *other* `to_sort` fields whose name occurs in `f`'s value, in `to_sort` order. -/
def depsIn (toSort : List (Field α)) (f : Field α) : List α :=
  (toSort.map (·.name)).filter (fun g => g ≠ f.name ∧ g ∈ f.rawDeps)

/-- The `while to_sort:` loop.  `fuel` bounds the number of iterations (one field leaves `to_sort` per iteration).
`error stuck` = "Circular dependency detected in expressions. Fields: stuck". -/
def kahn (dep : Field α → List α) : Nat → List α → List (Field α) → Except (List α) (List α)
  | 0, order, _ => .ok order
  | fuel + 1, order, toSort =>
    match toSort with
    | [] => .ok order
    | _ :: _ =>
      let canAdd := toSort.filter (fun f => (dep f).all (fun d => d ∈ order))
      match canAdd with
      | [] => .error (toSort.map (·.name))
      | c :: _ =>
        -- "Parsables last": the first ready non-parsable, else the first ready field
        let pick := (canAdd.find? (fun f => !f.parsable)).getD c
        kahn dep fuel (order ++ [pick.name]) (toSort.filter (fun f => f.name ≠ pick.name))

/-- `_get_parsable_field_order(order, triples)`. -/
def order (pre : List α) (fields : List (Field α)) : Except (List α) (List α) :=
  let s := split pre fields
  kahn (depsIn s.2) s.2.length s.1 s.2

/-! ## evaluation -/

inductive Err (α : Type) where
  | cycle (stuck : List α)      -- EvaluationError("Circular dependency detected …")
  | undefined (field : α)       -- EvaluationError("Failed to evaluate …"): NameError inside `eval`
  deriving Repr, DecidableEq

def lookField (fields : List (Field α)) (x : α) : Option (Field α) := fields.find? (fun f => f.name == x)

/-- The `for field in field_order:` loop of `_eval_expressions_final`: evaluate the field in the current table and
bind the result (`symbol_table[field] = evaluated`).  Only integer-valued (`expr`) fields are tracked in `Table`. -/
def evalOrder (fields : List (Field α)) : List α → Table α → Except (Err α) (Table α)
  | [], st => .ok st
  | x :: xs, st =>
    match (lookField fields x).bind Field.expr? with
    | some e =>
      match e.eval st.get with
      | some v => evalOrder fields xs ((x, v) :: st)
      | none => .error (.undefined x)
    | none => evalOrder fields xs st

/-- One object: order its fields, then evaluate them in that order starting from (a copy of) the outer table. -/
def evalScopeG (outer : Table α) (pre : List α) (fields : List (Field α)) : Except (Err α) (Table α) :=
  match order pre fields with
  | .error stuck => .error (.cycle stuck)
  | .ok ord => evalOrder fields ord outer

/-- A free-form dictionary of definitions (`EvalExtras`: spec `variables`, `arch.variables`,
`extra_attributes_for_component_model`): every entry has validator `EvalsTo[Any]`. -/
structure Def (α : Type) where
  name : α
  expr : Expr α
  deriving Repr, DecidableEq

def Def.toField (d : Def α) : Field α := ⟨d.name, .expr d.expr⟩

/-- `sorted(...)` of `get_fields()` (names are distinct, so any sorting algorithm gives the same list). -/
def insertBy {β : Type} (le : β → β → Bool) (a : β) : List β → List β
  | [] => [a]
  | b :: l => if le a b then a :: b :: l else b :: insertBy le a l

def sortBy {β : Type} (le : β → β → Bool) : List β → List β
  | [] => []
  | a :: l => insertBy le a (sortBy le l)

/-- `get_fields()` returns the keys **sorted**; `le` is the order on names (`str` comparison). -/
def evalScope (le : α → α → Bool) (outer : Table α) (defs : List (Def α)) : Except (Err α) (Table α) :=
  evalScopeG outer [] ((sortBy (fun a b => le a.name b.name) defs).map Def.toField)

/-- A component: its `extra_attributes_for_component_model` and its own fields (all of them, with their kinds),
`pre` = the pre-ordered field names of `Component._eval_expressions`. -/
structure Comp (α : Type) where
  attrs : List (Def α)
  pre : List α
  fields : List (Field α)
  deriving Repr

structure Spec3 (α : Type) where
  specVars : List (Def α)
  archVars : List (Def α)
  comps : List (Comp α)
  deriving Repr

structure CompOut (α : Type) where
  attrs : Table α
  own : Table α

structure Out (α : Type) where
  spec : Table α
  arch : Table α
  comps : List (CompOut α)

def evalComp (le : α → α → Bool) (arch : Table α) (c : Comp α) : Except (Err α) (CompOut α) :=
  match evalScope le arch c.attrs with
  | .error e => .error e
  | .ok t3 =>
    match evalScopeG t3 c.pre (sortBy (fun a b => le a.name b.name) c.fields) with
    | .error e => .error e
    | .ok t4 => .ok ⟨t3, t4⟩

/-- the `nodes` list: every component on its own copy of the arch-level table; the first failing one raises -/
def evalComps (le : α → α → Bool) (arch : Table α) : List (Comp α) → Except (Err α) (List (CompOut α))
  | [] => .ok []
  | c :: cs =>
    match evalComp le arch c with
    | .error e => .error e
    | .ok o =>
      match evalComps le arch cs with
      | .error e => .error e
      | .ok os => .ok (o :: os)

/-- `Spec._spec_eval_expressions`: spec variables, then arch variables in the resulting table, then the components. -/
def evalAll (le : α → α → Bool) (s : Spec3 α) : Except (Err α) (Out α) :=
  match evalScope le [] s.specVars with
  | .error e => .error e
  | .ok t1 =>
    match evalScope le t1 s.archVars with
    | .error e => .error e
    | .ok t2 =>
      match evalComps le t2 s.comps with
      | .error e => .error e
      | .ok cs => .ok ⟨t1, t2, cs⟩

/-! ## the property as an executable judge (used by the driver as oracle on the implementation's output)

`semHolds outer fields t` : every `expr` field's value in `t` is the value of its expression where every other name is
looked up in `t` and the field's **own** name is looked up in the enclosing table, and names that are not `expr`
fields keep the enclosing value. -/

def selfEnv (outer t : α → Option Int) (x : α) : α → Option Int := fun y => if y = x then outer y else t y

def semHolds (outer : α → Option Int) (fields : List (Field α)) (t : α → Option Int) : Bool :=
  fields.all fun f => match f.expr? with
    | some e => (t f.name).isSome && (t f.name == e.eval (selfEnv outer t f.name))
    | none => true

end AFV.Topo
