import AFV.Model.Nest
import AFV.Model.LExpr
/-!
# Changing the number type of the `Nest` data (rationals ↔ symbolic expressions), and `analytic` over `LExpr`

`analytic` is generic in its number type.  `analyticPoly` runs it over symbolic expressions: the tile shape of the
i-th symbolic loop is the symbol `sym i`; every other number is a rational constant.  Property C07 shows that evaluating
its result at an assignment of the symbols gives `analytic` over the rationals on the instantiated mapping.
-/
namespace AFV.Nest

variable {α β : Type}

def mapPairs (f : α → β) (l : List (Nat × α)) : List (Nat × β) := l.map (fun p => (p.1, f p.2))

def Act.map (f : α → β) (a : Act α) : Act β :=
  { energy := f a.energy, throughput := f a.throughput, bpa := a.bpa.map f, vpa := mapPairs f a.vpa }

def Level.map (f : α → β) (lv : Level α) : Level β :=
  { isToll := lv.isToll, size := f lv.size, leak := f lv.leak, actionsScale := f lv.actionsScale,
    skipInitial := lv.skipInitial, bpvOv := mapPairs f lv.bpvOv, bpa := lv.bpa.map f, vpa := mapPairs f lv.vpa,
    read := lv.read.map f, write := lv.write.map f, dir := lv.dir }

def ComputeLevel.map (f : α → β) (c : ComputeLevel α) : ComputeLevel β :=
  { energy := f c.energy, throughput := f c.throughput, leak := f c.leak, actionsScale := f c.actionsScale,
    skipInitial := c.skipInitial }

def Arch.map (f : α → β) (a : Arch α) : Arch β := { levels := a.levels.map (Level.map f), compute := a.compute.map f }

def TensorSpec.map (f : α → β) (t : TensorSpec α) : TensorSpec β := { rvs := t.rvs, isOutput := t.isOutput, bpv := f t.bpv }

def Workload.map (f : α → β) (w : Workload α) : Workload β :=
  { bounds := w.bounds.map f, tensors := w.tensors.map (TensorSpec.map f), nInstances := f w.nInstances }

def Node.map (f : α → β) : Node α → Node β
  | .storage l ts lo => .storage l ts lo
  | .toll l ts lo => .toll l ts lo
  | .loop rv tile => .loop rv (f tile)
  | .compute => .compute

def RNode.map (f : α → β) : RNode α → RNode β
  | .node n => .node (n.map f)
  | .reservation t l => .reservation t l

def Counts.map (f : α → β) (c : Counts α) : Counts β :=
  { readsToParent := f c.readsToParent, writesToParent := f c.writesToParent, skippedFirst := f c.skippedFirst,
    readActions := f c.readActions, writeActions := f c.writeActions, skReadActions := f c.skReadActions,
    skWriteActions := f c.skWriteActions }

def Stats.map (f : α → β) (s : Stats α) : Stats β :=
  { c := s.c.map f, maxOccupancy := f s.maxOccupancy, nLoopsAbove := s.nLoopsAbove }

def Buffet.map (f : α → β) (b : Buffet α) : Buffet β := { lvl := b.lvl, t := b.t, s := b.s.map f }

def Result.map (f : α → β) (r : Result α) : Result β :=
  { actions := r.actions.map (fun x => (x.1, x.2.1, f x.2.2.1, f x.2.2.2))
    computes := f r.computes
    energies := r.energies.map (fun x => (x.1, x.2.1, f x.2.2.1, f x.2.2.2))
    computeEnergy := f r.computeEnergy
    leaks := r.leaks.map f
    computeLeak := f r.computeLeak
    latencies := r.latencies.map (fun x => (x.1, f x.2))
    computeLatency := f r.computeLatency
    totalLatency := f r.totalLatency
    dynamicEnergy := f r.dynamicEnergy
    leakEnergy := f r.leakEnergy
    totalEnergy := f r.totalEnergy
    occupancy := r.occupancy.map (fun x => (x.1, x.2.1, f x.2.2))
    usage := r.usage.map (fun x => (x.1, x.2.1, f x.2.2))
    reservations := r.reservations.map (fun x => (x.1, x.2.1, f x.2.2))
    memBits := r.memBits.map (fun x => (x.1, f x.2))
    memUsage := r.memUsage.map (fun x => (x.1, f x.2)) }

end AFV.Nest

namespace AFV
instance : Max LExpr := ⟨fun a b => .max [a, b]⟩
end AFV

namespace AFV.Nest

/-- A mapping template: loops carry either a concrete tile shape or the index of a symbol. -/
inductive TNode
  | storage (lvl : Lvl) (ts : List TId) (lower : Bool)
  | toll (lvl : Lvl) (ts : List TId) (lower : Bool)
  | loopC (rv : RV) (tile : Nat)
  | loopS (rv : RV) (sym : Nat)
  | compute
  deriving Repr

def TNode.toPoly : TNode → Node LExpr
  | .storage l ts lo => .storage l ts lo
  | .toll l ts lo => .toll l ts lo
  | .loopC rv tile => .loop rv (LExpr.num (tile : Nat))
  | .loopS rv i => .loop rv (LExpr.sym i)
  | .compute => .compute

/-- The concrete mapping obtained from a template by assigning tile shapes to the symbols. -/
def TNode.inst (σ : Nat → Rat) : TNode → Node Rat
  | .storage l ts lo => .storage l ts lo
  | .toll l ts lo => .toll l ts lo
  | .loopC rv tile => .loop rv ((tile : Nat) : Rat)
  | .loopS rv i => .loop rv (σ i)
  | .compute => .compute

/-- **`analytic` over symbolic expressions** for a template. -/
def analyticPoly (arch : Arch Rat) (w : Workload Rat) (tpl : List TNode) : Option (Result LExpr) :=
  analytic (arch.map LExpr.num) (w.map LExpr.num) (tpl.map TNode.toPoly)

end AFV.Nest
