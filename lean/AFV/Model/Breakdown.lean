/-!
Model of `accelforge/mapper/FFM/mappings.py`: `Mappings._get_cols`, `Mappings.access`,
`_get_keys_of_length`, and the four reporting methods `energy`, `actions`, `latency`,
`resource_usage`, **as the code does it**: columns are selected and grouped by the string
parts of their names (`name.split("<SEP>")`), a key is matched by *list membership* and located
with `list.index` (first occurrence), the matched part is removed and the name re-joined.

One DataFrame row is modelled (pandas applies every operation column-wise, so rows are
independent):  `Row = [(parts of the column name, value of this row)]` in DataFrame column order.
Values are integers (the harness scales dyadic floats of a row by a common power of two).

Python                                                    | here
----------------------------------------------------------|--------------------------------
`col.split("<SEP>")`                                      | `splitSep`
`for col in self.data.columns: …` in `_get_cols`          | `getColsGo` (state = `found_index`)
`access(key, col_idx)` (one key, `keep_key_index=False`)  | `access`
`"<SEP>".join(parts)` followed by the next `.split`       | `eraseKey` (`[] ↦ [""]`)
`result[(einsum, component, tensor, action)] = series`    | list of writes, then `dictOfWrites`
`new_result[newkey] += value` on a `defaultdict(float)`   | `groupSum`
`np.maximum(new_result[einsum], value)`                   | `dictMax`
-/
namespace AFV.Breakdown

abbrev Col := List String
abbrev Row := List (Col × Int)

/-- The exceptions `_get_cols` / `access` can raise. -/
inductive Err
  | notUnique   -- `assert len(oset(columns)) == len(columns), "Columns must be unique"`
  | multiple    -- ValueError "Key … found multiple times in the column names"
  | varying     -- ValueError "Key … found at varying indexes in the column names"
  | duplicate   -- ValueError "Removing … results in duplicate column name"
  deriving DecidableEq, Repr

def Err.toString : Err → String
  | .notUnique => "notUnique"
  | .multiple => "multiple"
  | .varying => "varying"
  | .duplicate => "duplicate"

/-! ## `str.split("<SEP>")` -/

def sepChars : List Char := ['<', 'S', 'E', 'P', '>']

/-- Left-to-right non-overlapping split (Python `str.split(sep)`), on characters.
`skip` counts the separator characters still to be skipped after a match. -/
def splitGo : List Char → Nat → List Char → List (List Char)
  | [], _, cur => [cur.reverse]
  | _ :: rest, skip + 1, cur => splitGo rest skip cur
  | c :: rest, 0, cur =>
    if sepChars.isPrefixOf (c :: rest) then cur.reverse :: splitGo rest 4 []
    else splitGo rest 0 (c :: cur)

def splitSep (s : String) : Col := (splitGo s.toList 0 []).map String.ofList

/-! ## `_get_cols` -/

/-- The loop of `_get_cols(key, col_idx)`; the last argument is `found_index`
(initially `col_idx`).  Returns the selected columns (with their values) and `found_index`. -/
def getColsGo (key : String) (ci : Option Nat) : Row → Option Nat → Except Err (Row × Option Nat)
  | [], fi => .ok ([], fi)
  | (p, v) :: rest, fi =>
    if key ∉ p then getColsGo key ci rest fi                                  -- `if key not in col: continue`
    else if ci.isSome ∧ some (p.idxOf key) ≠ ci then getColsGo key ci rest fi  -- `col.index(key) != col_idx`
    else if ci.isNone ∧ 1 < p.count key then .error .multiple
    else
      let cur := match ci with
        | none => p.idxOf key
        | some i => i
      if fi.isSome ∧ fi ≠ some cur then .error .varying
      else match getColsGo key ci rest (some cur) with
        | .error e => .error e
        | .ok (found, fi') => .ok ((p, v) :: found, fi')

/-- New column name: drop part `idx`, join with `<SEP>`; the next `.split` of `""` gives `[""]`. -/
def eraseKey (idx : Option Nat) (p : Col) : Col :=
  let q := match idx with
    | some i => p.eraseIdx i
    | none => p
  if q = [] then [""] else q

/-- The loop building `col_renames` (raises on a duplicate new name). -/
def renameGo (idx : Option Nat) : Row → List Col → Except Err Row
  | [], _ => .ok []
  | (p, v) :: rest, seen =>
    if eraseKey idx p ∈ seen then .error .duplicate
    else match renameGo idx rest (eraseKey idx p :: seen) with
      | .error e => .error e
      | .ok r => .ok ((eraseKey idx p, v) :: r)

/-- `Mappings.access(key, col_idx=ci)` for one key, `keep_key_index=False`. -/
def access (row : Row) (key : String) (ci : Option Nat) : Except Err Row :=
  if ¬ (row.map (·.1)).Nodup then .error .notUnique
  else match getColsGo key ci row ci with
    | .error e => .error e
    | .ok (sel, idx) => renameGo idx sel []

/-- `for x in xs: ys.append(f(x))` where `f` may raise. -/
def mapE {α β ε} (f : α → Except ε β) : List α → Except ε (List β)
  | [] => .ok []
  | a :: as => match f a with
    | .error e => .error e
    | .ok b => match mapE f as with
      | .error e => .error e
      | .ok bs => .ok (b :: bs)

/-! ## dictionaries (insertion-ordered association lists) -/

/-- One dictionary update `d[k] = ini v` when `k` is new, `d[k] = op d[k] v` otherwise
(an existing key keeps its position, a new key is appended: Python dict order). -/
def dictUpd {κ} [DecidableEq κ] (ini : Int → Int) (op : Int → Int → Int) :
    List (κ × Int) → κ → Int → List (κ × Int)
  | [], k, v => [(k, ini v)]
  | (k', v') :: rest, k, v =>
    if k' = k then (k', op v' v) :: rest else (k', v') :: dictUpd ini op rest k v

/-- `d[k] = v`. -/
def dictSet {κ} [DecidableEq κ] (d : List (κ × Int)) (k : κ) (v : Int) : List (κ × Int) :=
  dictUpd id (fun _ v => v) d k v

def dictOfWrites {κ} [DecidableEq κ] (ws : List (κ × Int)) : List (κ × Int) :=
  ws.foldl (fun d kv => dictSet d kv.1 kv.2) []

/-- `d[k] += v` on a `defaultdict(float)`: `0.0 + v` on first sight (the latency loop writes
`d[k] = v` on first sight and `+=` afterwards, which is the same number). -/
def dictAdd {κ} [DecidableEq κ] (d : List (κ × Int)) (k : κ) (v : Int) : List (κ × Int) :=
  dictUpd (fun v => 0 + v) (fun a v => a + v) d k v

/-- `d[k] = v` on first sight, `np.maximum(d[k], v)` afterwards. -/
def dictMax {κ} [DecidableEq κ] (d : List (κ × Int)) (k : κ) (v : Int) : List (κ × Int) :=
  dictUpd id max d k v

/-- `if k not in d: d[k] = 0` then `d[k] = np.maximum(d[k], v)`. -/
def dictMax0 {κ} [DecidableEq κ] (d : List (κ × Int)) (k : κ) (v : Int) : List (κ × Int) :=
  dictUpd (fun v => max 0 v) max d k v

/-- The regrouping loop `for key, value in result.items(): new_result[f(key)] += value`. -/
def groupSum {κ κ'} [DecidableEq κ'] (f : κ → κ') (tbl : List (κ × Int)) : List (κ' × Int) :=
  tbl.foldl (fun acc kv => dictAdd acc (f kv.1) kv.2) []

def total {κ} (tbl : List (κ × Int)) : Int := (tbl.map (·.2)).sum

/-! ## energy() / actions() -/

/-- (einsum, component, tensor, action); tensor `none` is Python `None` (leak), `some "None"` the string. -/
abbrev Key4 := String × String × Option String × String

instance : DecidableEq Key4 := fun a b => instDecidableEqProd a b

/-- Einsum name with `spec.workload.einsums[einsum].tensor_names`. -/
abbrev Einsums := List (String × List String)

/-- `tensor_accessed = einsum_accessed.access(tensor, col_idx=1)` and the writes of its
`_get_keys_of_length(2)` columns. -/
def tensorWrites (ea : Row) (e t : String) : Except Err (List (Key4 × Int)) :=
  match access ea t (some 1) with
  | .error er => .error er
  | .ok ta => .ok (ta.filterMap fun pv => match pv.1 with
      | [c, a] => some ((e, c, some t, a), pv.2)
      | _ => none)

/-- The `leak` loop over `einsum_accessed._get_keys_of_length(2)`. -/
def leakWrites (ea : Row) (e : String) : List (Key4 × Int) :=
  ea.filterMap fun pv => match pv.1 with
    | [c, a] => if a = "leak" then some ((e, c, none, a), pv.2) else none
    | _ => none

/-- Body of `for einsum in self.einsum_names` (`withLeak` = energy(), otherwise actions()). -/
def einsumWrites (withLeak : Bool) (en : Row) (e : String) (tensors : List String) :
    Except Err (List (Key4 × Int)) :=
  match access en e (some 0) with
  | .error er => .error er
  | .ok ea => match mapE (tensorWrites ea e) (tensors ++ ["None"]) with
    | .error er => .error er
    | .ok ws => .ok (ws.flatten ++ (if withLeak then leakWrites ea e else []))

/-- The sequence of `result[key] = value` assignments of energy() (`kind = "energy"`, leak loop on)
or actions() (`kind = "action"`, no leak loop). -/
def table4Writes (kind : String) (withLeak : Bool) (row : Row) (es : Einsums) :
    Except Err (List (Key4 × Int)) :=
  match access row kind none with
  | .error er => .error er
  | .ok en => match mapE (fun et => einsumWrites withLeak en et.1 et.2) es with
    | .error er => .error er
    | .ok ws => .ok ws.flatten

/-- The `result` dictionary of energy() / actions(). -/
def table4 (kind : String) (withLeak : Bool) (row : Row) (es : Einsums) : Except Err (List (Key4 × Int)) :=
  match table4Writes kind withLeak row es with
  | .error er => .error er
  | .ok ws => .ok (dictOfWrites ws)

def energyTable (row : Row) (es : Einsums) := table4 "energy" true row es
def actionsTable (row : Row) (es : Einsums) := table4 "action" false row es

/-- `tuple(key[i] for i in keep_indices)`; `mask = [per_einsum, per_component, per_tensor, per_action]`. -/
def proj (mask : Bool × Bool × Bool × Bool) (k : Key4) : List (Option String) :=
  (if mask.1 then [some k.1] else []) ++ (if mask.2.1 then [some k.2.1] else []) ++
  (if mask.2.2.1 then [k.2.2.1] else []) ++ (if mask.2.2.2 then [some k.2.2.2] else [])

/-- What energy()/actions() return for a flag combination: the scalar `sum(result.values())`
when no flag is set (reported under the empty key), otherwise the regrouped dictionary. -/
def aggregate (mask : Bool × Bool × Bool × Bool) (tbl : List (Key4 × Int)) : List (List (Option String) × Int) :=
  if mask = (false, false, false, false) then [([], total tbl)] else groupSum (proj mask) tbl

/-! ## latency() -/

abbrev Key2 := String × String

def latencyWrites (row : Row) (es : List String) : Except Err (List (Key2 × Int)) :=
  match access row "latency" none with
  | .error er => .error er
  | .ok lat =>
    match mapE (fun e => match access lat e (some 0) with
        | .error er => .error er
        | .ok ea => .ok (ea.filterMap fun pv => match pv.1 with
            | [c] => some ((e, c), pv.2)
            | _ => none)) es with
    | .error er => .error er
    | .ok ws => .ok ws.flatten

def latencyTable (row : Row) (es : List String) : Except Err (List (Key2 × Int)) :=
  match latencyWrites row es with
  | .error er => .error er
  | .ok ws => .ok (dictOfWrites ws)

/-- `if not per_component:` loop — per-Einsum maximum. -/
def perEinsumMax (tbl : List (Key2 × Int)) : List (String × Int) :=
  tbl.foldl (fun acc kv => dictMax acc kv.1.1 kv.2) []

/-- `if not per_einsum and per_component:` loop — per-component sum over Einsums. -/
def perComponentSum (tbl : List (Key2 × Int)) : List (String × Int) :=
  tbl.foldl (fun acc kv => dictAdd acc kv.1.2 kv.2) []

/-- `summed = None; for v in result.values(): summed = v if summed is None else summed + v`. -/
def sumOpt : List Int → Option Int
  | [] => none
  | v :: vs => some (vs.foldl (· + ·) v)

/-- latency() with no flags. -/
def latencyTotal (tbl : List (Key2 × Int)) : Option Int := sumOpt ((perEinsumMax tbl).map (·.2))

/-! ## resource_usage() -/

/-- `if resource not in usage: usage[resource] = 0; usage[resource] = np.maximum(usage[resource], v)`. -/
def usageStep (u : List (String × Int)) (pv : Col × Int) : List (String × Int) :=
  match pv.1 with
  | [r, _, _] => dictMax0 u r pv.2
  | _ => u

def usageOf (res : Row) : List (String × Int) := res.foldl usageStep []

def usageTable (row : Row) : Except Err (List (String × Int)) :=
  match access row "reservation" none with
  | .error er => .error er
  | .ok res => .ok (usageOf res)

end AFV.Breakdown
