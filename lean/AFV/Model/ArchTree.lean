/-!
Shared model of the architecture tree of `accelforge/frontend/arch/structure.py` and of the three
algorithms that walk it (properties C25, C26, C27).

## The tree

A `Branch` holds a *list* of nodes.  In a `Hierarchical` the list is a chain: every non-compute `Leaf`
is the parent of everything that follows it; a `Compute` hangs off to the side of the chain (it is a
leaf of the tree, later siblings are NOT below it); a nested `Hierarchical` is spliced into the chain; a
`Fork` is a side branch: its contents hang below the current chain position, and the chain continues
after the `Fork` from the position before it.  (`Hierarchical._parent2child_names` draws exactly these
edges.)  `Array` is outside the quantifier of C25–C27 and is not modelled.

`Nodes` is the node list of a branch, in cons form (`leaf l rest` = "leaf `l`, then the rest of the
list"), which keeps every recursion below structural.

## C25  `Hierarchical._flatten`  /  `Spec._get_flattened_architecture`

    for node in self.nodes:
        if isinstance(node, Hierarchical):
            if isinstance(node, Fork):
                if node.find(compute_node, default=None) is None: continue
            new_nodes, new_fanout = node._flatten(compute_node, fanout, return_fanout=True)
            nodes.extend(new_nodes)
            if any(isinstance(n, Compute) and n.name == compute_node for n in new_nodes): break
            assert not isinstance(node, Fork)
        elif isinstance(node, Compute):
            if node.name == compute_node: nodes.append(node); break
        elif isinstance(node, Leaf): nodes.append(node)

(the `fanout` bookkeeping of `_flatten` is never returned to `_get_flattened_architecture`; not modelled).

## C26  `ArchNode.iterate_hierarchically` + the `global_fanout` loop of `Spec.calculate_component_costs`

    def iterate_hierarchically(self, _parents=None):
        if hasattr(self, "name"): yield self, _parents; _parents.append(self)     # every Leaf, Compute too
        if isinstance(self, Fork): _parents = list(_parents)                       # copy: side branch
        if isinstance(self, Leaf): return
        for node in self.nodes: yield from node.iterate_hierarchically(_parents)  # shared, mutated list

    for leaf, parents in self.arch.iterate_hierarchically():
        if not isinstance(leaf, Component): continue
        global_fanout = 1
        for p in parents:
            if isinstance(p, Spatialable): global_fanout *= p.get_fanout()
        orig.total_area = c.area * global_fanout;  orig.total_leak_power = c.leak_power * global_fanout

The consumer reads `parents` before the generator resumes, i.e. before the node itself is appended.

## C27  `Component.calculate_area / calculate_leak_power / calculate_action_energy /
          calculate_action_throughput` as driven by `Spec.calculate_component_costs`

    area = self.area  (or 0 for a dummy);  if area_scale != 1: area *= area_scale
    if n_parallel_instances != 1: area *= n_parallel_instances;  self.area = area          # written back
    (likewise leak_power with leak_power_scale, n_parallel_instances;
     action.energy with component energy_scale, action energy_scale;
     action.throughput (inf for a dummy) with component/action throughput_scale, n_parallel_instances)

Every model below has a `Variant`: `current` follows the code in /repo today; `fixed` is the model of the
minimal repair proposed for the defects the `current` model exhibits (see Props/C26, Props/C27).
-/
namespace AFV.ArchTree

/-- What the three algorithms look at in a `Leaf` (Memory, Toll, Container, Compute). -/
structure LeafInfo where
  name : String
  /-- `isinstance(node, Compute)` -/
  compute : Bool
  /-- `isinstance(node, Component)` (false for `Container`) -/
  component : Bool
  /-- `get_fanout()` = product of the `spatial` fanouts -/
  fanout : Nat
  /-- per-instance area after costing (C26) -/
  area : Int
  /-- per-instance leak power after costing (C26) -/
  leak : Int
deriving DecidableEq, Repr, Inhabited

/-- The node list of a `Branch`. -/
inductive Nodes where
  | nil : Nodes
  | leaf (l : LeafInfo) (rest : Nodes) : Nodes
  /-- a nested (non-Fork) `Hierarchical` followed by the rest of the list -/
  | hier (inner rest : Nodes) : Nodes
  /-- a `Fork` followed by the rest of the list -/
  | fork (inner rest : Nodes) : Nodes
deriving DecidableEq, Repr, Inhabited

/-- `get_nodes_of_type(Leaf)`: all leaves in document order. -/
def leaves : Nodes → List LeafInfo
  | .nil => []
  | .leaf l r => l :: leaves r
  | .hier i r => leaves i ++ leaves r
  | .fork i r => leaves i ++ leaves r

def names (t : Nodes) : List String := (leaves t).map (·.name)

/-- names of `get_nodes_of_type(Compute)` in document order -/
def computeNames (t : Nodes) : List String := ((leaves t).filter (·.compute)).map (·.name)

/-! ### C25 -/

/-- `node.find(name, default=None) is not None` on the contents of a branch (branches themselves have no
name: `Hierarchical`/`Fork` declare none). -/
def find (c : String) : Nodes → Bool
  | .nil => false
  | .leaf l r => l.name == c || find c r
  | .hier i r => find c i || find c r
  | .fork i r => find c i || find c r

/-- `any(isinstance(n, Compute) and n.name == compute_node for n in new_nodes)` -/
def hasCompute (c : String) (l : List LeafInfo) : Bool := l.any (fun n => n.compute && n.name == c)

/-- `Hierarchical._flatten(compute_node)`; `none` = the `assert not isinstance(node, Fork)` fired. -/
def flatten (c : String) : Nodes → Option (List LeafInfo)
  | .nil => some []
  | .leaf l r =>
      if l.compute then
        if l.name == c then some [l]            -- append, break
        else flatten c r                        -- other compute: skipped
      else (flatten c r).map (l :: ·)           -- any other Leaf: appended
  | .hier i r =>
      match flatten c i with
      | none => none
      | some new =>
          if hasCompute c new then some new     -- extend, break
          else (flatten c r).map (new ++ ·)     -- extend, continue
  | .fork i r =>
      if !find c i then flatten c r             -- fork without the compute: continue
      else match flatten c i with
        | none => none
        | some new => if hasCompute c new then some new else none   -- break / assert

/-- Outcome of `Spec._get_flattened_architecture(compute_node=c)`. -/
inductive FlatResult where
  | ok (path : List LeafInfo)
  | duplicateName          -- EvaluationError("Duplicate name …")
  | assertion              -- AssertionError from `_flatten`
  | empty                  -- IndexError: `found[-1][-1]` on an empty list
  | notFound               -- EvaluationError("Compute node … not found")
deriving DecidableEq, Repr

def hasDup : List String → Bool
  | [] => false
  | x :: xs => xs.contains x || hasDup xs

def getFlattened (t : Nodes) (c : String) : FlatResult :=
  if hasDup (names t) then .duplicateName else
  match flatten c t with
  | none => .assertion
  | some p =>
    match p.getLast? with
    | none => .empty
    | some l => if l.name != c then .notFound else .ok p

/-! ### C26 -/

inductive Variant where
  | current   -- /repo today
  | fixed     -- proposed repair
deriving DecidableEq, Repr

/-- The `_parents` list after a leaf has been visited. `current`: `_parents.append(self)` for every Leaf.
`fixed`: a Compute is a side leaf of the chain and is not appended. -/
def pushParent (v : Variant) (ps : List LeafInfo) (l : LeafInfo) : List LeafInfo :=
  match v with
  | .current => ps ++ [l]
  | .fixed => if l.compute then ps else ps ++ [l]

/-- `iterate_hierarchically`: the yielded `(node, parents-at-the-time-of-the-yield)` pairs, and the shared
`_parents` list as the walk leaves it.  A `Fork` walks its contents on a copy. -/
def iter (v : Variant) : Nodes → List LeafInfo → List (LeafInfo × List LeafInfo) × List LeafInfo
  | .nil, ps => ([], ps)
  | .leaf l r, ps =>
      let res := iter v r (pushParent v ps l)
      ((l, ps) :: res.1, res.2)
  | .hier i r, ps =>
      let r1 := iter v i ps
      let r2 := iter v r r1.2
      (r1.1 ++ r2.1, r2.2)
  | .fork i r, ps =>
      let r1 := iter v i ps            -- `_parents = list(_parents)`: the copy is dropped afterwards
      let r2 := iter v r ps
      (r1.1 ++ r2.1, r2.2)

/-- `global_fanout = 1; for p in parents: if isinstance(p, Spatialable): global_fanout *= p.get_fanout()`
(every `Leaf` kind of the model is `Spatialable`). -/
def loopFanout (ps : List LeafInfo) : Nat := ps.foldl (fun g p => g * p.fanout) 1

/-- The instance count the code uses for `total_* = per-instance * count`.
`current`: the parents' fanouts only.  `fixed`: times the component's own fanout. -/
def globalFanout (v : Variant) (l : LeafInfo) (ps : List LeafInfo) : Nat :=
  match v with
  | .current => loopFanout ps
  | .fixed => loopFanout ps * l.fanout

structure Total where
  name : String
  count : Nat
  totalArea : Int
  totalLeak : Int
deriving DecidableEq, Repr

/-- One entry per `Component` visited: what `calculate_component_costs` stores in `total_area`,
`total_leak_power`, i.e. the items of `Arch.per_component_total_area / _leak_power`. -/
def componentTotals (v : Variant) (t : Nodes) : List Total :=
  (iter v t []).1.filterMap fun (l, ps) =>
    if l.component then
      let g := globalFanout v l ps
      some ⟨l.name, g, l.area * g, l.leak * g⟩
    else none

def sumInt (l : List Int) : Int := l.foldr (· + ·) 0

/-- `Arch.total_area`, `Arch.total_leak_power`: sums over the per-component dictionaries. -/
def archTotalArea (v : Variant) (t : Nodes) : Int := sumInt ((componentTotals v t).map (·.totalArea))
def archTotalLeak (v : Variant) (t : Nodes) : Int := sumInt ((componentTotals v t).map (·.totalLeak))

/-! ### C27 -/

/-- A Python number as the costing code can produce it from integer inputs: an exact integer, or the
float specials that arise from a dummy component's `float("inf")` throughput. -/
inductive Val where
  | fin (v : Int)
  | inf
  | ninf
  | nan
deriving DecidableEq, Repr, Inhabited

/-- Python `x * k` for a finite integer `k`. -/
def Val.mul (x : Val) (k : Int) : Val :=
  match x with
  | .fin v => .fin (v * k)
  | .inf => if k > 0 then .inf else if k < 0 then .ninf else .nan
  | .ninf => if k > 0 then .ninf else if k < 0 then .inf else .nan
  | .nan => .nan

/-- `if scale != 1: x *= scale` -/
def Val.scale (x : Val) (k : Int) : Val := if k != 1 then x.mul k else x

/-- `if scale != 1: x *= scale` on integers -/
def scaleInt (x : Int) (k : Int) : Int := if k != 1 then x * k else x

structure Action where
  name : String
  /-- `action.energy` (None = not given) -/
  energy : Option Int
  energyScale : Int
  /-- `action.throughput` (None = not given) -/
  throughput : Option Val
  throughputScale : Int
deriving DecidableEq, Repr, Inhabited

structure Comp where
  name : String
  /-- `_is_dummy()`: component_class "dummy" and no component model -/
  dummy : Bool
  area : Option Int
  areaScale : Int
  leak : Option Int
  leakScale : Int
  energyScale : Int
  throughputScale : Int
  nParallel : Int
  actions : List Action
deriving DecidableEq, Repr, Inhabited

/-- The keyword arguments `area, energy, throughput, leak` of `Spec.calculate_component_costs`. -/
structure Flags where
  area : Bool
  energy : Bool
  throughput : Bool
  leak : Bool
deriving DecidableEq, Repr

def Flags.full : Flags := ⟨true, true, true, true⟩

/-- A value that is neither given nor a dummy would be looked up in an external hwcomponents model: outside
the model.  The driver refuses such inputs. -/
def Comp.costable (c : Comp) : Bool :=
  c.dummy || (c.area.isSome && c.leak.isSome && c.actions.all (fun a => a.energy.isSome && a.throughput.isSome))

/-- `calculate_area`: given value (dummy: 0), `area_scale`, `n_parallel_instances`. -/
def calcArea (src : Comp) : Int := scaleInt (scaleInt (src.area.getD 0) src.areaScale) src.nParallel
/-- `calculate_leak_power` -/
def calcLeak (src : Comp) : Int := scaleInt (scaleInt (src.leak.getD 0) src.leakScale) src.nParallel
/-- `calculate_action_energy`, one action: component scale, then action scale -/
def calcEnergy (src : Comp) (a : Action) : Int := scaleInt (scaleInt (a.energy.getD 0) src.energyScale) a.energyScale
/-- `calculate_action_throughput`, one action: component scale, action scale, parallel instances -/
def calcThroughput (src : Comp) (a : Action) : Val :=
  (((a.throughput.getD .inf).scale src.throughputScale).scale a.throughputScale).scale src.nParallel

/-- `orig.actions[a.name]`: first action with that name -/
def findAction (as : List Action) (n : String) : Option Action := as.find? (·.name == n)

/-- One component's step of `Spec.calculate_component_costs(**flags)`: the costs are computed from `src`
and written into `dst`.  Today's code computes them from the component being updated (`src = dst`). -/
def costFrom (fl : Flags) (src dst : Comp) : Comp :=
  { dst with
    area := if fl.area then some (calcArea src) else dst.area
    leak := if fl.leak then some (calcLeak src) else dst.leak
    actions := dst.actions.map fun a =>
      match findAction src.actions a.name with
      | none => a
      | some sa =>
        { a with
          energy := if fl.energy then some (calcEnergy src sa) else a.energy
          throughput := if fl.throughput then some (calcThroughput src sa) else a.throughput } }

/-- State of a spec under repeated costing: per component, the values as declared and the component as it
is stored in the latest returned spec. -/
structure CState where
  declared : Comp
  stored : Comp
deriving DecidableEq, Repr

def CState.init (c : Comp) : CState := ⟨c, c⟩

/-- One call of `Spec.calculate_component_costs`.  `current`: scale factors are applied to whatever the
stored component holds.  `fixed`: they are applied to the declared values. -/
def costStep (v : Variant) (fl : Flags) (s : CState) : CState :=
  match v with
  | .current => ⟨s.declared, costFrom fl s.stored s.stored⟩
  | .fixed => ⟨s.declared, costFrom fl s.declared s.stored⟩

def costSpec (v : Variant) (fl : Flags) (s : List CState) : List CState := s.map (costStep v fl)

/-- What C27 observes of a component. -/
structure Obs where
  name : String
  area : Option Int
  leak : Option Int
  actions : List (String × Option Int × Option Val)
deriving DecidableEq, Repr

def observe (s : List CState) : List Obs :=
  s.map fun c => ⟨c.stored.name, c.stored.area, c.stored.leak,
                  c.stored.actions.map fun a => (a.name, a.energy, a.throughput)⟩

/-- Run a call history (one `Flags` per call), return the state after every call. -/
def runHistory (v : Variant) : List Flags → List CState → List (List CState)
  | [], _ => []
  | fl :: h, s => let s' := costSpec v fl s; s' :: runHistory v h s'

end AFV.ArchTree
