import AFV.Model.SetAlg
/-!
Model of the symbol table an Einsum contributes, as /repo builds it today:

* `accelforge/frontend/workload.py : Einsum._eval_expressions`
    - named sets `All Tensors Nothing Inputs Outputs Intermediates Shared Persistent`,
      one singleton per tensor of the Einsum, one singleton per rank variable (later keys of the
      dict literal override earlier ones);
    - `Persistent` is first built from the `persistent` flags of the Einsum's tensor accesses (this
      is what rename sources and the workload-level `persistent_tensors` expression itself see);
      after `persistent_tensors` has been applied to the flags, the entry `Persistent` of the
      evaluated renames is rebound to the tensors whose flag is now set — unless one of the
      renames the Einsum evaluates is itself called `Persistent` (fix 629ad68);
    - renames: the Einsum's own list, then what `renames.get_renames_for_einsum(self.name)`
      returns and is not yet named (tensor_accesses first, then rank_variables), evaluated in
      list order, each result visible to the later ones; then the named sets not shadowed by a
      rename; then an empty set for every workload tensor / rank variable not yet named.
* `accelforge/frontend/renames.py : Renames.get_renames_for_einsum` (fix 9c6cc63),
  `Rename._eval_expressions`
    - starting from an empty `EinsumRename`, the entries named like the Einsum are merged in, in
      list order, then the entries named "default", in list order; merging an entry appends its
      tensor renames and then its rank-variable renames whose name is not `taken`, where `taken`
      = the names already merged (both kinds), computed once before the entry is processed.
    - expected_count: `len(source) != expected_count` → EvaluationError.
-/
namespace AFV.Renames
open AFV.SetAlg

structure Access where
  name : Name
  output : Bool
  persistent : Bool
  rankVars : List Name
deriving Repr, DecidableEq, Inhabited

structure Rename where
  name : Name
  source : SExpr
  expectedCount : Option Nat
deriving Repr, DecidableEq, Inhabited

structure Einsum where
  name : Name
  accesses : List Access
  renames : List Rename
deriving Repr, DecidableEq, Inhabited

structure EinsumRename where
  name : Name
  tensorAccesses : List Rename
  rankVariables : List Rename
deriving Repr, DecidableEq, Inhabited

structure Workload where
  einsums : List Einsum
  /-- workload-level `persistent_tensors` set expression -/
  persistentTensors : Option SExpr
deriving Repr, DecidableEq, Inhabited

/-! ## tensor-name helpers of `Einsum` / `Workload` -/

def Einsum.inputNames (e : Einsum) : List Name :=
  dedup ((e.accesses.filter (fun a => !a.output)).map (·.name))
def Einsum.outputNames (e : Einsum) : List Name :=
  dedup ((e.accesses.filter (fun a => a.output)).map (·.name))
def Einsum.tensorNames (e : Einsum) : List Name := dedup (e.accesses.map (·.name))
def Einsum.rankVariables (e : Einsum) : List Name := dedup (e.accesses.flatMap (·.rankVars))
/-- `oset(t.name for t in self.tensor_accesses if t.persistent)` -/
def Einsum.flaggedPersistent (e : Einsum) : List Name :=
  dedup ((e.accesses.filter (fun a => a.persistent)).map (·.name))

def Workload.einsumsWithInput (w : Workload) (t : Name) : List Einsum :=
  w.einsums.filter (fun e => e.inputNames.contains t)
def Workload.einsumsWithOutput (w : Workload) (t : Name) : List Einsum :=
  w.einsums.filter (fun e => e.outputNames.contains t)
def Workload.tensorNames (w : Workload) : List Name :=
  dedup (w.einsums.flatMap (fun e => e.accesses.map (·.name)))
def Workload.rankVariables (w : Workload) : List Name :=
  dedup (w.einsums.flatMap (fun e => e.rankVariables))

/-! ## the named sets -/

def Einsum.all (e : Einsum) : List Name := union e.inputNames e.outputNames

def intermediates (w : Workload) (e : Einsum) : List Name :=
  e.all.filter (fun t => !(w.einsumsWithInput t).isEmpty && !(w.einsumsWithOutput t).isEmpty)

def shared (w : Workload) (e : Einsum) : List Name :=
  e.all.filter (fun t =>
    (union (dedup ((w.einsumsWithInput t).map (·.name)))
           (dedup ((w.einsumsWithOutput t).map (·.name)))).length > 1)

def tset (e : Einsum) (i : List Name) : ISet := { inst := i, full := e.all, space := spaceTensor }
def rset (e : Einsum) (i : List Name) : ISet :=
  { inst := i, full := e.rankVariables, space := spaceRankVar }

/-- Keys of the dict literal `rename_symbol_table`, in source order. -/
def namedEntries (w : Workload) (e : Einsum) : List (Name × ISet) :=
  [ ("All", tset e e.all), ("Tensors", tset e e.all), ("Nothing", tset e []),
    ("Inputs", tset e e.inputNames), ("Outputs", tset e e.outputNames),
    ("Intermediates", tset e (intermediates w e)), ("Shared", tset e (shared w e)),
    ("Persistent", tset e e.flaggedPersistent) ]
def tensorEntries (e : Einsum) : List (Name × ISet) := e.all.map (fun t => (t, tset e [t]))
def rankEntries (e : Einsum) : List (Name × ISet) :=
  e.rankVariables.map (fun r => (r, rset e [r]))

/-- dict-literal semantics: a later key overrides an earlier equal key.  With first-match
lookup that is the reversed concatenation. -/
def ofDictLiteral (kvs : List (Name × ISet)) : Table := kvs.reverse

/-- `rename_symbol_table` of `Einsum._eval_expressions`. -/
def renameSymbolTable (w : Workload) (e : Einsum) : Table :=
  ofDictLiteral (namedEntries w e ++ tensorEntries e ++ rankEntries e)

/-! ## renames -/

def hasName (l : List Rename) (n : Name) : Bool := l.any (fun r => r.name == n)

/-- `for r in src: if r.name not in dst: dst.append(r)` -/
def mergeInto (dst src : List Rename) : List Rename :=
  src.foldl (fun acc r => if hasName acc r.name then acc else acc ++ [r]) dst

/-- one entry of the top-level list merged into the result of `get_renames_for_einsum`:
`taken = [names already merged, both kinds]` (computed before the entry is processed), then
`for r in entry.tensor_accesses: if r.name not in taken: append`, same for `rank_variables`. -/
def mergeEntry (acc er : EinsumRename) : EinsumRename :=
  let taken := acc.tensorAccesses ++ acc.rankVariables
  { acc with
    tensorAccesses := acc.tensorAccesses ++ er.tensorAccesses.filter (fun r => !hasName taken r.name),
    rankVariables := acc.rankVariables ++ er.rankVariables.filter (fun r => !hasName taken r.name) }

/-- `Renames.get_renames_for_einsum`: `for wanted in (einsum_name, "default"): for einsum in
self.einsums: if einsum.name == wanted: merge`. -/
def getRenamesForEinsum (rs : List EinsumRename) (einsumName : Name) : EinsumRename :=
  let start : EinsumRename := { name := einsumName, tensorAccesses := [], rankVariables := [] }
  let own := (rs.filter (fun er => er.name == einsumName)).foldl mergeEntry start
  (rs.filter (fun er => er.name == "default")).foldl mergeEntry own

/-- The rename list `Einsum._eval_expressions` evaluates: own renames, then the tensor renames and
then the rank-variable renames of `get_renames_for_einsum(self.name)` that are not yet named. -/
def effectiveRenames (rs : List EinsumRename) (e : Einsum) : List Rename :=
  let d := getRenamesForEinsum rs e.name
  mergeInto (mergeInto e.renames d.tensorAccesses) d.rankVariables

/-- `RenameList._eval_expressions` + `Rename._eval_expressions`: in list order, each evaluated
source becomes visible under its name; expected_count is checked. Returns the evaluated renames
in order. (`source : TryEvalTo[InvertibleSet[TensorName | RankVariable]]`, evaluated with
`musteval_tryeval_to=True`; expected space `str | str = str`, which every set has.) -/
def evalRenames (st : Table) : List Rename → Except Err (List (Name × ISet))
  | [] => .ok []
  | r :: rest => do
    let v ← evalSetExpression st r.source (some spaceTensor) r.expectedCount
    let vs ← evalRenames (insert st r.name v) rest
    pure ((r.name, v) :: vs)

def hasKey (l : List (Name × ISet)) (n : Name) : Bool := l.any (fun p => p.1 == n)

/-- append `(k, v)` for every `k` of `extra` not yet named (checking against the growing list
for the first loop is the same as checking the original list because `extra` keys that collide
with each other were already collapsed by the dict literal). -/
def appendMissing (l : List (Name × ISet)) (extra : List (Name × ISet)) : List (Name × ISet) :=
  extra.foldl (fun acc p => if hasKey acc p.1 then acc else acc ++ [p]) l

/-- dict-literal collapse of duplicate keys: position of the first occurrence, value of the last. -/
def dictItems (kvs : List (Name × ISet)) : List (Name × ISet) :=
  let t := ofDictLiteral kvs
  (dedup (kvs.map (·.1))).filterMap (fun k => (lookup t k).map (fun v => (k, v)))

/-- `evaluated.renames` at the end of the rename handling of `Einsum._eval_expressions`, before the
workload-level `persistent_tensors` step. -/
def evaluatedRenames (w : Workload) (rs : List EinsumRename) (e : Einsum) :
    Except Err (List (Name × ISet)) := do
  let st := renameSymbolTable w e
  let vs ← evalRenames st (effectiveRenames rs e)
  let l1 := appendMissing vs (dictItems (namedEntries w e ++ tensorEntries e ++ rankEntries e))
  let present := l1.map (·.1)       -- `all_renames`, computed once before the two loops
  let l2 := l1 ++ (w.tensorNames.filter (fun t => !present.contains t)).map (fun t => (t, tset e []))
  let l3 := l2 ++ (w.rankVariables.filter (fun r => !present.contains r)).map (fun r => (r, rset e []))
  pure l3

/-- the symbol table before the `persistent_tensors` step (`rename_st_with_evaluated`) -/
def einsumTable1 (w : Workload) (rs : List EinsumRename) (e : Einsum) : Except Err Table := do
  let l ← evaluatedRenames w rs e
  pure (ofDictLiteral l)

/-- The set selected by the workload-level `persistent_tensors` for this Einsum
(`eval_set_expression(workload_persistent_tensors, {**st, renames…}, TensorName)`); tensors in it
get `persistent = True`. -/
def workloadPersistent (w : Workload) (rs : List EinsumRename) (e : Einsum) :
    Except Err (List Name) :=
  match w.persistentTensors with
  | none => .ok []
  | some pt => do
    let t ← einsumTable1 w rs e
    let r ← evalSetExpression t pt (some spaceTensor) none
    pure r.inst

/-- tensor accesses of `e` that are persistent after evaluation (`t.persistent`), in access order
(`oset(t.name for t in evaluated.tensor_accesses if t.persistent)`). -/
def persistentAfterEval (w : Workload) (rs : List EinsumRename) (e : Einsum) :
    Except Err (List Name) := do
  let sel ← workloadPersistent w rs e
  pure (e.tensorNames.filter (fun t => e.flaggedPersistent.contains t || sel.contains t))

/-- `evaluated.renames["Persistent"].source = InvertibleSet(instance=<flagged now>, …)` -/
def rebindPersistent (e : Einsum) (p : List Name) (l : List (Name × ISet)) : List (Name × ISet) :=
  l.map (fun kv => if kv.1 == "Persistent" then (kv.1, tset e p) else kv)

/-- `evaluated.renames` when `Einsum._eval_expressions` returns: inside
`if workload_persistent_tensors:` the entry `Persistent` is rebound to the tensors flagged now,
`if not any(r.name == "Persistent" for r in self.renames)` (`self.renames` = the effective list). -/
def finalRenames (w : Workload) (rs : List EinsumRename) (e : Einsum) :
    Except Err (List (Name × ISet)) := do
  let l ← evaluatedRenames w rs e
  match w.persistentTensors with
  | none => pure l
  | some _ =>
    let p ← persistentAfterEval w rs e
    if hasName (effectiveRenames rs e) "Persistent" then pure l else pure (rebindPersistent e p l)

/-- `st.update(**{k.name: k.source for k in renames})` in `Spec._spec_eval_expressions`:
the table the architecture is evaluated against for this Einsum. -/
def einsumTable (w : Workload) (rs : List EinsumRename) (e : Einsum) : Except Err Table := do
  let l ← finalRenames w rs e
  pure (ofDictLiteral l)

/-- `Workload._eval_expressions`: every Einsum is evaluated (the first error aborts). -/
def evalWorkload (w : Workload) (rs : List EinsumRename) :
    Except Err (List (Name × Table × List Name)) :=
  w.einsums.mapM (fun e => do
    let t ← einsumTable w rs e
    let p ← persistentAfterEval w rs e
    pure (e.name, t, p))

end AFV.Renames
