import AFV.Driver.Proto
import AFV.Driver.C17
namespace AFV.Driver.C20
open Lean AFV.Proto

private def pair? (j : Json) : Option (Int × Int) := do
  let a ← intList? j
  match a with
  | [e, l] => some (e, l)
  | _ => none

/-- {"op":"frontOf","rows":[[E,L],…]} → the all-pairs Pareto front of the rows (as pairs). -/
def handle (req : Json) : Json :=
  match (field? req "op").bind getStr? with
  | some "frontOf" =>
    match (field? req "rows").bind getArr? with
    | some arr =>
      match arr.toList.mapM pair? with
      | some rows => Json.arr ((AFV.Driver.C17.front2 rows).map (fun p => ofIntList [p.1, p.2])).toArray
      | none => err "malformed"
    | none => err "malformed"
  | _ => err "bad-op"

end AFV.Driver.C20
