import AFV.Driver.Proto
namespace AFV.Driver.C23
open Lean AFV.Proto

/-- Handler for property C23 requests (stub: not implemented yet). -/
def handle (_req : Json) : Json := err "unimplemented"

end AFV.Driver.C23
