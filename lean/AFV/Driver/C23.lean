import AFV.Driver.Proto
import AFV.Model.EinsumStr
namespace AFV.Driver.C23
open Lean AFV.Proto AFV.EinsumStr

private def js (s : Str) : Json := Json.str (String.ofList s)

private def projJson (p : Proj) : Json :=
  Json.arr (p.map (fun kv => Json.arr #[js kv.1, js kv.2])).toArray

private def accessJson (a : Access) : Json :=
  Json.mkObj [("name", js a.name), ("projection", projJson a.proj), ("output", Json.bool a.output)]

private def parsedJson : Option Parsed → Json
  | none => Json.null
  | some p => Json.mkObj [("name", js p.name), ("tensor_accesses", Json.arr (p.accesses.map accessJson).toArray)]

private def str? (j : Json) : Option Str := (getStr? j).map String.toList

private def pair? (j : Json) : Option (Str × Str) := do
  let a ← getArr? j
  if a.size != 2 then none else
  let k ← str? a[0]!
  let v ← str? a[1]!
  pure (k, v)

private def vproj? (j : Json) : Option VProj := do
  let kind ← (field? j "kind").bind getStr?
  let items ← (field? j "items").bind getArr?
  if kind == "list" then
    let xs ← items.toList.mapM str?
    pure (.list xs)
  else if kind == "dict" then
    let xs ← items.toList.mapM pair?
    pure (.dict xs)
  else none

private def vaccess? (j : Json) : Option VAccess := do
  let n ← (field? j "name").bind str?
  let p ← (field? j "projection").bind vproj?
  let o ← (field? j "output").bind getBool?
  pure ⟨n, p, o⟩

private def boolList? (j : Json) : Option (List Bool) := do
  let a ← getArr? j
  a.toList.mapM getBool?

private def extra? (j : Json) : Option (Extra String) := do
  let nm ← field? j "name"
  let name ← (match nm with
    | Json.null => some none
    | Json.str s => some (some s.toList)
    | _ => none)
  let attrs ← (field? j "attrs").bind getArr?
  let kvs ← attrs.toList.mapM (fun kv => do
    let a ← getArr? kv
    if a.size != 2 then none else
    let k ← getStr? a[0]!
    let v ← getStr? a[1]!
    pure (k, v))
  pure ⟨name, kvs⟩

private def maccessJson (a : MAccess String) : Json :=
  Json.mkObj [("name", js a.name), ("projection", projJson a.proj), ("output", Json.bool a.output),
    ("extra", Json.arr (a.extra.map (fun kv => Json.arr #[Json.str kv.1, Json.str kv.2])).toArray)]

/-- ops:
  {"op":"analyse","s":str}  → model / strict parse, grammar verdicts and the facts used to classify a failure
  {"op":"print","out":acc,"ins":[acc],"sty":[[bool]],"ws":[str]} → {"s","canon","verbose"}
  {"op":"entry","s":str,"extras":[{"name":str|null,"attrs":[[k,v]]}]} → {"name","accesses"} | null
  {"op":"factory","projection":vproj} → proj | null -/
def handle (req : Json) : Json :=
  match (field? req "op").bind getStr? with
  | some "analyse" =>
    match (field? req "s").bind str? with
    | some s =>
      let t := strip s
      let head := matchRef t
      let (lhsOk, rhs, op) := match head with
        | some (_, op, '=' :: rhs) => (true, rhs, op)
        | _ => (false, [], [])
      let ms := findAll rhs.length rhs
      Json.mkObj [
        ("model", parsedJson (parse s)),
        ("strict", parsedJson (parseStrict s)),
        ("grammar", Json.bool (recognise s)),
        ("grammar_nows", Json.bool (recogniseNoWs t)),
        ("no_split_word", Json.bool (noSplitWord s)),
        ("stripped", js t),
        ("eq_count", ofNat (t.count '=')),
        ("lhs_ok", Json.bool lhsOk),
        ("rhs_covered", Json.bool (lhsOk && rhsCovered rhs)),
        ("no_open", Json.bool (noOpen op && ms.all (fun m => noOpen m.2))),
        ("n_matches", ofNat ms.length)]
    | none => err "malformed"
  | some "print" =>
    match (field? req "out").bind vaccess?, (field? req "ins").bind getArr?,
          (field? req "sty").bind getArr?, (field? req "ws").bind getArr? with
    | some out, some ins, some sty, some ws =>
      match ins.toList.mapM vaccess?, sty.toList.mapM boolList?, ws.toList.mapM str? with
      | some ins, some sty, some ws =>
        Json.mkObj [
          ("s", js (printWs out ins sty (fun i => ws.getD i []))),
          ("canon", js (printCanon out ins sty)),
          ("verbose", parsedJson (verbose out.name (ins ++ [out])))]
      | _, _, _ => err "malformed"
    | _, _, _, _ => err "malformed"
  | some "entry" =>
    match (field? req "s").bind str?, (field? req "extras").bind getArr? with
    | some s, some xs =>
      match xs.toList.mapM extra? with
      | some xs =>
        let enc : Option (Str × List (MAccess String)) → Json := fun r => match r with
          | none => Json.null
          | some (n, accs) => Json.mkObj [("name", js n), ("accesses", Json.arr (accs.map maccessJson).toArray)]
        Json.mkObj [("current", enc (parseEntry s xs)), ("strict", enc (parseEntryStrict s xs))]
      | none => err "malformed"
    | _, _ => err "malformed"
  | some "factory" =>
    match (field? req "projection").bind vproj? with
    | some p => match projFactory p with
      | some d => projJson d
      | none => Json.null
    | none => err "malformed"
  | _ => err "bad-op"

end AFV.Driver.C23
