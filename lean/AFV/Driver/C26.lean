import AFV.Driver.Proto
import AFV.Driver.ArchTreeJson
namespace AFV.Driver.C26
open Lean AFV.Proto AFV.ArchTree AFV.Driver.ArchTreeJson

def totalsJson (l : List Total) : Json :=
  Json.arr (l.map fun x => Json.arr #[Json.str x.name, ofNat x.count, ofInt x.totalArea, ofInt x.totalLeak]).toArray

/-- Which situations of the walk a tree exercises (evidence only). -/
def features (t : Nodes) : List String :=
  let ys := (iter .current t []).1
  let f1 := if ys.any (fun p => p.1.component && p.1.fanout != 1) then ["own-fanout"] else []
  let f2 := if ys.any (fun p => p.1.component && p.2.any (fun q => q.compute && q.fanout != 1)) then ["sibling-compute-fanout"] else []
  let f3 := if ys.any (fun p => p.1.component && p.2.any (fun q => !q.compute && q.fanout != 1)) then ["ancestor-fanout"] else []
  let rec hasFork : Nodes → Bool
    | .nil => false
    | .leaf _ r => hasFork r
    | .hier i r => hasFork i || hasFork r
    | .fork _ _ => true
  let rec hasHier : Nodes → Bool
    | .nil => false
    | .leaf _ r => hasHier r
    | .hier _ _ => true
    | .fork i r => hasHier i || hasHier r
  f1 ++ f2 ++ f3 ++ (if hasFork t then ["fork"] else []) ++ (if hasHier t then ["nested-hier"] else [])

/-- ops:
  {"op":"totals","tree":tree} →
     {"wf":bool, "spec":[[name,instances,totalArea,totalLeak]…], "current":[…], "fixed":[…],
      "specArea":i,"specLeak":i, "currentArea":i,"currentLeak":i, "fixedArea":i,"fixedLeak":i,
      "parents":[[name,[parent names of today's walk]]…], "paths":[[name,[path names]]…], "features":[…]}
  (entries in document order of the components) -/
def handle (req : Json) : Json :=
  match (field? req "op").bind getStr?, (field? req "tree").bind parseTree with
  | some "totals", some t =>
    Json.mkObj [
      ("wf", Json.bool (!hasDup (names t))),
      ("spec", totalsJson (specTotals t)),
      ("current", totalsJson (componentTotals .current t)),
      ("fixed", totalsJson (componentTotals .fixed t)),
      ("specArea", ofInt (specTotalArea t)), ("specLeak", ofInt (specTotalLeak t)),
      ("currentArea", ofInt (archTotalArea .current t)), ("currentLeak", ofInt (archTotalLeak .current t)),
      ("fixedArea", ofInt (archTotalArea .fixed t)), ("fixedLeak", ofInt (archTotalLeak .fixed t)),
      ("parents", Json.arr ((iter .current t []).1.map fun p => Json.arr #[Json.str p.1.name, leafNames p.2]).toArray),
      ("paths", Json.arr ((leaves t).map fun l =>
          Json.arr #[Json.str l.name, match path t l.name with | some p => leafNames p | none => Json.null]).toArray),
      ("features", ofStrList (features t))]
  | some _, some _ => err "bad-op"
  | _, _ => err "malformed"

end AFV.Driver.C26
