import AFV.Driver.Proto
import AFV.Spec.Front
import AFV.Model.Search
/-!
Generic Pareto-front / exhaustive-join oracle (used by C01, C02, C13, C14, C16, C17, C19, C20).
Integers only: the harness scales floats (multiplying a column by a positive constant maps fronts to
fronts, `AFV.Front.front_scale`).

ops
  {"op":"front","rows":[[…ints…],…]}        → canonical front: rows not strictly dominated, sorted
                                               lexicographically, no duplicates (`frontFast`, proved `= front`)
  {"op":"frontSpec","rows":…}               → the same through the quadratic reference definition `front`
  {"op":"canon","rows":…}                   → canonical form of the set of rows (sorted, no duplicates)
  {"op":"dominated","rows":…}               → for each row: index of the first row strictly dominating it, or null
  {"op":"joinExact","tables":[[{"key":k,"obj":[…],"res":[…]},…],…],
       "kjoin":[[k1,k2,k3],…] | "eq" | "any", "rjoin":"add"|"max"|"cat", "cap":c}
                                            → front (inside each class) of all compatible within-capacity
                                               combinations of one row per table (`joinExactFast`, proved to be
                                               `joinExact`), canonical order; "res" may be omitted (= [])
  {"op":"ffm", … same arguments …}          → the prune–join–prune pipeline `ffm` (quadratic; small inputs)
  {"op":"allCombos", … same arguments …}    → every compatible combination, unpruned, canonical order

`kjoin`: a list of triples is a finite partial function (first match wins); "eq" joins equal classes and
keeps the class; "any" joins everything into class 0. `rjoin`: column-wise sum / max (the longer
profile is kept beyond the shorter one) or concatenation.
Malformed input → {"err":"malformed"}.
-/
namespace AFV.Driver.C02
open Lean AFV.Proto AFV.Front AFV.Search

private def rows? (j : Json) : Option (List Vec) := do
  let a ← getArr? j
  a.toList.mapM intList?

private def ofRows (rows : List Vec) : Json := Json.arr (rows.map ofIntList).toArray

private def optNat : Option Nat → Json
  | none => Json.null
  | some i => ofNat i

private def cand? (j : Json) : Option (Cand Int) := do
  let k ← (field? j "key").bind getInt?
  let o ← (field? j "obj").bind intList?
  let r ← match field? j "res" with
    | none => some []
    | some x => intList? x
  pure ⟨k, o, r⟩

private def table? (j : Json) : Option (List (Cand Int)) := do
  let a ← getArr? j
  a.toList.mapM cand?

private def tables? (j : Json) : Option (List (List (Cand Int))) := do
  let a ← getArr? j
  a.toList.mapM table?

private def triple? (j : Json) : Option (Int × Int × Int) := do
  let l ← intList? j
  match l with
  | [a, b, c] => some (a, b, c)
  | _ => none

private def kjoin? (j : Json) : Option (Int → Int → Option Int) :=
  match j with
  | .str "eq" => some (fun k l => if k = l then some k else none)
  | .str "any" => some (fun _ _ => some 0)
  | .arr a => do
    let ts ← a.toList.mapM triple?
    pure (fun k l => (ts.find? (fun t => t.1 == k && t.2.1 == l)).map (·.2.2))
  | _ => none

/-- Column-wise combination; beyond the shorter profile the longer one is kept. -/
def zipPad (f : Int → Int → Int) : Vec → Vec → Vec
  | [], ys => ys
  | xs, [] => xs
  | x :: xs, y :: ys => f x y :: zipPad f xs ys

private def rjoin? (j : Json) : Option (Vec → Vec → Vec) :=
  match j with
  | .str "add" => some (zipPad (· + ·))
  | .str "max" => some (zipPad max)
  | .str "cat" => some (· ++ ·)
  | _ => none

private def ofCand (c : Cand Int) : Json :=
  Json.mkObj [("key", ofInt c.key), ("obj", ofIntList c.obj), ("res", ofIntList c.res)]

/-- Canonical order of a set of candidates: by class, then number of objective columns, then values. -/
def canonCands (cs : List (Cand Int)) : List (Cand Int) :=
  (canonFast (cs.map (fun c => c.key :: encC c))).map (fun v =>
    match v with
    | k :: rest => decC k rest
    | [] => ⟨0, [], []⟩)

private def ofCands (cs : List (Cand Int)) : Json := Json.arr ((canonCands cs).map ofCand).toArray

private def joinArgs? (req : Json) : Option (Ops Int × Int × List (List (Cand Int))) := do
  let tables ← (field? req "tables").bind tables?
  let kj ← (field? req "kjoin").bind kjoin?
  let rj ← (field? req "rjoin").bind rjoin?
  let cap ← (field? req "cap").bind getInt?
  pure (⟨kj, fun _ _ r s => rj r s⟩, cap, tables)

def handle (req : Json) : Json :=
  match (field? req "op").bind getStr? with
  | some "front" =>
    match (field? req "rows").bind rows? with
    | some rows => ofRows (frontFast rows)
    | none => err "malformed"
  | some "frontSpec" =>
    match (field? req "rows").bind rows? with
    | some rows => ofRows (front rows)
    | none => err "malformed"
  | some "canon" =>
    match (field? req "rows").bind rows? with
    | some rows => ofRows (canonFast rows)
    | none => err "malformed"
  | some "dominated" =>
    match (field? req "rows").bind rows? with
    | some rows => Json.arr ((dominatedBy rows).map optNat).toArray
    | none => err "malformed"
  | some "joinExact" =>
    match joinArgs? req with
    | some (ops, cap, tables) => ofCands (joinExactFast ops cap tables)
    | none => err "malformed"
  | some "ffm" =>
    match joinArgs? req with
    | some (ops, cap, tables) => ofCands (ffm ops cap tables)
    | none => err "malformed"
  | some "allCombos" =>
    match joinArgs? req with
    | some (ops, _, tables) => ofCands (surv ops noFilter tables)
    | none => err "malformed"
  | _ => err "bad-op"

end AFV.Driver.C02
