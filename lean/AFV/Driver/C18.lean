import AFV.Driver.Proto
namespace AFV.Driver.C18
open Lean AFV.Proto

/-- `a ≤ b·(1 + tol)` over exact integers (a, b ≥ 0 scaled objective values; tol = tol_num/tol_den). -/
def leTol (a b tolNum tolDen : Int) : Bool := a * tolDen ≤ b * (tolDen + tolNum)

/-- {"op":"le","a":A,"b":B,"tol_num":n,"tol_den":d} → Bool. -/
def handle (req : Json) : Json :=
  match (field? req "op").bind getStr? with
  | some "le" =>
    match (field? req "a").bind getInt?, (field? req "b").bind getInt?,
          (field? req "tol_num").bind getInt?, (field? req "tol_den").bind getInt? with
    | some a, some b, some n, some d => if d > 0 then Json.bool (leTol a b n d) else err "malformed"
    | _, _, _, _ => err "malformed"
  | _ => err "bad-op"

end AFV.Driver.C18
