import AFV.Driver.Proto
namespace AFV.Driver.C18
open Lean AFV.Proto

/-- Handler for property C18 requests (stub: not implemented yet). -/
def handle (_req : Json) : Json := err "unimplemented"

end AFV.Driver.C18
