import AFV.Driver.Proto
import AFV.Model.ArchTree
import AFV.Spec.ArchTree
/-! JSON ⇄ architecture tree, shared by the C25 / C26 / C27 drivers.

node  ::= {"k":"leaf","name":s,"compute":b,"component":b,"fanout":n,"area":i,"leak":i}
        | {"k":"hier","nodes":[node…]} | {"k":"fork","nodes":[node…]}
tree  ::= [node…]
-/
namespace AFV.Driver.ArchTreeJson
open Lean AFV.Proto AFV.ArchTree

def parseLeaf (j : Json) : Option LeafInfo := do
  let name ← (field? j "name").bind getStr?
  let compute ← (field? j "compute").bind getBool?
  let component ← (field? j "component").bind getBool?
  let fanout ← (field? j "fanout").bind getNat?
  let area ← (field? j "area").bind getInt?
  let leak ← (field? j "leak").bind getInt?
  pure ⟨name, compute, component, fanout, area, leak⟩

mutual
partial def parseNodes (l : List Json) : Option Nodes :=
  match l with
  | [] => some .nil
  | j :: rest => do
    let r ← parseNodes rest
    match (field? j "k").bind getStr? with
    | some "leaf" => do let lf ← parseLeaf j; pure (.leaf lf r)
    | some "hier" => do let i ← parseTree ((field? j "nodes").getD Json.null); pure (.hier i r)
    | some "fork" => do let i ← parseTree ((field? j "nodes").getD Json.null); pure (.fork i r)
    | _ => none
partial def parseTree (j : Json) : Option Nodes := do
  let a ← getArr? j
  parseNodes a.toList
end

def leafNames (l : List LeafInfo) : Json := ofStrList (l.map (·.name))

end AFV.Driver.ArchTreeJson
