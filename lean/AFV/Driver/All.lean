import AFV.Driver.C01
import AFV.Driver.C02
import AFV.Driver.C03
import AFV.Driver.C04
import AFV.Driver.C05
import AFV.Driver.C06
import AFV.Driver.C07
import AFV.Driver.C08
import AFV.Driver.C09
import AFV.Driver.C10
import AFV.Driver.C11
import AFV.Driver.C12
import AFV.Driver.C13
import AFV.Driver.C14
import AFV.Driver.C15
import AFV.Driver.C16
import AFV.Driver.C17
import AFV.Driver.C18
import AFV.Driver.C19
import AFV.Driver.C20
import AFV.Driver.C21
import AFV.Driver.C22
import AFV.Driver.C23
import AFV.Driver.C24
import AFV.Driver.C25
import AFV.Driver.C26
import AFV.Driver.C27
import AFV.Driver.C28
import AFV.Driver.C29
import AFV.Driver.C30
import AFV.Driver.C31
import AFV.Driver.C32
namespace AFV.Driver
open Lean AFV.Proto

def dispatch (id : String) (req : Json) : Json :=
  match id with
  | "C01" => C01.handle req
  | "C02" => C02.handle req
  | "C03" => C03.handle req
  | "C04" => C04.handle req
  | "C05" => C05.handle req
  | "C06" => C06.handle req
  | "C07" => C07.handle req
  | "C08" => C08.handle req
  | "C09" => C09.handle req
  | "C10" => C10.handle req
  | "C11" => C11.handle req
  | "C12" => C12.handle req
  | "C13" => C13.handle req
  | "C14" => C14.handle req
  | "C15" => C15.handle req
  | "C16" => C16.handle req
  | "C17" => C17.handle req
  | "C18" => C18.handle req
  | "C19" => C19.handle req
  | "C20" => C20.handle req
  | "C21" => C21.handle req
  | "C22" => C22.handle req
  | "C23" => C23.handle req
  | "C24" => C24.handle req
  | "C25" => C25.handle req
  | "C26" => C26.handle req
  | "C27" => C27.handle req
  | "C28" => C28.handle req
  | "C29" => C29.handle req
  | "C30" => C30.handle req
  | "C31" => C31.handle req
  | "C32" => C32.handle req
  | _ => err "unknown-property"

/-- One request line → one reply line. -/
def stepLine (line : String) : String :=
  let line := line.trimAscii.toString
  match line.splitOn " " with
  | [] => (err "empty").compress
  | id :: rest =>
    let body := " ".intercalate rest
    match Json.parse body with
    | .ok j => (dispatch id j).compress
    | .error e => (err ("bad-json: " ++ e)).compress

end AFV.Driver
