import AFV.Driver.Proto
import AFV.Model.ArchTree
namespace AFV.Driver.C27
open Lean AFV.Proto AFV.ArchTree

def optInt? (j : Json) : Option (Option Int) :=
  match j with
  | .null => some none
  | _ => (getInt? j).map some

def val? (j : Json) : Option Val :=
  match j with
  | .str "inf" => some .inf
  | .str "-inf" => some .ninf
  | .str "nan" => some .nan
  | _ => (getInt? j).map .fin

def optVal? (j : Json) : Option (Option Val) :=
  match j with
  | .null => some none
  | _ => (val? j).map some

def parseAction (j : Json) : Option Action := do
  let name ← (field? j "name").bind getStr?
  let energy ← (field? j "energy").bind optInt?
  let es ← (field? j "energy_scale").bind getInt?
  let thr ← (field? j "throughput").bind optVal?
  let ts ← (field? j "throughput_scale").bind getInt?
  pure ⟨name, energy, es, thr, ts⟩

def parseComp (j : Json) : Option Comp := do
  let name ← (field? j "name").bind getStr?
  let dummy ← (field? j "dummy").bind getBool?
  let area ← (field? j "area").bind optInt?
  let areaScale ← (field? j "area_scale").bind getInt?
  let leak ← (field? j "leak").bind optInt?
  let leakScale ← (field? j "leak_scale").bind getInt?
  let energyScale ← (field? j "energy_scale").bind getInt?
  let thrScale ← (field? j "throughput_scale").bind getInt?
  let nPar ← (field? j "n_parallel").bind getInt?
  let acts ← (field? j "actions").bind getArr?
  let actions ← acts.toList.mapM parseAction
  pure ⟨name, dummy, area, areaScale, leak, leakScale, energyScale, thrScale, nPar, actions⟩

def parseFlags (j : Json) : Option Flags := do
  let a ← getArr? j
  if a.size != 4 then none else
  let l ← a.toList.mapM getBool?
  match l with
  | [x, y, z, w] => pure ⟨x, y, z, w⟩
  | _ => none

def optIntJson : Option Int → Json
  | none => Json.null
  | some i => ofInt i

def valJson : Val → Json
  | .fin v => ofInt v
  | .inf => Json.str "inf"
  | .ninf => Json.str "-inf"
  | .nan => Json.str "nan"

def optValJson : Option Val → Json
  | none => Json.null
  | some v => valJson v

def obsJson (o : Obs) : Json :=
  Json.arr #[Json.str o.name, optIntJson o.area, optIntJson o.leak,
    Json.arr (o.actions.map fun (n, e, t) => Json.arr #[Json.str n, optIntJson e, optValJson t]).toArray]

def historyJson (v : Variant) (h : List Flags) (s : List CState) : Json :=
  Json.arr ((runHistory v h s).map fun st => Json.arr ((observe st).map obsJson).toArray).toArray

/-- The model covers components whose every cost is given or which are dummies (no external component model),
with distinct component names and distinct action names per component. -/
def inScope (cs : List Comp) : Bool :=
  cs.all (fun c => c.costable && !hasDup (c.actions.map (·.name))) && !hasDup (cs.map (·.name))

/-- ops:
  {"op":"history","comps":[comp…],"history":[[area,energy,throughput,leak]…]} →
     {"in_scope":bool,"current":[obs after call 1, …],"fixed":[…]}    obs = [[name,area,leak,[[action,energy,throughput]…]]…] -/
def handle (req : Json) : Json :=
  match (field? req "op").bind getStr? with
  | some "history" =>
    match (field? req "comps").bind getArr?, (field? req "history").bind getArr? with
    | some cs, some hs =>
      match cs.toList.mapM parseComp, hs.toList.mapM parseFlags with
      | some comps, some h =>
        let s := comps.map CState.init
        Json.mkObj [
          ("in_scope", Json.bool (inScope comps)),
          ("current", historyJson .current h s),
          ("fixed", historyJson .fixed h s)]
      | _, _ => err "malformed"
    | _, _ => err "malformed"
  | _ => err "bad-op"

end AFV.Driver.C27
