import AFV.Driver.Proto
namespace AFV.Driver.C13
open Lean AFV.Proto

/-- Handler for property C13 requests (stub: not implemented yet). -/
def handle (_req : Json) : Json := err "unimplemented"

end AFV.Driver.C13
