import AFV.Driver.Proto
import AFV.Spec.Front
/-!
Driver ops for C13 / C14 (join = exhaustive combination; accelerations never change the result).

The harness enumerates every combination of one pmapping row per Einsum, joins each combination *alone* with the real code
(singleton join: no pruning decision) and sends the resulting vectors (requested objectives, plus final reservation columns when
RESOURCE_USAGE is requested) as exact scaled integers. This file is the judge:

  {"op":"front","rows":[[ints],…]}
        → canonical Pareto front (all-pairs definition): rows not strictly dominated, sorted lexicographically, no duplicates
  {"op":"check","all":[[ints],…],"got":[[ints],…],"ppm":p}
        → {"front":[…], "missing":[i,…], "unachievable":[j,…], "dominated":[[j,k],…]}
          front        = exact front of `all`
          missing      = indices i into front such that no returned row is ≤ front[i] within tolerance in every coordinate
          unachievable = indices j into got whose row is not within tolerance of any row of `all`
          dominated    = pairs (j,k): every combination whose value got[j] carries (within tolerance) is dominated exactly
                         (≤ everywhere) by a combination that is smaller by more than the tolerance somewhere; all[k] is
                         such a dominating row for the first match
        `ppm` is the relative tolerance in parts per million (float32 accumulation order in the joiner), one scaled unit absolute.

Vectors of different lengths are malformed input (the harness aligns columns before sending).
-/
namespace AFV.Driver.C13
open Lean AFV.Proto

/-! `front` is `AFV.Front.frontFast` (proved equal to the all-pairs definition `AFV.Front.front` in `Lemmas/Front.lean`);
`leqAll` is the coordinatewise order of the same file. -/
abbrev Vec := AFV.Front.Vec
abbrev leqAll : Vec → Vec → Bool := AFV.Front.leqAll
abbrev front (rows : List Vec) : List Vec := AFV.Front.frontFast rows

/-- slack allowed between two coordinates: ppm · max(|a|,|b|) / 10^6 + 1, kept as a numerator over 10^6 -/
def slackNum (ppm : Nat) (a b : Int) : Int := (ppm : Int) * (max a.natAbs b.natAbs : Nat) + 1000000

/-- `a ≤ b` up to the tolerance -/
def leTol (ppm : Nat) (a b : Int) : Bool := decide ((a - b) * 1000000 ≤ slackNum ppm a b)

/-- `a < b` by more than the tolerance -/
def ltClear (ppm : Nat) (a b : Int) : Bool := decide ((b - a) * 1000000 > slackNum ppm a b)

def leqTolAll (ppm : Nat) : Vec → Vec → Bool
  | [], [] => true
  | a :: as, b :: bs => leTol ppm a b && leqTolAll ppm as bs
  | _, _ => false

def anyClear (ppm : Nat) : Vec → Vec → Bool
  | a :: as, b :: bs => ltClear ppm a b || anyClear ppm as bs
  | _, _ => false

def nearAll (ppm : Nat) (a b : Vec) : Bool := leqTolAll ppm a b && leqTolAll ppm b a

def indicesWhere {α : Type} (p : α → Bool) (l : List α) : List Nat :=
  (l.zipIdx.filter (fun x => p x.1)).map (·.2)

def missing (ppm : Nat) (fr got : List Vec) : List Nat :=
  indicesWhere (fun v => !(got.any (fun g => leqTolAll ppm g v))) fr

def unachievable (ppm : Nat) (all got : List Vec) : List Nat :=
  indicesWhere (fun g => !(all.any (fun u => nearAll ppm u g))) got

/-- Exact domination by a row that is better beyond the tolerance somewhere: `u ≤ g` in every coordinate (exactly, on the
oracle's values) and smaller by more than the tolerance in at least one. -/
def domClear (ppm : Nat) (u g : Vec) : Bool := leqAll u g && anyClear ppm u g

/-- A returned row is reported as dominated when EVERY combination whose value it carries (within tolerance) is dominated,
exactly, by a combination that is better beyond the tolerance in some coordinate.  Deciding on the oracle's exact values keeps a
row that is better by a hair (less than the tolerance, but really better) from being reported. -/
def dominated (ppm : Nat) (all got : List Vec) : List (Nat × Nat) :=
  got.zipIdx.filterMap (fun x =>
    let near := all.filter (fun u => nearAll ppm u x.1)
    match near with
    | [] => none
    | g0 :: _ =>
      if near.all (fun gs => all.any (fun u => domClear ppm u gs)) then
        match all.findIdx? (fun u => domClear ppm u g0) with
        | some k => some (x.2, k)
        | none => none
      else none)

private def rows? (j : Json) : Option (List Vec) := do
  let a ← getArr? j
  a.toList.mapM intList?

private def sameLen (rows : List Vec) : Bool :=
  match rows with
  | [] => true
  | r :: rs => rs.all (fun s => s.length == r.length)

private def ofRows (rows : List Vec) : Json := Json.arr (rows.map ofIntList).toArray

def handle (req : Json) : Json :=
  match (field? req "op").bind getStr? with
  | some "front" =>
    match (field? req "rows").bind rows? with
    | some rows => if sameLen rows then ofRows (front rows) else err "malformed"
    | none => err "malformed"
  | some "check" =>
    match (field? req "all").bind rows?, (field? req "got").bind rows?, (field? req "ppm").bind getNat? with
    | some all, some got, some ppm =>
      if !sameLen (all ++ got) then err "malformed" else
      let fr := front all
      Json.mkObj [
        ("front", ofRows fr),
        ("missing", ofNatList (missing ppm fr got)),
        ("unachievable", ofNatList (unachievable ppm all got)),
        ("dominated", Json.arr ((dominated ppm all got).map (fun p => ofNatList [p.1, p.2])).toArray)]
    | _, _, _ => err "malformed"
  | _ => err "bad-op"

end AFV.Driver.C13
