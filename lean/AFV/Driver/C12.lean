import AFV.Driver.Proto
import AFV.Driver.C11
import AFV.Model.ParetoTable
import AFV.Spec.ParetoTable
import AFV.Spec.ParetoHyp
namespace AFV.Driver.C12
open Lean AFV.Proto AFV.Pareto AFV.Driver.C11

def kindStr : Kind → String
  | .objective => "objective"
  | .reservation => "reservation"
  | .split => "split"
  | .ignored => "ignored"

structure InCol where
  name : String
  vals : List EV
  objR : Option (List EV)
  resR : Option (List EV)

def inCol? (j : Json) : Option InCol := do
  let name ← (field? j "name").bind getStr?
  let vals ← (field? j "vals").bind row?
  let objR := (field? j "obj_rounded").bind row?
  let resR := (field? j "res_rounded").bind row?
  pure ⟨name, vals, objR, resR⟩

def tolCol? (j : Json) : Option TolCol := do
  let g ← ((field? j "goal").bind getStr?).bind parseGoal
  let vals ← (field? j "vals").bind row?
  let num ← (field? j "num").bind getNat?
  let den ← (field? j "den").bind getNat?
  let abs ← (field? j "abs").bind getInt?
  pure ⟨g, vals, num, den, abs⟩

/-- rounding given as a table: the harness calls the real `logscale_to_tolerance` / `multi_round` on every
column and sends the result along; unknown columns are left unchanged. -/
def lookupRound (tbl : List (List EV × List EV)) (c : List EV) : List EV :=
  match tbl.find? (fun p => p.1 == c) with
  | some p => p.2
  | none => c

/-- ops:
  {"op":"table","scale":S,"n":n,"split_by":[name…],"cols":[{"name":s,"vals":[v…],"obj_rounded":[v…]?,"res_rounded":[v…]?}…]}
     → {"model":[b…]|"ValueError","spec":[b…]|null,"kinds":[k…]|null,"active_goals":[g…],"H":{cast,sweep,key}}
     spec = zero-tolerance specification on the classified columns of the ORIGINAL values;
     model = makeparetoMask with the rounding tables sent along (identity when absent)
  {"op":"tolcheck","n":n,"cols":[{"goal":g,"vals":[v…],"num":a,"den":b,"abs":A}…],"mask":[b…]}
     → {"violation": i|null} -/
def handle (req : Json) : Json :=
  match (field? req "op").bind getStr? with
  | some "table" =>
    match (field? req "scale").bind getNat?, (field? req "n").bind getNat?,
          (field? req "split_by").bind strList?, (field? req "cols").bind getArr? with
    | some S, some n, some splitBy, some arr =>
      match arr.toList.mapM inCol? with
      | none => err "malformed"
      | some cols =>
        if cols.any (fun c => c.vals.length != n) then err "malformed" else
        let rp := field? req "repairs"
        let cfg := stdCfg S (((rp.bind (field? · "wide")).bind getBool?).getD false)
          (((rp.bind (field? · "sweep_first")).bind getBool?).getD false)
        let tab : List TCol := cols.map fun c => ⟨c.name, c.vals⟩
        let r : Rounding :=
          ⟨lookupRound (cols.filterMap fun c => c.objR.map fun x => (c.vals, x)),
           lookupRound (cols.filterMap fun c => c.resR.map fun x => (c.vals, x))⟩
        match classified splitBy tab with
        | none => Json.mkObj [("model", Json.str "ValueError"), ("spec", Json.null), ("kinds", Json.null),
                              ("active_goals", Json.arr #[]), ("H", Json.null),
                              ("model_agrees", Json.bool ((makeparetoMask cfg r splitBy n tab).isNone))]
        | some cl =>
          let act := activeCols r n cl
          let gs := act.map (·.1)
          let data := rowsOf (act.map (·.2)) n
          let goalStr : Goal → String := fun g => match g with
            | .min => "min" | .max => "max" | .diff => "diff"
            | .minPPF => "min_per_prime_factor" | .maxPPF => "max_per_prime_factor"
          Json.mkObj [("model", match makeparetoMask cfg r splitBy n tab with
                                | some m => ofBoolList m
                                | none => Json.str "ValueError"),
                      ("spec", ofBoolList (tableSpec cfg.one (specCols Rounding.id cl) n)),
                      ("spec_rounded", ofBoolList (tableSpec cfg.one (specCols r cl) n)),
                      ("kinds", ofStrList (cl.map fun kc => kindStr kc.1)),
                      ("active_goals", ofStrList (gs.map goalStr)),
                      ("H", Json.mkObj [("cast", Json.bool (Hcast cfg gs data)),
                                        ("sweep", Json.bool (Hsweep cfg gs data)),
                                        ("key", Json.bool (Hkey cfg gs data))]),
                      ("key_exact", Json.bool (keyExact cfg gs data))]
    | _, _, _, _ => err "malformed"
  | some "tolcheck" =>
    match (field? req "n").bind getNat?, (field? req "cols").bind getArr?,
          (field? req "mask").bind getArr? with
    | some n, some arr, some m =>
      match arr.toList.mapM tolCol?, m.toList.mapM getBool? with
      | some cols, some mask =>
        if mask.length != n || cols.any (fun c => c.vals.length != n) then err "malformed" else
        match tolViolation cols n mask with
        | some i => Json.mkObj [("violation", ofNat i)]
        | none => Json.mkObj [("violation", Json.null)]
      | _, _ => err "malformed"
    | _, _, _ => err "malformed"
  | _ => err "bad-op"

end AFV.Driver.C12
