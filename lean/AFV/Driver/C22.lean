import AFV.Driver.SetsCommon
namespace AFV.Driver.C22
open Lean AFV.Proto

/-- C22 requests: see `AFV.Driver.SetsCommon` (op "case"). -/
def handle (req : Json) : Json := SetsCommon.handle req

end AFV.Driver.C22
