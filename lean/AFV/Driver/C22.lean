import AFV.Driver.Proto
namespace AFV.Driver.C22
open Lean AFV.Proto

/-- Handler for property C22 requests (stub: not implemented yet). -/
def handle (_req : Json) : Json := err "unimplemented"

end AFV.Driver.C22
