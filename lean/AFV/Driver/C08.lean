import AFV.Driver.Proto
import AFV.Model.TilePrune
namespace AFV.Driver.C08
open Lean AFV.Proto AFV.TilePrune

def goal? : String → Option Goal
  | "none" => some .none
  | "min" => some .min
  | "max" => some .max
  | "min_per_prime_factor" => some .minPpf
  | "max_per_prime_factor" => some .maxPpf
  | "diff" => some .diff
  | _ => Option.none

def goalS : Goal → String
  | .none => "none"
  | .min => "min"
  | .max => "max"
  | .minPpf => "min_per_prime_factor"
  | .maxPpf => "max_per_prime_factor"
  | .diff => "diff"

def sense? : String → Option Sense
  | "min" => some .min
  | "diff" => some .diff
  | _ => Option.none

/-- ops:
  {"op":"front","senses":["min"|"diff",…],"rows":[[int,…],…]}   → [indices of non-dominated rows]
  {"op":"cover","senses":[…],"cands":[[…]],"rows":[[…]]}          → [indices of rows no candidate weakly dominates]
  {"op":"or","a":goal,"b":goal}                                   → goal
  {"op":"inv","a":goal}                                           → goal | null -/
def handle (req : Json) : Json :=
  match (field? req "op").bind getStr? with
  | some "front" =>
    match (field? req "senses").bind strList?, (field? req "rows").bind getArr? with
    | some ss, some rows =>
      match ss.mapM sense?, rows.toList.mapM intList? with
      | some ss, some rows =>
        if rows.all (fun r => r.length == ss.length) then ofNatList (frontIdx ss rows) else err "malformed"
      | _, _ => err "malformed"
    | _, _ => err "malformed"
  | some "cover" =>
    match (field? req "senses").bind strList?, (field? req "cands").bind getArr?, (field? req "rows").bind getArr? with
    | some ss, some cands, some rows =>
      match ss.mapM sense?, cands.toList.mapM intList?, rows.toList.mapM intList? with
      | some ss, some cands, some rows =>
        if (cands ++ rows).all (fun r => r.length == ss.length) then ofNatList (uncovered ss cands rows) else err "malformed"
      | _, _, _ => err "malformed"
    | _, _, _ => err "malformed"
  | some "or" =>
    match ((field? req "a").bind getStr?).bind goal?, ((field? req "b").bind getStr?).bind goal? with
    | some a, some b => Json.str (goalS (a.or b))
    | _, _ => err "malformed"
  | some "inv" =>
    match ((field? req "a").bind getStr?).bind goal? with
    | some a => (match a.inv with | some g => Json.str (goalS g) | Option.none => Json.null)
    | Option.none => err "malformed"
  | _ => err "bad-op"

end AFV.Driver.C08
