import AFV.Driver.Proto
import AFV.Model.Topo
import AFV.Spec.Topo
namespace AFV.Driver.C21
open Lean AFV.Proto AFV.Topo

/-!
Line protocol for C21.  Names are strings.

* expression  = JSON array of postfix tokens: integer → constant, `"+" "-" "*"` binary, `"~"` unary minus,
                any other string → identifier.  (`["a", 1, "+"]` is `a + 1`.)
* definition  = `[name, expr]`
* field       = `[name, "plain"] | [name, "nested"] | [name, "opaque"] | [name, "expr", expr]`
* component   = `{"attrs": [definition…], "pre": [name…], "fields": [field…]}`

ops
* `{"op":"eval","spec":[def…],"arch":[def…],"comps":[component…]}`
    → `{"ok":{"spec":[[name,val]…],"arch":[…],"comps":[{"attrs":[…],"own":[…]}…]}}` (defined names, sorted by name)
    | `{"error":"cycle","fields":[…]}` | `{"error":"undefined","field":name}`
* `{"op":"judge", …same…, "vals":{"spec":[[name,val]…],"arch":[…],"comps":[{"attrs":[…],"own":[…]}…]}}`
    → `{"spec":b,"arch":b,"comps":[[b,b]…]}`   does each scope of the given values satisfy the defining equations
      (`semHolds`) relative to the enclosing scopes' given values?
* `{"op":"order","pre":[name…],"fields":[field…]}` → `{"ok":[name…]}` | `{"error":[name…]}`
* `{"op":"validorder","pre":[…],"fields":[…],"out":[…]}` → `{"valid":b,"cyclic":b}` (`cyclic` = the model's order fails)
-/

abbrev N := String

private def leS (a b : N) : Bool := !(decide (b < a))

/-- postfix tokens → expression -/
private def parseExpr (j : Json) : Option (Expr N) := do
  let toks ← getArr? j
  let step (st : Option (List (Expr N))) (tok : Json) : Option (List (Expr N)) := do
    let stack ← st
    match tok with
    | .num _ => do
      let n ← getInt? tok
      pure (Expr.num n :: stack)
    | .str "+" => match stack with
      | b :: a :: r => some (Expr.add a b :: r)
      | _ => none
    | .str "-" => match stack with
      | b :: a :: r => some (Expr.sub a b :: r)
      | _ => none
    | .str "*" => match stack with
      | b :: a :: r => some (Expr.mul a b :: r)
      | _ => none
    | .str "~" => match stack with
      | a :: r => some (Expr.neg a :: r)
      | _ => none
    | .str x => if x.isEmpty then none else some (Expr.var x :: stack)
    | _ => none
  match toks.foldl step (some []) with
  | some [e] => some e
  | _ => none

private def parseDef (j : Json) : Option (Def N) := do
  let a ← getArr? j
  if a.size != 2 then none else
  let n ← getStr? a[0]!
  let e ← parseExpr a[1]!
  pure ⟨n, e⟩

private def parseDefs (j : Json) : Option (List (Def N)) := do
  let a ← getArr? j
  a.toList.mapM parseDef

private def parseField (j : Json) : Option (Field N) := do
  let a ← getArr? j
  if a.size < 2 then none else
  let n ← getStr? a[0]!
  let k ← getStr? a[1]!
  match k, a.size with
  | "plain", 2 => some ⟨n, .plain⟩
  | "nested", 2 => some ⟨n, .nested⟩
  | "opaque", 2 => some ⟨n, .opaque⟩
  | "expr", 3 => do
    let e ← parseExpr a[2]!
    pure ⟨n, .expr e⟩
  | _, _ => none

private def parseFields (j : Json) : Option (List (Field N)) := do
  let a ← getArr? j
  a.toList.mapM parseField

private def parseComp (j : Json) : Option (Comp N) := do
  let attrs ← (field? j "attrs").bind parseDefs
  let pre ← (field? j "pre").bind strList?
  let fields ← (field? j "fields").bind parseFields
  pure ⟨attrs, pre, fields⟩

private def parseSpec (j : Json) : Option (Spec3 N) := do
  let sv ← (field? j "spec").bind parseDefs
  let av ← (field? j "arch").bind parseDefs
  let ca ← (field? j "comps").bind getArr?
  let cs ← ca.toList.mapM parseComp
  pure ⟨sv, av, cs⟩

private def distinct (l : List N) : Bool := l.eraseDups.length == l.length

/-- the well-formedness the theorems assume (`SpecWF`), decided -/
private def specWF (s : Spec3 N) : Bool :=
  distinct (s.specVars.map (·.name)) && distinct (s.archVars.map (·.name)) &&
  s.comps.all (fun c => distinct (c.attrs.map (·.name)) && distinct (c.fields.map (·.name)) &&
    c.fields.all (fun f => !(c.pre.contains f.name) || f.expr?.isNone))

private def sortedNames (l : List N) : List N := sortBy leS l

private def valsOf (t : Table N) (ns : List N) : Json :=
  Json.arr ((sortedNames ns).map (fun n =>
    Json.arr #[Json.str n, match t.get n with | some v => ofInt v | none => Json.null])).toArray

private def exprNames (fs : List (Field N)) : List N := (fs.filter (fun f => f.expr?.isSome)).map (·.name)

private def errJson : Err N → Json
  | .cycle stuck => Json.mkObj [("error", Json.str "cycle"), ("fields", ofStrList stuck)]
  | .undefined x => Json.mkObj [("error", Json.str "undefined"), ("field", Json.str x)]

private def parseVals (j : Json) : Option (Table N) := do
  let a ← getArr? j
  a.toList.mapM (fun p => do
    let q ← getArr? p
    if q.size != 2 then none else
    let n ← getStr? q[0]!
    let v ← getInt? q[1]!
    pure (n, v))

def handle (req : Json) : Json :=
  match (field? req "op").bind getStr? with
  | some "eval" =>
    match parseSpec req with
    | none => err "malformed"
    | some s =>
      if !specWF s then err "not-wellformed" else
      match evalAll leS s with
      | .error e => errJson e
      | .ok o =>
        let comps := (s.comps.zip o.comps).map (fun (c, co) =>
          Json.mkObj [("attrs", valsOf co.attrs (c.attrs.map (·.name))),
                      ("own", valsOf co.own (exprNames c.fields))])
        Json.mkObj [("ok", Json.mkObj [
          ("spec", valsOf o.spec (s.specVars.map (·.name))),
          ("arch", valsOf o.arch (s.archVars.map (·.name))),
          ("comps", Json.arr comps.toArray)])]
  | some "judge" =>
    match parseSpec req, field? req "vals" with
    | some s, some vals =>
      if !specWF s then err "not-wellformed" else
      match (field? vals "spec").bind parseVals, (field? vals "arch").bind parseVals,
            (field? vals "comps").bind getArr? with
      | some vs, some va, some vc =>
        let cvals := vc.toList.mapM (fun j => do
          let a ← (field? j "attrs").bind parseVals
          let o ← (field? j "own").bind parseVals
          pure (a, o))
        match cvals with
        | none => err "malformed"
        | some cvals =>
          if cvals.length != s.comps.length then err "malformed" else
          let t1 : Table N := vs
          let t2 : Table N := va ++ t1
          let bs := (s.comps.zip cvals).map (fun (c, (a, o)) =>
            let t3 : Table N := a ++ t2
            let t4 : Table N := o ++ t3
            Json.arr #[Json.bool (semHolds t2.get (defFields c.attrs) t3.get),
                       Json.bool (semHolds t3.get c.fields t4.get)])
          Json.mkObj [("spec", Json.bool (semHolds (fun _ => none) (defFields s.specVars) t1.get)),
                      ("arch", Json.bool (semHolds t1.get (defFields s.archVars) t2.get)),
                      ("comps", Json.arr bs.toArray)]
      | _, _, _ => err "malformed"
    | _, _ => err "malformed"
  | some "order" =>
    match (field? req "pre").bind strList?, (field? req "fields").bind parseFields with
    | some pre, some fields =>
      if !distinct (fields.map (·.name)) then err "not-wellformed" else
      match order pre fields with
      | .ok out => Json.mkObj [("ok", ofStrList out)]
      | .error stuck => Json.mkObj [("error", ofStrList stuck)]
    | _, _ => err "malformed"
  | some "validorder" =>
    match (field? req "pre").bind strList?, (field? req "fields").bind parseFields, (field? req "out").bind strList? with
    | some pre, some fields, some out =>
      if !distinct (fields.map (·.name)) then err "not-wellformed" else
      let cyc := match order pre fields with
        | .ok _ => false
        | .error _ => true
      Json.mkObj [("valid", Json.bool (validOrder pre fields out)), ("cyclic", Json.bool cyc)]
    | _, _, _ => err "malformed"
  | _ => err "bad-op"

end AFV.Driver.C21
