import AFV.Driver.Proto
namespace AFV.Driver.C30
open Lean AFV.Proto

/-- Handler for property C30 requests (stub: not implemented yet). -/
def handle (_req : Json) : Json := err "unimplemented"

end AFV.Driver.C30
