import AFV.Driver.Proto
import AFV.Driver.LExprJson
import AFV.Model.Network
import AFV.Spec.Routes
namespace AFV.Driver.C30
open Lean AFV AFV.Proto AFV.LExpr AFV.Network AFV.Routes

private def topo? : String → Option Topology
  | "mesh" => some .mesh
  | "all_to_all" => some .allToAll
  | _ => none

private def rel? : String → Option Relevancy
  | "irrelevant" => some .irrelevant
  | "relevant" => some .relevant
  | "partially_relevant" => some .partiallyRelevant
  | _ => none

private def perLoopFields (p : PerLoop) : List (String × LExpr) :=
  [("total_cost", p.total), ("max_hops", p.maxHops), ("max_traffic", p.maxTraffic)]

/-- Route enumeration for one (topology, loop kind, n, s): total number of hop-traversals, the
per-link loads (computed once) and the longest route; then priced per volume. -/
private def enumerate (t : Topology) (rel : Relevancy) (n s : Nat) : Option (Nat × List Nat × Nat) :=
  match t, rel with
  | .mesh, .relevant =>
    let tr := meshUnicastTraversals n s
    some (tr.length, linkLoads tr, meshLongestRoute n s)
  | .mesh, .irrelevant =>
    let tr := meshMulticastTraversals n s
    some (tr.length, linkLoads tr, meshLongestRoute n s)
  | .allToAll, .relevant =>
    some ((a2aHops n).length, linkLoads (a2aUnicastTraversals n), a2aLongestRoute n)
  | .allToAll, .irrelevant =>
    some ((a2aHops n).length, linkLoads (a2aMulticastTraversals n), a2aLongestRoute n)
  | _, .partiallyRelevant => none

/-- ops:
  {"op":"routes","topo":"mesh"|"all_to_all","rel":"relevant"|"irrelevant","n":N,"s":S,"vols":[[p,q],…]}
      → {"spec":[[total,maxlink],…],"longest":L,"model":[[total_cost,max_hops,max_traffic],…],"branch":"…"}
        spec = route enumeration (AFV.Routes), model = AFV.Network formulas evaluated at (n,s,v)
  {"op":"model", same fields as "routes"}                   → {"model":[[total_cost,max_hops,max_traffic],…]|null}
        the model's closed forms only (for fanouts where enumeration would be too long)
  {"op":"eval","expr":E,"point":[[p,q],…]}                 → [p,q]
  {"op":"equiv","a":E,"b":E}                               → bool   (native run of LExpr.equiv)
  {"op":"equiv_model","topo":…,"rel":…,"field":"total_cost"|"max_hops"|"max_traffic","gen":E,"args":[En,Es,Ev]}
                                                            → bool   (gen ≡ model field on these arguments)
  {"op":"accumulate","calls":[[net,[p,q]],…]}              → {"returns":[[p,q],…],"state":[[net,[p,q]],…]} -/
def handle (req : Json) : Json :=
  match (field? req "op").bind getStr? with
  | some "routes" =>
    match (field? req "topo").bind getStr? |>.bind topo?, (field? req "rel").bind getStr? |>.bind rel?,
          (field? req "n").bind getNat?, (field? req "s").bind getNat?, (field? req "vols").bind ratList? with
    | some t, some rel, some n, some s, some vols =>
      match enumerate t rel n s with
      | none => Json.mkObj [("spec", Json.null), ("model", Json.null), ("branch", Json.str "not-implemented")]
      | some (hops, loads, longest) =>
        let spec := vols.map fun v =>
          Json.arr #[ratToJson ((hops : Nat) * v), ratToJson (maxTraffic loads v)]
        let model := vols.map fun v =>
          match perLoop t rel (.sym 0) (.sym 1) (.sym 2) with
          | some p =>
            let ρ := assign [(n : Rat), (s : Rat), v]
            Json.arr ((perLoopFields p).map fun f => ratToJson (eval ρ f.2)).toArray
          | none => Json.null
        let branch := (if t == .mesh then "mesh" else "a2a") ++ (if rel == .relevant then "-unicast" else "-multicast")
          ++ (if n ≤ 1 then "-single" else "")
        Json.mkObj [("spec", Json.arr spec.toArray), ("longest", ofNat longest),
                    ("model", Json.arr model.toArray), ("branch", Json.str branch)]
    | _, _, _, _, _ => err "malformed"
  | some "model" =>
    match (field? req "topo").bind getStr? |>.bind topo?, (field? req "rel").bind getStr? |>.bind rel?,
          (field? req "n").bind getNat?, (field? req "s").bind getNat?, (field? req "vols").bind ratList? with
    | some t, some rel, some n, some s, some vols =>
      match perLoop t rel (.sym 0) (.sym 1) (.sym 2) with
      | none => Json.mkObj [("model", Json.null)]
      | some p =>
        Json.mkObj [("model", Json.arr (vols.map fun v =>
          let ρ := assign [(n : Rat), (s : Rat), v]
          Json.arr ((perLoopFields p).map fun f => ratToJson (eval ρ f.2)).toArray).toArray)]
    | _, _, _, _, _ => err "malformed"
  | some "eval" =>
    match (field? req "expr").bind lexprOfJson?, (field? req "point").bind ratList? with
    | some e, some pt => ratToJson (eval (assign pt) e)
    | _, _ => err "malformed"
  | some "equiv" =>
    match (field? req "a").bind lexprOfJson?, (field? req "b").bind lexprOfJson? with
    | some a, some b => Json.bool (equiv a b)
    | _, _ => err "malformed"
  | some "equiv_model" =>
    match (field? req "topo").bind getStr? |>.bind topo?, (field? req "rel").bind getStr? |>.bind rel?,
          (field? req "field").bind getStr?, (field? req "gen").bind lexprOfJson?,
          (field? req "args").bind getArr? |>.bind (fun a => a.toList.mapM lexprOfJson?) with
    | some t, some rel, some fld, some gen, some [en, es, ev] =>
      match perLoop t rel en es ev with
      | none => err "not-implemented"
      | some p =>
        match (perLoopFields p).find? (fun f => f.1 == fld) with
        | some f => Json.bool (equiv gen f.2)
        | none => err "malformed"
    | _, _, _, _, _ => err "malformed"
  | some "accumulate" =>
    match (field? req "calls").bind getArr? with
    | some arr =>
      let call? (j : Json) : Option (Nat × Rat) := do
        let a ← getArr? j
        if a.size != 2 then none else
        pure (← getNat? a[0]!, ← ratOfJson? a[1]!)
      match arr.toList.mapM call? with
      | some calls =>
        let (st, rets) := accumulateAll [] calls
        let nets := (calls.map (·.1)).eraseDups.mergeSort (· ≤ ·)
        Json.mkObj [("returns", Json.arr (rets.map ratToJson).toArray),
                    ("state", Json.arr (nets.map fun k => Json.arr #[ofNat k, ratToJson (st.get k)]).toArray)]
      | none => err "malformed"
    | none => err "malformed"
  | _ => err "bad-op"

end AFV.Driver.C30
