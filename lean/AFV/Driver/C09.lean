import AFV.Driver.Proto
import AFV.Model.Verdict
import Std.Data.HashMap
namespace AFV.Driver.C09
open Lean AFV.Proto AFV.Expr9 AFV.Verdict

/-! JSON form of `E`:
`["n",num,den] ["s",i] ["+",[..]] ["*",[..]] ["^",b,k] ["max",[..]] ["min",[..]] ["ceil",x] ["floor",x]
 ["H",x] ["dceil",x] ["did",x] ["?",tag,[..]]` -/

partial def toJ : E → Json
  | .num n d => Json.arr #[Json.str "n", ofInt n, ofNat d]
  | .sym i => Json.arr #[Json.str "s", ofNat i]
  | .add xs => Json.arr #[Json.str "+", Json.arr (xs.map toJ).toArray]
  | .mul xs => Json.arr #[Json.str "*", Json.arr (xs.map toJ).toArray]
  | .pow b k => Json.arr #[Json.str "^", toJ b, ofInt k]
  | .max xs => Json.arr #[Json.str "max", Json.arr (xs.map toJ).toArray]
  | .min xs => Json.arr #[Json.str "min", Json.arr (xs.map toJ).toArray]
  | .ceil x => Json.arr #[Json.str "ceil", toJ x]
  | .floor x => Json.arr #[Json.str "floor", toJ x]
  | .heav x => Json.arr #[Json.str "H", toJ x]
  | .dceil x => Json.arr #[Json.str "dceil", toJ x]
  | .did x => Json.arr #[Json.str "did", toJ x]
  | .opq t xs => Json.arr #[Json.str "?", Json.str t, Json.arr (xs.map toJ).toArray]

partial def ofJ (j : Json) : Option E := do
  let a ← getArr? j
  if a.size < 2 then none else
  let tag ← getStr? a[0]!
  let list (j : Json) : Option (List E) := do
    let xs ← getArr? j
    xs.toList.mapM ofJ
  match tag, a.size with
  | "n", 3 => do
    let n ← getInt? a[1]!
    let d ← getNat? a[2]!
    if d = 0 then none else pure (.num n d)
  | "s", 2 => do pure (.sym (← getNat? a[1]!))
  | "+", 2 => do pure (.add (← list a[1]!))
  | "*", 2 => do pure (.mul (← list a[1]!))
  | "^", 3 => do pure (.pow (← ofJ a[1]!) (← getInt? a[2]!))
  | "max", 2 => do pure (.max (← list a[1]!))
  | "min", 2 => do pure (.min (← list a[1]!))
  | "ceil", 2 => do pure (.ceil (← ofJ a[1]!))
  | "floor", 2 => do pure (.floor (← ofJ a[1]!))
  | "H", 2 => do pure (.heav (← ofJ a[1]!))
  | "dceil", 2 => do pure (.dceil (← ofJ a[1]!))
  | "did", 2 => do pure (.did (← ofJ a[1]!))
  | "?", 3 => do pure (.opq (← getStr? a[1]!) (← list a[2]!))
  | _, _ => none

def key (e : E) : String := (toJ e).compress

def ratJ (q : Rat) : Json := Json.arr #[ofInt q.num, ofNat q.den]

def box? (j : Json) : Option Box := do
  let a ← getArr? j
  a.toList.mapM fun p => do
    let l ← intList? p
    match l with
    | [lo, hi] => if lo ≤ hi then pure (lo, hi) else none
    | _ => none

/-! ### oracle tables -/

structure Tables where
  rel : Std.HashMap String (Option Bool) := {}
  range : Std.HashMap String RangeAns := {}
  norm : Std.HashMap String E := {}
  corner : Std.HashMap String (Option Bool) := {}
  doit : Std.HashMap String E := {}
  expand : Std.HashMap String E := {}
  diff : Std.HashMap String E := {}

def relKey (f : E) (ge : Bool) : String := key f ++ (if ge then "|G" else "|L")
def cornerKey (f : E) (lt hi : Bool) : String := key f ++ (if lt then "|lt" else "|gt") ++ (if hi then "|hi" else "|lo")
def symKey (f : E) (s : Nat) : String := key f ++ "|" ++ toString s

def rangeAns? (j : Json) : Option RangeAns := do
  let t ← (field? j "t").bind getStr?
  match t with
  | "fail" => pure .fail
  | "finite" => do
    let l ← (field? j "l").bind getArr?
    pure (.finite (← l.toList.mapM ofJ))
  | "interval" => do
    pure (.interval (← (field? j "lo").bind ofJ) (← (field? j "hi").bind ofJ))
  | _ => none

def addEntry (t : Tables) (j : Json) : Option Tables := do
  let k ← (field? j "k").bind getStr?
  let f ← (field? j "f").bind ofJ
  let a ← field? j "a"
  match k with
  | "rel" => do
    let ge ← (field? j "ge").bind getBool?
    let ans : Option Bool ← (match a with
      | .null => some none
      | .bool b => some (some b)
      | _ => none)
    pure { t with rel := t.rel.insert (relKey f ge) ans }
  | "range" => do
    let s ← (field? j "s").bind getNat?
    pure { t with range := t.range.insert (symKey f s) (← rangeAns? a) }
  | "norm" => do pure { t with norm := t.norm.insert (key f) (← ofJ a) }
  | "corner" => do
    let lt ← (field? j "lt").bind getBool?
    let hi ← (field? j "hi").bind getBool?
    let ans : Option Bool ← (match a with
      | .null => some none
      | .bool b => some (some b)
      | _ => none)
    pure { t with corner := t.corner.insert (cornerKey f lt hi) ans }
  | "doit" => do pure { t with doit := t.doit.insert (key f) (← ofJ a) }
  | "expand" => do pure { t with expand := t.expand.insert (key f) (← ofJ a) }
  | "diff" => do
    let s ← (field? j "s").bind getNat?
    pure { t with diff := t.diff.insert (symKey f s) (← ofJ a) }
  | _ => none

def tables? (j : Json) : Option Tables := do
  let a ← getArr? j
  a.foldlM addEntry {}

def oracleOf (t : Tables) : Oracle where
  rel f ge := t.rel.get? (relKey f ge)
  range f s := t.range.get? (symKey f s)
  norm f := t.norm.get? (key f)
  corner f lt hi := t.corner.get? (cornerKey f lt hi)
  doit f := t.doit.get? (key f)
  expand f := t.expand.get? (key f)
  diff f s := t.diff.get? (symKey f s)

def crJ : CR → Json
  | .geq => Json.str "GEQ"
  | .leq => Json.str "LEQ"
  | .eq => Json.str "EQ"
  | .unknown => Json.str "UNKNOWN"

def cr? : String → Option CR
  | "GEQ" => some .geq
  | "LEQ" => some .leq
  | "EQ" => some .eq
  | "UNKNOWN" => some .unknown
  | _ => none

def queryJ : Query → Json
  | .rel f ge => Json.mkObj [("k", Json.str "rel"), ("f", toJ f), ("ge", Json.bool ge)]
  | .range f s => Json.mkObj [("k", Json.str "range"), ("f", toJ f), ("s", ofNat s)]
  | .norm f => Json.mkObj [("k", Json.str "norm"), ("f", toJ f)]
  | .corner f lt hi => Json.mkObj [("k", Json.str "corner"), ("f", toJ f), ("lt", Json.bool lt), ("hi", Json.bool hi)]
  | .doit f => Json.mkObj [("k", Json.str "doit"), ("f", toJ f)]
  | .expand f => Json.mkObj [("k", Json.str "expand"), ("f", toJ f)]
  | .diff f s => Json.mkObj [("k", Json.str "diff"), ("f", toJ f), ("s", ofNat s)]

def cfg? (req : Json) : Option Cfg :=
  match field? req "cfg" with
  | none => some Cfg.repaired
  | some c => do
    pure ⟨← (field? c "tdnczEarly").bind getBool?, ← (field? c "heavIntCrash").bind getBool?,
          ← (field? c "heavPerAtom").bind getBool?, ← (field? c "relCorner").bind getBool?⟩

def resJ : M CR → Json
  | .ok v => Json.mkObj [("verdict", crJ v)]
  | .error (.need q) => Json.mkObj [("need", queryJ q)]
  | .error (.exc m) => Json.mkObj [("exc", Json.str m)]

/-! ### exhaustive evaluation -/

structure Scan where
  n : Nat := 0
  sum : Rat := 0
  mn : Rat := 0
  mx : Rat := 0
  argmn : List Int := []
  argmx : List Int := []

def scan (f : E) (box : Box) : Scan :=
  (points box).foldl (fun (s : Scan) p =>
    let v := eval (envOf p) f
    if s.n = 0 then { n := 1, sum := v, mn := v, mx := v, argmn := p, argmx := p }
    else { n := s.n + 1, sum := s.sum + v,
           mn := if v < s.mn then v else s.mn, argmn := if v < s.mn then p else s.argmn,
           mx := if s.mx < v then v else s.mx, argmx := if s.mx < v then p else s.argmx }) {}

/-- first adjacent pair along `s` on which `f` increases / decreases -/
def mono (f : E) (box : Box) (s : Nat) : Nat × Option (List Int) × Option (List Int) :=
  match box[s]? with
  | none => (0, none, none)
  | some (_, hi) =>
    (points box).foldl (fun (acc : Nat × Option (List Int) × Option (List Int)) p =>
      if p.getD s 0 < hi then
        let q := p.set s (p.getD s 0 + 1)
        let a := eval (envOf p) f
        let b := eval (envOf q) f
        (acc.1 + 1,
         (if acc.2.1.isNone && a < b then some p else acc.2.1),
         (if acc.2.2.isNone && b < a then some p else acc.2.2))
      else acc) (0, none, none)

def optPt : Option (List Int) → Json
  | none => Json.null
  | some p => ofIntList p

/-- ops:
  {"op":"scan","f":E,"box":[[lo,hi],…]}            → {"n","sum":[p,q],"min":[p,q],"argmin":[…],"max":[p,q],"argmax":[…]}
  {"op":"mono","f":E,"box":…, "s":i}               → {"pairs":n,"inc":pt|null,"dec":pt|null}
  {"op":"eval","f":E,"pt":[…]}                      → [p,q]
  {"op":"verdict","f":E,"box":…,"tdncz":b,"fuel":n,"table":[…],"cfg":{"tdnczEarly":b,"heavIntCrash":b,"heavPerAtom":b,"relCorner":b}?}
                                                    → {"verdict":…} | {"need":query} | {"exc":msg}   (cfg default: repaired)
  {"op":"dverdict","f":E,"box":…,"s":i,"fuel":n,"table":[…]}      → same
  {"op":"or","a":CR,"b":CR}                         → CR
  {"op":"rewrite","f":E}                            → {"strip":E,"hasHeav":b,"h1":E,"h0":E,"choose":i|null}
-/
def handle (req : Json) : Json :=
  match (field? req "op").bind getStr? with
  | some "scan" =>
    match (field? req "f").bind ofJ, (field? req "box").bind box? with
    | some f, some box =>
      let s := scan f box
      Json.mkObj [("n", ofNat s.n), ("sum", ratJ s.sum), ("min", ratJ s.mn), ("argmin", ofIntList s.argmn),
                  ("max", ratJ s.mx), ("argmax", ofIntList s.argmx)]
    | _, _ => err "malformed"
  | some "mono" =>
    match (field? req "f").bind ofJ, (field? req "box").bind box?, (field? req "s").bind getNat? with
    | some f, some box, some s =>
      if box.length ≤ s then err "malformed" else
      let r := mono f box s
      Json.mkObj [("pairs", ofNat r.1), ("inc", optPt r.2.1), ("dec", optPt r.2.2)]
    | _, _, _ => err "malformed"
  | some "eval" =>
    match (field? req "f").bind ofJ, (field? req "pt").bind intList? with
    | some f, some p => ratJ (eval (envOf p) f)
    | _, _ => err "malformed"
  | some "verdict" =>
    match cfg? req, (field? req "f").bind ofJ, (field? req "box").bind box?, (field? req "tdncz").bind getBool?,
          (field? req "fuel").bind getNat?, (field? req "table").bind tables? with
    | some cfg, some f, some box, some td, some fuel, some t => resJ (geqLeqZero cfg (oracleOf t) box fuel f td)
    | _, _, _, _, _, _ => err "malformed"
  | some "dverdict" =>
    match cfg? req, (field? req "f").bind ofJ, (field? req "box").bind box?, (field? req "s").bind getNat?,
          (field? req "fuel").bind getNat?, (field? req "table").bind tables? with
    | some cfg, some f, some box, some s, some fuel, some t => resJ (diffVerdict cfg (oracleOf t) box fuel f s)
    | _, _, _, _, _, _ => err "malformed"
  | some "or" =>
    match ((field? req "a").bind getStr?).bind cr?, ((field? req "b").bind getStr?).bind cr? with
    | some a, some b => crJ (a.or b)
    | _, _ => err "malformed"
  | some "rewrite" =>
    match (field? req "f").bind ofJ with
    | some f =>
      Json.mkObj [("strip", toJ (strip f)), ("hasHeav", Json.bool (hasHeav f)), ("h1", toJ (setHeav 1 f)),
                  ("h0", toJ (setHeav 0 f)),
                  ("choose", match chooseSym f with | some i => ofNat i | none => Json.null)]
    | none => err "malformed"
  | _ => err "bad-op"

end AFV.Driver.C09
