import AFV.Driver.Proto
namespace AFV.Driver.C04
open Lean AFV.Proto

def maxOf (l : List Int) : Int := l.foldl max 0
/-- Σ over groups of the maximum of each group (latency: Σ_einsum max_component; energy: singleton groups). -/
def sumOfMax (gs : List (List Int)) : Int := (gs.map maxOf).foldl (· + ·) 0

def handle (req : Json) : Json :=
  match (field? req "op").bind getStr? with
  | some "sumOfMax" =>
    match (field? req "groups").bind getArr? with
    | some arr =>
      match arr.toList.mapM intList? with
      | some gs => ofInt (sumOfMax gs)
      | none => err "malformed"
    | none => err "malformed"
  | _ => err "bad-op"

end AFV.Driver.C04
