import AFV.Driver.Proto
import AFV.Model.Fuse
namespace AFV.Driver.C04
open Lean AFV.Proto AFV.Fuse

def handle (req : Json) : Json :=
  match (field? req "op").bind getStr? with
  | some "sumOfMax" =>
    match (field? req "groups").bind getArr? with
    | some arr =>
      match arr.toList.mapM intList? with
      | some gs => ofInt (sumOfMax gs)
      | none => err "malformed"
    | none => err "malformed"
  | _ => err "bad-op"

end AFV.Driver.C04
