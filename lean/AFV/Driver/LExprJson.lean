import AFV.Driver.Proto
import AFV.Model.LExpr
/-!
JSON encoding of `LExpr` and exact rationals for the line protocol (shared by every property that
uses the translator).  Written by `harness/translate.py: to_json`.

    ["n", p, q]        num (p/q), q > 0      ["s", i]        sym i
    ["+", [e, …]]      add                   ["*", [e, …]]   mul
    ["^", b, k]        pow b k (k integer)   ["max", [e, …]] ["min", [e, …]] ["ceil", e]

A rational is sent as `[p, q]` (integers, `q > 0`).
-/
namespace AFV.Proto
open Lean AFV

def ratOfJson? (j : Json) : Option Rat := do
  let a ← getArr? j
  if a.size != 2 then none else
  let p ← getInt? a[0]!
  let q ← getNat? a[1]!
  if q == 0 then none else pure (mkRat p q)

def ratToJson (q : Rat) : Json := Json.arr #[ofInt q.num, ofNat q.den]

def ratList? (j : Json) : Option (List Rat) := do
  let a ← getArr? j
  a.toList.mapM ratOfJson?

/-- Parse with a nesting-depth budget (structural recursion on the budget). -/
def lexprOfJsonFuel : Nat → Json → Option LExpr
  | 0, _ => none
  | fuel + 1, j => do
    let a ← getArr? j
    let tag ← getStr? (← a[0]?)
    let many (k : List LExpr → LExpr) : Option LExpr := do
      if a.size != 2 then none else
      let xs ← getArr? a[1]!
      let ys ← xs.toList.mapM (lexprOfJsonFuel fuel)
      pure (k ys)
    match tag with
    | "n" =>
      if a.size != 3 then none else do
      let p ← getInt? a[1]!
      let q ← getNat? a[2]!
      if q == 0 then none else pure (.num (mkRat p q))
    | "s" => if a.size != 2 then none else do pure (.sym (← getNat? a[1]!))
    | "+" => many .add
    | "*" => many .mul
    | "max" => many .max
    | "min" => many .min
    | "^" =>
      if a.size != 3 then none else do
      let b ← lexprOfJsonFuel fuel a[1]!
      let e ← getInt? a[2]!
      pure (.pow b e)
    | "ceil" => if a.size != 2 then none else do pure (.ceil (← lexprOfJsonFuel fuel a[1]!))
    | _ => none

def lexprOfJson? (j : Json) : Option LExpr := lexprOfJsonFuel 4096 j

end AFV.Proto
