import AFV.Driver.Proto
import AFV.Spec.SetAlg
/-!
JSON plumbing shared by the C22 and C29 drivers.

SExpr     : ["n", name] | ["&",a,b] | ["|",a,b] | ["-",a,b] | ["^",a,b] | ["~",a] | ["()",a]
Rename    : {"name", "source": SExpr, "expected_count": null | n}
Einsum    : {"name", "accesses": [{"name","output","persistent","rank_vars":[..]}], "renames":[Rename]}
Workload  : {"einsums":[Einsum], "persistent_tensors": null | SExpr}
Renames   : [{"name","tensor_accesses":[Rename],"rank_variables":[Rename]}]

op "case": {"workload","renames","exprs":[SExpr],"dicts":[[[SExpr,int],…]]}
reply     : {"model": R, "spec": R}   with
  R = {"err": tag} | {"einsums":[{"name","table":[[name,[inst],[full]]…],"persistent":[..],
                                   "effective":[[name,SExpr,count|null]…],
                                   "exprs":[{"ok":[..]}|{"err":tag}], "dicts":[{"ok":[[t,v]…]}|{"err":tag}]}]}
All sets are sorted; tables are sorted by name with shadowed bindings removed.
-/
namespace AFV.Driver.SetsCommon
open Lean AFV.Proto AFV.SetAlg AFV.Renames AFV.SetSpec

/-! ### parsing -/

def parseSExpr (fuel : Nat) (j : Json) : Option SExpr :=
  match fuel with
  | 0 => none
  | fuel + 1 => do
    let a ← getArr? j
    if a.size == 2 then
      let tag ← getStr? a[0]!
      match tag with
      | "n" => do let n ← getStr? a[1]!; pure (.name n)
      | "~" => do let x ← parseSExpr fuel a[1]!; pure (.inv x)
      | "()" => do let x ← parseSExpr fuel a[1]!; pure (.call x)
      | _ => none
    else if a.size == 3 then
      let tag ← getStr? a[0]!
      let x ← parseSExpr fuel a[1]!
      let y ← parseSExpr fuel a[2]!
      match tag with
      | "&" => pure (.and x y)
      | "|" => pure (.or x y)
      | "-" => pure (.sub x y)
      | "^" => pure (.xor x y)
      | _ => none
    else none

def sexpr? (j : Json) : Option SExpr := parseSExpr 64 j

def optNat? (j : Json) : Option (Option Nat) :=
  match j with
  | .null => some none
  | _ => (getNat? j).map some

def rename? (j : Json) : Option Rename := do
  let n ← (field? j "name").bind getStr?
  let s ← (field? j "source").bind sexpr?
  let c ← (field? j "expected_count").bind optNat?
  pure { name := n, source := s, expectedCount := c }

def renameList? (j : Json) : Option (List Rename) := do
  let a ← getArr? j
  a.toList.mapM rename?

def access? (j : Json) : Option Access := do
  let n ← (field? j "name").bind getStr?
  let o ← (field? j "output").bind getBool?
  let p ← (field? j "persistent").bind getBool?
  let r ← (field? j "rank_vars").bind strList?
  pure { name := n, output := o, persistent := p, rankVars := r }

def einsum? (j : Json) : Option Einsum := do
  let n ← (field? j "name").bind getStr?
  let a ← (field? j "accesses").bind getArr?
  let acc ← a.toList.mapM access?
  let r ← (field? j "renames").bind renameList?
  pure { name := n, accesses := acc, renames := r }

def workload? (j : Json) : Option Workload := do
  let a ← (field? j "einsums").bind getArr?
  let es ← a.toList.mapM einsum?
  let pt ← match field? j "persistent_tensors" with
    | some .null => some none
    | some x => (sexpr? x).map some
    | none => none
  pure { einsums := es, persistentTensors := pt }

def einsumRename? (j : Json) : Option EinsumRename := do
  let n ← (field? j "name").bind getStr?
  let t ← (field? j "tensor_accesses").bind renameList?
  let r ← (field? j "rank_variables").bind renameList?
  pure { name := n, tensorAccesses := t, rankVariables := r }

def renames? (j : Json) : Option (List EinsumRename) := do
  let a ← getArr? j
  a.toList.mapM einsumRename?

def dictItem? (j : Json) : Option (SExpr × Int) := do
  let a ← getArr? j
  if a.size != 2 then none else
  let k ← sexpr? a[0]!
  let v ← getInt? a[1]!
  pure (k, v)

def dict? (j : Json) : Option (List (SExpr × Int)) := do
  let a ← getArr? j
  a.toList.mapM dictItem?

/-! ### printing -/

def sortStrs (l : List String) : List String := (l.toArray.qsort (· < ·)).toList

def sortedSet (l : List String) : Json := ofStrList (sortStrs (dedup l))

def sexprJson : SExpr → Json
  | .name n => Json.arr #[Json.str "n", Json.str n]
  | .and a b => Json.arr #[Json.str "&", sexprJson a, sexprJson b]
  | .or a b => Json.arr #[Json.str "|", sexprJson a, sexprJson b]
  | .sub a b => Json.arr #[Json.str "-", sexprJson a, sexprJson b]
  | .xor a b => Json.arr #[Json.str "^", sexprJson a, sexprJson b]
  | .inv a => Json.arr #[Json.str "~", sexprJson a]
  | .call a => Json.arr #[Json.str "()", sexprJson a]

/-- distinct keys (first binding wins), sorted by name -/
def tableJson (t : Table) : Json :=
  let keys := sortStrs (dedup (t.map (·.1)))
  Json.arr (keys.filterMap (fun k => (lookup t k).map (fun s =>
    Json.arr #[Json.str k, sortedSet s.inst, sortedSet s.full]))).toArray

def effectiveJson (l : List Rename) : Json :=
  Json.arr (l.map (fun r => Json.arr #[Json.str r.name, sexprJson r.source,
    match r.expectedCount with | some k => ofNat k | none => Json.null])).toArray

def errJson (e : Err) : Json := Json.mkObj [("err", Json.str e.tag)]

/-- final `{tensor: value}` (last write wins), sorted by tensor -/
def assignJson (es : List Entry) : Json :=
  let keys := sortStrs (dedup ((assign es).map (·.1)))
  Json.arr (keys.filterMap (fun k => (assigned es k).map (fun v =>
    Json.arr #[Json.str k, ofInt v]))).toArray

def pairsJson (l : List (String × Int)) : Json :=
  let keys := sortStrs (dedup (l.map (·.1)))
  Json.arr (keys.filterMap (fun k => (l.find? (fun p => p.1 == k)).map (fun p =>
    Json.arr #[Json.str k, ofInt p.2]))).toArray

/-! ### the two pipelines -/

def modelEinsum (w : Workload) (rs : List EinsumRename) (exprs : List SExpr)
    (dicts : List (List (SExpr × Int))) (e : Einsum) : Except Err Json := do
  let t ← einsumTable w rs e
  let p ← persistentAfterEval w rs e
  let ex := exprs.map (fun x => match evalSetExpression t x (some spaceTensor) none with
    | .ok r => Json.mkObj [("ok", sortedSet r.inst)]
    | .error er => errJson er)
  let ds := dicts.map (fun d => match evalDict t (some spaceTensor) d with
    | .ok es => Json.mkObj [("ok", assignJson es)]
    | .error er => errJson er)
  pure (Json.mkObj [("name", Json.str e.name), ("table", tableJson t), ("persistent", sortedSet p),
    ("effective", effectiveJson (effectiveRenames rs e)),
    ("exprs", Json.arr ex.toArray), ("dicts", Json.arr ds.toArray)])

def specEinsum (w : Workload) (rs : List EinsumRename) (exprs : List SExpr)
    (dicts : List (List (SExpr × Int))) (e : Einsum) : Except Err Json := do
  let t ← specTable w rs e
  let p ← specPersistent w rs e
  let U := e.tensorNames
  let ex := exprs.map (fun x => match specValue t U x with
    | some r => Json.mkObj [("ok", sortedSet r)]
    | none => Json.mkObj [("err", Json.str "undefined-name")])
  let ds := dicts.map (fun d => match specDict t U d with
    | some l => Json.mkObj [("ok", pairsJson l)]
    | none => Json.mkObj [("err", Json.str "rejected")])
  pure (Json.mkObj [("name", Json.str e.name), ("table", tableJson t), ("persistent", sortedSet p),
    ("effective", effectiveJson (effectiveSpec rs e)),
    ("exprs", Json.arr ex.toArray), ("dicts", Json.arr ds.toArray)])

def wrap (r : Except Err (List Json)) : Json :=
  match r with
  | .ok l => Json.mkObj [("einsums", Json.arr l.toArray)]
  | .error e => errJson e

def handleCase (req : Json) : Json :=
  match (field? req "workload").bind workload?, (field? req "renames").bind renames?,
        (field? req "exprs").bind getArr?, (field? req "dicts").bind getArr? with
  | some w, some rs, some xs, some ds =>
    match xs.toList.mapM sexpr?, ds.toList.mapM dict? with
    | some exprs, some dicts =>
      Json.mkObj [
        ("model", wrap (w.einsums.mapM (modelEinsum w rs exprs dicts))),
        ("spec", wrap (w.einsums.mapM (specEinsum w rs exprs dicts)))]
    | _, _ => err "malformed"
  | _, _, _, _ => err "malformed"

def handle (req : Json) : Json :=
  match (field? req "op").bind getStr? with
  | some "case" => handleCase req
  | _ => err "bad-op"

end AFV.Driver.SetsCommon
