import AFV.Driver.SetsCommon
namespace AFV.Driver.C29
open Lean AFV.Proto

/-- C29 requests: see `AFV.Driver.SetsCommon` (op "case"; the reply carries, per Einsum, the
effective rename list and the resolved table for both the model and the specified precedence). -/
def handle (req : Json) : Json := SetsCommon.handle req

end AFV.Driver.C29
