import AFV.Driver.Proto
namespace AFV.Driver.C29
open Lean AFV.Proto

/-- Handler for property C29 requests (stub: not implemented yet). -/
def handle (_req : Json) : Json := err "unimplemented"

end AFV.Driver.C29
