import AFV.Driver.Proto
namespace AFV.Driver.C31
open Lean AFV.Proto

/-- Handler for property C31 requests (stub: not implemented yet). -/
def handle (_req : Json) : Json := err "unimplemented"

end AFV.Driver.C31
