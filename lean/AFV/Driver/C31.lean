import AFV.Driver.Proto
import AFV.Driver.NestJson
import AFV.Model.NestValid
namespace AFV.Driver.C31
open Lean AFV.Proto AFV.Nest AFV.Driver.NestJson

/-- ops:
  {"op":"eval", …}                                        as C05
  {"op":"outermost","fusable":[t,…],"mapping":[node,…]}   → {"error": bool}   (run_model's Toll-outermost ValueError) -/
def handle (req : Json) : Json :=
  match (field? req "op").bind getStr? with
  | some "eval" => evalReply req
  | some "outermost" =>
    match (field? req "fusable").bind natList?, (field? req "mapping").bind mapping? with
    | some f, some m => Json.mkObj [("error", Json.bool (tollOutermost f m))]
    | _, _ => err "malformed"
  | _ => err "bad-op"

end AFV.Driver.C31
