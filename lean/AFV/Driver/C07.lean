import AFV.Driver.Proto
import AFV.Driver.NestJson
import AFV.Driver.LExprJson
import AFV.Model.NestKeys
namespace AFV.Driver.C07
open Lean AFV AFV.Proto AFV.Nest AFV.Driver.NestJson

def tnode? (j : Json) : Option TNode := do
  let a ← getArr? j
  if a.size == 0 then none else
  match getStr? a[0]! with
  | some "S" => if a.size != 4 then none else do pure (.storage (← getNat? a[1]!) (← natList? a[2]!) (← getBool? a[3]!))
  | some "T" => if a.size != 4 then none else do pure (.toll (← getNat? a[1]!) (← natList? a[2]!) (← getBool? a[3]!))
  | some "LC" => if a.size != 3 then none else do pure (.loopC (← getNat? a[1]!) (← getNat? a[2]!))
  | some "LS" => if a.size != 3 then none else do pure (.loopS (← getNat? a[1]!) (← getNat? a[2]!))
  | some "C" => if a.size != 1 then none else pure .compute
  | _ => none

def fkey? (j : Json) : Option FKey := do
  let a ← getArr? j
  if a.size == 0 then none else
  let n (i : Nat) : Option Nat := (a[i]?).bind getNat?
  match getStr? a[0]! with
  | some "actionR" => do pure (.actionR (← n 1) (← n 2))
  | some "actionW" => do pure (.actionW (← n 1) (← n 2))
  | some "computes" => pure .computes
  | some "energyR" => do pure (.energyR (← n 1) (← n 2))
  | some "energyW" => do pure (.energyW (← n 1) (← n 2))
  | some "computeEnergy" => pure .computeEnergy
  | some "leak" => do pure (.leak (← n 1))
  | some "computeLeak" => pure .computeLeak
  | some "latency" => do pure (.latency (← n 1))
  | some "computeLatency" => pure .computeLatency
  | some "totalLatency" => pure .totalLatency
  | some "dynamicEnergy" => pure .dynamicEnergy
  | some "leakEnergy" => pure .leakEnergy
  | some "usage" => do pure (.usage (← n 1) (← n 2))
  | some "reservation" => do pure (.reservation (← n 1) (← n 2))
  | some "memUsage" => do pure (.memUsage (← n 1))
  | _ => none

/-- ops:
  {"op":"eval", …}   as C05 (concrete mapping)
  {"op":"formulas","arch":…,"workload":…,"template":[tnode,…],"formulas":[[key, lexpr],…]}
       → [true|false|null,…]   is the exported formula `LExpr.equiv` to the model's formula? (null: the model has no such entry)
  {"op":"evalpoly","arch":…,"workload":…,"template":…,"point":[[p,q],…],"keys":[key,…]}
       → [[p,q]|null,…]        values of the model's symbolic formulas at an assignment of the symbols -/
def handle (req : Json) : Json :=
  match (field? req "op").bind getStr? with
  | some "eval" => evalReply req
  | some "formulas" =>
    match (field? req "arch").bind arch?, (field? req "workload").bind workload?, (field? req "template").bind getArr?,
          (field? req "formulas").bind getArr? with
    | some arch, some (wq, _), some tj, some fj =>
      match tj.toList.mapM tnode?, fj.toList.mapM (fun p => do
          let a ← getArr? p
          if a.size != 2 then none else
          pure ((← fkey? a[0]!), (← lexprOfJson? a[1]!))) with
      | some tpl, some fs =>
        match analyticPoly arch wq tpl with
        | none => err "model-fails"
        | some r => Json.arr (fs.map (fun (k, g) => match r.get k with
            | some ref => Json.bool (LExpr.equiv g ref)
            | none => Json.null)).toArray
      | _, _ => err "malformed"
    | _, _, _, _ => err "malformed"
  | some "evalpoly" =>
    match (field? req "arch").bind arch?, (field? req "workload").bind workload?, (field? req "template").bind getArr?,
          (field? req "point").bind ratList?, (field? req "keys").bind getArr? with
    | some arch, some (wq, _), some tj, some pt, some kj =>
      match tj.toList.mapM tnode?, kj.toList.mapM fkey? with
      | some tpl, some ks =>
        match analyticPoly arch wq tpl with
        | none => err "model-fails"
        | some r => Json.arr (ks.map (fun k => match r.get k with
            | some e => ratToJson (LExpr.eval (LExpr.assign pt) e)
            | none => Json.null)).toArray
      | _, _ => err "malformed"
    | _, _, _, _, _ => err "malformed"
  | _ => err "bad-op"

end AFV.Driver.C07
