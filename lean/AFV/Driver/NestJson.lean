import AFV.Driver.Proto
import AFV.Model.Nest
import AFV.Spec.NestExec
/-!
JSON codec for the L2 `Nest` library (shared by the drivers of C05, C06, C07, C19, C31).
Rationals travel as an integer or as `[num, den]`; never as text floats.
-/
namespace AFV.Driver.NestJson
open Lean AFV.Proto AFV.Nest

def getRat? (j : Json) : Option Rat :=
  match getInt? j with
  | some i => some (i : Rat)
  | none =>
    match getArr? j with
    | some a =>
      if a.size != 2 then none else
      match getInt? a[0]!, getNat? a[1]! with
      | some n, some d => if d == 0 then none else some ((n : Rat) / (d : Rat))
      | _, _ => none
    | none => none

def ofRat (q : Rat) : Json := Json.arr #[ofInt q.num, ofNat q.den]

def optRat? (j : Option Json) : Option (Option Rat) :=
  match j with
  | none => some none
  | some Json.null => some none
  | some x => (getRat? x).map some

def pairList? (j : Json) : Option (List (Nat × Rat)) := do
  let a ← getArr? j
  a.toList.mapM (fun p => do
    let pa ← getArr? p
    if pa.size != 2 then none else
    let k ← getNat? pa[0]!
    let v ← getRat? pa[1]!
    pure (k, v))

def dir? (j : Json) : Option Dir :=
  match getStr? j with
  | some "up" => some Dir.up
  | some "down" => some Dir.down
  | some "up_and_down" => some Dir.upDown
  | _ => none

def dirList? (j : Json) : Option (List (Nat × Dir)) := do
  let a ← getArr? j
  a.toList.mapM (fun p => do
    let pa ← getArr? p
    if pa.size != 2 then none else
    let k ← getNat? pa[0]!
    let v ← dir? pa[1]!
    pure (k, v))

def act? (j : Json) : Option (Act Rat) := do
  let e ← (field? j "e").bind getRat?
  let thr ← (field? j "thr").bind getRat?
  let bpa ← optRat? (field? j "bpa")
  let vpa ← match field? j "vpa" with
    | none => some []
    | some x => pairList? x
  pure { energy := e, throughput := thr, bpa := bpa, vpa := vpa }

def level? (j : Json) : Option (Level Rat) := do
  let isToll ← (field? j "toll").bind getBool?
  let size ← (field? j "size").bind getRat?
  let leak ← (field? j "leak").bind getRat?
  let ascale ← (field? j "ascale").bind getRat?
  let skip ← (field? j "skip").bind getBool?
  let bpv ← (field? j "bpv").bind pairList?
  let bpa ← optRat? (field? j "bpa")
  let vpa ← (field? j "vpa").bind pairList?
  let rd ← (field? j "read").bind act?
  let wr ← (field? j "write").bind act?
  let dir ← (field? j "dir").bind dirList?
  pure { isToll := isToll, size := size, leak := leak, actionsScale := ascale, skipInitial := skip, bpvOv := bpv,
         bpa := bpa, vpa := vpa, read := rd, write := wr, dir := dir }

def computeLevel? (j : Json) : Option (ComputeLevel Rat) := do
  let e ← (field? j "e").bind getRat?
  let thr ← (field? j "thr").bind getRat?
  let leak ← (field? j "leak").bind getRat?
  let ascale ← (field? j "ascale").bind getRat?
  let skip ← (field? j "skip").bind getBool?
  pure { energy := e, throughput := thr, leak := leak, actionsScale := ascale, skipInitial := skip }

def arch? (j : Json) : Option (Arch Rat) := do
  let ls ← (field? j "levels").bind getArr?
  let levels ← ls.toList.mapM level?
  let c ← (field? j "compute").bind computeLevel?
  pure { levels := levels, compute := c }

def tensorQ? (j : Json) : Option (TensorSpec Rat) := do
  let rvs ← (field? j "rvs").bind natList?
  let out ← (field? j "out").bind getBool?
  let bpv ← (field? j "bpv").bind getRat?
  pure { rvs := rvs, isOutput := out, bpv := bpv }

/-- The workload twice: with rational attributes (for `analytic`) and with natural bounds (for `exec`). -/
def workload? (j : Json) : Option (Workload Rat × Workload Nat) := do
  let bounds ← (field? j "bounds").bind natList?
  let ts ← (field? j "tensors").bind getArr?
  let tensors ← ts.toList.mapM tensorQ?
  let ni ← (field? j "ninst").bind getRat?
  pure ({ bounds := bounds.map (fun (n : Nat) => (n : Rat)), tensors := tensors, nInstances := ni },
        { bounds := bounds, tensors := tensors.map (fun t => { rvs := t.rvs, isOutput := t.isOutput, bpv := 1 }),
          nInstances := 1 })

def node? (j : Json) : Option (Node Nat) := do
  let a ← getArr? j
  if a.size == 0 then none else
  match getStr? a[0]! with
  | some "S" =>
    if a.size != 4 then none else
    let l ← getNat? a[1]!
    let ts ← natList? a[2]!
    let lo ← getBool? a[3]!
    pure (.storage l ts lo)
  | some "T" =>
    if a.size != 4 then none else
    let l ← getNat? a[1]!
    let ts ← natList? a[2]!
    let lo ← getBool? a[3]!
    pure (.toll l ts lo)
  | some "L" =>
    if a.size != 3 then none else
    let rv ← getNat? a[1]!
    let tile ← getNat? a[2]!
    pure (.loop rv tile)
  | some "C" => if a.size != 1 then none else pure .compute
  | _ => none

def mapping? (j : Json) : Option (Mapping Nat) := do
  let a ← getArr? j
  a.toList.mapM node?

def quad (x : Lvl × TId × Rat × Rat) : Json :=
  Json.arr #[ofNat x.1, ofNat x.2.1, ofRat x.2.2.1, ofRat x.2.2.2]

def lvlRat (x : Lvl × Rat) : Json := Json.arr #[ofNat x.1, ofRat x.2]

def resultJson (r : Result Rat) : Json :=
  Json.mkObj [
    ("actions", Json.arr (r.actions.map quad).toArray),
    ("computes", ofRat r.computes),
    ("energies", Json.arr (r.energies.map quad).toArray),
    ("computeEnergy", ofRat r.computeEnergy),
    ("leaks", Json.arr (r.leaks.map ofRat).toArray),
    ("computeLeak", ofRat r.computeLeak),
    ("latencies", Json.arr (r.latencies.map lvlRat).toArray),
    ("computeLatency", ofRat r.computeLatency),
    ("totalLatency", ofRat r.totalLatency),
    ("dynamicEnergy", ofRat r.dynamicEnergy),
    ("leakEnergy", ofRat r.leakEnergy),
    ("totalEnergy", ofRat r.totalEnergy),
    ("occupancy", Json.arr (r.occupancy.map (fun (l, t, o) => Json.arr #[ofNat l, ofNat t, ofRat o])).toArray),
    ("usage", Json.arr (r.usage.map (fun (l, t, o) => Json.arr #[ofNat l, ofNat t, ofRat o])).toArray),
    ("reservations", Json.arr (r.reservations.map (fun (l, n, o) => Json.arr #[ofNat l, ofNat n, ofRat o])).toArray),
    ("memBits", Json.arr (r.memBits.map lvlRat).toArray),
    ("memUsage", Json.arr (r.memUsage.map lvlRat).toArray)]

def execJson (r : AFV.NestExec.ExecResult) : Json :=
  Json.mkObj [
    ("actions", Json.arr (r.actions.map quad).toArray),
    ("computes", ofRat r.computes),
    ("latencies", Json.arr (r.latencies.map lvlRat).toArray),
    ("computeLatency", ofRat r.computeLatency),
    ("totalLatency", ofRat r.totalLatency),
    ("dynamicEnergy", ofRat r.dynamicEnergy),
    ("leakEnergy", ofRat r.leakEnergy),
    ("totalEnergy", ofRat r.totalEnergy)]

/-- `{"arch":…,"workload":…,"mapping":…}` → `{"analytic": result|null, "oversubscribed": bool|null, "wf": bool, "exec": result}` -/
def evalReply (req : Json) : Json :=
  match (field? req "arch").bind arch?, (field? req "workload").bind workload?, (field? req "mapping").bind mapping? with
  | some arch, some (wq, wn), some m =>
    let an := analytic arch wq (castMapping m)
    let ex := AFV.NestExec.exec arch wq wn m
    Json.mkObj [
      ("analytic", match an with | some r => resultJson r | none => Json.null),
      ("oversubscribed", match an with | some r => Json.bool (r.oversubscribed arch) | none => Json.null),
      ("wf", Json.bool (WF arch wn m)),
      ("exec", execJson ex)]
  | _, _, _ => err "malformed"

end AFV.Driver.NestJson
