import AFV.Driver.Proto
namespace AFV.Driver.C17
open Lean AFV.Proto

/-- (e,l) strictly dominated by (e',l'). -/
def domBy (p q : Int × Int) : Bool := q.1 ≤ p.1 && q.2 ≤ p.2 && (q.1 != p.1 || q.2 != p.2)

/-- Pareto front of (energy, latency) pairs (all-pairs definition). -/
def front2 (rows : List (Int × Int)) : List (Int × Int) :=
  rows.filter (fun p => !(rows.any (fun q => domBy p q)))

def minOf (l : List Int) : Option Int := l.foldl (fun acc x => match acc with | none => some x | some a => some (min a x)) none

private def pair? (j : Json) : Option (Int × Int) := do
  let a ← intList? j
  match a with
  | [e, l] => some (e, l)
  | _ => none

/-- {"op":"minima","rows":[[E,L],…]} → minima of E, L, E·L over the FRONT of the rows, and over all rows. -/
def handle (req : Json) : Json :=
  match (field? req "op").bind getStr? with
  | some "minima" =>
    match (field? req "rows").bind getArr? with
    | some arr =>
      match arr.toList.mapM pair? with
      | some rows =>
        let f := front2 rows
        match minOf (f.map (·.1)), minOf (f.map (·.2)), minOf (f.map (fun p => p.1 * p.2)),
              minOf (rows.map (·.1)), minOf (rows.map (·.2)), minOf (rows.map (fun p => p.1 * p.2)) with
        | some a, some b, some c, some a', some b', some c' =>
          Json.mkObj [("minE", ofInt a), ("minL", ofInt b), ("minEDP", ofInt c),
                      ("allMinE", ofInt a'), ("allMinL", ofInt b'), ("allMinEDP", ofInt c'),
                      ("frontSize", ofNat f.length)]
        | _, _, _, _, _, _ => err "empty"
      | none => err "malformed"
    | none => err "malformed"
  | _ => err "bad-op"

end AFV.Driver.C17
