import AFV.Driver.Proto
import AFV.Spec.Front
namespace AFV.Driver.C17
open Lean AFV.Proto AFV.Front

/-- kept for the other mapper-level drivers: front of (energy, latency) pairs through the proved `frontFast`. -/
def front2 (rows : List (Int × Int)) : List (Int × Int) :=
  (frontFast (rows.map (fun p => [p.1, p.2]))).filterMap (fun v => match v with | [a, b] => some (a, b) | _ => none)

private def vec2? (j : Json) : Option Vec := do
  let a ← intList? j
  if a.length == 2 then some a else none

private def optJ : Option Int → Json
  | some i => ofInt i
  | none => Json.null

/-- {"op":"minima","rows":[[E,L],…]} → minima of E, L, E·L over the FRONT (`AFV.Front.frontFast`, proved equal to the
all-pairs `front`) of the rows, and over all rows (theorem `AFV.C17.metric_consistency` says they coincide). -/
def handle (req : Json) : Json :=
  match (field? req "op").bind getStr? with
  | some "minima" =>
    match (field? req "rows").bind getArr? with
    | some arr =>
      match arr.toList.mapM vec2? with
      | some rows =>
        if rows.isEmpty then err "empty" else
        let f := frontFast rows
        let e := fun (v : Vec) => v.getD 0 0
        let l := fun (v : Vec) => v.getD 1 0
        let p := fun (v : Vec) => v.getD 0 0 * v.getD 1 0
        Json.mkObj [("minE", optJ (minOf e f)), ("minL", optJ (minOf l f)), ("minEDP", optJ (minOf p f)),
                    ("allMinE", optJ (minOf e rows)), ("allMinL", optJ (minOf l rows)), ("allMinEDP", optJ (minOf p rows)),
                    ("frontSize", ofNat f.length)]
      | none => err "malformed"
    | none => err "malformed"
  | _ => err "bad-op"

end AFV.Driver.C17
