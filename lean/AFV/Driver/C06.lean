import AFV.Driver.Proto
namespace AFV.Driver.C06
open Lean AFV.Proto

/-- Handler for property C06 requests (stub: not implemented yet). -/
def handle (_req : Json) : Json := err "unimplemented"

end AFV.Driver.C06
