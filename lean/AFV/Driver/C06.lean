import AFV.Driver.Proto
import AFV.Driver.NestJson
import AFV.Spec.FusedPeak
import AFV.Spec.PeakSingle
namespace AFV.Driver.C06
open Lean AFV.Proto AFV.Driver.NestJson AFV.FusedPeak

def pnode? (j : Json) : Option PNode := do
  let a ← getArr? j
  if a.size == 0 then none else
  match getStr? a[0]! with
  | some "S" => if a.size != 5 then none else do
      pure (.storage (← getNat? a[1]!) (← getNat? a[2]!) (← natList? a[3]!) (← getBool? a[4]!))
  | some "L" => if a.size != 4 then none else do pure (.loop (← getNat? a[1]!) (← getNat? a[2]!) (← getNat? a[3]!))
  | _ => none

def treeFuel? : Nat → Json → Option Tree
  | 0, _ => none
  | fuel + 1, j => do
    let pre ← ((field? j "pre").bind getArr?).bind (fun a => a.toList.mapM pnode?)
    match field? j "e", field? j "bs" with
    | some e, none => do pure (.leaf pre (← getNat? e))
    | none, some bs => do
      let l ← getArr? bs
      let ts ← l.toList.mapM (treeFuel? fuel)
      pure (.seq pre ts)
    | _, _ => none

def listOf? {α : Type} (f : Json → Option α) (j : Json) : Option (List α) := do
  let a ← getArr? j
  a.toList.mapM f

def fworkload? (j : Json) : Option Workload := do
  let bounds ← (field? j "bounds").bind natList?
  let einsums ← (field? j "einsums").bind (listOf? natList?)
  let rvs ← (field? j "tensorRvs").bind (listOf? natList?)
  let bits ← (field? j "bits").bind (listOf? (listOf? getRat?))
  let ni ← (field? j "ninst").bind getRat?
  pure { bounds := bounds, einsums := einsums, tensorRvs := rvs, bits := bits, nInstances := ni }

/-- ops:
  {"op":"eval", …}                                               as C05 (single Einsum: analytic usage)
  {"op":"peak","workload":W,"tree":T,"levels":n}                 → [[p,q],…]  peak bits per memory level (reference timeline)
  {"op":"peaksingle","arch":…,"workload":…,"mapping":…}          → {"wf":b,"notoll":b,"holds":b}  the instance of
        `AFV.C06.PeakSingleStatement` (reported bits of every memory = reference peak of the one-leaf tree) -/
def handle (req : Json) : Json :=
  match (field? req "op").bind getStr? with
  | some "eval" => evalReply req
  | some "peak" =>
    match (field? req "workload").bind fworkload?, (field? req "tree").bind (treeFuel? 16), (field? req "levels").bind getNat? with
    | some w, some t, some n => Json.arr ((List.range n).map (fun l => ofRat (peak w t l))).toArray
    | _, _, _ => err "malformed"
  | some "peaksingle" =>
    match (field? req "arch").bind arch?, (field? req "workload").bind workload?, (field? req "mapping").bind mapping? with
    | some arch, some (wq, wn), some m =>
      Json.mkObj [("wf", Json.bool (AFV.Nest.WF arch wn m)), ("notoll", Json.bool (AFV.PeakSingle.noToll m)),
                  ("holds", Json.bool (AFV.PeakSingle.peakSingleCheck arch wq wn m))]
    | _, _, _ => err "malformed"
  | _ => err "bad-op"

end AFV.Driver.C06
