import AFV.Driver.Proto
import AFV.Model.Pareto
import AFV.Spec.Pareto
import AFV.Spec.ParetoHyp
namespace AFV.Driver.C11
open Lean AFV.Proto AFV.Pareto

def ev? (j : Json) : Option EV :=
  match j with
  | .str "inf" => some EV.pinf
  | .str "-inf" => some EV.ninf
  | _ => (getInt? j).map EV.fin

def row? (j : Json) : Option Row := do
  let a ← getArr? j
  a.toList.mapM ev?

def rows? (j : Json) : Option (List Row) := do
  let a ← getArr? j
  a.toList.mapM row?

def ofEV : EV → Json
  | EV.pinf => Json.str "inf"
  | EV.ninf => Json.str "-inf"
  | EV.fin k => ofInt k

/-- ops:
  {"op":"mask","scale":S,"goals":[g…],"data":[[v…]…],"distinct":b?,"cast":[[v…]…]?,"repairs":{"wide":b,"sweep_first":b}?}
     repairs select the model of a repaired code version (default: the code as it is)
     v = integer (value·2^S) | "inf" | "-inf"
     → {"model":[b…]|"ValueError","spec":[b…]|null,"branches":[…],"H":{wf,cast,sweep,key},"cast_ok":b}
  {"op":"exh","scale":S,"goals":[g…],"alphabet":[v…],"rows":r,"cols":c,"from":a,"count":k,"full":b?}
     matrix number idx has entry (i,j) = alphabet[(idx / |alphabet|^(i*c+j)) % |alphabet|]
     → [specBits…]  or, with full, [[modelBits,specBits,Hbits]…]   (bit i = row i kept; H: cast=1,sweep=2,key=4)
  {"op":"cast","scale":S,"vals":[v…]} → [v…]         (float32 rounding of the model)
  {"op":"key","scale":S,"row":[v…]}   → v | "nan"     (float row-sum key of the model) -/
def handle (req : Json) : Json :=
  match (field? req "op").bind getStr? with
  | some "mask" =>
    match (field? req "scale").bind getNat?, (field? req "goals").bind strList?,
          (field? req "data").bind rows? with
    | some S, some goals, some data =>
      let distinct := ((field? req "distinct").bind getBool?).getD true
      let rp := field? req "repairs"
      let cfg := stdCfg S (((rp.bind (field? · "wide")).bind getBool?).getD false)
        (((rp.bind (field? · "sweep_first")).bind getBool?).getD false)
      let castOk : Bool :=
        match (field? req "cast").bind rows? with
        | some c => c == data.map (·.map (castF32 S))
        | none => true
      match goals.mapM parseGoal with
      | none =>
        Json.mkObj [("model", match fastParetoMaskStr cfg goals data distinct with
                              | some m => ofBoolList m
                              | none => Json.str "ValueError"),
                    ("spec", Json.null), ("branches", Json.arr #[]), ("cast_ok", Json.bool castOk)]
      | some gs =>
        let cols := effCols cfg gs data
        let br := if data.length ≤ 1 then ["n<=1"] else if cols.isEmpty then ["no-eff-cols"] else
          (groupsOf gs data cols).map (groupBranch cols.length)
        let spec := if distinct then paretoMaskSpec cfg.one gs data else frontMaskSpec cfg.one gs data
        Json.mkObj [("model", ofBoolList (fastParetoMask cfg gs data distinct)),
                    ("spec", ofBoolList spec),
                    ("branches", ofStrList br),
                    ("H", Json.mkObj [("wf", Json.bool (WF cfg gs data)), ("cast", Json.bool (Hcast cfg gs data)),
                                      ("sweep", Json.bool (Hsweep cfg gs data)), ("key", Json.bool (Hkey cfg gs data))]),
                    ("key_exact", Json.bool (keyExact cfg gs data)),
                    ("cast_ok", Json.bool castOk)]
    | _, _, _ => err "malformed"
  | some "exh" =>
    -- exhaustive small scope: matrix number `idx` has entry (i,j) = alphabet[(idx / b^(i*c+j)) % b]
    match (field? req "scale").bind getNat?, (field? req "goals").bind strList?,
          (field? req "alphabet").bind row?, (field? req "rows").bind getNat?,
          (field? req "cols").bind getNat?, (field? req "from").bind getNat?,
          (field? req "count").bind getNat? with
    | some S, some goals, some alpha, some r, some c, some a, some k =>
      match goals.mapM parseGoal with
      | none => err "malformed"
      | some gs =>
        let rp := field? req "repairs"
        let cfg := stdCfg S (((rp.bind (field? · "wide")).bind getBool?).getD false)
          (((rp.bind (field? · "sweep_first")).bind getBool?).getD false)
        let b := alpha.length
        let bits (m : List Bool) : Nat := (m.zipIdx.map fun p => if p.1 then 2 ^ p.2 else 0).foldl (· + ·) 0
        let full := ((field? req "full").bind getBool?).getD false
        if !full then
          Json.arr ((List.range k).map fun t =>
            let idx := a + t
            let data : List Row := (List.range r).map fun i => (List.range c).map fun j =>
              alpha.getD ((idx / b ^ (i * c + j)) % b) (EV.fin 0)
            ofNat (bits (paretoMaskSpec cfg.one gs data))).toArray
        else
        Json.arr ((List.range k).map fun t =>
          let idx := a + t
          let data : List Row := (List.range r).map fun i => (List.range c).map fun j =>
            alpha.getD ((idx / b ^ (i * c + j)) % b) (EV.fin 0)
          let h := (if Hcast cfg gs data then 1 else 0) + (if Hsweep cfg gs data then 2 else 0) +
                   (if Hkey cfg gs data then 4 else 0)
          Json.arr #[ofNat (bits (fastParetoMask cfg gs data)), ofNat (bits (paretoMaskSpec cfg.one gs data)),
                     ofNat h]).toArray
    | _, _, _, _, _, _, _ => err "malformed"
  | some "cast" =>
    match (field? req "scale").bind getNat?, (field? req "vals").bind row? with
    | some S, some vs => Json.arr ((vs.map (castF32 S)).map ofEV).toArray
    | _, _ => err "malformed"
  | some "key" =>
    match (field? req "scale").bind getNat?, (field? req "row").bind row? with
    | some S, some r =>
      match sumKeyF S r with
      | FKey.nan => Json.str "nan"
      | FKey.val v => ofEV v
    | _, _ => err "malformed"
  | _ => err "bad-op"

end AFV.Driver.C11
