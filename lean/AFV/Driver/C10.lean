import AFV.Driver.Proto
import AFV.Spec.TileShapes
namespace AFV.Driver.C10
open Lean AFV.Proto AFV.TileShapes

/-- coverage only (not part of the model): which branch of `_try_admit` each step of the
coarseness-1 imperfect loop and the final `_try_admit(outer)` take — `[factor-hit, tiles-hit, new]` counts. -/
private def admitBranches (inner outer : Nat) : List Nat :=
  let step (acc : St × Nat × Nat × Nat) (n : Nat) : St × Nat × Nat × Nat :=
    let (st, a, b, c) := acc
    let st' := tryAdmit outer st n
    if st.factors.contains n then (st', a + 1, b, c)
    else if st.nTiles.contains (ceilDiv outer n) then (st', a, b + 1, c)
    else (st', a, b, c + 1)
  let (_, a, b, c) := (((List.range' 1 (outer / inner)).map (· * inner)) ++ [outer]).foldl step
    ({ factors := [], nTiles := [] }, 0, 0, 0)
  [a, b, c]

/-- all tuples in `[1..n]^len` (brute-force domain for the chain counter) -/
private def tuples (n : Nat) : Nat → List (List Nat)
  | 0 => [[]]
  | len + 1 => (List.range' 1 n).flatMap (fun s => (tuples n len).map (s :: ·))

private def boolList? (j : Json) : Option (List Bool) := do
  let a ← getArr? j
  a.toList.mapM getBool?

private def pair? (j : Json) : Option (Nat × Nat) := do
  let a ← getArr? j
  if a.size != 2 then none else
  let x ← getNat? a[0]!
  let y ← getNat? a[1]!
  pure (x, y)

/-- ops:
  {"op":"cands","imp":b,"inner":i,"outer":o,"cn":p,"cd":q[,"brute":true][,"trace":true]}
        → {"model":[…],"spec":[…][,"brute":[…]][,"branches":[a,b,c]]}
          spec = perfectSpec (imp=false) / imperfectRequired (imp=true)
  {"op":"factorize","n":n}               → {"model":[…],"spec":[…]}      spec = brute-force divisors
  {"op":"count","n":n,"pat":[b,…][,"brute":true]}
        → {"model":c,"chains":len[,"valid":number of tuples in [1..n]^(len-1) passing validChain]}
  {"op":"arith","pairs":[[a,b],…],"sqrts":[n,…]}
        → {"ceildiv":[…],"round":[…],"ceilsqrt":[…]}                     (float precondition check)
-/
def handle (req : Json) : Json :=
  match (field? req "op").bind getStr? with
  | some "cands" =>
    match (field? req "imp").bind getBool?, (field? req "inner").bind getNat?,
          (field? req "outer").bind getNat?, (field? req "cn").bind getNat?,
          (field? req "cd").bind getNat? with
    | some imp, some inner, some outer, some cn, some cd =>
      if inner = 0 || outer = 0 || cd = 0 then err "domain" else
      let model := candidates imp inner outer cn cd
      let spec := if imp then imperfectRequired inner outer else perfectSpec inner outer
      let base := [("model", ofNatList model), ("spec", ofNatList spec)]
      let base := if (field? req "brute").bind getBool? == some true && imp
        then base ++ [("brute", ofNatList (imperfectRequiredBrute inner outer))] else base
      let base := if (field? req "trace").bind getBool? == some true && imp
        then base ++ [("branches", ofNatList (admitBranches inner outer))] else base
      Json.mkObj base
    | _, _, _, _, _ => err "malformed"
  | some "factorize" =>
    match (field? req "n").bind getNat? with
    | some n => Json.mkObj [("model", ofNatList (factorize n)), ("spec", ofNatList (divisors n))]
    | none => err "malformed"
  | some "count" =>
    match (field? req "n").bind getNat?, (field? req "pat").bind boolList? with
    | some n, some pat =>
      let base := [("model", ofNat (countFactorizations n pat)), ("chains", ofNat (chains n pat).length)]
      let base := if (field? req "brute").bind getBool? == some true
        then base ++ [("valid", ofNat ((tuples n (pat.length - 1)).filter (validChain n pat)).length)]
        else base
      Json.mkObj base
    | _, _ => err "malformed"
  | some "arith" =>
    match (field? req "pairs").bind getArr?, (field? req "sqrts").bind natList? with
    | some ps, some sq =>
      match ps.toList.mapM pair? with
      | some l =>
        if l.any (fun p => p.2 = 0) then err "domain" else
        Json.mkObj [("ceildiv", ofNatList (l.map (fun p => ceilDiv p.1 p.2))),
                    ("round", ofNatList (l.map (fun p => roundHalfEven p.1 p.2))),
                    ("ceilsqrt", ofNatList (sq.map ceilSqrt))]
      | none => err "malformed"
    | _, _ => err "malformed"
  | _ => err "bad-op"

end AFV.Driver.C10
