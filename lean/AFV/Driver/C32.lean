import AFV.Driver.Proto
import AFV.Model.Collect
namespace AFV.Driver.C32
open Lean AFV.Proto AFV.Collect

private def optInt : Option Int → Json
  | none => Json.null
  | some i => ofInt i

private def pairIntInt? (j : Json) : Option (Nat × Int) := do
  let a ← getArr? j
  if a.size != 2 then none else
  let i ← getNat? a[0]!
  let v ← getInt? a[1]!
  pure (i, v)

private def pairStrInt? (j : Json) : Option (String × Int) := do
  let a ← getArr? j
  if a.size != 2 then none else
  let i ← getStr? a[0]!
  let v ← getInt? a[1]!
  pure (i, v)

/-- ops:
  {"op":"collect","n":N,"arrivals":[[i,v],…]}       → [v|null,…]
  {"op":"dict","keys":[k,…],"arrivals":[[k,v],…]}   → [[k,v|null],…]
  {"op":"seq","vals":[v,…]}                         → [v,…]            (sequential path, run = id) -/
def handle (req : Json) : Json :=
  match (field? req "op").bind getStr? with
  | some "collect" =>
    match (field? req "n").bind getNat?, (field? req "arrivals").bind getArr? with
    | some n, some arr =>
      match arr.toList.mapM pairIntInt? with
      | some l => Json.arr ((collect n l).map optInt).toArray
      | none => err "malformed"
    | _, _ => err "malformed"
  | some "dict" =>
    match (field? req "keys").bind strList?, (field? req "arrivals").bind getArr? with
    | some keys, some arr =>
      match arr.toList.mapM pairStrInt? with
      | some l => Json.arr ((dictCollect keys l).map (fun p => Json.arr #[Json.str p.1, optInt p.2])).toArray
      | none => err "malformed"
    | _, _ => err "malformed"
  | some "seq" =>
    match (field? req "vals").bind intList? with
    | some l => ofIntList (sequential id l)
    | none => err "malformed"
  | _ => err "bad-op"

end AFV.Driver.C32
