import AFV.Driver.Proto
import AFV.Driver.NestJson
namespace AFV.Driver.C19
open Lean AFV.Proto AFV.Driver.NestJson

/-- `|b − a·k| ≤ tol · max(|b|, |a·k|)` with k = kn/kd > 0, tol = tn/td, over exact integers. -/
def eqScaled (a b kn kd tn td : Int) : Bool :=
  let lhs := (b * kd - a * kn).natAbs          -- |b − a k| · kd
  let m := max (b * kd).natAbs (a * kn).natAbs -- max(|b|, |a k|) · kd
  lhs * td.natAbs ≤ tn.natAbs * m

/-- ops: `eqScaled` (mapper stream) and `eval` (model stream: as C05, the harness scales the inputs itself). -/
def handle (req : Json) : Json :=
  match (field? req "op").bind getStr? with
  | some "eval" => evalReply req
  | some "eqScaled" =>
    match (field? req "a").bind getInt?, (field? req "b").bind getInt?, (field? req "k_num").bind getInt?,
          (field? req "k_den").bind getInt?, (field? req "tol_num").bind getInt?, (field? req "tol_den").bind getInt? with
    | some a, some b, some kn, some kd, some tn, some td =>
      if kd > 0 && kn > 0 && td > 0 then Json.bool (eqScaled a b kn kd tn td) else err "malformed"
    | _, _, _, _, _, _ => err "malformed"
  | _ => err "bad-op"

end AFV.Driver.C19
