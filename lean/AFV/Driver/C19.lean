import AFV.Driver.Proto
import AFV.Driver.NestJson
namespace AFV.Driver.C19
open Lean AFV.Proto AFV.Nest AFV.Driver.NestJson

/-- ops: {"op":"eval", …} as C05 (the harness scales the inputs itself and asks for both evaluations). -/
def handle (req : Json) : Json :=
  match (field? req "op").bind getStr? with
  | some "eval" => evalReply req
  | _ => err "bad-op"

end AFV.Driver.C19
