import Lean.Data.Json
/-!
Line protocol shared by every property driver.

Request line : `<ID> <json>`   (ID = C01 … C32, json = one JSON value on the same line)
Reply line   : one JSON value.

No Mathlib here: this file is linked into the native executable `afv`.
-/
namespace AFV.Proto
open Lean

def err (msg : String) : Json := Json.mkObj [("err", Json.str msg)]

def getInt? (j : Json) : Option Int := match j with
  | .num n => if n.exponent == 0 then some n.mantissa else none
  | _ => none

def getNat? (j : Json) : Option Nat := match getInt? j with
  | some i => if i ≥ 0 then some i.toNat else none
  | none => none

def getArr? (j : Json) : Option (Array Json) := match j with
  | .arr a => some a
  | _ => none

def getStr? (j : Json) : Option String := match j with
  | .str s => some s
  | _ => none

def getBool? (j : Json) : Option Bool := match j with
  | .bool b => some b
  | _ => none

def field? (j : Json) (k : String) : Option Json := (j.getObjVal? k).toOption

def intList? (j : Json) : Option (List Int) := do
  let a ← getArr? j
  a.toList.mapM getInt?

def natList? (j : Json) : Option (List Nat) := do
  let a ← getArr? j
  a.toList.mapM getNat?

def strList? (j : Json) : Option (List String) := do
  let a ← getArr? j
  a.toList.mapM getStr?

def ofIntList (l : List Int) : Json := Json.arr (l.map (fun i => Json.num (JsonNumber.fromInt i))).toArray
def ofNatList (l : List Nat) : Json := Json.arr (l.map (fun i => Json.num (JsonNumber.fromNat i))).toArray
def ofBoolList (l : List Bool) : Json := Json.arr (l.map Json.bool).toArray
def ofStrList (l : List String) : Json := Json.arr (l.map Json.str).toArray
def ofInt (i : Int) : Json := Json.num (JsonNumber.fromInt i)
def ofNat (i : Nat) : Json := Json.num (JsonNumber.fromNat i)

end AFV.Proto
