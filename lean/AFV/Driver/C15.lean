import AFV.Driver.Proto
import AFV.Model.Compress
namespace AFV.Driver.C15
open Lean AFV.Proto AFV.Compress

/-! Cell values are canonical strings produced by the harness: `n:<p>/<q>` exact numbers,
`n:inf`, `n:-inf`, `s:<text>`.  The only value-level operation is pandas' int64 → float64 conversion
of a NaN-filled column, which can change integers (`n:<p>/1`) beyond ±2^53. -/

/-- `conv` on tokens: float64 rounding of integer tokens, identity on everything else
(non-integers are already float cells; text stays text). -/
def tokConv (t : String) : String :=
  if t.startsWith "n:" && t.endsWith "/1" then
    match ((t.drop 2).dropEnd 2).toInt? with
    | some i => "n:" ++ toString (roundF64 i) ++ "/1"
    | none => t
  else t

private def cell? (j : Json) : Option (String × String) := do
  let a ← getArr? j
  if a.size != 2 then none else
  let c ← getStr? a[0]!
  let v ← getStr? a[1]!
  pure (c, v)

private def row? (j : Json) : Option (Row String) := do
  let a ← getArr? j
  a.toList.mapM cell?

private def table? (j : Json) : Option (Table String) := do
  let a ← getArr? j
  a.toList.mapM row?

private def einsum? (j : Json) : Option (String × List (Table String)) := do
  let a ← getArr? j
  if a.size != 2 then none else
  let e ← getStr? a[0]!
  let ts ← getArr? a[1]!
  let ts ← ts.toList.mapM table?
  pure (e, ts)

private def idxCell? (j : Json) : Option (String × Nat) := do
  let a ← getArr? j
  if a.size != 2 then none else
  let e ← getStr? a[0]!
  let k ← getNat? a[1]!
  pure (e, k)

private def jrow? (j : Json) : Option (JRow String) := do
  let cells ← (field? j "cells").bind row?
  let idx ← (field? j "idx").bind getArr?
  let idx ← idx.toList.mapM idxCell?
  pure { cells := cells, idx := idx }

private def ofRow (r : Row String) : Json :=
  Json.arr (r.map (fun c => Json.arr #[Json.str c.1, Json.str c.2])).toArray

private def ofRows (rs : List (Row String)) : Json := Json.arr (rs.map ofRow).toArray

private def ofErr : Err → String
  | .keyError => "KeyError"
  | .stopIteration => "StopIteration"
  | .assertion => "AssertionError"
  | .noObjects => "ValueError"

private def ofCTable (t : List (CRow String)) : Json :=
  Json.arr (t.map (fun r => Json.mkObj [("keep", ofRow r.keep), ("idx", ofNat r.idx)])).toArray

/-- ops:
  {"op":"roundtrip","joining":[col,…],"e2p":[[einsum,[table,…]],…],"rows":[{"cells":row,"idx":[[einsum,k],…]},…]}
      table = [row,…], row = [[col,val],…]
      → {"compressed":[[einsum,[[{"keep":row,"idx":k},…],…]],…],
         "keys":[[einsum,[start,…]],…],                      (dict keys in insertion order)
         "model":{"ok":[row,…]} | {"error":name},             (decompress ∘ compress, the algorithm, with
                                                               the int64→float64 conversion of NaN-filled columns)
         "spec":[row,…]}                                      (reference semantics)
  {"op":"classify","parts":[s,…]} → true | false | "raise"   (col_used_in_joining) -/
def handle (req : Json) : Json :=
  match (field? req "op").bind getStr? with
  | some "roundtrip" =>
    match (field? req "joining").bind strList?, (field? req "e2p").bind getArr?,
          (field? req "rows").bind getArr? with
    | some jcols, some e2p, some rows =>
      match e2p.toList.mapM einsum?, rows.toList.mapM jrow? with
      | some e2p, some rows =>
        let joining : String → Bool := fun c => jcols.contains c
        let (comp, dd) := compressAll joining e2p
        let model := match decompress tokConv dd rows with
          | .ok out => Json.mkObj [("ok", ofRows out)]
          | .error e => Json.mkObj [("error", Json.str (ofErr e))]
        Json.mkObj [
          ("compressed", Json.arr (comp.map (fun p =>
            Json.arr #[Json.str p.1, Json.arr (p.2.map ofCTable).toArray])).toArray),
          ("keys", Json.arr (dd.map (fun p =>
            Json.arr #[Json.str p.1, ofNatList (p.2.map (·.1))])).toArray),
          ("model", model),
          ("spec", ofRows (rows.map (specRow joining e2p)))]
      | _, _ => err "malformed"
    | _, _, _ => err "malformed"
  | some "classify" =>
    match (field? req "parts").bind strList? with
    | some parts =>
      match colUsedInJoining parts with
      | some b => Json.bool b
      | none => Json.str "raise"
    | none => err "malformed"
  | _ => err "bad-op"

end AFV.Driver.C15
