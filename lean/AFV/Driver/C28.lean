import AFV.Driver.Proto
import AFV.Model.Breakdown
import AFV.Spec.Breakdown
namespace AFV.Driver.C28
open Lean AFV.Proto AFV.Breakdown

private def optStr : Option String → Json
  | none => Json.null
  | some s => Json.str s

private def key4Json (k : Key4) : List Json := [Json.str k.1, Json.str k.2.1, optStr k.2.2.1, Json.str k.2.2.2]

private def tbl4Json (t : List (Key4 × Int)) : Json :=
  Json.arr (t.map (fun kv => Json.arr (key4Json kv.1 ++ [ofInt kv.2]).toArray)).toArray

private def aggJson (t : List (List (Option String) × Int)) : Json :=
  Json.arr (t.map (fun kv => Json.arr #[Json.arr (kv.1.map optStr).toArray, ofInt kv.2])).toArray

private def tbl2Json (t : List (Key2 × Int)) : Json :=
  Json.arr (t.map (fun kv => Json.arr #[Json.str kv.1.1, Json.str kv.1.2, ofInt kv.2])).toArray

private def tbl1Json (t : List (String × Int)) : Json :=
  Json.arr (t.map (fun kv => Json.arr #[Json.str kv.1, ofInt kv.2])).toArray

private def optInt : Option Int → Json
  | none => Json.null
  | some i => ofInt i

private def masks16 : List (Bool × Bool × Bool × Bool) :=
  [false, true].flatMap fun a => [false, true].flatMap fun b => [false, true].flatMap fun c =>
    [false, true].map fun d => (a, b, c, d)

/-- all 16 flag combinations in the order (per_einsum, per_component, per_tensor, per_action) = bits 8,4,2,1 -/
private def allAgg (t : List (Key4 × Int)) : Json :=
  Json.arr (masks16.map (fun m => aggJson (aggregate m t))).toArray

private def specAgg (t : List (Key4 × Int)) : Json :=
  Json.arr (masks16.map (fun m =>
    aggJson (if m = (false, false, false, false) then [([], total t)] else Spec.breakdown (proj m) t))).toArray

private def res4 (r : Except Err (List (Key4 × Int))) : Json :=
  match r with
  | .error e => Json.mkObj [("err", Json.str e.toString)]
  | .ok t => Json.mkObj [("table", tbl4Json t), ("total", ofInt (total t)), ("agg", allAgg t)]

private def einsum? (j : Json) : Option (String × List String) := do
  let a ← getArr? j
  if a.size != 2 then none else
  let e ← getStr? a[0]!
  let ts ← strList? a[1]!
  pure (e, ts)

/-- ops:
  {"op":"split","names":[s,…]}                      → [[part,…],…]      (`str.split("<SEP>")`)
  {"op":"row","cols":[s,…],"vals":[int,…],"einsums":[[name,[tensor,…]],…]}
        → model tables and every aggregation, spec tables, well-formedness flags -/
def handle (req : Json) : Json :=
  match (field? req "op").bind getStr? with
  | some "split" =>
    match (field? req "names").bind strList? with
    | some ns => Json.arr (ns.map (fun n => ofStrList (splitSep n))).toArray
    | none => err "malformed"
  | some "row" =>
    match (field? req "cols").bind strList?, (field? req "vals").bind intList?,
          (field? req "einsums").bind getArr? with
    | some cols, some vals, some esj =>
      match esj.toList.mapM einsum? with
      | none => err "malformed"
      | some es =>
        if cols.length != vals.length then err "malformed" else
        let row : Row := (cols.map splitSep).zip vals
        let en := Spec.names es
        let lat := latencyTable row en
        let latJ := match lat with
          | .error e => Json.mkObj [("err", Json.str e.toString)]
          | .ok t => Json.mkObj [("table", tbl2Json t), ("per_einsum", tbl1Json (perEinsumMax t)),
                                 ("per_component", tbl1Json (perComponentSum t)), ("total", optInt (latencyTotal t))]
        let us := match usageTable row with
          | .error e => Json.mkObj [("err", Json.str e.toString)]
          | .ok t => Json.mkObj [("table", tbl1Json t)]
        let sE := Spec.energyCols row en
        let sA := Spec.actionCols row en
        let sL := Spec.latencyCols row en
        let sU := Spec.reservationCols row
        Json.mkObj [
          ("energy", res4 (energyTable row es)),
          ("actions", res4 (actionsTable row es)),
          ("latency", latJ),
          ("usage", us),
          ("spec", Json.mkObj [
            ("energy", tbl4Json sE), ("energy_total", ofInt (total sE)), ("energy_agg", specAgg sE),
            ("actions", tbl4Json sA), ("actions_total", ofInt (total sA)), ("actions_agg", specAgg sA),
            ("latency", tbl2Json sL), ("latency_total", optInt (Spec.latencyTotal sL)),
            ("latency_per_einsum", tbl1Json (Spec.breakdownMax sL)),
            ("latency_per_component", tbl1Json (Spec.breakdown (fun (k : Key2) => k.2) sL)),
            ("usage", tbl1Json (Spec.usage sU)),
            ("total_energy_col", optInt (Spec.totalCol row "energy")),
            ("total_latency_col", optInt (Spec.totalCol row "latency"))]),
          ("wf", Json.mkObj [
            ("energy", Json.bool (Spec.wfEnergy row es)), ("actions", Json.bool (Spec.wfActions row es)),
            ("latency", Json.bool (Spec.wfLatency row en)), ("usage", Json.bool (Spec.wfUsage row))])]
    | _, _, _ => err "malformed"
  | _ => err "bad-op"

end AFV.Driver.C28
