import AFV.Driver.Proto
import AFV.Driver.NestJson
import AFV.Spec.Mapspace
/-!
Driver of the reference mapspace (C01, C02; reused by C16–C18).

spec description (JSON):
  {"arch": <NestJson arch>, "bounds":[…], "tensors":[{"rvs":[…],"out":b,"bpv":q}…], "ninst":q,
   "rules":[{"keep":[t…],"may":[t…],"notin":null|l}…]   (one per level),
   "inf":[b…] (per level: infinite size), "force":b}
mapping: NestJson format  [["S",lvl,[t],true] | ["L",rv,tile] | ["C"]]

ops
  {"op":"count","spec":S}                          → {"n": |all S|, "choices": number of storage choices}
  {"op":"scan","spec":S,"objs":{"energy":b,"latency":b,"usage":b},"D":n [,"part":[i,k]]}
        one pass over `all S` (`foldAll`; with "part": over `allPart S i k`, the storage choices number i, i+k, …):
        → {"n":…, "valid":…, "unevaluable":…,
           "best":{"energy":{"v":q,"m":mapping}|null,"latency":…,"edp":…},
           "bestStrict": the same over the mappings that fill no memory exactly (every usage < 1),
           "front":[[ints]…] (canonical front of the D-scaled objective vectors) , "exact":b }
        "exact" = every coordinate × D was an integer (otherwise "front" is null: nothing is rounded)
        optional "want":[[ints]…] (scan and scan2): → "found": for each wanted objective vector that occurs, a witness
        ({"v","m"} resp. {"v","a","b"})
  {"op":"eval","spec":S,"mapping":M}               → {"inSpace":b,"clauses":{…},"cost":{"energy":q,"latency":q,"usage":[q…]}|null,"fits":b}
  {"op":"list","spec":S,"limit":n}                 → first n members of `all S`
  {"op":"scan2","spec0":S0,"spec1":S1,"x0":t,"x1":t,"objs":…,"D":n}   two-Einsum chain (see Spec/Mapspace.lean):
        → {"exact":b,"n0","n1" (|all S0|,|all S1|),"halves0","halves1" (distinct halves),"pairs","valid",
           "best":{"energy":{"v":int (×D),"a":half0,"b":half1}|null,"latency":…,"edp":{"v": int (×D²),…}},
           "front":[[ints]…]}   objective vectors: energy×D, latency×D, per level peak bits×D (0 for infinite memories)
  {"op":"find","spec":S,"x":t,"D":n,"half":[ints]} → first member of `all S` with that encoded half (null if none)
  {"op":"half","spec":S,"x":t,"D":n,"mapping":M}   → {"inSpace","clauses","half":[ints]|null}
-/
namespace AFV.Driver.C01
open Lean AFV.Proto AFV.Nest AFV.Mapspace AFV.Front AFV.Driver.NestJson

def rule? (j : Json) : Option LevelRule := do
  let k ← (field? j "keep").bind natList?
  let m ← (field? j "may").bind natList?
  let n ← match field? j "notin" with
    | none => some none
    | some Json.null => some none
    | some x => (getNat? x).map some
  pure { keep := k, mayKeep := m, keepNotIn := n }

def boolList? (j : Json) : Option (List Bool) := do
  let a ← getArr? j
  a.toList.mapM getBool?

def spec? (j : Json) : Option SpecDesc := do
  let arch ← (field? j "arch").bind arch?
  let bounds ← (field? j "bounds").bind natList?
  let ts ← (field? j "tensors").bind getArr?
  let tensors ← ts.toList.mapM tensorQ?
  let ni ← (field? j "ninst").bind getRat?
  let rs ← (field? j "rules").bind getArr?
  let rules ← rs.toList.mapM rule?
  let inf ← (field? j "inf").bind boolList?
  let force ← (field? j "force").bind getBool?
  if rules.length != arch.levels.length || inf.length != arch.levels.length then none else
  pure { arch := arch, bounds := bounds, tensors := tensors, nInstances := ni, rules := rules, infSize := inf,
         forceOrder := force }

def objs? (j : Json) : Option Objs := do
  let e ← (field? j "energy").bind getBool?
  let l ← (field? j "latency").bind getBool?
  let u ← (field? j "usage").bind getBool?
  pure ⟨e, l, u⟩

def nodeJson : Node Nat → Json
  | .storage l ts lo => Json.arr #[Json.str "S", ofNat l, ofNatList ts, Json.bool lo]
  | .toll l ts lo => Json.arr #[Json.str "T", ofNat l, ofNatList ts, Json.bool lo]
  | .loop rv tile => Json.arr #[Json.str "L", ofNat rv, ofNat tile]
  | .compute => Json.arr #[Json.str "C"]

def mappingJson (m : Mapping Nat) : Json := Json.arr (m.map nodeJson).toArray

def costJson (c : Cost) : Json :=
  Json.mkObj [("energy", ofRat c.energy), ("latency", ofRat c.latency), ("usage", Json.arr (c.usage.map ofRat).toArray)]

/-- Set of integer vectors under construction: a buffer that is folded into a canonical set now and then. -/
structure Acc where
  buf : List Vec := []
  n : Nat := 0
  set : List Vec := []

def Acc.push (a : Acc) (v : Vec) : Acc :=
  if a.n ≥ 16384 then { buf := [], n := 0, set := canonFast (v :: (a.buf ++ a.set)) }
  else { a with buf := v :: a.buf, n := a.n + 1 }

def Acc.rows (a : Acc) : List Vec := a.buf ++ a.set

structure Best where
  v : Rat
  m : Mapping Nat

def Best.upd (b : Option Best) (v : Rat) (m : Mapping Nat) : Option Best :=
  match b with
  | none => some ⟨v, m⟩
  | some b0 => if v < b0.v then some ⟨v, m⟩ else some b0

structure Scan where
  n : Nat := 0
  valid : Nat := 0
  uneval : Nat := 0
  bE : Option Best := none
  bL : Option Best := none
  bP : Option Best := none
  sE : Option Best := none
  sL : Option Best := none
  sP : Option Best := none
  acc : Acc := {}
  exact : Bool := true
  found : List (Vec × Mapping Nat) := []

def scanStep (s : SpecDesc) (o : Objs) (D : Nat) (want : List Vec) (st : Scan) (m : Mapping Nat) : Scan :=
  match cost s m with
  | none => { st with n := st.n + 1, uneval := st.uneval + 1 }
  | some c =>
    if !c.fits then { st with n := st.n + 1 } else
    let st := { st with n := st.n + 1, valid := st.valid + 1,
                        bE := Best.upd st.bE c.energy m, bL := Best.upd st.bL c.latency m,
                        bP := Best.upd st.bP (c.energy * c.latency) m }
    let st := if c.fitsStrict then
        { st with sE := Best.upd st.sE c.energy m, sL := Best.upd st.sL c.latency m,
                  sP := Best.upd st.sP (c.energy * c.latency) m }
      else st
    if !st.exact then st else
    match scaleVec D (c.vecQ o) with
    | none => { st with exact := false }
    | some v =>
      let st := { st with acc := st.acc.push v }
      if want.contains v && !(st.found.any (fun p => p.1 == v)) then { st with found := (v, m) :: st.found } else st

def wantOf (req : Json) : List Vec :=
  match (field? req "want").bind getArr? with
  | some a => a.toList.filterMap intList?
  | none => []

def bestJson (b : Option Best) : Json :=
  match b with
  | none => Json.null
  | some b => Json.mkObj [("v", ofRat b.v), ("m", mappingJson b.m)]

def rowsJson (rows : List Vec) : Json := Json.arr (rows.map ofIntList).toArray

def clausesJson (s : SpecDesc) (m : Mapping Nat) : Json :=
  Json.mkObj [
    ("endsWithCompute", Json.bool (endsWithCompute m)),
    ("nodeOk", Json.bool (m.all (nodeOk s))),
    ("loopsOk", Json.bool (loopsOk s.bounds m)),
    ("nodup", Json.bool (nodupB (holderKeys m))),
    ("choiceOk", Json.bool (choiceOk s (holderKeys m))),
    ("orderOk", Json.bool (orderOk s.forceOrder (holderKeys m))),
    ("topOk", Json.bool (topOk false m)),
    ("validOk", Json.bool (validOk s [] m))]

/-! ### Two Einsums

The two per-Einsum spaces are scanned separately; every mapping is reduced to its `Half` (what `combine` looks at),
encoded as an integer vector (scaled by `D`, exactly) so that equal halves are kept once (`canonFast`); then every pair of
distinct halves with equal keys is combined.  The result is `validCosts2 S (all2 S)` as a set of vectors. -/

def encKey (k : Lvl × List (RV × Nat)) : List Int := (k.1 : Int) :: k.2.flatMap (fun p => [(p.1 : Int), (p.2 : Int)])

/-- `[key length] ++ key ++ [E, L] ++ shared ++ inter ++ loc`, all scaled by `D`; `none` if inexact. -/
def encHalf (D : Nat) (h : Half) : Option Vec :=
  let key := encKey h.key
  match scaleVec D ([h.energy, h.latency] ++ h.shared ++ h.inter ++ h.loc) with
  | none => none
  | some v => some ((key.length : Int) :: (key ++ v))

structure HalfI where
  key : List Int
  e : Int
  l : Int
  shared : List Int
  inter : List Int
  loc : List Int
  raw : Vec

def decHalf (nl : Nat) (v : Vec) : Option HalfI :=
  match v with
  | [] => none
  | k :: rest =>
    let kl := k.toNat
    match rest.drop kl with
    | e :: l :: r =>
      some { key := rest.take kl, e := e, l := l, shared := r.take nl, inter := (r.drop nl).take nl,
             loc := r.drop (2 * nl), raw := v }
    | _ => none

structure ScanH where
  n : Nat := 0
  halves : Nat := 0
  acc : Acc := {}
  exact : Bool := true

def scanHalf (s : SpecDesc) (x : TId) (D : Nat) (st : ScanH) (m : Mapping Nat) : ScanH :=
  match half s x m with
  | none => { st with n := st.n + 1 }
  | some h =>
    match encHalf D h with
    | none => { st with n := st.n + 1, exact := false }
    | some v => { st with n := st.n + 1, halves := st.halves + 1, acc := st.acc.push v }

structure Best2 where
  v : Int
  a : Vec
  b : Vec

def Best2.upd (o : Option Best2) (v : Int) (a b : Vec) : Option Best2 :=
  match o with
  | none => some ⟨v, a, b⟩
  | some b0 => if v < b0.v then some ⟨v, a, b⟩ else some b0

structure Scan2 where
  pairs : Nat := 0
  valid : Nat := 0
  bE : Option Best2 := none
  bL : Option Best2 := none
  bP : Option Best2 := none
  sE : Option Best2 := none
  sL : Option Best2 := none
  sP : Option Best2 := none
  acc : Acc := {}
  found : List (Vec × Vec × Vec) := []

/-- Peak bits (× D) per level of a pair. -/
def peakI (a b : HalfI) : List Int :=
  zipWith3 (fun sh i lo => sh + i + lo) (List.zipWith (· + ·) a.shared b.shared) a.inter
    (List.zipWith (fun x y => if x ≤ y then y else x) a.loc b.loc)

/-- Capacity in bits × D per level (`none` = infinite). -/
def capsI (s : SpecDesc) (D : Nat) : List (Option Rat) :=
  (List.range s.nLevels).map (fun l =>
    if s.infSize.getD l false then none else some ((s.arch.levels.getD l Level.dflt).size * (D : Rat)))

def fitsI (caps : List (Option Rat)) (peak : List Int) : Bool :=
  (List.zipWith (fun (c : Option Rat) (p : Int) => match c with | none => true | some c => decide ((p : Rat) ≤ c)) caps peak).all id

/-- Usage coordinates of the objective vector: peak bits × D of the finite memories, 0 for infinite ones. -/
def strictI (caps : List (Option Rat)) (peak : List Int) : Bool :=
  (List.zipWith (fun (c : Option Rat) (p : Int) => match c with | none => true | some c => decide ((p : Rat) < c)) caps peak).all id

def usageI (caps : List (Option Rat)) (peak : List Int) : List Int :=
  List.zipWith (fun (c : Option Rat) (p : Int) => match c with | none => 0 | some _ => p) caps peak

def scanPairs (caps : List (Option Rat)) (o : Objs) (want : List Vec) (A B : List HalfI) : Scan2 :=
  A.foldl (fun st a =>
    (B.filter (fun b => b.key == a.key)).foldl (fun st b =>
      let peak := peakI a b
      if !fitsI caps peak then { st with pairs := st.pairs + 1 } else
      let e := a.e + b.e
      let l := a.l + b.l
      let v : Vec := (if o.energy then [e] else []) ++ (if o.latency then [l] else []) ++
        (if o.usage then usageI caps peak else [])
      let st : Scan2 :=
        { st with
          pairs := st.pairs + 1
          valid := st.valid + 1
          bE := Best2.upd st.bE e a.raw b.raw
          bL := Best2.upd st.bL l a.raw b.raw
          bP := Best2.upd st.bP (e * l) a.raw b.raw
          acc := st.acc.push v }
      let st : Scan2 := if strictI caps peak then
          { st with
            sE := Best2.upd st.sE e a.raw b.raw
            sL := Best2.upd st.sL l a.raw b.raw
            sP := Best2.upd st.sP (e * l) a.raw b.raw }
        else st
      if want.contains v && !(st.found.any (fun p => p.1 == v)) then { st with found := (v, a.raw, b.raw) :: st.found }
      else st) st) {}

def best2Json (b : Option Best2) : Json :=
  match b with
  | none => Json.null
  | some b => Json.mkObj [("v", ofInt b.v), ("a", ofIntList b.a), ("b", ofIntList b.b)]

/-- First mapping of `all s` whose encoded half is `target`. -/
def findHalf (s : SpecDesc) (x : TId) (D : Nat) (target : Vec) : Option (Mapping Nat) :=
  foldAll s (fun (acc : Option (Mapping Nat)) m =>
    match acc with
    | some r => some r
    | none => match half s x m with
      | some h => if encHalf D h == some target then some m else none
      | none => none) none

def handle (req : Json) : Json :=
  match (field? req "op").bind getStr? with
  | some "count" =>
    match (field? req "spec").bind spec? with
    | some s => Json.mkObj [("n", ofNat (foldAll s (fun (a : Nat) _ => a + 1) 0)), ("choices", ofNat (choices s).length)]
    | none => err "malformed"
  | some "scan" =>
    match (field? req "spec").bind spec?, (field? req "objs").bind objs?, (field? req "D").bind getNat? with
    | some s, some o, some D =>
      let part : Nat × Nat := match (field? req "part").bind natList? with
        | some [i, k] => (i, k)
        | _ => (0, 1)
      let st := foldAllPart s part.1 part.2 (scanStep s o D (wantOf req)) ({} : Scan)
      Json.mkObj [
        ("n", ofNat st.n), ("valid", ofNat st.valid), ("unevaluable", ofNat st.uneval),
        ("best", Json.mkObj [("energy", bestJson st.bE), ("latency", bestJson st.bL), ("edp", bestJson st.bP)]),
        ("bestStrict", Json.mkObj [("energy", bestJson st.sE), ("latency", bestJson st.sL), ("edp", bestJson st.sP)]),
        ("exact", Json.bool st.exact),
        ("found", Json.arr (st.found.map (fun p => Json.mkObj [("v", ofIntList p.1), ("m", mappingJson p.2)])).toArray),
        ("front", if st.exact then rowsJson (frontFast st.acc.rows) else Json.null)]
    | _, _, _ => err "malformed"
  | some "eval" =>
    match (field? req "spec").bind spec?, (field? req "mapping").bind mapping? with
    | some s, some m =>
      let c := cost s m
      Json.mkObj [
        ("inSpace", Json.bool (inSpace s m)),
        ("clauses", clausesJson s m),
        ("cost", match c with | some c => costJson c | none => Json.null),
        ("fits", match c with | some c => Json.bool c.fits | none => Json.null)]
    | _, _ => err "malformed"
  | some "list" =>
    match (field? req "spec").bind spec?, (field? req "limit").bind getNat? with
    | some s, some n =>
      let ms := foldAll s (fun (a : List (Mapping Nat)) m => if a.length < n then m :: a else a) []
      Json.arr (ms.reverse.map mappingJson).toArray
    | _, _ => err "malformed"
  | some "scan2" =>
    match (field? req "spec0").bind spec?, (field? req "spec1").bind spec?, (field? req "x0").bind getNat?,
          (field? req "x1").bind getNat?, (field? req "objs").bind objs?, (field? req "D").bind getNat? with
    | some s0, some s1, some x0, some x1, some o, some D =>
      let h0 := foldAll s0 (scanHalf s0 x0 D) ({} : ScanH)
      let h1 := foldAll s1 (scanHalf s1 x1 D) ({} : ScanH)
      if !(h0.exact && h1.exact) then Json.mkObj [("exact", Json.bool false)] else
      let A := (canonFast h0.acc.rows).filterMap (decHalf s0.nLevels)
      let B := (canonFast h1.acc.rows).filterMap (decHalf s0.nLevels)
      let st := scanPairs (capsI s0 D) o (wantOf req) A B
      Json.mkObj [
        ("exact", Json.bool true),
        ("n0", ofNat h0.n), ("n1", ofNat h1.n), ("halves0", ofNat A.length), ("halves1", ofNat B.length),
        ("pairs", ofNat st.pairs), ("valid", ofNat st.valid),
        ("best", Json.mkObj [("energy", best2Json st.bE), ("latency", best2Json st.bL), ("edp", best2Json st.bP)]),
        ("bestStrict", Json.mkObj [("energy", best2Json st.sE), ("latency", best2Json st.sL), ("edp", best2Json st.sP)]),
        ("found", Json.arr (st.found.map (fun p =>
          Json.mkObj [("v", ofIntList p.1), ("a", ofIntList p.2.1), ("b", ofIntList p.2.2)])).toArray),
        ("front", rowsJson (frontFast st.acc.rows))]
    | _, _, _, _, _, _ => err "malformed"
  | some "find" =>
    match (field? req "spec").bind spec?, (field? req "x").bind getNat?, (field? req "D").bind getNat?,
          (field? req "half").bind intList? with
    | some s, some x, some D, some target =>
      match findHalf s x D target with
      | some m => mappingJson m
      | none => Json.null
    | _, _, _, _ => err "malformed"
  | some "half" =>
    match (field? req "spec").bind spec?, (field? req "x").bind getNat?, (field? req "D").bind getNat?,
          (field? req "mapping").bind mapping? with
    | some s, some x, some D, some m =>
      Json.mkObj [("inSpace", Json.bool (inSpace s m)), ("clauses", clausesJson s m),
        ("half", match half s x m with
          | some h => (match encHalf D h with | some v => ofIntList v | none => Json.str "inexact")
          | none => Json.null)]
    | _, _, _, _ => err "malformed"
  | _ => err "bad-op"

end AFV.Driver.C01
