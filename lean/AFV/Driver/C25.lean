import AFV.Driver.Proto
namespace AFV.Driver.C25
open Lean AFV.Proto

/-- Handler for property C25 requests (stub: not implemented yet). -/
def handle (_req : Json) : Json := err "unimplemented"

end AFV.Driver.C25
