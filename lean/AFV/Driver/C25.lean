import AFV.Driver.Proto
import AFV.Driver.ArchTreeJson
namespace AFV.Driver.C25
open Lean AFV.Proto AFV.ArchTree AFV.Driver.ArchTreeJson

/-- Which branches of the `_flatten` model a query exercises (evidence only). -/
def branches (c : String) : Nodes → List String
  | .nil => []
  | .leaf l r =>
      if l.compute then (if l.name == c then ["compute-hit"] else "compute-skip" :: branches c r)
      else "leaf" :: branches c r
  | .hier i r =>
      match flatten c i with
      | none => ["assert"]
      | some new => if hasCompute c new then "hier-break" :: branches c i
                    else "hier-continue" :: (branches c i ++ branches c r)
  | .fork i r =>
      if !find c i then "fork-skip" :: branches c r
      else "fork-enter" :: branches c i

def resultJson : FlatResult → Json
  | .ok p => Json.mkObj [("ok", leafNames p)]
  | .duplicateName => Json.mkObj [("exc", "duplicate")]
  | .assertion => Json.mkObj [("exc", "assertion")]
  | .empty => Json.mkObj [("exc", "empty")]
  | .notFound => Json.mkObj [("exc", "notfound")]

def one (t : Nodes) (c : String) : Json :=
  Json.mkObj [
    ("c", Json.str c),
    ("model", resultJson (getFlattened t c)),
    ("spec", match path t c with | some p => leafNames p | none => Json.null),
    ("branches", ofStrList (branches c t).eraseDups)]

/-- ops:
  {"op":"flatten","tree":tree,"c":name} → {"c","model":{"ok":[names]}|{"exc":kind},"spec":[names]|null,"branches":[…]}
  {"op":"all","tree":tree}              → {"wf":bool,"computes":[names],"paths":[one …]}   (document order of the computes) -/
def handle (req : Json) : Json :=
  match (field? req "op").bind getStr?, (field? req "tree").bind parseTree with
  | some "flatten", some t =>
    match (field? req "c").bind getStr? with
    | some c => one t c
    | none => err "malformed"
  | some "all", some t =>
    Json.mkObj [
      ("wf", Json.bool (!hasDup (names t))),
      ("computes", ofStrList (computeNames t)),
      ("paths", Json.arr ((computeNames t).map (one t)).toArray)]
  | some _, some _ => err "bad-op"
  | _, _ => err "malformed"

end AFV.Driver.C25
