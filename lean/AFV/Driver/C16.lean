import AFV.Driver.Proto
namespace AFV.Driver.C16
open Lean AFV.Proto

/-- exact ≤ approx·(1+slack)  and  approx ≤ exact·(1+t)·(1+slack), over exact integers. -/
def handle (req : Json) : Json :=
  match (field? req "op").bind getStr? with
  | some "within" =>
    match (field? req "exact").bind getInt?, (field? req "approx").bind getInt?, (field? req "t_num").bind getInt?,
          (field? req "t_den").bind getInt?, (field? req "slack_num").bind getInt?, (field? req "slack_den").bind getInt? with
    | some e, some a, some tn, some td, some sn, some sd =>
      if td > 0 && sd > 0 && tn ≥ 0 && sn ≥ 0 then
        let notBelow := e * sd ≤ a * (sd + sn)
        let within := a * td * sd ≤ e * (td + tn) * (sd + sn)
        Json.mkObj [("notBelow", Json.bool notBelow), ("withinBound", Json.bool within)]
      else err "malformed"
    | _, _, _, _, _, _ => err "malformed"
  | _ => err "bad-op"

end AFV.Driver.C16
