import AFV.Driver.Proto
import AFV.Model.Valid
namespace AFV.Driver.C03
open Lean AFV.Proto AFV.Valid

private def str? (j : Json) (k : String) : Option String := (field? j k).bind getStr?
private def nat? (j : Json) (k : String) : Option Nat := (field? j k).bind getNat?
private def strs? (j : Json) (k : String) : Option (List String) := (field? j k).bind strList?

def node? (j : Json) : Option Node := do
  match ← str? j "k" with
  | "storage" => pure (Node.storage (← str? j "comp") (← strs? j "tensors"))
  | "toll" => pure (Node.toll (← str? j "comp") (← strs? j "tensors"))
  | "loop" => pure (Node.loop (← str? j "rv") (← nat? j "tile"))
  | "spatial" => pure (Node.spatial (← str? j "rv") (← nat? j "tile") (← str? j "comp") (← str? j "dim"))
  | "compute" => pure (Node.compute (← str? j "comp") (← str? j "einsum"))
  | _ => none

def path? (j : Json) : Option Path := do
  let ns ← (field? j "nodes").bind getArr?
  pure ⟨← str? j "einsum", ← ns.toList.mapM node?⟩

def rank? (j : Json) : Option (String × Nat) := do
  let a ← getArr? j
  if a.size != 2 then none else pure (← getStr? a[0]!, ← getNat? a[1]!)

def einsum? (j : Json) : Option EinsumSpec := do
  let rs ← (field? j "ranks").bind getArr?
  pure ⟨← str? j "name", ← rs.toList.mapM rank?, ← strs? j "tensors"⟩

def keep? (j : Json) : Option Keep := do pure ⟨← str? j "einsum", ← str? j "comp", ← strs? j "tensors"⟩
def fanout? (j : Json) : Option Fanout := do pure ⟨← str? j "comp", ← str? j "dim", ← nat? j "fanout"⟩

def op? : String → Option Op
  | "==" => some .eq | "<=" => some .le | "<" => some .lt | ">=" => some .ge | ">" => some .gt
  | "product==" => some .peq | "product<=" => some .ple | "product<" => some .plt
  | "product>=" => some .pge | "product>" => some .pgt
  | _ => none

def lb? (j : Json) : Option LoopBound := do
  pure ⟨← str? j "comp", ← str? j "dim", ← strs? j "rvs", ← op? (← str? j "op"), ← nat? j "value"⟩

private def listOf? {α} (j : Json) (k : String) (f : Json → Option α) : Option (List α) := do
  let a ← (field? j k).bind getArr?
  a.toList.mapM f

/-- {"op":"failures", einsums, paths, keep, fanouts, loop_bounds} → list of failed check names (empty = valid);
    {"op":"chain","bound":b,"tiles":[…]} → {"ok":bool,"counts":[…]}. -/
def handle (req : Json) : Json :=
  match str? req "op" with
  | some "failures" =>
    match listOf? req "einsums" einsum?, listOf? req "paths" path?, listOf? req "keep" keep?,
          listOf? req "fanouts" fanout?, listOf? req "loop_bounds" lb? with
    | some es, some ps, some ks, some fs, some lbs => ofStrList (failures es ps ks fs lbs)
    | _, _, _, _, _ => err "malformed"
  | some "fused" =>
    match listOf? req "paths" path?, (field? req "shared").bind strList? with
    | some ps, some shared =>
      let mf := (field? req "max_fused").bind getNat?
      let mp := (field? req "max_per_rv").bind getNat?
      ofBoolList (ps.map (fusedLoopsOK shared mf mp))
    | _, _ => err "malformed"
  | some "tollNotOutermost" =>
    match listOf? req "paths" path?, (field? req "shared").bind strList? with
    | some ps, some shared => ofBoolList (ps.map (tollNotOutermost shared))
    | _, _ => err "malformed"
  | some "chain" =>
    match nat? req "bound", (field? req "tiles").bind natList? with
    | some b, some ts => Json.mkObj [("ok", Json.bool (chainOK b ts)), ("counts", ofNatList (counts b ts))]
    | _, _ => err "malformed"
  | _ => err "bad-op"

end AFV.Driver.C03
