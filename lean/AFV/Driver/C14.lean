import AFV.Driver.Proto
import AFV.Driver.C13
/-!
C14 uses the same judge as C13 (exact front of the singleton-join combinations, tolerance-aware comparison with what the staged
join returned); see `AFV/Driver/C13.lean` for the ops `front` and `check`.
-/
namespace AFV.Driver.C14
open Lean AFV.Proto

def handle (req : Json) : Json := AFV.Driver.C13.handle req

end AFV.Driver.C14
