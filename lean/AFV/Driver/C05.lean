import AFV.Driver.Proto
import AFV.Driver.NestJson
namespace AFV.Driver.C05
open Lean AFV.Proto AFV.Nest AFV.Driver.NestJson

/-- ops:
  {"op":"eval","arch":…,"workload":…,"mapping":…}
     → {"analytic": result|null, "oversubscribed": bool, "wf": bool, "exec": result}
  (formats in `AFV/Driver/NestJson.lean`) -/
def handle (req : Json) : Json :=
  match (field? req "op").bind getStr? with
  | some "eval" =>
    match (field? req "arch").bind arch?, (field? req "workload").bind workload?, (field? req "mapping").bind mapping? with
    | some arch, some (wq, wn), some m =>
      let an := analytic arch wq (castMapping m)
      let ex := AFV.NestExec.exec arch wq wn m
      Json.mkObj [
        ("analytic", match an with | some r => resultJson r | none => Json.null),
        ("oversubscribed", match an with | some r => Json.bool (r.oversubscribed arch) | none => Json.null),
        ("wf", Json.bool (WF arch wn m)),
        ("exec", execJson ex)]
    | _, _, _ => err "malformed"
  | _ => err "bad-op"

end AFV.Driver.C05
