import AFV.Driver.Proto
import AFV.Driver.NestJson
namespace AFV.Driver.C05
open Lean AFV.Proto AFV.Nest AFV.Driver.NestJson

/-- ops:
  {"op":"eval","arch":…,"workload":…,"mapping":…}
     → {"analytic": result|null, "oversubscribed": bool, "wf": bool, "exec": result}
  (formats in `AFV/Driver/NestJson.lean`) -/
def handle (req : Json) : Json :=
  match (field? req "op").bind getStr? with
  | some "eval" => evalReply req
  | _ => err "bad-op"

end AFV.Driver.C05
