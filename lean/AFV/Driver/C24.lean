import AFV.Driver.Proto
import AFV.Model.Geometry
namespace AFV.Driver.C24
open Lean AFV.Proto AFV.Geometry

private def box? (j : Json) : Option Box := do
  let a ← getArr? j
  a.toList.mapM (fun e => do
    let p ← getArr? e
    if p.size != 2 then none else
    let lo ← getInt? p[0]!
    let n ← getNat? p[1]!
    pure (lo, n))

private def aff? (j : Json) : Option Aff := do
  let cs ← (field? j "coeffs").bind intList?
  let c ← (field? j "const").bind getInt?
  pure ⟨cs, c⟩

private def affs? (j : Json) : Option (List Aff) := do
  let a ← getArr? j
  a.toList.mapM aff?

private def optNat : Option Nat → Json
  | none => Json.null
  | some n => ofNat n

/-- ops:
  {"op":"box","box":[[lo,n],…]}                         → bounds, ncomputes|null, card
  {"op":"tensor","images":[{"box":…,"proj":[aff…]},…]} → card of the data space, is_box, size|null, extents
  {"op":"access","box":…,"proj":[aff…],"tile":[t…]}    → per (rank, variable): stride/steps/halo code/halo spec; occupancy code/spec on the tile
  {"op":"interval","terms":[[a,n],…]}                   → closed-form interval condition vs enumeration -/
def handle (req : Json) : Json :=
  match (field? req "op").bind getStr? with
  | some "box" =>
    match (field? req "box").bind box? with
    | some b =>
      if b.any (fun e => e.2 == 0) then err "empty-box" else
      Json.mkObj [("bounds", ofNatList (rankVariableBounds b)), ("ncomputes", optNat (nComputes b)),
                  ("card", ofNat (points b).length)]
    | none => err "malformed"
  | some "tensor" =>
    match (field? req "images").bind getArr? with
    | some imgs =>
      match imgs.toList.mapM (fun j => do
          let b ← (field? j "box").bind box?
          let ps ← (field? j "proj").bind affs?
          pure (b, ps)) with
      | some l =>
        match l with
        | [] => err "malformed"
        | (b0, ps0) :: _ =>
          if l.any (fun e => e.1.any (fun x => x.2 == 0)) then err "empty-box" else
          if l.any (fun e => e.2.length != ps0.length) then err "malformed" else
          let _ := b0
          let dim := ps0.length
          let s := dataSpace (l.map (fun e => image e.2 e.1))
          if s.isEmpty then
            Json.mkObj [("card", ofNat 0), ("is_box", Json.bool false), ("size", Json.null), ("extents", ofNatList [])]
          else
            Json.mkObj [("card", ofNat s.length), ("is_box", Json.bool (isBox dim s)),
                        ("size", optNat (sizeOrError dim s)), ("extents", ofNatList (extents dim s))]
      | none => err "malformed"
    | none => err "malformed"
  | some "access" =>
    match (field? req "box").bind box?, (field? req "proj").bind affs?, (field? req "tile").bind natList? with
    | some b, some ps, some tile =>
      if b.any (fun e => e.2 == 0) || tile.any (· == 0) || tile.length != b.length then err "empty-box" else
      let shape := b.map (·.2)
      let nv := b.length
      let per := ps.map (fun p =>
        Json.arr ((List.range nv).map (fun k =>
          Json.mkObj [
            ("stride", ofInt (strideCode p k)),
            ("steps", ofIntList (dedup ((points b).map (fun x => stepSpec p x k)))),
            ("halo_code", ofInt (haloCode p shape k)),
            ("halo_spec", ofNat (haloSpec p b k)),
            ("halo_closed", ofNat (absSum p.coeffs (setN b k 1)))])).toArray)
      let tb := (b.zip tile).map (fun e => (e.1.1, e.2))
      Json.mkObj [("pairs", Json.arr per.toArray),
                  ("occ_code", ofInt (occCode ps tile)),
                  ("occ_spec", ofNat (occSpec ps tb)),
                  ("occ_image_bbox", ofNat (cardBox ps.length (image ps tb)))]
    | _, _, _ => err "malformed"
  | some "interval" =>
    match (field? req "terms").bind getArr? with
    | some ts =>
      match ts.toList.mapM (fun e => do
          let p ← natList? e
          match p with
          | [a, n] => some (a, n)
          | _ => none) with
      | some terms =>
        if terms.any (fun e => e.2 == 0) then err "empty-box" else
        let b : Box := terms.map (fun e => ((0 : Int), e.2))
        let p : Aff := ⟨terms.map (fun e => (e.1 : Int)), 0⟩
        let img := image [p] b
        Json.mkObj [("cond", Json.bool (intervalCond 0 terms)), ("is_box", Json.bool (isBox 1 img)), ("card", ofNat img.length)]
      | none => err "malformed"
    | none => err "malformed"
  | _ => err "bad-op"

end AFV.Driver.C24
