"""Fused mapping trees for property C06: generator, YAML rendering, driver requests, implementation runs.

A case is {"N": #Einsums, "n_levels", "M", "KN": [...], "bits": [[bits per tensor] per level], "sizes": [...], "ninst": n,
           "tree": T}  with  T = {"pre": [node…], "e": i} | {"pre": [node…], "bs": [T…]},
node = ["S", lvl, [tensor names], persistent] | ["L", rank variable name, tile].
Workload: a chain of N matrix multiplications  T{i+1}[m, n{i+1}] = T{i}[m, n{i}] * W{i}[n{i}, n{i+1}].
"""
from __future__ import annotations

import copy
from fractions import Fraction

DIVS = {n: [d for d in range(1, n + 1) if n % d == 0] for n in range(1, 65)}


def chain_wl(N, M, KN):
    rvs = ["m"] + [f"n{i}" for i in range(N + 1)]
    bounds = {"m": M, **{f"n{i}": KN[i] for i in range(N + 1)}}
    tensors = {}
    for i in range(N + 1):
        tensors[f"T{i}"] = ["m", f"n{i}"]
    for i in range(N):
        tensors[f"W{i}"] = [f"n{i}", f"n{i+1}"]
    einsums = [{"name": f"E{i}", "ins": [f"T{i}", f"W{i}"], "out": f"T{i+1}"} for i in range(N)]
    return {"kind": "chain", "rvs": rvs, "bounds": bounds, "tensors": tensors, "einsums": einsums}


def fork_wl(M, KN):
    rvs = ["m", "n0", "n1", "n2", "n3"]
    bounds = {"m": M, **{f"n{i}": KN[i] for i in range(4)}}
    tensors = {"T0": ["m", "n0"], "W0": ["n0", "n1"], "T1": ["m", "n1"], "W1": ["n1", "n2"], "T2": ["m", "n2"],
               "W2": ["n1", "n3"], "T3": ["m", "n3"]}
    einsums = [{"name": "E0", "ins": ["T0", "W0"], "out": "T1"}, {"name": "E1", "ins": ["T1", "W1"], "out": "T2"},
               {"name": "E2", "ins": ["T1", "W2"], "out": "T3"}]
    return {"kind": "fork", "rvs": rvs, "bounds": bounds, "tensors": tensors, "einsums": einsums}


def merge_wl(M, KN):
    rvs = ["m", "n0", "n1", "n2", "n3"]
    bounds = {"m": M, **{f"n{i}": KN[i] for i in range(4)}}
    tensors = {"A0": ["m", "n0"], "W0": ["n0", "n1"], "A1": ["m", "n1"], "B0": ["n1", "n2"], "W1": ["n2", "n3"],
               "B1": ["n1", "n3"], "C": ["m", "n3"]}
    einsums = [{"name": "E0", "ins": ["A0", "W0"], "out": "A1"}, {"name": "E1", "ins": ["B0", "W1"], "out": "B1"},
               {"name": "E2", "ins": ["A1", "B1"], "out": "C"}]
    return {"kind": "merge", "rvs": rvs, "bounds": bounds, "tensors": tensors, "einsums": einsums}


def tensors_of(wl, e):
    es = wl["einsums"][e]
    return list(es["ins"]) + [es["out"]]


def all_tensors(wl):
    return sorted(wl["tensors"])


def rvs_of(wl, t):
    return wl["tensors"][t]


def einsum_rvs(wl, e):
    out = []
    for t in tensors_of(wl, e):
        for r in rvs_of(wl, t):
            if r not in out:
                out.append(r)
    return out


# ------------------------------------------------------------------------------------------------ YAML

def arch_yaml(c):
    out = ["arch:\n  nodes:\n"]
    names = all_tensors(c["wl"])
    for i in range(c["n_levels"]):
        bpv = ", ".join(f"{t}: {c['bits'][i][k]}" for k, t in enumerate(names))
        out.append(f"  - !Memory\n    name: L{i}\n    size: {c['sizes'][i]}\n    leak_power: 0\n    area: 0\n"
                   f"    bits_per_value: {{{bpv}}}\n    tensors: {{keep: All, may_keep: All}}\n"
                   f"    actions:\n    - {{name: read, energy: 1, throughput: 1}}\n    - {{name: write, energy: 1, throughput: 1}}\n")
    out.append("  - !Compute\n    name: MAC\n    leak_power: 0\n    area: 0\n    actions:\n    - {name: compute, energy: 1, throughput: 1}\n")
    return "".join(out)


def workload_yaml(c):
    wl = c["wl"]
    out = [f"workload:\n  n_instances: {c.get('ninst', 1)}\n  iteration_space_shape:\n"]
    for r in wl["rvs"]:
        out.append(f"    {r}: 0 <= {r} < {wl['bounds'][r]}\n")
    out.append("  bits_per_value: {All: 8}\n  einsums:\n")
    for es in wl["einsums"]:
        out.append(f"  - name: {es['name']}\n    tensor_accesses:\n")
        for t in es["ins"]:
            out.append(f"    - {{name: {t}, projection: [{', '.join(wl['tensors'][t])}]}}\n")
        out.append(f"    - {{name: {es['out']}, projection: [{', '.join(wl['tensors'][es['out']])}], output: True}}\n")
    return "".join(out)


def node_yaml(n, ind):
    if n[0] == "S":
        p = ", persistent: true" if n[3] else ""
        return f"{ind}- !Storage {{tensors: [{', '.join(n[2])}], component: L{n[1]}{p}}}\n"
    return f"{ind}- !Temporal {{rank_variable: {n[1]}, tile_shape: {n[2]}}}\n"


def tree_yaml(tree, ind="  "):
    out = [node_yaml(n, ind) for n in tree["pre"]]
    if "e" in tree:
        out.append(f"{ind}- !Compute {{einsum: E{tree['e']}, component: MAC}}\n")
    else:
        out.append(f"{ind}- !Sequential\n{ind}  nodes:\n")
        for b in tree["bs"]:
            out.append(f"{ind}  - !Nested\n{ind}    nodes:\n")
            out.append(tree_yaml(b, ind + "    "))
    return "".join(out)


def case_yaml(c):
    return arch_yaml(c) + workload_yaml(c) + "mapping:\n  nodes:\n" + tree_yaml(c["tree"])


# ------------------------------------------------------------------------------------------------ driver request

def driver_req(c):
    wl = c["wl"]
    names = all_tensors(wl)
    rvn = wl["rvs"]
    tid = {t: i for i, t in enumerate(names)}
    rid = {r: i for i, r in enumerate(rvn)}
    counter = [0]

    def conv(tree):
        pre = []
        for n in tree["pre"]:
            counter[0] += 1
            if n[0] == "S":
                pre.append(["S", counter[0], n[1], [tid[t] for t in n[2]], bool(n[3])])
            else:
                pre.append(["L", counter[0], rid[n[1]], n[2]])
        if "e" in tree:
            return {"pre": pre, "e": tree["e"]}
        return {"pre": pre, "bs": [conv(b) for b in tree["bs"]]}

    w = {"bounds": [wl["bounds"][r] for r in rvn],
         "einsums": [[tid[t] for t in tensors_of(wl, e)] for e in range(len(wl["einsums"]))],
         "tensorRvs": [[rid[r] for r in rvs_of(wl, t)] for t in names],
         "bits": [[int(b) for b in row] for row in c["bits"]],
         "ninst": c.get("ninst", 1)}
    return {"op": "peak", "workload": w, "tree": conv(c["tree"]), "levels": c["n_levels"]}


# ------------------------------------------------------------------------------------------------ implementation

def run_impl(c, path="fused_case.yaml"):
    """(usage fraction per memory name, error)"""
    import logging
    import warnings
    from harness import nestlib as N

    mods = N.impl_modules()
    with open(path, "w") as f:
        f.write(case_yaml(c))
    logging.disable(logging.CRITICAL)
    try:
        with warnings.catch_warnings():
            warnings.simplefilter("ignore")
            spec = mods["spec"].Spec.from_yaml(path)
            r = mods["main"].evaluate_mapping(spec)
        return {k: v for k, v in r.resource_usage().items()}, None
    except Exception as e:
        return None, (type(e).__name__, str(e)[:300])
    finally:
        logging.disable(logging.NOTSET)


# ------------------------------------------------------------------------------------------------ generator

def chain(rng, cur, maxloops=2):
    if cur == 1:
        return [] if rng.random() < 0.7 else [1]
    k = rng.choice([1, 2]) if maxloops >= 2 else 1
    tiles = []
    for _ in range(k - 1):
        d = rng.choice(DIVS[cur])
        tiles.append(d)
        cur = d
    tiles.append(1)
    return tiles


def gen_leaf(rng, wl, e, shape, n_levels, held):
    rvs = einsum_rvs(wl, e)
    items = []
    for t in tensors_of(wl, e):
        lv = []
        if t not in held["t"]:
            lv.append(0)
        lv += [l for l in range(1, n_levels) if rng.random() < 0.6 and (l, t) not in held["p"]]
        if rng.random() < 0.15 and len(lv) > 1:
            first = lv[0]
            tail = lv[1:]
            rng.shuffle(tail)
            lv = [first] + tail
        items.append([("S", l, t) for l in lv])
    loops = [[("L", r, s) for s in chain(rng, shape[r])] for r in rvs]
    seqs = [s for s in items + loops if s]
    idx = [0] * len(seqs)
    out = []
    rem = sum(len(s) for s in seqs)
    while rem:
        k = rng.choices(range(len(seqs)), weights=[len(s) - i for s, i in zip(seqs, idx)])[0]
        it = seqs[k][idx[k]]
        idx[k] += 1
        rem -= 1
        if it[0] == "S":
            if out and out[-1][0] == "S" and out[-1][1] == it[1] and it[2] not in out[-1][2] and rng.random() < 0.4:
                out[-1][2].append(it[2])
            else:
                out.append(["S", it[1], [it[2]], False])
        else:
            out.append(["L", it[1], it[2]])
    return {"pre": out, "e": e}


def gen_prefix(rng, shape, n_levels, held, shared_rvs, inters, others, top, persistent_ok, fused=True):
    """[holders above the loops] shared loops [backing holders of the intermediates exchanged below] [other holders].
    fused=False puts the intermediates' backing holders ABOVE the shared loops (the loops are then shared in the tree but not
    fused in the sense of the joiner)."""
    pre = []

    def hold(lv, ts, pers=False):
        pre.append(["S", lv, list(ts), pers])
        for t in ts:
            held["t"].add(t)
            held["p"].add((lv, t))

    if top:
        ts = [t for t in others if rng.random() < 0.8]
        if ts:
            pers = persistent_ok and rng.random() < 0.3
            if pers:
                k = rng.randint(1, len(ts))
                hold(0, ts[:k], True)
                if ts[k:]:
                    hold(0, ts[k:])
            else:
                hold(0, ts)
    else:
        for t in others:
            if rng.random() < 0.25:
                lv = 0 if t not in held["t"] else rng.choice(range(1, n_levels))
                if (lv, t) not in held["p"]:
                    hold(lv, [t])
    if inters:
        if not fused:
            for t in inters:
                hold(rng.choice(range(n_levels)), [t])
        for r in shared_rvs:
            if rng.random() < (0.6 if fused else 0.9):
                d = rng.choice(DIVS[shape[r]])
                pre.append(["L", r, d])
                shape[r] = d
                if rng.random() < 0.25:
                    d2 = rng.choice(DIVS[shape[r]])
                    pre.append(["L", r, d2])
                    shape[r] = d2
        if fused:
            for t in inters:
                hold(rng.choice(range(n_levels)), [t])
        for t in others + inters:
            if rng.random() < 0.2:
                lv = 0 if t not in held["t"] else rng.choice(range(1, n_levels))
                if (lv, t) not in held["p"]:
                    hold(lv, [t])
    return pre


def shared_rvs_of(wl, es):
    rv = None
    for e in es:
        s = set(einsum_rvs(wl, e))
        rv = s if rv is None else (rv & s)
    return [r for r in wl["rvs"] if r in rv]


def gen_tree(rng, wl, n_levels, persistent_ok=True, fused=True):
    shape = dict(wl["bounds"])
    held = {"t": set(), "p": set()}
    NE = len(wl["einsums"])
    allt = all_tensors(wl)
    outs = {es["out"] for es in wl["einsums"]}
    inter = [t for t in allt if t in outs and any(t in es["ins"] for es in wl["einsums"])]
    others = [t for t in allt if t not in inter]

    def users(t):
        return [e for e in range(NE) if t in tensors_of(wl, e)]

    if NE == 1:
        pre = gen_prefix(rng, shape, n_levels, held, [], [], others, True, persistent_ok)
        leaf = gen_leaf(rng, wl, 0, shape, n_levels, held)
        return {"pre": pre + leaf["pre"], "e": 0}, "single"
    if NE == 2:
        pre = gen_prefix(rng, shape, n_levels, held, shared_rvs_of(wl, [0, 1]), inter, others, True, persistent_ok, fused)
        return {"pre": pre, "bs": [gen_leaf(rng, wl, e, shape, n_levels, held) for e in range(2)]}, "pair"
    mode = rng.choice(["flat", "left", "right"])
    if mode == "flat":
        pre = gen_prefix(rng, shape, n_levels, held, shared_rvs_of(wl, [0, 1, 2]), inter, others, True, persistent_ok, fused)
        return {"pre": pre, "bs": [gen_leaf(rng, wl, e, shape, n_levels, held) for e in range(3)]}, mode
    grp = [0, 1] if mode == "left" else [1, 2]
    # intermediates exchanged only inside the inner group are backed in the inner prefix, the others in the outer one
    inner_int = [t for t in inter if set(users(t)) <= set(grp)]
    outer_int = [t for t in inter if t not in inner_int]
    pre = gen_prefix(rng, shape, n_levels, held, shared_rvs_of(wl, [0, 1, 2]), outer_int, others, True, persistent_ok, fused)
    sh2 = dict(shape)
    inner_others = [t for t in others if set(users(t)) <= set(grp)]
    ipre = gen_prefix(rng, sh2, n_levels, held, shared_rvs_of(wl, grp), inner_int, inner_others, False, False, fused)
    inner = {"pre": ipre, "bs": [gen_leaf(rng, wl, e, sh2, n_levels, held) for e in grp]}
    rest = [e for e in range(3) if e not in grp][0]
    if mode == "left":
        return {"pre": pre, "bs": [inner, gen_leaf(rng, wl, rest, shape, n_levels, held)]}, mode
    return {"pre": pre, "bs": [gen_leaf(rng, wl, rest, shape, n_levels, held), inner]}, mode


def gen_case(rng, N=None, kind=None, persistent_ok=True, fused=True):
    kind = kind or rng.choice(["chain", "chain", "chain", "fork", "merge"])
    M = rng.choice([1, 2, 4])
    if kind == "chain":
        N = N or rng.choice([1, 2, 2, 2, 3, 3])
        KN = [rng.choice([1, 2, 3, 4]) for _ in range(N + 1)]
        wl = chain_wl(N, M, KN)
    elif kind == "fork":
        wl = fork_wl(M, [rng.choice([1, 2, 3]) for _ in range(4)])
    else:
        wl = merge_wl(M, [rng.choice([1, 2, 3]) for _ in range(4)])
    n_levels = rng.choice([2, 3])
    tree, mode = gen_tree(rng, wl, n_levels, persistent_ok, fused)
    nt = len(wl["tensors"])
    bits = [[rng.choice([8, 8, 4, 16]) for _ in range(nt)] for _ in range(n_levels)]
    return {"wl": wl, "n_levels": n_levels, "bits": bits, "tree": tree, "mode": mode,
            "sizes": [1 << 30] * n_levels, "ninst": rng.choice([1, 1, 2, 3])}


def tree_features(tree, depth=0, shared_loop_above=False):
    feats = set()
    if "bs" in tree:
        loops = [n for n in tree["pre"] if n[0] == "L"]
        if loops:
            feats.add("shared-loops")
            if any(True for n in loops):
                pass
        seen_loop = False
        for n in tree["pre"]:
            if n[0] == "L":
                seen_loop = True
            elif n[0] == "S":
                if seen_loop:
                    feats.add("prefix-holder-below-shared-loop")
                if n[3]:
                    feats.add("persistent")
        if depth > 0:
            feats.add("nested-sequential")
        for b in tree["bs"]:
            feats |= tree_features(b, depth + 1, shared_loop_above or bool(loops))
    else:
        seen_loop = False
        for n in tree["pre"]:
            if n[0] == "L":
                seen_loop = True
            elif seen_loop:
                feats.add("branch-holder-below-loop")
            if n[0] == "S" and n[3]:
                feats.add("persistent")
    return feats


# ------------------------------------------------------------------------------------------------ mapper exports

LEVEL_NAMES = {2: ["MainMemory", "GlobalBuffer"], 3: ["MainMemory", "GlobalBuffer", "LocalBuffer"]}


def case_from_export(params, export):
    """A mapping exported by harness/mapperlib.export_mapping for a matmul-chain spec → a case for the C06 reference.
    Returns None when the export contains something outside the fragment (spatial loops, Tolls, pipelines)."""
    wlp = params["workload"]
    if wlp.get("kind") != "matmuls":
        return None
    N = wlp["N_EINSUMS"]
    wl = chain_wl(N, wlp["M"], [wlp["KN"]] * (N + 1))
    names = LEVEL_NAMES[params["levels"]]
    ok = [True]

    def conv_nodes(nodes):
        """list of export nodes → tree"""
        pre = []
        for i, n in enumerate(nodes):
            if "storage" in n:
                if n["storage"] not in names:
                    ok[0] = False
                    return None
                pre.append(["S", names.index(n["storage"]), list(n["tensors"]), False])
            elif "loop" in n:
                pre.append(["L", n["loop"], int(n["tile"])])
            elif "compute" in n:
                e = int(str(n["einsum"]).replace("Matmul", ""))
                return {"pre": pre, "e": e}
            elif "seq" in n:
                bs = []
                for b in n["seq"]:
                    t = conv_nodes(b["nest"] if "nest" in b else [b])
                    if t is None:
                        return None
                    bs.append(t)
                return {"pre": pre, "bs": bs}
            else:
                ok[0] = False
                return None
        ok[0] = False
        return None

    tree = conv_nodes(export["nest"] if "nest" in export else [export])
    if tree is None or not ok[0]:
        return None
    sizes = [None, params["glb_size"] if params["glb_size"] != "inf" else None]
    if params["levels"] == 3:
        sizes.append(params["lb_size"] if params["lb_size"] != "inf" else None)
    nt = len(wl["tensors"])
    return {"wl": wl, "n_levels": params["levels"], "bits": [[params["bits"]] * nt for _ in names], "tree": tree, "mode": "mapper",
            "sizes": sizes, "ninst": 1, "level_names": names}
