"""Shared helpers for the L2 `Nest` cost-model checks (C05, C06-single, C07, C19, C31).

A *case* is a JSON-able dict
  {"arch": {"levels": [level…], "compute": {...}}, "workload": {"bounds": [...], "tensors": [...], "ninst": n},
   "mapping": [["S", lvl, [tids], lower] | ["T", lvl, [tids], lower] | ["L", rv, tile] | ["C"]]}
in exactly the format of the Lean driver (`AFV/Driver/NestJson.lean`); rationals are ints or [num, den].

This module
  * generates cases (structured, seeded),
  * renders a case as accelforge YAML (arch with explicit per-action energy / throughput so that no external
    component model is needed), loads it with `Spec.from_yaml` and runs `evaluate_mapping` of the CURRENT tree,
    capturing what `run_model` returned (exact Python numbers) as well as the final `Mappings` table,
  * compares the implementation with the Lean results.
"""
from __future__ import annotations

import itertools
import math
import os
from fractions import Fraction

SEP = "<SEP>"

# ----------------------------------------------------------------------------------------------- rationals


def q2frac(q) -> Fraction:
    if isinstance(q, (list, tuple)):
        return Fraction(int(q[0]), int(q[1]))
    return Fraction(int(q))


def frac2q(f: Fraction):
    f = Fraction(f)
    return int(f.numerator) if f.denominator == 1 else [int(f.numerator), int(f.denominator)]


def is_dyadic(f: Fraction) -> bool:
    d = Fraction(f).denominator
    return d & (d - 1) == 0


def is_pow2(f: Fraction) -> bool:
    f = Fraction(f)
    if f <= 0:
        return False
    n, d = f.numerator, f.denominator
    return (n & (n - 1) == 0) and (d & (d - 1) == 0)


def yaml_num(q) -> str:
    f = q2frac(q)
    if f.denominator == 1:
        return str(f.numerator)
    return repr(f.numerator / f.denominator)


def py2frac(v) -> Fraction:
    """Exact value of a number produced by the implementation (int, float, numpy, sympy, symengine)."""
    import numbers

    if isinstance(v, bool):
        return Fraction(int(v))
    if isinstance(v, numbers.Integral):
        return Fraction(int(v))
    if isinstance(v, numbers.Real):
        return Fraction(float(v))
    try:
        import sympy

        s = sympy.sympify(v)
        if s.is_Integer:
            return Fraction(int(s))
        if s.is_Rational:
            return Fraction(int(s.p), int(s.q))
        return Fraction(float(s))
    except Exception:
        return Fraction(float(v))


# ----------------------------------------------------------------------------------------------- names

def lname(i):
    return f"L{i}"


def tname(i):
    return f"T{i}"


def rname(i):
    return f"r{i}"


EINSUM = "E"
COMPUTE = "MAC"

# ----------------------------------------------------------------------------------------------- YAML


def _act_yaml(name, a):
    parts = [f"name: {name}", f"energy: {yaml_num(a['e'])}", f"throughput: {yaml_num(a['thr'])}"]
    if a.get("bpa") is not None:
        parts.append(f"bits_per_action: {yaml_num(a['bpa'])}")
    if a.get("vpa"):
        parts.append("values_per_action: {" + ", ".join(f"{tname(t)}: {yaml_num(v)}" for t, v in a["vpa"]) + "}")
    return "    - {" + ", ".join(parts) + "}\n"


def case_to_yaml(case) -> str:
    arch, wl, mp = case["arch"], case["workload"], case["mapping"]
    out = ["arch:\n  nodes:\n"]
    ntens = len(wl["tensors"])
    for i, lv in enumerate(arch["levels"]):
        kind = "Toll" if lv["toll"] else "Memory"
        out.append(f"  - !{kind}\n    name: {lname(i)}\n")
        if not lv["toll"]:
            out.append(f"    size: {yaml_num(lv['size'])}\n")
            out.append(f"    skip_initial_output_write: {'true' if lv['skip'] else 'false'}\n")
        else:
            d = dict((t, s) for t, s in lv["dir"])
            out.append("    direction: {" + ", ".join(f"{tname(t)}: {d.get(t, 'up_and_down')}" for t in range(ntens)) + "}\n")
        out.append(f"    leak_power: {yaml_num(lv['leak'])}\n    area: 0\n")
        if q2frac(lv["ascale"]) != 1:
            out.append(f"    actions_scale: {yaml_num(lv['ascale'])}\n")
        if lv["bpv"]:
            out.append("    bits_per_value: {" + ", ".join(f"{tname(t)}: {yaml_num(v)}" for t, v in lv["bpv"]) + "}\n")
        if lv.get("bpa") is not None:
            out.append(f"    bits_per_action: {yaml_num(lv['bpa'])}\n")
        if lv["vpa"]:
            out.append("    values_per_action: {" + ", ".join(f"{tname(t)}: {yaml_num(v)}" for t, v in lv["vpa"]) + "}\n")
        out.append("    tensors: {keep: All, may_keep: All}\n")
        out.append("    actions:\n")
        out.append(_act_yaml("read", lv["read"]))
        if not lv["toll"]:
            out.append(_act_yaml("write", lv["write"]))
    c = arch["compute"]
    out.append(f"  - !Compute\n    name: {COMPUTE}\n    leak_power: {yaml_num(c['leak'])}\n    area: 0\n")
    out.append(f"    skip_initial_output_write: {'true' if c['skip'] else 'false'}\n")
    if q2frac(c["ascale"]) != 1:
        out.append(f"    actions_scale: {yaml_num(c['ascale'])}\n")
    out.append(f"    actions:\n    - {{name: compute, energy: {yaml_num(c['e'])}, throughput: {yaml_num(c['thr'])}}}\n")
    # workload
    out.append("workload:\n  iteration_space_shape:\n")
    for i, b in enumerate(wl["bounds"]):
        out.append(f"    {rname(i)}: 0 <= {rname(i)} < {b}\n")
    if q2frac(wl["ninst"]) != 1:
        out.append(f"  n_instances: {yaml_num(wl['ninst'])}\n")
    out.append("  bits_per_value: {" + ", ".join(f"{tname(t)}: {yaml_num(ts['bpv'])}" for t, ts in enumerate(wl["tensors"])) + "}\n")
    out.append(f"  einsums:\n  - name: {EINSUM}\n    tensor_accesses:\n")
    for t, ts in enumerate(wl["tensors"]):
        proj = ", ".join(rname(r) for r in ts["rvs"])
        out.append(f"    - {{name: {tname(t)}, projection: [{proj}]" + (", output: True" if ts["out"] else "") + "}\n")
    # mapping
    out.append("mapping:\n  nodes:\n")
    for n in mp:
        if n[0] in ("S", "T"):
            kind = "Storage" if n[0] == "S" else "Toll"
            out.append(f"  - !{kind} {{tensors: [{', '.join(tname(t) for t in n[2])}], component: {lname(n[1])}}}\n")
        elif n[0] == "L":
            out.append(f"  - !Temporal {{rank_variable: {rname(n[1])}, tile_shape: {n[2]}}}\n")
        else:
            out.append(f"  - !Compute {{einsum: {EINSUM}, component: {COMPUTE}}}\n")
    return "".join(out)


# ----------------------------------------------------------------------------------------------- running the implementation

class ImplRun:
    """Outcome of evaluate_mapping on a case."""

    def __init__(self):
        self.error = None  # (type name, message) if an exception escaped
        self.df = None  # dict returned by run_model (exact python numbers), before evaluate_mapping post-processing
        self.per_memory_usage = None
        self.final = None  # dict column -> value of the single row of Mappings.data


_IMPL = {}


def impl_modules():
    if not _IMPL:
        import importlib

        _IMPL["spec"] = importlib.import_module("accelforge.frontend.spec")
        _IMPL["main"] = importlib.import_module("accelforge.model.main")
        _IMPL["run_model"] = importlib.import_module("accelforge.model.run_model")
        par = importlib.import_module("accelforge.util.parallel")
        par.set_n_parallel_jobs(1)
    return _IMPL


def run_impl(case, yaml_path="case.yaml", lower_flags=None) -> ImplRun:
    """Render, load and evaluate with the current tree.  `lower_flags`: optional list (one per mapping node,
    None for non-holders) to set TensorHolder._lower programmatically (not expressible in YAML)."""
    import logging
    import warnings

    mods = impl_modules()
    res = ImplRun()
    with open(yaml_path, "w") as f:
        f.write(case_to_yaml(case))
    rm = mods["run_model"]
    orig = rm.run_model
    captured = []

    def wrapper(job, *a, **k):
        out = orig(job, *a, **k)
        captured.append((dict(out[1]), dict(out[2])))  # copies: evaluate_mapping mutates df afterwards
        return out

    rm.run_model = wrapper
    logging.disable(logging.CRITICAL)
    try:
        with warnings.catch_warnings():
            warnings.simplefilter("ignore")
            spec = mods["spec"].Spec.from_yaml(yaml_path)
            if lower_flags is not None:
                for node, fl in zip(spec.mapping.nodes, lower_flags):
                    if fl is not None:
                        node._lower = fl
            out = mods["main"].evaluate_mapping(spec)
        res.final = {c: out.data[c].iloc[0] for c in out.data.columns}
    except Exception as e:  # observable outcome
        res.error = (type(e).__name__, str(e)[:400])
    finally:
        rm.run_model = orig
        logging.disable(logging.NOTSET)
    if captured:
        res.df, res.per_memory_usage = captured[-1]
    return res


# ----------------------------------------------------------------------------------------------- comparison

def case_is_exact(case) -> bool:
    """All scale factors the implementation multiplies/divides by in float64 are powers of two and all
    other numbers are dyadic with small numerators: the float computation is then exact."""
    arch, wl = case["arch"], case["workload"]
    for ts in wl["tensors"]:
        if not is_pow2(q2frac(ts["bpv"])):
            return False
    for lv in arch["levels"]:
        for _, v in lv["bpv"] + lv["vpa"] + lv["read"].get("vpa", []) + lv["write"].get("vpa", []):
            if not is_pow2(q2frac(v)):
                return False
        for b in (lv.get("bpa"), lv["read"].get("bpa"), lv["write"].get("bpa")):
            if b is not None and not is_pow2(q2frac(b)):
                return False
        for x in (lv["read"]["thr"], lv["write"]["thr"]):
            if not is_pow2(q2frac(x)):
                return False
        for x in (lv["size"],):
            if not is_pow2(q2frac(x)):
                return False
        for x in (lv["leak"], lv["ascale"], lv["read"]["e"], lv["write"]["e"]):
            if not is_dyadic(q2frac(x)):
                return False
    c = arch["compute"]
    if not is_pow2(q2frac(c["thr"])):
        return False
    for x in (c["e"], c["leak"], c["ascale"]):
        if not is_dyadic(q2frac(x)):
            return False
    return True


def close(a: Fraction, b: Fraction, tol: float) -> bool:
    if a == b:
        return True
    if tol <= 0:
        return False
    m = max(abs(a), abs(b))
    return abs(a - b) <= tol * m


def expected_columns(lean_res, case, prefix=""):
    """Map df column name -> Fraction expected from a Lean `Result` (analytic) JSON."""
    exp = {}
    for l, t, r, w in lean_res["actions"]:
        exp[f"{prefix}action{SEP}{lname(l)}{SEP}{tname(t)}{SEP}read"] = q2frac(r)
        exp[f"{prefix}action{SEP}{lname(l)}{SEP}{tname(t)}{SEP}write"] = q2frac(w)
    exp[f"{prefix}action{SEP}{COMPUTE}{SEP}None{SEP}compute"] = q2frac(lean_res["computes"])
    for l, t, r, w in lean_res["energies"]:
        # the implementation omits energy entries whose count is 0
        exp[f"{prefix}energy{SEP}{lname(l)}{SEP}{tname(t)}{SEP}read"] = q2frac(r)
        exp[f"{prefix}energy{SEP}{lname(l)}{SEP}{tname(t)}{SEP}write"] = q2frac(w)
    exp[f"{prefix}energy{SEP}{COMPUTE}{SEP}None{SEP}compute"] = q2frac(lean_res["computeEnergy"])
    for l, v in enumerate(lean_res["leaks"]):
        exp[f"{prefix}energy{SEP}{lname(l)}{SEP}leak"] = q2frac(v)
    exp[f"{prefix}energy{SEP}{COMPUTE}{SEP}leak"] = q2frac(lean_res["computeLeak"])
    for l, v in lean_res["latencies"]:
        exp[f"{prefix}latency{SEP}{lname(l)}"] = q2frac(v)
    exp[f"{prefix}latency{SEP}{COMPUTE}"] = q2frac(lean_res["computeLatency"])
    for l, t, v in lean_res["usage"]:
        exp[f"{prefix}usage{SEP}memory{SEP}{lname(l)}{SEP}{tname(t)}"] = q2frac(v)
    return exp


def compare_df(df: dict, pmu: dict, lean_res, case, tol: float):
    """Compare run_model's df with a Lean analytic Result.  Returns list of (column, impl, lean)."""
    diffs = []
    exp = expected_columns(lean_res, case)
    exp[f"Total{SEP}latency"] = q2frac(lean_res["totalLatency"])
    exp[f"Total{SEP}dynamic_energy"] = q2frac(lean_res["dynamicEnergy"])
    exp[f"Total{SEP}leak_energy"] = q2frac(lean_res["leakEnergy"])
    for l, n, v in lean_res["reservations"]:
        exp[f"reservation{SEP}{lname(l)}{SEP}{n}{SEP}right"] = q2frac(v)
    seen = set()
    for col, want in exp.items():
        if col not in df:
            # energy entries are omitted when the count is zero
            if col.startswith("energy") and want == 0:
                continue
            diffs.append((col, "missing", str(want)))
            continue
        seen.add(col)
        got = py2frac(df[col])
        if not close(got, want, tol):
            diffs.append((col, str(got), str(want)))
    for col in df:
        if col in seen:
            continue
        head = col.split(SEP)[0]
        if head in ("action", "energy", "latency", "usage", "reservation", "Total"):
            if col.startswith(f"usage{SEP}spatial"):
                continue
            diffs.append((col, str(df[col]), "absent-in-model"))
    want_mu = {f"usage{SEP}memory{SEP}{lname(l)}": q2frac(v) for l, v in lean_res["memUsage"]}
    for col, want in want_mu.items():
        if col not in pmu:
            diffs.append((col, "missing", str(want)))
        elif not close(py2frac(pmu[col]), want, tol):
            diffs.append((col, str(py2frac(pmu[col])), str(want)))
    for col in pmu:
        if col not in want_mu:
            diffs.append((col, str(pmu[col]), "absent-in-model"))
    return diffs


def compare_final(final: dict, lean_res, case, tol: float):
    """Compare the final Mappings row of evaluate_mapping with a Lean analytic Result."""
    diffs = []
    exp = expected_columns(lean_res, case, prefix=f"{EINSUM}{SEP}")
    exp[f"Total{SEP}latency"] = q2frac(lean_res["totalLatency"])
    exp[f"Total{SEP}energy"] = q2frac(lean_res["totalEnergy"])
    for l, v in lean_res["memUsage"]:
        exp[f"reservation{SEP}{lname(l)}{SEP}-1{SEP}right"] = q2frac(v)
    for col, want in exp.items():
        if col not in final:
            if SEP + "energy" + SEP in col and want == 0:
                continue
            diffs.append((col, "missing", str(want)))
            continue
        try:
            got = py2frac(final[col])
        except Exception:
            diffs.append((col, repr(final[col]), str(want)))
            continue
        if not close(got, want, tol):
            diffs.append((col, str(got), str(want)))
    return diffs


def compare_exec(an, ex, tol=0.0):
    """Lean analytic vs Lean exec (both exact rationals): counts, computes, latency, energy."""
    diffs = []
    a_act = {(l, t): (q2frac(r), q2frac(w)) for l, t, r, w in an["actions"]}
    e_act = {(l, t): (q2frac(r), q2frac(w)) for l, t, r, w in ex["actions"]}
    for k in sorted(set(a_act) | set(e_act)):
        if a_act.get(k) != e_act.get(k):
            diffs.append((f"actions{k}", str(a_act.get(k)), str(e_act.get(k))))
    for f in ("computes", "computeLatency", "totalLatency", "dynamicEnergy", "leakEnergy", "totalEnergy"):
        if q2frac(an[f]) != q2frac(ex[f]):
            diffs.append((f, str(q2frac(an[f])), str(q2frac(ex[f]))))
    a_lat = {l: q2frac(v) for l, v in an["latencies"]}
    e_lat = {l: q2frac(v) for l, v in ex["latencies"]}
    if a_lat != e_lat:
        diffs.append(("latencies", str(a_lat), str(e_lat)))
    return diffs


def exec_expected_columns(ex):
    """Columns (of run_model's df) determined by the Lean reference execution."""
    exp = {}
    for l, t, r, w in ex["actions"]:
        exp[f"action{SEP}{lname(l)}{SEP}{tname(t)}{SEP}read"] = q2frac(r)
        exp[f"action{SEP}{lname(l)}{SEP}{tname(t)}{SEP}write"] = q2frac(w)
    exp[f"action{SEP}{COMPUTE}{SEP}None{SEP}compute"] = q2frac(ex["computes"])
    for l, v in ex["latencies"]:
        exp[f"latency{SEP}{lname(l)}"] = q2frac(v)
    exp[f"latency{SEP}{COMPUTE}"] = q2frac(ex["computeLatency"])
    exp[f"Total{SEP}latency"] = q2frac(ex["totalLatency"])
    exp[f"Total{SEP}dynamic_energy"] = q2frac(ex["dynamicEnergy"])
    exp[f"Total{SEP}leak_energy"] = q2frac(ex["leakEnergy"])
    return exp


def compare_impl_exec(df: dict, ex, tol: float):
    diffs = []
    for col, want in exec_expected_columns(ex).items():
        if col not in df:
            diffs.append((col, "missing", str(want)))
            continue
        got = py2frac(df[col])
        if not close(got, want, tol):
            diffs.append((col, str(got), str(want)))
    return diffs


# ----------------------------------------------------------------------------------------------- generation

EINSUMS = {
    # name: (n rank vars, [(rvs, is_output)])
    "matmul": (3, [([0, 1], False), ([1, 2], False), ([0, 2], True)]),
    "matmul_t": (3, [([1, 0], False), ([2, 1], False), ([2, 0], True)]),
    "matvec": (2, [([0, 1], False), ([1], False), ([0], True)]),
    "outer": (2, [([0], False), ([1], False), ([0, 1], True)]),
    "elementwise": (1, [([0], False), ([0], False), ([0], True)]),
    "reduce2": (3, [([0, 1, 2], False), ([0], True)]),
    "reduce1": (2, [([0, 1], False), ([0], True)]),
    "broadcast": (2, [([0], False), ([0, 1], True)]),
    "batched": (3, [([0, 1], False), ([0, 2], False), ([0, 1, 2], True)]),
    "three_in": (3, [([0], False), ([1], False), ([2], False), ([0, 1, 2], True)]),
    "dot": (1, [([0], False), ([0], False), ([], True)]),
    "full3": (3, [([0, 1, 2], False), ([2, 1], False), ([0, 1, 2], True)]),
}

DIVS = {n: [d for d in range(1, n + 1) if n % d == 0] for n in range(1, 65)}
BOUNDS = [1, 2, 3, 4, 6, 8, 12]


def gen_workload(rng, small=False, einsum=None):
    name = einsum or rng.choice(list(EINSUMS))
    nrv, tens = EINSUMS[name]
    pool = [1, 2, 3, 4] if small else BOUNDS
    bounds = [rng.choice(pool) for _ in range(nrv)]
    # keep the number of compute events moderate for the reference execution
    while math.prod(bounds) > (64 if small else 600):
        i = rng.randrange(nrv)
        bounds[i] = rng.choice([b for b in pool if b <= bounds[i]])
    tensors = [{"rvs": list(rvs), "out": out, "bpv": rng.choice([1, 4, 8, 8, 16])} for rvs, out in tens]
    ninst = rng.choice([1, 1, 1, 2, 3])
    return name, {"bounds": bounds, "tensors": tensors, "ninst": ninst}


def gen_action(rng, ntens, exact, allow_over=True):
    a = {"e": rng.choice([0, 1, 2, 3, 5, 7, [1, 2], [5, 4]]), "thr": rng.choice([1, 2, 4, 8, [1, 2]] if exact else [1, 2, 3, 5, 8, [2, 3]])}
    a["bpa"] = rng.choice([None, None, 1, 2, 8, 16, 32, 64] + ([] if exact else [3, 12]))
    a["vpa"] = []
    if allow_over and rng.random() < 0.3:
        for t in rng.sample(range(ntens), rng.randint(1, ntens)):
            a["vpa"].append([t, rng.choice([1, 2, 4, [1, 2]] + ([] if exact else [3, [3, 2]]))])
        a["vpa"].sort()
    return a


def gen_level(rng, ntens, toll, exact):
    lv = {
        "toll": toll,
        "size": rng.choice([1 << 20, 1 << 30]),
        "leak": rng.choice([0, 0, 1, 3, [1, 2]]),
        "ascale": rng.choice([1, 1, 1, 2, [1, 2]] + ([] if exact else [3])),
        "skip": rng.random() < 0.6,
        "bpv": [],
        "bpa": rng.choice([None, None, 1, 4, 8, 16, 64] + ([] if exact else [3, 24])),
        "vpa": [],
        "dir": [],
    }
    if rng.random() < 0.4:
        for t in rng.sample(range(ntens), rng.randint(1, ntens)):
            lv["bpv"].append([t, rng.choice([1, 2, 4, 8, 16] + ([] if exact else [3, 12]))])
        lv["bpv"].sort()
    if rng.random() < 0.3:
        for t in rng.sample(range(ntens), rng.randint(1, ntens)):
            lv["vpa"].append([t, rng.choice([1, 2, 8, [1, 4]] + ([] if exact else [3, [5, 2]]))])
        lv["vpa"].sort()
    lv["read"] = gen_action(rng, ntens, exact)
    lv["write"] = gen_action(rng, ntens, exact)
    if toll:
        mode = rng.choice(["all_up", "all_down", "all_both", "mixed", "mixed"])
        for t in range(ntens):
            d = {"all_up": "up", "all_down": "down", "all_both": "up_and_down"}.get(mode) or rng.choice(["up", "down", "up_and_down"])
            lv["dir"].append([t, d])
        lv["write"] = {"e": 0, "thr": 1, "bpa": None, "vpa": []}
    return lv


def gen_arch(rng, ntens, exact, n_levels=None, toll_prob=0.25):
    n = n_levels or rng.choice([2, 2, 3, 3, 4])
    levels = [gen_level(rng, ntens, False, exact)]
    for i in range(1, n):
        levels.append(gen_level(rng, ntens, rng.random() < toll_prob, exact))
    comp = {
        "e": rng.choice([0, 1, 2, [1, 2]]),
        "thr": rng.choice([1, 2, 4, [1, 4]] if exact else [1, 3, 5, [1, 3]]),
        "leak": rng.choice([0, 1, [1, 2]]),
        "ascale": rng.choice([1, 1, 2]),
        "skip": rng.random() < 0.6,
    }
    return {"levels": levels, "compute": comp}


def factor_chain(rng, bound, max_loops=2):
    """List of tile shapes (outer→inner) of the loops over one rank variable, ending in 1."""
    if bound == 1:
        r = rng.random()
        return [] if r < 0.7 else [1]
    k = rng.choice([1, 2, 2, 3]) if max_loops >= 3 else rng.choice([1, 2, 2])
    k = min(k, max_loops)
    tiles = []
    cur = bound
    for i in range(k - 1):
        # any divisor (including cur itself → a loop with one iteration, and 1)
        d = rng.choice(DIVS[cur])
        tiles.append(d)
        cur = d
    tiles.append(1)
    return tiles


def gen_mapping(rng, wl, arch, style=None):
    """A random single-Einsum mapping: per tensor a chain of holders (level 0 first), per rank variable a chain of
    loops, randomly interleaved; holder order per tensor may be non-hierarchical; holders may be back to back or
    below loops."""
    ntens = len(wl["tensors"])
    nlv = len(arch["levels"])
    style = style or rng.choice(["free", "free", "free", "hier", "top_backing", "deep"])
    chains = []
    for t in range(ntens):
        others = [l for l in range(1, nlv) if rng.random() < (0.75 if style != "deep" else 0.95)]
        if style == "free" and rng.random() < 0.25:
            rng.shuffle(others)
        chains.append([("H", l, t) for l in [0] + others])
    loops = []
    for rv, b in enumerate(wl["bounds"]):
        loops.append([("L", rv, s) for s in factor_chain(rng, b, 3 if style == "deep" else 2)])
    # interleave
    seqs = [c for c in chains + loops if c]
    out = []
    if style in ("hier", "top_backing"):
        # backing holders first
        for c in chains:
            out.append(c.pop(0))
        seqs = [c for c in chains + loops if c]
    idx = [0] * len(seqs)
    remaining = sum(len(s) for s in seqs)
    while remaining:
        weights = [len(s) - i for s, i in zip(seqs, idx)]
        k = rng.choices(range(len(seqs)), weights=weights)[0]
        out.append(seqs[k][idx[k]])
        idx[k] += 1
        remaining -= 1
    if style == "hier":
        # stable-sort holders into hierarchy order between loops is not attempted; keep as is
        pass
    # merge adjacent holders of the same level into one node (sometimes)
    nodes = []
    for item in out:
        if item[0] == "L":
            nodes.append(["L", item[1], item[2]])
        else:
            _, l, t = item
            kind = "T" if arch["levels"][l]["toll"] else "S"
            if nodes and nodes[-1][0] == kind and nodes[-1][1] == l and t not in nodes[-1][2] and rng.random() < 0.6:
                nodes[-1][2].append(t)
            else:
                nodes.append([kind, l, [t], True])
    nodes.append(["C"])
    return nodes


def gen_case(rng, exact=None, small=False, einsum=None, toll_prob=0.25, n_levels=None, style=None):
    if exact is None:
        exact = rng.random() < 0.8
    name, wl = gen_workload(rng, small=small, einsum=einsum)
    arch = gen_arch(rng, len(wl["tensors"]), exact, n_levels=n_levels, toll_prob=toll_prob)
    mp = gen_mapping(rng, wl, arch, style=style)
    return {"einsum": name, "arch": arch, "workload": wl, "mapping": mp}


def driver_req(case, op="eval"):
    return {"op": op, "arch": case["arch"], "workload": case["workload"], "mapping": case["mapping"]}


def case_features(case):
    """Structural features (for coverage accounting)."""
    mp, arch, wl = case["mapping"], case["arch"], case["workload"]
    feats = set()
    seen_loop = False
    seen_t = set()
    prev = None
    for n in mp:
        if n[0] == "L":
            seen_loop = True
        elif n[0] in ("S", "T"):
            if seen_loop:
                feats.add("holder-below-loop")
            if prev is not None and prev[0] in ("S", "T"):
                feats.add("back-to-back-holders")
            if n[0] == "T":
                feats.add("toll")
                for t in n[2]:
                    d = dict(map(tuple, arch["levels"][n[1]]["dir"])).get(t, "up_and_down")
                    feats.add("toll-" + d)
            if len(n[2]) > 1:
                feats.add("multi-tensor-holder")
            for t in n[2]:
                if t in seen_t:
                    feats.add("non-backing-holder")
                    if wl["tensors"][t]["out"]:
                        feats.add("output-refetch")
                seen_t.add(t)
        prev = n
    # non-hierarchical holder order
    for t in range(len(wl["tensors"])):
        lv = [n[1] for n in mp if n[0] in ("S", "T") and t in n[2]]
        if lv != sorted(lv):
            feats.add("non-hierarchical-order")
    if any(not lv["skip"] for lv in arch["levels"] if not lv["toll"]):
        feats.add("skip-off")
    if not arch["compute"]["skip"]:
        feats.add("compute-skip-off")
    if any(lv["bpv"] for lv in arch["levels"]):
        feats.add("bpv-override")
    if any(lv["vpa"] or lv["read"]["vpa"] or lv["write"]["vpa"] for lv in arch["levels"]):
        feats.add("values-per-action")
    if any(lv["bpa"] is not None or lv["read"]["bpa"] is not None for lv in arch["levels"]):
        feats.add("bits-per-action")
    if q2frac(wl["ninst"]) != 1:
        feats.add("n-instances")
    return sorted(feats)
