"""Run one mapper configuration in a fresh interpreter and print the result rows as one JSON line.

usage: python -m harness.mapper_worker '<json config>'
config: {"params":…, "metrics":[…], "knobs":{…}, "n_jobs":int, "schedule_seed":int|null, "fake_parallel":bool,
         "cache_dir":str|null, "eval_in_detail":bool}

`schedule_seed` + `fake_parallel`: joblib.Parallel inside accelforge.util.parallel is replaced by a scheduler that runs the
submitted jobs and hands back results of `generator_unordered` calls in a seeded permuted completion order (and, for other
modes, in job order as joblib guarantees).  Without fake_parallel the real joblib is used with n_jobs workers.
"""
from __future__ import annotations

import importlib
import json
import os
import random
import sys
import tempfile


class FakeParallel:
    rng = None

    def __init__(self, n_jobs=None, return_as="list", **kw):
        self.return_as = return_as

    def __call__(self, jobs):
        jobs = list(jobs)
        order = list(range(len(jobs)))
        if self.return_as == "generator_unordered":
            FakeParallel.rng.shuffle(order)  # execution AND completion order permuted
        results = {}
        for i in order:
            f, a, k = jobs[i]
            results[i] = f(*a, **k)
        if self.return_as == "generator_unordered":
            return iter([results[i] for i in order])
        out = [results[i] for i in range(len(jobs))]
        return out if self.return_as == "list" else iter(out)


def main():
    cfg = json.loads(sys.argv[1])
    os.environ.setdefault("ACCELFORGE_VERIF", "1")
    scratch = tempfile.mkdtemp(prefix="mw-", dir=cfg.get("scratch") or os.getcwd())
    os.chdir(scratch)
    from harness import mapperlib as ML

    ML.init(cfg.get("n_jobs", 1))
    if cfg.get("fake_parallel"):
        P = importlib.import_module("accelforge.util.parallel")
        FakeParallel.rng = random.Random(cfg.get("schedule_seed") or 0)
        P.Parallel = FakeParallel
    r = ML.run_mapper(cfg["params"], cfg["metrics"], knobs=cfg.get("knobs"), eval_in_detail=cfg.get("eval_in_detail", False),
                      cache_dir=cfg.get("cache_dir"))
    out = ML.strip(r)
    out.pop("columns", None)
    sys.stdout.write("\n@@RESULT@@" + json.dumps(out) + "\n")
    sys.stdout.flush()
    os.chdir("/")
    import shutil

    shutil.rmtree(scratch, ignore_errors=True)


if __name__ == "__main__":
    main()
