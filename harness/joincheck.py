"""Common driver of the C13 / C14 checks: plan jobs → worker pool (harness.joinlib.run_job) → verdicts → ctx."""
from __future__ import annotations

import json
import os
import random
import time
from pathlib import Path

from harness import joinlib as JL
from harness.core import CORPUS_DIR, VERIF, Ctx, HarnessError

ANCHORS = [
    "accelforge.mapper.FFM.main:join_pmappings",
    "accelforge.mapper.FFM.main:make_pmappings",
    "accelforge.mapper.FFM._join_pmappings.join_pmappings:clean_compress_and_join_pmappings",
    "accelforge.mapper.FFM._join_pmappings.join_pmappings:multi_strategy_join",
    "accelforge.mapper.FFM._join_pmappings.join_pmappings:join_strategy_2",
    "accelforge.mapper.FFM._join_pmappings.join_pmappings:prune_with_tolerance",
    "accelforge.mapper.FFM._join_pmappings.join_pmappings:join_pmappings",
    "accelforge.mapper.FFM._join_pmappings.join_pmappings:OptimalityThresholder",
    "accelforge.mapper.FFM._join_pmappings.join_pmappings:get_memories_to_track",
    "accelforge.mapper.FFM._join_pmappings.pmapping_group:PmappingGroup.merge_next",
    "accelforge.mapper.FFM._join_pmappings.pmapping_group:PmappingGroup._group",
    "accelforge.mapper.FFM._join_pmappings.pmapping_group:PmappingGroup.combine_combineable",
    "accelforge.mapper.FFM._join_pmappings.compatibility:Compatibility.merge_next",
    "accelforge.mapper.FFM._join_pmappings.compatibility:Compatibility.make_equivalent_compatibilities",
    "accelforge.mapper.FFM._join_pmappings.pmapping_dataframe:PmappingDataframe.merge_next",
    "accelforge.mapper.FFM._join_pmappings.pmapping_dataframe:PmappingDataframe.limit_capacity",
    "accelforge.mapper.FFM._join_pmappings.pmapping_dataframe:PmappingDataframe.make_pareto",
    "accelforge.mapper.FFM._join_pmappings.pmapping_dataframe:PmappingDataframe.free_to_loop_index",
    "accelforge.mapper.FFM._join_pmappings.compress_pmappings:compress_einsum2pmappings",
    "accelforge.mapper.FFM._join_pmappings.compress_pmappings:decompress_pmappings",
]

TRUSTED = [
    "singleton joins: whether ONE row per Einsum combines (compatibility, tile-shape agreement, capacity) and the combined "
    "reservation columns are taken from the real code run on one-row tables (clean_compress_and_join_pmappings(for_model=True), "
    "RESOURCE_USAGE on); they are not independently modelled",
    "harness/joinlib.py (tuple oracle enumeration, column alignment, exact scaling of floats to integers; indep_pair: the independent "
    "pairwise compatibility predicate, which reads the Compatibility objects' data — backing memory, loops above it, reservation "
    "stops — produced by Compatibility.from_mapping at make_pmappings time)",
    "AFV/Driver/C13.lean: `front` = AFV.Front.frontFast (proved equal to the all-pairs definition AFV.Front.front in Lemmas/Front.lean); "
    "`check` = tolerance-aware set comparison on exact integers (unachievable / missing / dominated), not itself the subject of a theorem",
]


def _float32_sum_tie(f: dict, v2: dict) -> bool:
    """True when every reported dominated row ties, in float32 row sum over the compared columns, with the row dominating it:
    the mechanism of the known fast_pareto_mask defect (C11 `sum-key-not-strict`: the sum-sorted filter processes the dominated
    row first and never evicts it)."""
    import numpy as np

    rows, vecs = f["join_result"]["rows"], [x["vec"] for x in f["combinations"]]
    if not v2.get("idx"):
        return False
    for j, k in v2["idx"]:
        g, u = rows[j], vecs[k]
        cols = [c for c in g if c in u and (JL.is_obj(c) or c in v2.get("res_cols", []))]
        if "ENERGY_DELAY_PRODUCT" in f["metrics"] or len(cols) < 3:
            return False
        sg = np.array([g[c] for c in cols], dtype=np.float32).sum(dtype=np.float32)
        su = np.array([u[c] for c in cols], dtype=np.float32).sum(dtype=np.float32)
        if sg != su:
            return False
    return True


def _key(f: dict) -> str:
    """Classifier of a minimised failing case."""
    v = f["verdict"]
    k = f["kind"]
    if f.get("float32_sum_tie"):
        return "dominated-row-returned:float32-row-sum-tie"
    if f["side"].startswith("exact"):
        k += ":exact-join"
    else:
        ex = f.get("exact_ok")
        k += ":acceleration-only" if ex else ":exact-join-too" if ex is False else ""
    if v.get("got_has_reservation_cols") and "RESOURCE_USAGE" not in f["metrics"]:
        k += "+reservation-column-retained"
    if "ENERGY_DELAY_PRODUCT" in f["metrics"]:
        k += "+edp"
    return k


def run_check(ctx: Ctx, plan):
    """plan(rng, thorough) → list of jobs (see joinlib.run_job)."""
    pid = ctx.pid
    ctx.lean_gate()
    ctx.anchors(ANCHORS)
    ctx.cov["tolerance"] = f"{JL.PPM} ppm relative (float32 accumulation order in the joiner); integers exact (scale 2^40)"
    ctx.cov["trusted_base"] += TRUSTED
    ctx.assumptions += [
        "the abstract search theorems (AFV/Props/%s.lean) are tied to the code through the tuple-oracle correspondence only" % pid,
        "compatibility decisions and reservation combination of a single combination come from the real code (singleton joins)",
        "a joinable combination has a joinable prefix (used to skip extensions of rejected prefixes; a sample of rejected "
        "prefixes is re-checked with every continuation on each run)",
        "make_pmappings is deterministic for a fixed spec (row ids in replays refer to regenerated tables; the row contents are "
        "stored alongside)",
    ]
    jobs = []
    # corpus / explicit replay first
    corpus = []
    if ctx.replay:
        rp = Path(ctx.replay)
        if not rp.is_absolute() and not rp.exists():
            rp = VERIF / rp  # ./check changes into the tree's root before anything else
        corpus = [rp]
    else:
        d = CORPUS_DIR / pid
        if d.exists():
            corpus = sorted(d.glob("*.json"))
    for f in corpus:
        body = json.loads(f.read_text())
        job = body.get("replay", body).get("job") or body.get("job")
        if job is None:
            raise HarnessError(f"{f}: no job to replay")
        job = dict(job)
        job["origin"] = f"corpus:{f.name}"
        jobs.append(job)
    n_corpus = len(jobs)
    if not ctx.replay:
        jobs += plan(ctx.rng, ctx.thorough)
    # time limits (seconds since the pool started): no new spec after `dispatch`; running specs are abandoned at `hard`, or at
    # `extended` while fewer than MIN_DONE specs have completed (the machine is shared; a mapper call can be 10x slower than idle)
    if ctx.thorough:
        dispatch, hard, extended, workers = 19 * 60, 25 * 60, 29 * 60, 8
    else:
        dispatch, hard, extended, workers = 95, 155, 250, 8
    dispatch = float(os.environ.get("AFV_JOIN_DISPATCH_S", dispatch))
    hard = float(os.environ.get("AFV_JOIN_HARD_S", hard))
    extended = max(hard, float(os.environ.get("AFV_JOIN_EXTENDED_S", extended)))
    workers = int(os.environ.get("AFV_JOIN_WORKERS", workers))
    MIN_DONE = min(4, len(jobs))
    t0 = time.time()
    results = JL.pool_run(JL.run_job, jobs, workers, dispatch, hard, min_done=MIN_DONE, extended_deadline_s=extended, must_finish=n_corpus)
    done = [(j, r) for j, r in zip(jobs, results) if r is not None]
    ctx.cov["jobs_planned"] = len(jobs)
    ctx.cov["jobs_completed"] = len(done)
    ctx.cov["pool_wall_s"] = round(time.time() - t0, 1)
    ctx.cov["jobs_cpu_s"] = [r.get("cpu_s") for _, r in done]
    ctx.cov["jobs_wall_s"] = [r.get("wall_s") for _, r in done]
    ctx.cov["corpus_not_completed"] = [jobs[i].get("origin") for i in range(n_corpus) if results[i] is None]
    if (ctx.replay and not done) or len(done) < MIN_DONE:
        raise HarnessError(f"only {len(done)} of {len(jobs)} join jobs completed within the time limit (machine overloaded?)")
    drv = ctx.driver()
    n_capacity = 0
    reported: dict = {}
    MAX_PER_KEY = 3  # further failing cases with the same classifier are only counted (evidence: failing_cases_by_key)

    def fail(key, what, payload):
        reported[key] = reported.get(key, 0) + 1
        if reported[key] <= MAX_PER_KEY:
            ctx.fail(key, what, payload)

    for job, r in done:
        p = job["params"]
        wl = p["workload"]
        stream = f"{wl['kind']}-{wl['N_EINSUMS']}e-L{p['levels']}-" + "+".join(m[:3] for m in job["table_metrics"])
        if r["make_error"]:
            ctx.case({"params": p, "make_error": r["make_error"]}, nontrivial=False, branches=["make-pmappings-error"])
            if job.get("origin") and ctx.replay:
                raise HarnessError(f"{job['origin']}: {r['make_error']}")
            if job.get("origin"):  # a corpus case whose rows no longer exist in the regenerated tables is skipped, not failed
                ctx.cov.setdefault("corpus_skipped", []).append({"origin": job["origin"], "why": r["make_error"]})
            continue
        ctx.dist(stream if not job.get("origin") else "corpus")
        for bad in r["additivity_errors"]:
            col = bad["column"].split(JL.SEP)[-1]
            fail(f"objective-not-sum-of-rows:{col}", "a joined combination's objective column is not the sum of its rows' columns",
                     {"job": {**{k: job[k] for k in ("params", "table_metrics")}, "fixed_rows": _rows_of(bad["choice"]),
                              "seed": job["seed"], "max_rows": 0, "cases": []}, "detail": bad})
        for dis in r.get("compat_disagreements", []):
            what = {"compatible-pair-rejected": "two rows that agree on storage, loops (modulo block permutation) and tile shapes of every shared tensor are rejected as incompatible",
                    "incompatible-pair-joined": "two rows that disagree on storage or loops of a shared tensor are joined",
                    "tile-mismatched-pair-joined": "two rows whose shared loops have different tile shapes are joined"}[dis["kind"]]
            fail(dis["kind"], what + f" [order {'>'.join(dis['order'])}]",
                     {"job": {"params": p, "table_metrics": job["table_metrics"], "seed": job["seed"], "max_rows": 0,
                              "fixed_rows": {e: [x["id"] for x in rows] for e, rows in dis["rows"].items()},
                              "fixed_rows_content": dis["rows"],
                              "cases": [{"metrics": sorted(job["table_metrics"]), "order": dis["order"], "sub": "all"}]},
                      "failing_input": dis["rows"], "code_decision": dis["code"], "independent_predicate": dis["independent"],
                      "pair": dis.get("pair")})
        for o, st in r["oracle"].items():
            for why, n in st.get("independent_predicate", {}).items():
                ctx.cov["model_branches_hit"]["independent-predicate:" + why] = ctx.cov["model_branches_hit"].get("independent-predicate:" + why, 0) + n
            for why, n in st["reasons"].items():
                ctx.cov["model_branches_hit"]["combination:" + why] = ctx.cov["model_branches_hit"].get("combination:" + why, 0) + n
        for c in r["cases"]:
            v = c["verdict"]
            reasons = r["oracle"]["|".join(c["order"])]["reasons"]
            rejected = sum(n for k, n in reasons.items() if k != "ok")
            nontrivial = c["n_all"] >= 2 and ((v.get("front_size") or 0) < c["n_all"] or rejected > 0)
            br = list(c["branches"]) + [f"order-{'workload' if c['order'] == list(r['n_rows']) else 'permuted'}",
                                         "join-raises" if c["error"] else "join-returns"]
            ctx.case({"params": p, "table_metrics": job["table_metrics"], "case": c["case"], "order": c["order"], "rows": c["n_rows"],
                      "seed": job["seed"], "n_combinations": c["n_all"], "front": v.get("front_size")}, nontrivial=nontrivial, branches=br)
            f = c.get("failing")
            if not f:
                continue
            # re-judge the minimised case in this process (the Lean driver is the judge)
            vecs = [x["vec"] for x in f["combinations"]]
            side_result = f["join_result"]
            v2 = JL.judge(vecs, side_result, f["metrics"], drv)
            if v2["ok"]:
                raise HarnessError(f"worker reported a failing case that the driver accepts: {json.dumps(f)[:600]}")
            f["float32_sum_tie"] = f["kind"] == "dominated-row-returned" and _float32_sum_tie(f, v2)
            if f.get("exact_join_result") is not None:
                f["exact_ok"] = JL.judge(vecs, f["exact_join_result"], f["metrics"], drv)["ok"]
            replay_job = {"params": p, "table_metrics": job["table_metrics"], "seed": job["seed"], "max_rows": 0,
                          "fixed_rows": {e: [x["id"] for x in rows] for e, rows in f["rows"].items()},
                          "fixed_rows_content": f["rows"],
                          "cases": [{"metrics": f["metrics"], "order": f["order"], "sub": "all", "exact": True,
                                     "combine_reservations": c["case"].get("combine_reservations", True)}]}
            what = {
                "join-raises-but-combinations-exist": "the join raises although compatible within-capacity combinations exist",
                "join-returns-nothing-but-combinations-exist": "the join returns no row although combinations exist",
                "returned-row-is-no-combination": "the join returns a row that is not the value of any combination of one row per Einsum",
                "front-point-missing": "a Pareto-optimal combination is missing from the join result",
                "dominated-row-returned": "the join returns a row dominated by another combination",
                "columns-differ": "the join reports different columns than requested",
            }.get(f["kind"], f["kind"])
            fail(_key(f), f"{what} [{f['side']}; order {'>'.join(f['order'])}; metrics {'+'.join(f['metrics'])}]",
                     {"job": replay_job, "failing_input": f["rows"], "combinations": f["combinations"], "join_result": side_result,
                      "exact_join_result": f.get("exact_join_result"), "verdict": f["verdict"], "origin": job.get("origin"),
                      "rows_before_shrink": f.get("n_rows_before_shrink")})
        n_capacity += sum(st["reasons"].get("empty-merge", 0) for st in r["oracle"].values())
    ctx.cov["combinations_rejected_by_capacity_or_tile_shape"] = n_capacity
    ctx.cov["failing_cases_by_key"] = reported


def _rows_of(choice):
    out = {}
    for e, gi, ri in choice:
        out.setdefault(e, []).append([e, gi, ri])
    return out
