"""Translator: sympy / symengine / plain Python numbers  →  `AFV.LExpr` (DESIGN §2.3).

Shared by every property whose tie is "run the live code on symbols, export the formulas, let the
Lean kernel compare them with the proved model" (C30, C05, C06, C07, C31, cost side of C01–C04 …).

    tree  = to_tree(expr, symbols)         symbols: list of names; `sym i` is symbols[i]
    to_lean(tree)                          Lean source text of the LExpr term
    to_json(tree)                          JSON for the native driver (AFV/Driver/LExprJson.lean)
    eval_tree(tree, point)                 exact reference evaluator (mirrors LExpr.eval)
    self_test(ask, expr, symbols, rng)     round trip on random rational points, EVERY run:
                                           driver eval of the exported term == sympy's own exact value
    lean_file(...) / obligation(...)       generated-file helpers

Tree forms (plain tuples, hashable):
    ("n", Fraction) | ("s", i) | ("+", (t, …)) | ("*", (t, …)) | ("^", t, int)
    | ("max", (t, …)) | ("min", (t, …)) | ("ceil", t)

Floats are converted EXACTLY (a double is a dyadic rational).  Anything that is not a Laurent
polynomial with max/min/ceil atoms (Piecewise, Heaviside, symbolic or fractional exponents, oo, nan,
unknown functions) raises `Untranslatable`; callers record it in `cov["untranslatable_formulas"]`
and fall back to grid evaluation.
"""
from __future__ import annotations

import math
from fractions import Fraction

import sympy


class Untranslatable(Exception):
    pass


# ----------------------------------------------------------------------------- numbers
def frac_of_number(x) -> Fraction:
    """Exact value of a Python / sympy / symengine / numpy real number."""
    if isinstance(x, bool):
        raise Untranslatable(f"boolean {x!r}")
    if isinstance(x, int):
        return Fraction(x)
    if isinstance(x, Fraction):
        return x
    if isinstance(x, float):
        if math.isnan(x) or math.isinf(x):
            raise Untranslatable(f"non-finite float {x!r}")
        return Fraction(x)
    if isinstance(x, sympy.Basic):
        if isinstance(x, sympy.Integer):
            return Fraction(int(x))
        if isinstance(x, sympy.Rational):
            return Fraction(int(x.p), int(x.q))
        if isinstance(x, sympy.Float):
            sign, man, exp, _bc = x._mpf_
            if not isinstance(exp, int):  # mpmath encodes inf/nan with a non-int exponent
                raise Untranslatable(f"non-finite Float {x!r}")
            val = Fraction(int(man)) * (Fraction(2) ** int(exp))
            return -val if sign else val
        raise Untranslatable(f"not a rational number: {x!r}")
    # numpy scalars, symengine numbers, decimal …
    try:
        import numpy as np

        if isinstance(x, np.integer):
            return Fraction(int(x))
        if isinstance(x, np.floating):
            return frac_of_number(float(x))
    except ImportError:
        pass
    try:
        return frac_of_number(sympy.sympify(x))
    except (sympy.SympifyError, TypeError) as e:
        raise Untranslatable(f"cannot read number {x!r}: {e}")


def num(q) -> tuple:
    return ("n", Fraction(q))


# ----------------------------------------------------------------------------- sympy → tree
def to_sympy(expr):
    """sympify anything the model returns (symengine objects, Python numbers, sympy)."""
    if isinstance(expr, sympy.Basic):
        return expr
    if isinstance(expr, Fraction):
        return sympy.Rational(expr.numerator, expr.denominator)
    return sympy.sympify(expr)


def to_tree(expr, symbols: list[str]) -> tuple:
    """Translate; `symbols[i]` is the NAME of symbol i (symbols are identified by name, so that
    sympy symbols with different assumptions and symengine symbols of the same name coincide)."""
    index = {name: i for i, name in enumerate(symbols)}
    if len(index) != len(symbols):
        raise ValueError("duplicate symbol name")

    def go(e) -> tuple:
        if isinstance(e, (int, float, Fraction)) and not isinstance(e, bool):
            return num(frac_of_number(e))
        if not isinstance(e, sympy.Basic):
            e = to_sympy(e)
        if e.is_Symbol:
            if e.name not in index:
                raise Untranslatable(f"symbol {e.name!r} is not in the template's symbol table")
            return ("s", index[e.name])
        if e.is_Number:
            if e in (sympy.oo, -sympy.oo, sympy.nan, sympy.zoo):
                raise Untranslatable(f"non-finite number {e!r}")
            return num(frac_of_number(e))
        if e.is_Add:
            return ("+", tuple(go(a) for a in e.args))
        if e.is_Mul:
            return ("*", tuple(go(a) for a in e.args))
        if e.is_Pow:
            b, x = e.args
            if x.is_Number:
                try:
                    k = frac_of_number(x)
                except Untranslatable:
                    k = None
                if k is not None and k.denominator == 1:
                    return ("^", go(b), int(k))
            raise Untranslatable(f"exponent {x!r} is not an integer constant")
        if isinstance(e, sympy.Max):
            return ("max", tuple(go(a) for a in e.args))
        if isinstance(e, sympy.Min):
            return ("min", tuple(go(a) for a in e.args))
        if isinstance(e, sympy.ceiling):
            return ("ceil", go(e.args[0]))
        if isinstance(e, sympy.floor):  # floor(x) = -ceil(-x)
            return ("*", (num(-1), ("ceil", ("*", (num(-1), go(e.args[0]))))))
        raise Untranslatable(f"unsupported node {type(e).__name__}: {e!r}")

    return go(expr)


def symbols_of(tree) -> set[int]:
    tag = tree[0]
    if tag == "n":
        return set()
    if tag == "s":
        return {tree[1]}
    if tag in ("+", "*", "max", "min"):
        out = set()
        for t in tree[1]:
            out |= symbols_of(t)
        return out
    return symbols_of(tree[1])


# ----------------------------------------------------------------------------- tree → Lean / JSON
def _lean_rat(q: Fraction) -> str:
    if q.denominator == 1:
        return f"({q.numerator} : Rat)"
    return f"(({q.numerator} : Rat) / {q.denominator})"


def to_lean(tree) -> str:
    tag = tree[0]
    if tag == "n":
        return f"(LExpr.num {_lean_rat(tree[1])})"
    if tag == "s":
        return f"(LExpr.sym {tree[1]})"
    if tag in ("+", "*", "max", "min"):
        ctor = {"+": "add", "*": "mul", "max": "max", "min": "min"}[tag]
        return f"(LExpr.{ctor} [" + ", ".join(to_lean(t) for t in tree[1]) + "])"
    if tag == "^":
        return f"(LExpr.pow {to_lean(tree[1])} ({tree[2]}))"
    if tag == "ceil":
        return f"(LExpr.ceil {to_lean(tree[1])})"
    raise ValueError(tag)


def to_json(tree):
    tag = tree[0]
    if tag == "n":
        return ["n", tree[1].numerator, tree[1].denominator]
    if tag == "s":
        return ["s", tree[1]]
    if tag in ("+", "*", "max", "min"):
        return [tag, [to_json(t) for t in tree[1]]]
    if tag == "^":
        return ["^", to_json(tree[1]), tree[2]]
    if tag == "ceil":
        return ["ceil", to_json(tree[1])]
    raise ValueError(tag)


def rat_json(q) -> list:
    q = Fraction(q)
    return [q.numerator, q.denominator]


def rat_of_json(j) -> Fraction:
    return Fraction(int(j[0]), int(j[1]))


# ----------------------------------------------------------------------------- reference evaluator
def eval_tree(tree, point: list) -> Fraction:
    """Mirror of `LExpr.eval` with `assign point` (symbols beyond the list are 1; 0⁻¹ = 0)."""
    tag = tree[0]
    if tag == "n":
        return tree[1]
    if tag == "s":
        return Fraction(point[tree[1]]) if tree[1] < len(point) else Fraction(1)
    if tag == "+":
        return sum((eval_tree(t, point) for t in tree[1]), Fraction(0))
    if tag == "*":
        r = Fraction(1)
        for t in tree[1]:
            r *= eval_tree(t, point)
        return r
    if tag == "^":
        b, k = eval_tree(tree[1], point), tree[2]
        if k >= 0:
            return b**k
        return Fraction(0) if b == 0 else Fraction(1) / (b ** (-k))
    if tag == "max":
        vals = [eval_tree(t, point) for t in tree[1]]
        return max(vals) if vals else Fraction(0)
    if tag == "min":
        vals = [eval_tree(t, point) for t in tree[1]]
        return min(vals) if vals else Fraction(0)
    if tag == "ceil":
        return Fraction(math.ceil(eval_tree(tree[1], point)))
    raise ValueError(tag)


# ----------------------------------------------------------------------------- round-trip self-test
def lexpr_ask(drv):
    """The generic LExpr operations of the native driver are hosted by the C30 handler
    (AFV/Driver/C30.lean):  {"op":"eval","expr":E,"point":[[p,q],…]} → [p,q]   and
    {"op":"equiv","a":E,"b":E} → bool (native run of the verified normaliser).  Any property may use them:
        ask = translate.lexpr_ask(ctx.driver()); translate.self_test(ask, expr, symbols, ctx.rng)"""
    return lambda req: drv.ask("C30", req)


def rationalize(expr):
    """The same sympy expression with every Float replaced by its exact Rational value."""
    expr = to_sympy(expr)
    rep = {}
    for f in expr.atoms(sympy.Float):
        q = frac_of_number(f)
        rep[f] = sympy.Rational(q.numerator, q.denominator)
    return expr.xreplace(rep) if rep else expr


def random_point(rng, k: int) -> list[Fraction]:
    """Positive rationals with small numerators/denominators (never 0)."""
    return [Fraction(rng.randint(1, 12), rng.choice([1, 1, 1, 2, 3, 4, 8])) for _ in range(k)]


def self_test(ask, expr, symbols: list[str], rng, n_points: int = 4, tree=None) -> int:
    """Round trip: the exported term, evaluated by the LEAN driver (`ask({"op":"eval",…})`), must equal
    sympy's own exact value of the expression at random positive rational points (and agree with
    floating-point evaluation of the original, un-rationalised expression).  Raises AssertionError
    with the offending point otherwise.  Returns the number of points checked."""
    sexpr = to_sympy(expr)
    tree = to_tree(sexpr, symbols) if tree is None else tree
    exact = rationalize(sexpr)
    by_name = {s.name: s for s in sexpr.free_symbols}
    jt = to_json(tree)
    for _ in range(n_points):
        pt = random_point(rng, len(symbols))
        sub = {by_name[name]: sympy.Rational(q.numerator, q.denominator) for name, q in zip(symbols, pt) if name in by_name}
        want = exact.xreplace(sub)
        if not want.is_Rational:
            want = exact.subs(sub)
        if not want.is_Rational:
            raise AssertionError(f"sympy did not reduce {exact} at {pt} to a rational: {want!r}")
        want_q = Fraction(int(want.p), int(want.q))
        got_lean = rat_of_json(ask({"op": "eval", "expr": jt, "point": [rat_json(q) for q in pt]}))
        got_py = eval_tree(tree, pt)
        if not (got_lean == got_py == want_q):
            raise AssertionError(
                f"translator round trip failed for {sexpr} at {dict(zip(symbols, pt))}: "
                f"lean={got_lean} python-tree={got_py} sympy={want_q}"
            )
        # independent of the Float→Rational conversion: plain floating-point evaluation
        fsub = {by_name[name]: float(q) for name, q in zip(symbols, pt) if name in by_name}
        fval = float(sympy.sympify(sexpr.xreplace(fsub)).evalf())
        if abs(fval - float(want_q)) > 1e-9 * max(1.0, abs(fval)):
            raise AssertionError(f"float evaluation {fval} vs exact {want_q} for {sexpr} at {pt}")
    return n_points


# ----------------------------------------------------------------------------- generated Lean files
def obligation(name: str, comment: str, gen_tree, ref_lean: str, field: str | None = None) -> str:
    """One kernel-checked obligation.

    `ref_lean` is a Lean term of type `LExpr` (then `field` is None), or of type `Option σ` with
    `field` the projection of σ holding the reference formula (σ.field : LExpr)."""
    gen = to_lean(gen_tree)
    doc = comment.replace("-/", "- /")
    if field is None:
        stmt = f"LExpr.equiv {name} ({ref_lean}) = true"
    else:
        stmt = f"({ref_lean}).map (fun p => LExpr.equiv {name} p.{field}) = some true"
    return f"/-- {doc} -/\ndef {name} : LExpr :=\n  {gen}\nexample : {stmt} := by decide +kernel\n"


def lean_file(pid: str, imports: list[str], opens: list[str], obligations: list[str], header: str = "") -> str:
    head = "\n".join(f"import {m}" for m in imports)
    doc = (
        f"/-!\nREGENERATED on every run of `./check {pid}` from the live code by the translator.\n"
        f"Never edit, never commit as truth.\n{header}\n-/"
    )
    ns = f"namespace AFV.Gen.{pid}\nopen {' '.join(opens)}\n"
    return head + "\n" + doc + "\n" + ns + "\n" + "\n".join(obligations) + f"\nend AFV.Gen.{pid}\n"
