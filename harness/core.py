"""Shared machinery for every property check.

A property module `harness/props/cXX.py` exposes `run(ctx)`.  It uses `ctx` to

  * build the Lean development and audit the property theorems     (ctx.lean_gate())
  * talk to the native model/spec driver                            (ctx.driver())
  * kernel-check generated obligations                              (ctx.check_generated())
  * record cases / coverage                                         (ctx.case(), ctx.cov)
  * report a failing input                                          (ctx.fail())
  * report a broken obligation / correspondence without failing input (ctx.broken())

and `ctx.finish()` writes the evidence, prints the verdict lines and exits.

Exit codes: 0 held, 1 VIOLATION, 2 harness error / timeout (never a VIOLATION line).
"""
from __future__ import annotations

import fcntl
import hashlib
import json
import os
import random
import re
import subprocess
import sys
import time
import traceback
from pathlib import Path

VERIF = Path(__file__).resolve().parent.parent
REPO = Path(os.environ.get("AFV_REPO", "/repo"))
LEAN_DIR = VERIF / "lean"
AFV_BIN = LEAN_DIR / ".lake" / "build" / "bin" / "afv"
EVIDENCE_DIR = VERIF / "evidence"
REPLAY_DIR = VERIF / "replays"
CORPUS_DIR = VERIF / "corpus"
KNOWN_FINDINGS = VERIF / "known_findings.jsonl"
SCRATCH = VERIF / ".scratch"
CACHE = VERIF / ".cache"

ALLOWED_AXIOMS = {"propext", "Classical.choice", "Quot.sound"}
FORBIDDEN = re.compile(
    r"\bsorry\b|\badmit\b|^\s*axiom\s|native_decide|bv_decide|implemented_by|\bunsafe\s|maxHeartbeats\s+0\b|\bextern\b"
)

TRUSTED_BASE_COMMON = [
    "Lean 4.33.0 kernel (leanchecker re-check in the thorough tier)",
    "axioms allowed: propext, Classical.choice, Quot.sound (audited per theorem on every run)",
    "harness/core.py + the property's harness module (decide which implementation function is compared with which model function)",
]


class HarnessError(Exception):
    """Something is wrong with the machinery itself (exit 2, never a violation)."""


def _strip_lean_comments(src: str) -> str:
    # remove nested block comments and line comments (good enough for token audit)
    out = []
    i, n, depth = 0, len(src), 0
    while i < n:
        if src.startswith("/-", i):
            depth += 1
            i += 2
            continue
        if depth and src.startswith("-/", i):
            depth -= 1
            i += 2
            continue
        if depth:
            if src[i] == "\n":
                out.append("\n")
            i += 1
            continue
        if src.startswith("--", i):
            j = src.find("\n", i)
            i = n if j < 0 else j
            continue
        out.append(src[i])
        i += 1
    return "".join(out)


def lean_env() -> dict:
    env = dict(os.environ)
    env.setdefault("LEAN_NUM_THREADS", "8")
    return env


class BuildLock:
    def __enter__(self):
        LEAN_DIR.mkdir(exist_ok=True)
        self.f = open(LEAN_DIR / ".afv-build.lock", "w")
        fcntl.flock(self.f, fcntl.LOCK_EX)
        return self

    def __exit__(self, *a):
        fcntl.flock(self.f, fcntl.LOCK_UN)
        self.f.close()


def lake_build(targets: list[str], timeout: int = 3000) -> tuple[bool, str]:
    """Build the given lake targets (module names or exe) under an exclusive lock."""
    with BuildLock():
        p = subprocess.run(
            ["lake", "build", *targets],
            cwd=LEAN_DIR,
            stdout=subprocess.PIPE,
            stderr=subprocess.STDOUT,
            text=True,
            timeout=timeout,
            env=lean_env(),
        )
    return p.returncode == 0, p.stdout


def lean_run_file(path: Path, timeout: int = 3000) -> tuple[bool, str]:
    """Elaborate + kernel-check a standalone Lean file in the project's environment."""
    p = subprocess.run(
        ["lake", "env", "lean", str(path)],
        cwd=LEAN_DIR,
        stdout=subprocess.PIPE,
        stderr=subprocess.STDOUT,
        text=True,
        timeout=timeout,
        env=lean_env(),
    )
    return p.returncode == 0, p.stdout


def module_files(module: str) -> Path:
    return LEAN_DIR / (module.replace(".", "/") + ".lean")


def transitive_local_imports(module: str) -> list[str]:
    """All AFV.* modules reachable from `module` (including itself)."""
    seen, stack = [], [module]
    while stack:
        m = stack.pop()
        if m in seen:
            continue
        f = module_files(m)
        if not f.exists():
            continue
        seen.append(m)
        for line in f.read_text().splitlines():
            mm = re.match(r"\s*(?:public\s+)?import\s+(AFV\.[\w.]+)", line)
            if mm:
                stack.append(mm.group(1))
    return seen


_THEOREM_RE = re.compile(r"^(?:@\[[^\]]*\]\s*)?(?:private\s+|protected\s+)?theorem\s+([^\s:({\[]+)", re.M)
_NS_RE = re.compile(r"^namespace\s+(\S+)", re.M)


def property_theorems(pid: str) -> list[str]:
    """Fully qualified names of the theorems in AFV/Props/<pid>.lean.

    Convention: the file has exactly one `namespace AFV.<pid>` … `end AFV.<pid>` and all
    property theorems are declared directly inside it."""
    f = LEAN_DIR / "AFV" / "Props" / f"{pid}.lean"
    if not f.exists():
        return []
    src = _strip_lean_comments(f.read_text())
    ns = _NS_RE.search(src)
    prefix = (ns.group(1) + ".") if ns else ""
    return [prefix + n for n in _THEOREM_RE.findall(src)]


class Driver:
    """Line-protocol client of the native Lean executable `afv`."""

    def __init__(self):
        if not AFV_BIN.exists():
            raise HarnessError(f"driver binary missing: {AFV_BIN}")
        self.p = subprocess.Popen(
            [str(AFV_BIN)], stdin=subprocess.PIPE, stdout=subprocess.PIPE, text=True, bufsize=1 << 20
        )
        self.n = 0

    def ask(self, pid: str, req) -> object:
        line = pid + " " + json.dumps(req, separators=(",", ":"))
        assert "\n" not in line
        self.p.stdin.write(line + "\n")
        self.p.stdin.flush()
        out = self.p.stdout.readline()
        if not out:
            raise HarnessError("driver died on request: " + line[:300])
        self.n += 1
        return json.loads(out)

    def ask_many(self, pid: str, reqs: list) -> list:
        """Pipeline many requests (much faster than ask() in a loop)."""
        if not reqs:
            return []
        res = []
        CH = 256
        for i in range(0, len(reqs), CH):
            chunk = reqs[i : i + CH]
            data = "".join(pid + " " + json.dumps(r, separators=(",", ":")) + "\n" for r in chunk)
            # write in a thread-less way: chunk is small enough for the pipe only if replies are read;
            # use a helper thread to avoid deadlock on large chunks.
            import threading

            t = threading.Thread(target=lambda d=data: (self.p.stdin.write(d), self.p.stdin.flush()))
            t.start()
            for _ in chunk:
                out = self.p.stdout.readline()
                if not out:
                    raise HarnessError("driver died in ask_many")
                res.append(json.loads(out))
            t.join()
        self.n += len(reqs)
        return res

    def close(self):
        try:
            self.p.stdin.close()
            self.p.wait(timeout=10)
        except Exception:
            self.p.kill()


def load_known_findings(pid: str) -> dict:
    """key -> entry, for entries of this property with status 'known'."""
    res = {}
    if KNOWN_FINDINGS.exists():
        for line in KNOWN_FINDINGS.read_text().splitlines():
            line = line.strip()
            if not line or line.startswith("#"):
                continue
            e = json.loads(line)
            if e.get("property") == pid and e.get("status") == "known":
                res[e["key"]] = e
    return res


def func_digest(dotted: str) -> str:
    """Digest of the ast-normalised source of `module:qualname` in /repo (for anchors)."""
    import ast

    mod, _, qual = dotted.partition(":")
    path = REPO / (mod.replace(".", "/") + ".py")
    if not path.exists():
        return "missing-file"
    tree = ast.parse(path.read_text())
    node = tree
    for part in qual.split(".") if qual else []:
        found = None
        for ch in ast.walk(node) if node is tree else ast.iter_child_nodes(node):
            if isinstance(ch, (ast.FunctionDef, ast.ClassDef, ast.AsyncFunctionDef)) and ch.name == part:
                found = ch
                break
        if found is None:
            return "missing-symbol"
        node = found
    return hashlib.sha256(ast.dump(node, include_attributes=False).encode()).hexdigest()[:16]


class Ctx:
    def __init__(self, pid: str, tier: str, seed: int, replay: str | None = None):
        self.pid = pid
        self.tier = tier
        self.seed = seed
        self.replay = replay
        self.rng = random.Random(seed * 1000003 + int(pid[1:]))
        self.t0 = time.time()
        self.cov: dict = {
            "obligations": 0,
            "discharged": 0,
            "checker_cmd": "",
            "trusted_base": list(TRUSTED_BASE_COMMON),
            "evaluations": 0,
            "distinct_nontrivial": 0,
            "rule": "",
            "samples": [],
            "theorems": [],
            "axioms": {},
            "generated_obligations": 0,
            "model_branches_hit": {},
            "input_distribution": {},
            "anchors_changed": [],
            "exhaustive": False,
        }
        self.assumptions: list[str] = []
        self._distinct: set = set()
        self._violations: list[tuple[str, str]] = []  # (replay path, suffix)
        self._known_hits: dict[str, int] = {}
        self._known = load_known_findings(pid)
        self._driver: Driver | None = None
        self._lean_ok = True
        self._lean_msgs: list[str] = []
        self.thorough = tier == "thorough"
        self._dev_skip = False

    # ------------------------------------------------------------------ lean
    def lean_gate(self, extra_modules: list[str] | None = None) -> bool:
        """BUILD + AUDIT for this property.  Returns True if everything is discharged.

        On failure nothing is reported yet: the caller continues with the correspondence /
        failing-input search and finally calls ctx.broken(...) if no failing input was found."""
        pid = self.pid
        mods = [f"AFV.Props.{pid}"] + list(extra_modules or [])
        if os.environ.get("AFV_DEV_SKIP_LEAN") == "1":  # development only: the run ends with exit 2
            self._dev_skip = True
            return True
        ok, out = lake_build(mods + ["afv"])
        self.cov["checker_cmd"] = (
            f"cd /verif/lean && lake build {' '.join(mods)} afv && lake env lean <generated #print axioms file>"
        )
        thms = property_theorems(pid)
        self.cov["theorems"] = thms
        self.cov["obligations"] += len(thms)
        if not ok:
            self._lean_ok = False
            self._lean_msgs.append("lake build failed:\n" + out[-3000:])
            return False
        if not thms:
            self._lean_ok = False
            self._lean_msgs.append(f"no theorems found in AFV/Props/{pid}.lean")
            return False
        # token audit over the property's transitive local sources
        bad = []
        for m in {x for mod in mods for x in transitive_local_imports(mod)}:
            src = _strip_lean_comments(module_files(m).read_text())
            for ln, line in enumerate(src.splitlines(), 1):
                if FORBIDDEN.search(line):
                    bad.append(f"{m}:{ln}: {line.strip()[:120]}")
        if bad:
            self._lean_ok = False
            self._lean_msgs.append("forbidden tokens:\n" + "\n".join(bad))
        # axiom audit
        SCRATCH.mkdir(exist_ok=True)
        af = SCRATCH / f"Audit_{pid}_{os.getpid()}.lean"
        af.write_text(
            "\n".join(f"import {m}" for m in mods) + "\n" + "\n".join(f"#print axioms {t}" for t in thms) + "\n"
        )
        try:
            ok2, out2 = lean_run_file(af)
        finally:
            af.unlink(missing_ok=True)
        if not ok2:
            self._lean_ok = False
            self._lean_msgs.append("axiom audit file failed:\n" + out2[-3000:])
            return False
        axioms = self._parse_axioms(out2)
        self.cov["axioms"] = axioms
        good = 0
        for t in thms:
            ax = axioms.get(t)
            if ax is None:
                self._lean_ok = False
                self._lean_msgs.append(f"no axiom report for {t}")
            elif set(ax) - ALLOWED_AXIOMS:
                self._lean_ok = False
                self._lean_msgs.append(f"{t} depends on disallowed axioms {sorted(set(ax) - ALLOWED_AXIOMS)}")
            else:
                good += 1
        self.cov["discharged"] += good
        used = sorted({a for v in axioms.values() for a in v})
        self.cov["trusted_base"].append("axioms actually used by this property's theorems: " + (", ".join(used) or "none"))
        if self.thorough and self._lean_ok:
            self._leanchecker(mods)
        return self._lean_ok

    @staticmethod
    def _parse_axioms(out: str) -> dict:
        res = {}
        for m in re.finditer(
            r"'([^']+)' depends on axioms: \[([^\]]*)\]|'([^']+)' does not depend on any axioms", out
        ):
            if m.group(1):
                res[m.group(1)] = [a.strip() for a in m.group(2).replace("\n", " ").split(",") if a.strip()]
            else:
                res[m.group(3)] = []
        return res

    def _leanchecker(self, mods: list[str]):
        try:
            p = subprocess.run(
                ["lake", "env", "leanchecker", *mods],
                cwd=LEAN_DIR,
                stdout=subprocess.PIPE,
                stderr=subprocess.STDOUT,
                text=True,
                timeout=1800,
                env=lean_env(),
            )
            self.cov["leanchecker"] = {"modules": mods, "exit": p.returncode, "tail": p.stdout[-300:]}
            if p.returncode != 0:
                self._lean_ok = False
                self._lean_msgs.append("leanchecker failed: " + p.stdout[-1500:])
        except subprocess.TimeoutExpired:
            self.cov["leanchecker"] = {"modules": mods, "exit": "timeout"}

    def check_generated(self, name: str, lean_source: str, n_obligations: int, timeout: int = 1800) -> tuple[bool, str]:
        """Write lean/Gen/<name>.lean (regenerated from the live code) and kernel-check it."""
        gen = LEAN_DIR / "Gen"
        gen.mkdir(exist_ok=True)
        f = gen / f"{name}.lean"
        f.write_text(lean_source)
        src = _strip_lean_comments(lean_source)
        if FORBIDDEN.search(src):
            raise HarnessError("generated file contains forbidden token")
        ok, out = lean_run_file(f, timeout=timeout)
        self.cov["obligations"] += n_obligations
        self.cov["generated_obligations"] += n_obligations
        if ok and "error" not in out:
            self.cov["discharged"] += n_obligations
            return True, out
        return False, out

    def driver(self) -> Driver:
        if self._driver is None:
            self._driver = Driver()
        return self._driver

    # ------------------------------------------------------------- coverage
    def case(self, canon, nontrivial: bool = True, branches: list[str] | None = None):
        """Count one explored case.  `canon` is any JSON-able canonical form of the input."""
        self.cov["evaluations"] += 1
        if nontrivial:
            h = hashlib.sha1(json.dumps(canon, sort_keys=True, default=str).encode()).digest()[:10]
            if h not in self._distinct:
                self._distinct.add(h)
        for b in branches or []:
            self.cov["model_branches_hit"][b] = self.cov["model_branches_hit"].get(b, 0) + 1
        if len(self.cov["samples"]) < 4 and nontrivial:
            self.cov["samples"].append(canon)

    def dist(self, key: str, n: int = 1):
        d = self.cov["input_distribution"]
        d[key] = d.get(key, 0) + n

    def anchors(self, dotted_names: list[str]):
        """Record digests of the anchored functions and which changed since last validation."""
        store = VERIF / "anchors.json"
        known = json.loads(store.read_text()) if store.exists() else {}
        cur = {d: func_digest(d) for d in dotted_names}
        self.cov["anchor_digests"] = cur
        self.cov["anchors_changed"] = sorted(d for d, h in cur.items() if known.get(d) not in (None, h))
        return cur

    # -------------------------------------------------------------- verdicts
    def fail(self, key: str, what: str, replay: dict):
        """A concrete input on which the PROPERTY fails on the real code.

        `key` is the classifier of the minimised failing case; when it is listed in
        known_findings.jsonl (status known) a KNOWN-FINDING line is printed instead."""
        if key in self._known:
            self._known_hits[key] = self._known_hits.get(key, 0) + 1
            return
        path = self._write_replay(key, what, replay)
        self._violations.append((path, ""))

    def broken(self, what: str, detail: dict | None = None):
        """A theorem, generated obligation or correspondence no longer checks and the search
        found no failing input."""
        path = self._write_replay("no-failing-input", what, detail or {})
        self._violations.append((path, " no-failing-input-found"))

    def _write_replay(self, key: str, what: str, payload: dict) -> str:
        d = REPLAY_DIR / self.pid
        d.mkdir(parents=True, exist_ok=True)
        body = {"property": self.pid, "key": key, "what": what, "seed": self.seed, "tier": self.tier, "replay": payload}
        h = hashlib.sha1(json.dumps(body, sort_keys=True, default=str).encode()).hexdigest()[:12]
        p = d / f"{key}-{h}.json"
        p.write_text(json.dumps(body, indent=1, default=str))
        return str(p)

    @property
    def lean_ok(self) -> bool:
        return self._lean_ok

    @property
    def lean_messages(self) -> list[str]:
        return self._lean_msgs

    def n_violations(self) -> int:
        return len(self._violations)

    def elapsed(self) -> float:
        return time.time() - self.t0

    def finish(self):
        if self._driver:
            self._driver.close()
        if not self._lean_ok and not self._violations:
            # proof side broken, no failing input found by the caller
            self.broken("Lean obligations of %s no longer check: %s" % (self.pid, " | ".join(m[:400] for m in self._lean_msgs)),
                        {"messages": self._lean_msgs})
        self.cov["distinct_nontrivial"] = len(self._distinct)
        for key, n in sorted(self._known_hits.items()):
            print(f"KNOWN-FINDING: property={self.pid} {self._known[key].get('what', key)} [key={key}, hits={n}]")
        self.cov["known_findings_hit"] = dict(self._known_hits)
        ev = {
            "property_id": self.pid,
            "tier": self.tier,
            "seed": self.seed,
            "level": "proof",
            "coverage": self.cov,
            "assumptions": self.assumptions,
            "wall_s": round(self.elapsed(), 2),
            "violations": len(self._violations),
        }
        # `exhaustive` must be a boolean in the evidence schema; keep any descriptive value under another key
        if not isinstance(self.cov.get("exhaustive"), bool):
            self.cov["exhaustive_detail"] = self.cov.get("exhaustive")
            self.cov["exhaustive"] = bool(self.cov.get("exhaustive"))
        # runs against a private copy of the repository (AFV_REPO, used for seeded changes) or replays must not
        # overwrite the evidence of the real tree
        edir = EVIDENCE_DIR if (str(REPO) == "/repo" and not self.replay) else (SCRATCH / "evidence-alt")
        edir.mkdir(parents=True, exist_ok=True)
        (edir / f"{self.pid}.json").write_text(json.dumps(ev, indent=1, default=str) + "\n")
        for path, suffix in self._violations:
            print(f"VIOLATION property={self.pid} replay={path}{suffix}")
        sys.stdout.flush()
        if self._dev_skip:
            print("DEV RUN (Lean gate skipped): not a verdict", file=sys.stderr)
            sys.exit(2)
        sys.exit(1 if self._violations else 0)


def setup_impl_env(pid: str):
    """Environment for running accelforge in-process: scratch cwd, caches, guard on."""
    os.environ.setdefault("ACCELFORGE_VERIF", "1")
    (CACHE / "numba").mkdir(parents=True, exist_ok=True)
    os.environ.setdefault("NUMBA_CACHE_DIR", str(CACHE / "numba"))
    d = SCRATCH / f"{pid}-{os.getpid()}"
    d.mkdir(parents=True, exist_ok=True)
    os.chdir(d)
    if str(REPO) not in sys.path:
        sys.path.insert(0, str(REPO))
    return d


def main(argv=None):
    import argparse
    import importlib
    import shutil

    ap = argparse.ArgumentParser()
    ap.add_argument("pid")
    ap.add_argument("--tier", default=os.environ.get("VERIF_TIER", "quick"), choices=["quick", "thorough"])
    ap.add_argument("--replay", default=None)
    a = ap.parse_args(argv)
    seed = int(os.environ.get("VERIF_SEED", "0") or 0)
    pid = a.pid.upper()
    ctx = Ctx(pid, a.tier, seed, a.replay)
    scratch = setup_impl_env(pid)
    try:
        mod = importlib.import_module(f"harness.props.{pid.lower()}")
        mod.run(ctx)
        ctx.finish()
    except SystemExit:
        raise
    except subprocess.TimeoutExpired as e:
        print(f"HARNESS-TIMEOUT property={pid}: {e}", file=sys.stderr)
        sys.exit(2)
    except Exception:
        traceback.print_exc()
        print(f"HARNESS-ERROR property={pid}", file=sys.stderr)
        sys.exit(2)
    finally:
        os.chdir("/")
        shutil.rmtree(scratch, ignore_errors=True)
